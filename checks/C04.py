"""C04 — a syntax error is reported at the first lexeme that cannot continue a sentence.

Proof (theories/LR/Prefix.v, Complete.v): for any dump passing validS/validC/
validE of a productive grammar and ALL inputs, a Reject at position k implies
firstn k is a prefix of a sentence (shifted_prefix_viable) and firstn (k+1)
(end of input = eof) is not (first_error_not_viable); the interpreter never
panics.  Tie: validators over the implementation's own dumps; interpreter vs
Parser::lr on the same tables; error count/value; first error with CPCT+ on.
Failing-input search: Earley viable-prefix oracle on every input.  The builder's
setter order (recoverer/term_costs) and the entry point (parse_map, parse_generictree,
parse_actions, parse_noaction) of the recovery-off parse vary per input (`# BO`).
"""
from vlib import core, lr, cfg
from gen import grammars as G
from checks import C01


def gen_cases(ctx, n_grammars, n_inputs):
    rng = ctx.rng
    cases = [(g, G.inputs_for(rng, g, n_inputs * 2)) for g in G.classic_corpus() if g.is_reduced()]
    for src, ins, _ in G.rare_shape_corpus():
        g = G.from_text(src)
        if g.is_reduced() and not g.derives_cycle():
            ctx.count("family_rare_shapes")
            cases.append((g, [list(x) for x in ins] + G.inputs_for(rng, g, n_inputs)))
    for src in G.gc_chain_corpus()[:ctx.n(15, 60)] + G.gc_corpus()[:ctx.n(40, 120)]:
        g = G.from_text(src)
        if g.is_reduced() and not g.derives_cycle():
            ctx.count("family_gc_corpus")
            cases.append((g, G.inputs_for(rng, g, n_inputs)))
    fams = [("reduced", lambda: G.reduced_random_grammar(rng)),
            ("nullable", lambda: G.nullable_heavy(rng)),
            ("exprnoprec", lambda: G.expr_grammar(rng, with_prec=False)),
            ("notlalr", lambda: G.not_lalr_template(rng)),
            ("layered", lambda: G.layered_grammar(rng).reduced()),
            ("chain", lambda: G.chain_grammar(rng).reduced()),
            ("notlalr3", lambda: G.not_lalr_multi(rng).reduced()),
            ("depthmerge", lambda: G.depth_merge_grammar(rng).reduced())]
    while len(cases) < n_grammars:
        name, f = rng.choices(fams, [6, 4, 1, 3, 6, 3, 3, 4])[0]
        g = f()
        if g is None or not g.is_reduced() or g.derives_cycle():
            continue
        ctx.count("family_" + name)
        # error-heavy inputs
        inputs = G.inputs_for(rng, g, n_inputs)
        cases.append((g, inputs))
    return cases


def run(ctx):
    ctx.gate = core.proof_gate("C04")
    for _ in ctx.gate["theorems"]:
        ctx.oblige(True)
    cases = gen_cases(ctx, ctx.n(350, 1500), ctx.n(30, 80))
    results = lr.run_cases(cases, rec=True)
    # keep the property's domain: conflict-free tables of productive grammars
    dom = []
    for r in results:
        if not r.ok:
            ctx.count("grammar_rejected_" + r.err.split()[0])
            continue
        g = cfg.DGram(r.secs)
        if r.conflicts is None and r.verdict.get("single", False) and g.all_productive():
            dom.append((r, g))
        else:
            ctx.count("outside_domain")
    C01.check_results(ctx, [r for r, _ in dom])
    for r, g in dom:
        if not r.verdict.get("E", False):
            ctx.violation({"what": "validE rejects the implementation's automaton (LR(0) justification of closure items / kernel items)",
                           "grammar": r.src, "validators": r.verdict, "detail": r.vdetail,
                           "theorem_no_longer_applicable": "shifted_prefix_viable"}, no_input=True)
            ctx.oblige(False)
        for toks, io, orr, bo in zip(r.inputs, r.impl_out, r.impl_out_rec, r.builder):
            sent, viable = g.earley(toks)
            if not sent and bo is not None:
                # how the recovery-off parser was configured / run is an input too (setter order, term_costs call, entry point)
                ctx.count("rejected_order_%d" % bo[0])
                ctx.count("rejected_entry_%s" % lr.ENTRY_POINTS.get(bo[1], "?"))
            if not io.startswith("rej "):
                if not sent and io.startswith("acc"):
                    pass                     # reported by C01.check_results
                continue
            f = io.split()
            k, nerr, val = int(f[1]), int(f[3].split("=")[1]), int(f[4].split("=")[1])
            # first index such that the lexemes up to and including it are not a prefix of a sentence
            n = len(toks)
            exp = None
            for i in range(n):
                if not (len(viable) > i + 1 and viable[i + 1]):
                    exp = i
                    break
            if exp is None:
                exp = n                      # every lexeme is fine: the error is at end of input
            ctx.count("error_at_eof" if exp == n else "error_inside")
            why = []
            if k != exp:
                why.append("error reported at lexeme %d, the first non-viable lexeme is %d" % (k, exp))
            if nerr != 1:
                why.append("%d errors reported with recovery off" % nerr)
            if val != 0:
                why.append("a value is returned for a rejected input")
            if "repairs=" in io:
                why.append("the error carries repair sequences although recovery is off")
            if orr.startswith("rej "):
                if int(orr.split()[1]) != exp:
                    why.append("with CPCT+ the first error is at lexeme %s, expected %d" % (orr.split()[1], exp))
            elif orr in ("hang", "crash"):
                ctx.count("recovery_does_not_return")
            else:
                why.append("with CPCT+ no error is reported for a rejected input: %s" % orr[:60])
            if why:
                ctx.violation({"what": "; ".join(why), "grammar": r.src, "input_tidxs": toks,
                               "input": [g.tnames.get(t, "?") for t in toks], "impl": io, "impl_with_recovery": orr,
                               "recovery_off_parser": lr.builder_text(bo),
                               "earley_viable_prefix_lengths": [i for i, v in enumerate(viable) if v]})
            ctx.oblige(not why)
    ctx.coverage["rule"] = ("reduced (productive, reachable), acyclic grammars whose table has no multi-candidate cell; inputs as C01 "
                            "(sentences, edited sentences, random strings); non-trivial/distinct as C01")
    ctx.coverage["builder"] = ("the recovery-off parser of each input is configured in one of 3 ways (recoverer only / recoverer then "
                               "term_costs / term_costs then recoverer, non-uniform costs) and run through one of 4 entry points "
                               "(parse_map, parse_generictree, parse_actions, parse_noaction), chosen from the input's index and length; "
                               "counters rejected_order_*/rejected_entry_* give the rejected inputs per choice")
    ctx.assumptions += ["conflict-free = conflicts() is None and every cell has at most one candidate",
                        "Earley oracle's viable-prefix test is valid because every rule is productive",
                        "tokens in range, no eof token from the lexer"]
