"""C17 (mirror part) — the FIRST / FOLLOW loops of the implementation are the algorithms proved exact.

Proof (theories/C17/Mirror*.v, Properties/C17mirror.v): MIRRORS of YaccFirsts::new and YaccFollows::new
(same iteration order, in-place table updates, early breaks, `changed` flag) are, for EVERY well-formed
grammar, exact (nullable_spec / first_spec / follow_textbook_spec; = follow_spec when every rule is
reachable) and return within nrules*(ntoks+1)+2 resp. nrules*ntoks+2 rounds.
Tie: the extracted mirrors are run on the implementation's own grammar dump and their tables must be the
implementation's tables bit for bit (harness c17: NUL / FI / FO sections).  A change of the Rust loops that
still reaches the fixed point gives the same tables; one that does not (a dropped `changed = true`, an
early exit, the original one-symbol lookahead) gives a table that differs from a PROVED-exact one on a
concrete (grammar, rule, token): a counterexample.  A FOLLOW table between the strict and the textbook
set is not a violation of the property; it is reported as a broken correspondence (no failing input).
"""
from vlib import core, cfg

K_FOLLOW = "FOLLOW: symbols after a nullable rule are not looked through (one-symbol lookahead)"


def case_line(src, costs):
    return "O %s ; %s" % (src.encode().hex(), " ".join("%s=%d" % (k, v) for k, v in sorted(costs.items())))


def secs_of(line):
    if line.startswith("HANGCOST # "):
        line = line[len("HANGCOST # "):]
    return [s.split() for s in line.split(" # ")]


def tables(secs, fo_tag="FO"):
    """(nul, fi, fo, flags) of a harness or mirror line"""
    nul, fi, fo, flags = None, {}, {}, {}
    for s in secs:
        if not s:
            continue
        k = s[0]
        if k == "NUL":
            nul = set(map(int, s[1:]))
        elif k == "FI":
            fi[int(s[1])] = set(map(int, s[2:]))
        elif k == fo_tag:
            fo[int(s[1])] = set(map(int, s[2:]))
        elif k in ("FIRSTS", "FOLLOWS", "FOLLOWSORIG", "FIRSTPANIC", "FOLLOWPANIC"):
            flags[k] = " ".join(s[1:])
    return nul, fi, fo, flags


def reachable_rules(g):
    start = g.prods[g.start_prod][0]
    seen, todo = {start}, [start]
    while todo:
        r = todo.pop()
        for p in g.by_rule.get(r, []):
            for x in g.prods[p][1]:
                if x % 2 and x // 2 not in seen:
                    seen.add(x // 2)
                    todo.append(x // 2)
    return seen


def restricted_dump(g, keep):
    """dump line of g without the productions of the rules outside `keep` (indices unchanged)"""
    ps = [(i, l, r) for i, (l, r) in enumerate(g.prods) if l in keep]
    sp = [k for k, (i, _, _) in enumerate(ps) if i == g.start_prod][0]
    return "G %d %d %d %d" % (g.ntoks, g.nrules, g.eof, sp) + "".join(" # P %d%s" % (l, "".join(" %d" % x for x in r)) for _, l, r in ps)


def run_part(ctx, cases, p1=None, account=True):
    """cases: [(family, grammar object with .render(), costs dict)] as produced by checks.C17.gen_cases;
    p1: the harness c17 `nocost` output lines for these cases if the caller already has them."""
    exe = core.build_harness("c17")
    mexe = core.build_model("c17mirror")
    srcs = [g.render() for _, g, _ in cases]
    lines = [case_line(s, c[2]) for s, c in zip(srcs, cases)]
    if p1 is None:
        p1 = core.run_lines([exe, "nocost"], lines)
    mir = core.run_lines([mexe], p1)
    n_tied = n_nontrivial = 0
    failed = set()
    shown = {}
    pending_strict = []          # (index, data, missing pairs) decided after one batched oracle run

    def report(what, data, key=None, no_input=False):
        ctx.count("mirror violation: " + what)
        shown[what] = shown.get(what, 0) + 1
        if shown[what] <= 2:
            ctx.violation(dict(data, what=what), known_key=key, no_input=no_input)

    for i, (fam, gr, costs) in enumerate(cases):
        il, ml = p1[i], mir[i]
        base = {"grammar": srcs[i], "replay_cmd": "echo '%s' | .work/target/release/c17 nocost | tee /dev/stderr | .work/ocaml/c17mirror/gvm_c17mirror" % lines[i]}
        if not il.startswith("G "):
            ctx.count("mirror: grammar_rejected_" + il.split()[0])
            if il.startswith(("BUILDPANIC", "HANG", "CRASH")):
                failed.add("mirror-termination")
                report("grammar construction / FIRST / FOLLOW do not return although the mirrored loops provably return "
                       "(C17_firsts_mirror_terminates, C17_follows_mirror_terminates)", dict(base, impl=il[:300]))
            continue
        isecs = secs_of(il)
        g = cfg.DGram(isecs)
        rn = lambda r: "%s(%d)" % (g.rnames.get(r, "?"), r)
        tn = lambda t: "%s(%d)" % (g.tnames.get(t, "$" if t == g.eof else "?"), t)
        inul, ifi, ifo, iflags = tables(isecs)
        if iflags or inul is None:
            failed.add("mirror-termination")
            report("an analysis query panicked although the mirrored loops provably return a table", dict(base, impl=iflags))
            continue
        msecs = secs_of(ml)
        mnul, mfi, mfo, mflags = tables(msecs)
        _, _, mfo_orig, _ = tables(msecs, "FOORIG")
        if not ml.startswith("WF 1") or mflags or mnul is None or not mfo:
            failed.add("mirror-hypotheses")
            report("the mirror gave no tables on a dump of the implementation (wf_grammar false or out of fuel: contradicts "
                   "C17_ff_mirror_total_exact, i.e. a defect of the dump/driver)", dict(base, mirror=ml[:300]), no_input=True)
            continue
        rules = range(g.nrules)
        n_tied += 1
        bad = []
        if inul != mnul:
            bad.append("nullable")
            r = sorted(inul ^ mnul)[0]
            report("epsilon bit differs from the proved-exact mirror of YaccFirsts::new", dict(
                base, rule=rn(r), impl=r in inul, mirror=r in mnul, authority="C17_firsts_mirror_exact (In r nl <-> nullable_spec g r)"))
        for r in rules:
            a, b = ifi.get(r, set()), mfi.get(r, set())
            if a != b:
                bad.append("first")
                t = sorted(a ^ b)[0]
                report("FIRST bit differs from the proved-exact mirror of YaccFirsts::new", dict(
                    base, rule=rn(r), token=tn(t), impl_has=t in a, mirror_has=t in b,
                    impl_first={rn(x): sorted(ifi.get(x, set())) for x in rules},
                    mirror_first={rn(x): sorted(mfi.get(x, set())) for x in rules},
                    authority="C17_firsts_mirror_exact (In (r,a) fs <-> first_spec g r a)"))
                break
        extra = [(r, t) for r in rules for t in sorted(ifo.get(r, set()) - mfo.get(r, set()))]
        missing = [(r, t) for r in rules for t in sorted(mfo.get(r, set()) - ifo.get(r, set()))]
        if extra or missing:
            bad.append("follow")
            data = dict(base, missing=[(rn(a), tn(b)) for a, b in missing[:8]], extra=[(rn(a), tn(b)) for a, b in extra[:8]],
                        impl_follow={rn(x): sorted(ifo.get(x, set())) for x in rules},
                        mirror_follow={rn(x): sorted(mfo.get(x, set())) for x in rules})
            is_orig = all(ifo.get(r, set()) == mfo_orig.get(r, set()) for r in rules)
            if is_orig:
                data["note"] = "the implementation's table is the one of the ORIGINAL one-symbol lookahead (mirror variant fixed = false)"
            reach = reachable_rules(g)
            if extra:
                r, t = extra[0]
                report("FOLLOW contains a token that no production lets follow the rule (not even the textbook set)", dict(
                    data, rule=rn(r), token=tn(t), authority="C17_follows_mirror_exact (In (r,a) fo <-> follow_textbook_spec g r a)"))
            elif len(reach) == g.nrules:
                r, t = missing[0]
                report("FOLLOW misses a token that follows the rule in a sentential form of the start rule", dict(
                    data, rule=rn(r), token=tn(t), authority="C17_follows_mirror_strict (every rule reachable: In (r,a) fo <-> follow_spec g r a)"),
                    key=K_FOLLOW if is_orig else None)
            else:
                pending_strict.append((i, data, missing, g, reach, is_orig, rn, tn))
        for b in bad:
            failed.add("mirror-" + b)
        nontriv = bool(mnul) and any(len(r) >= 2 for _, r in g.prods)
        n_nontrivial += nontriv
        ctx.count("mirror: tied")
        if account:
            ctx.count("family_" + fam)
            ctx.case(lines[i], nontriv, {"family": fam, "grammar": srcs[i], "differences": bad,
                                         "nullable": sorted(mnul), "follow": {str(r): sorted(mfo.get(r, set())) for r in rules}})
    # grammars with unreachable rules whose FOLLOW is a proper subset of the textbook set: strict FOLLOW =
    # textbook FOLLOW of the grammar without the productions of unreachable rules (oracle: the mirror on that dump)
    if pending_strict:
        outs = core.run_lines([mexe], [restricted_dump(x[3], x[4]) for x in pending_strict])
        for (i, data, missing, g, reach, is_orig, rn, tn), ol in zip(pending_strict, outs):
            _, _, sfo, _ = tables(secs_of(ol))
            hit = [(r, t) for r, t in missing if t in sfo.get(r, set())]
            if hit:
                r, t = hit[0]
                report("FOLLOW misses a token that follows the rule in a sentential form of the start rule", dict(
                    data, rule=rn(r), token=tn(t), unreachable_rules=[rn(x) for x in range(g.nrules) if x not in reach],
                    authority="mirror of YaccFollows::new on the grammar restricted to reachable rules (= strict FOLLOW)"),
                    key=K_FOLLOW if is_orig else None)
            else:
                report("FOLLOW lies between the strict and the textbook set but is no longer the table of the mirrored algorithm "
                       "(C17_follows_mirror_exact is no longer about this code)", data, no_input=True)
    for a in ("mirror-termination", "mirror-hypotheses", "mirror-nullable", "mirror-first", "mirror-follow"):
        ctx.oblige(a not in failed, a)
    ctx.coverage["mirror_tie"] = {"grammars_tied": n_tied, "with_nullable_rule_and_long_production": n_nontrivial,
                                  "compared": "epsilon bits, every FIRST bit, every FOLLOW bit (rule x token) against the extracted mirrors"}
    ctx.coverage["mirror_aspects_with_a_difference"] = sorted(failed)
    ctx.assumptions += [
        "mirror tie: the final tables are compared (the public API does not expose the number of rounds); a change of iteration order "
        "that still reaches the least fixed point is not a difference, by design",
        "Vob index panics are outside the mirror: they need an out-of-range symbol, which wf_grammar (checked on every dump) excludes",
    ]
    return n_tied
