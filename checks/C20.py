"""C20 — results independent of the index storage width; too-small widths refused.

Proof: theories/C20 — `narrow w n = n mod 2^w` written into a mirror of the size
bookkeeping of YaccGrammar::new_from_ast_with_validity_info (guards vs. final
counts), of the state-count guards (pager / stategraph / statetable) and of the
lexer's rule-id guard.  Proved: the PROPOSED guards refuse exactly when a
reported size or index would wrap (guards_imply_no_wrap, width_independent,
fixed_grammar_guards_exact); TODAY's guards are refuted at the 2^w boundary
(guards_imply_no_wrap_refuted: u8, 255 source rules, rules_len() = 0); the state
and lexer guards are proved sufficient (and the state guards conservative by 2).

Tie: generated grammars with rule / token / production / symbol / state counts in
{2^w-6 … 2^w+1} (w = 8 quick, + w = 16 thorough and a few in quick) are built with
u8, u16 and u32 storage through the public API (release and debug profile); the
mirror must predict refusal vs. acceptance, the refusing guard, and every reported
size; accepted builds must equal the u32 build (grammar listing, canonically
renumbered table, parse results).

Per-state iterators and error recovery (the observation points beyond plain parsing): in
EVERY build the harness compares `state_actions` / `state_shifts` / `core_reduces` of every
state with the `action()` cells of that width (` | IT …`); the boundary configurations, the
conflict-free part of the merge family and a set of dedicated grammars (30-300 tokens, state
index x tokens_len / prods_len beyond 255 resp. 65535) parse ERRONEOUS inputs with
RecoveryKind::CPCTPlus in all three widths, release and debug (` | R …`): error positions, the
SET of repair sequences offered per error and (as long as the same sequences were applied —
repairs()[0] is an arbitrary member of the set) the value must agree with the u32 release build.

GUARDS_FIXED selects which guards the mirror evaluates: False = the guards of the
unchanged tree (grammar.rs:150-165), True = the proposed ones.  The coordinator
flips it when the fix is applied to /repo.

SIZE_ASSERT_FIXED (True since /repo 394c6e3): the three state-count guards — pager.rs `>= MAX` while adding / `> MAX`
after gc, StateGraph::new `>= MAX`, StateTable::new `>= MAX-1` — must ALL refuse with the documented
"StorageT is not big enough to store this stategraph." panic.  A bare `assertion failed: …` during construction (what
StateGraph::new / StateTable::new raised for exactly MAX / MAX-1 states before the fix) is then NOT a clean refusal:
the harness prints OTHERPANIC, this check reports VIOLATION with the grammar.  False = the tree before 394c6e3: the
two size asserts count as refusals of their own classes (SGASSERT / STASSERT).  The mirror (Coq: only `Refuse <guard>`)
names the guard that fires; GUARD_MESSAGE maps the guard to the message class the implementation must show
(C20_state_count_refused_iff: refused iff states >= MAX-1, message class uniform).
"""
import os

from vlib import core

GUARDS_FIXED = True
SIZE_ASSERT_FIXED = True
if core.SCRATCH and os.environ.get("GV_C20_SIZE_ASSERT_FIXED") in ("0", "1"):    # mutation-testing aid only (never under ./check on /repo)
    SIZE_ASSERT_FIXED = os.environ["GV_C20_SIZE_ASSERT_FIXED"] == "1"

DOC_STATE_MSG = "StorageT is not big enough to store this stategraph."
SIZE_ASSERTS = {"assertion failed: states.len() <": "SGASSERT",                       # StateGraph::new before 394c6e3
                "assertion failed: sg.all_states_len().as_storaget() <": "STASSERT"}  # StateTable::new before 394c6e3



def _tmo(ms):
    """per-case watchdog for the big builds (tens of thousands of states), scaled by the machine's load: the watchdog is
    there to turn a genuine non-termination into an outcome, not to time a build on an oversubscribed machine (a thorough
    run next to other jobs at load 8x the cores reported HANG for 65534-state tables that build in a minute otherwise)"""
    try:
        over = os.getloadavg()[0] / max(1, os.cpu_count() or 1)
    except OSError:
        over = 1.0
    return str(int(ms * min(12.0, max(1.0, 1.5 * over))))

def size_assert_class(msg):
    for pre, cls in SIZE_ASSERTS.items():
        if msg.startswith(pre):
            return cls
    return None


def guard_message(guard):
    """guard named by the mirror (ocaml/c20: RULES TOKENS PRODS SYMBOLS PAGER GC SGNEW STNEW LEXRULE) -> the message class
    (refusal_class) the implementation must refuse with"""
    if guard in ("PAGER", "GC"):
        return "STATEGRAPH"
    if guard in ("SGNEW", "STNEW"):
        if SIZE_ASSERT_FIXED:
            return "STATEGRAPH"
        return {"SGNEW": "SGASSERT", "STNEW": "STASSERT"}[guard]
    return guard

# known defect of the unchanged tree, one key per boundary class (= the proposed guard
# that would refuse the configuration; the class is computed by the proved model)
KNOWN = {
    "RULES": "u8/u16 storage accepted although rules count + implicit start rule(s) reaches 2^w: reported sizes wrap",
    "TOKENS": "u8/u16 storage accepted although tokens count + implicit EOF token reaches 2^w: reported sizes wrap",
    "PRODS": "u8/u16 storage accepted although productions count + implicit start production(s) reaches 2^w: reported sizes wrap",
    "SYMBOLS": "u8/u16 storage accepted although an Eco production's symbols + inserted implicit-rule references reach 2^w: reported production length wraps",
}

WIDTHS = [8, 16, 32]
REC_BUDGET_MS = 4000          # CPCT+ time budget of the recovery parses (hook GRMTOOLS_VERIF_RECOVERY_BUDGET_MS)
REC_ENV = {"GRMTOOLS_VERIF_RECOVERY_BUDGET_MS": str(REC_BUDGET_MS)}


def hx(s):
    return s.encode().hex()


class Case:
    """One generated grammar: `rules` source rules (S and unused U1..), `tokens` source
    tokens (a pool used by S's chain production + declared-but-unused ones + the implicit
    token), `prods` source productions, an optional long production (r rule symbols,
    t token symbols) in U1, S = chain of `chain` tokens (one LR state per position)."""

    def __init__(self, kind, rules, tokens, prods, chain=1, pool=1, long=None, implicit=0, tag="", long2=None):
        assert rules >= 1 and prods >= rules and pool >= 1
        self.kind, self.rules, self.tokens, self.prods = kind, rules, tokens, prods
        self.chain, self.pool, self.long, self.implicit, self.tag = chain, pool, long, implicit, tag
        # long2: a second long production (the only production of U2), e.g. token-heavy while
        # `long` (U1) is rule-heavy and longer in the source
        self.long2 = long2
        if long2 and rules < 3:
            self.rules = rules = 3
            self.prods = prods = max(prods, 3)
        if kind != "E":
            self.implicit = 0
        need = pool + self.implicit
        self.tokens = max(tokens, need)
        if (prods > rules or long) and rules < 2:
            self.rules = 2
            self.prods = max(self.prods, 2)

    def groups(self):
        """source productions in AST order, run-length encoded (count, #rule syms, #token syms)"""
        g = [(1, 0, self.chain)]
        extra = self.prods - self.rules
        if self.rules >= 2:
            g.append((1,) + (self.long if self.long else (0, 1)))
            if extra:
                g.append((extra, 0, 2))
            if self.rules > 2:
                if self.long2:
                    g.append((1,) + tuple(self.long2))
                    if self.rules > 3:
                        g.append((self.rules - 3, 0, 1))
                else:
                    g.append((self.rules - 2, 0, 1))
        return g

    def src(self):
        out = []
        if self.kind == "E" and self.implicit:
            out.append("%implicit_tokens " + " ".join("ws%d" % i for i in range(self.implicit)))
        ndecl = self.tokens - self.pool - self.implicit
        if ndecl > 0:
            names = ["x%d" % i for i in range(ndecl)]
            for i in range(0, ndecl, 200):
                out.append("%token " + " ".join(names[i:i + 200]))
        out.append("%start S")
        out.append("%%")
        ty = " -> ()" if self.kind == "G" else ""
        act = " {}" if self.kind == "G" else ""
        out.append("S%s: %s%s;" % (ty, " ".join("'p%d'" % (i % self.pool) for i in range(self.chain)), act))
        extra = self.prods - self.rules
        if self.rules >= 2:
            first = " ".join(["S"] * self.long[0] + ["'p0'"] * self.long[1]) if self.long else "'p0'"
            alts = [first + act] + ["'p0' 'p0'" + act] * extra
            out.append("U1%s: %s;" % (ty, "\n | ".join(alts)))
            body = "%s: 'p0'%s;" % (ty, act)
            first2 = 2
            if self.long2 and self.rules > 2:
                out.append("U2%s: %s%s;" % (ty, " ".join(["S"] * self.long2[0] + ["'p0'"] * self.long2[1]), act))
                first2 = 3
            out.append("\n".join("U%d%s" % (i, body) for i in range(first2, self.rules)))
        return "\n".join(out) + "\n"

    def inputs(self):
        good = " ".join("p%d" % (i % self.pool) for i in range(self.chain))
        bad = " ".join("p%d" % (i % self.pool) for i in range(max(0, self.chain - 1)))
        return [good, bad, good + " p0"]

    def harness_line(self, w):
        return "%s %d %s rec ; %s" % (self.kind, w, hx(self.src()), " ; ".join(self.inputs()))

    def model_line(self, w, states):
        return "%d %d %s %d %d %s %d %d 0 ; %s" % (
            1 if GUARDS_FIXED else 0, w, "E" if self.kind == "E" else ("G" if self.kind == "G" else "O"),
            self.rules, self.tokens, str(self.implicit) if (self.kind == "E" and self.implicit) else "-",
            states, states, " ".join("%d:%d:%d" % g for g in self.groups()))

    def desc(self):
        return {"kind": self.kind, "rules": self.rules, "tokens": self.tokens, "prods": self.prods,
                "chain": self.chain, "pool": self.pool, "long": self.long, "long2": self.long2, "implicit": self.implicit, "tag": self.tag}

    def key(self):
        return "%s r%d t%d p%d c%d k%d l%s m%s i%d" % (self.kind, self.rules, self.tokens, self.prods, self.chain,
                                                         self.pool, self.long, self.long2, self.implicit)


def lex_src(n, kind=0):
    """n rules; kind 0: all named, 1: the last rule is an unnamed (skip) rule, 2: every third rule unnamed.
    Every rule takes an id from its position, named or not, so the guard and the ids are the same for all kinds."""
    out = ["%%\n"]
    for i in range(n):
        unnamed = (kind == 1 and i == n - 1) or (kind == 2 and i % 3 == 2)
        out.append(("r%d ;\n" % i) if unnamed else ("r%d 'T%d'\n" % (i, i)))
    return "".join(out)


def parse_kv(s):
    d = {}
    for t in s.split():
        if "=" in t:
            k, v = t.split("=", 1)
            d[k] = v
    return d


def parse_impl(line):
    """-> dict(stage outcomes); never raises"""
    r = {"raw": line, "G": None, "T": None, "P": [], "gmsg": "", "tmsg": "", "IT": None, "R": []}
    parts = [p.strip() for p in line.split(" | ")]
    for p in parts:
        if p.startswith("G "):
            f = p.split(None, 2)
            r["G"] = f[1]
            r["gmsg"] = f[2] if len(f) > 2 else ""
            if f[1] == "OK":
                r["g"] = parse_kv(p)
        elif p.startswith("T "):
            f = p.split(None, 2)
            r["T"] = f[1]
            r["tmsg"] = f[2] if len(f) > 2 else ""
            if f[1] == "OK":
                r["t"] = parse_kv(p)
        elif p.startswith("P "):
            r["P"].append(p)
        elif p.startswith("IT "):
            r["IT"] = p[3:]
        elif p.startswith("R "):
            r["R"].append(p)
        else:
            r["G"] = r["G"] or "OTHER"
            r["gmsg"] = p
    if not SIZE_ASSERT_FIXED:
        # the tree before 394c6e3: the size asserts of StateGraph::new / StateTable::new were its way of refusing
        for st, mk in (("G", "gmsg"), ("T", "tmsg")):
            if r[st] == "OTHERPANIC" and size_assert_class(r[mk]):
                r[st] = "REFUSED"
    return r


def refusal_class(msg):
    if "symbols of at least one" in msg:
        return "SYMBOLS"
    if "grammar's rules" in msg:
        return "RULES"
    if "grammar's tokens" in msg:
        return "TOKENS"
    if "grammar's productions" in msg:
        return "PRODS"
    if "this stategraph" in msg and "not big enough" in msg:
        return "STATEGRAPH"  # pager.rs:259 / :300, stategraph.rs:26, statetable.rs:208 all print DOC_STATE_MSG
    if size_assert_class(msg):
        return size_assert_class(msg)
    if "exceeds the type's maximum value" in msg:
        return "LEXRULE"
    return "?"


def comparable(r):
    """the part of an accepted transcript that must not depend on the width"""
    if r["G"] != "OK":
        return None
    g = dict(r["g"])
    t = dict(r.get("t", {}))
    t.pop("rawh", None)       # raw state numbers follow hash order of (PIdx<T>,SIdx<T>) keys: canonicalised in th
    return (sorted(g.items()), r["T"], sorted(t.items()), r["tmsg"] if r["T"] != "OK" else "", tuple(r["P"]))


def width_invariant(line):
    """renaming-invariant observations of one build: (stage outcomes, #sr, #rr, #states, parse outcomes
    without state numbers)"""
    r = parse_impl(line)
    if r["G"] != "OK":
        return ("G", r["G"], refusal_class(r["gmsg"]))
    if r["T"] != "OK":
        return ("T", r["T"], refusal_class(r["tmsg"]) if r["T"] == "REFUSED" else r["tmsg"][:60])
    t = r["t"]
    outs = []
    for p in r["P"]:
        o = p.split(" => ", 1)[1] if " => " in p else p
        f = o.split()
        if f and f[0] == "rej" and len(f) >= 3:
            o = " ".join([f[0], f[1]] + f[3:])          # drop the state number
        outs.append(o)
    return ("OK", t.get("sr"), t.get("rr"), t.get("ns"), tuple(outs))


def rec_parse(part):
    """` R <toks> => <outcome>` -> {"panic": msg} | {"val":…, "tm": ms, "errs": [(lexeme idx, state, applied, offered set)]}"""
    o = part.split(" => ", 1)[1] if " => " in part else part
    if o.startswith("panic") or o.startswith("lexerr"):
        return {"panic": o}
    f = o.split()
    d = {"val": None, "tm": 0, "errs": []}
    i = 0
    while i < len(f):
        if f[i].startswith("val="):
            d["val"] = f[i][4:]
            i += 1
        elif f[i].startswith("tm="):
            d["tm"] = int(f[i][3:])
            i += 1
        elif f[i] == "E" and i + 4 < len(f) + 0:
            d["errs"].append((int(f[i + 1]), f[i + 2], f[i + 3], f[i + 4]))
            i += 5
        else:
            i += 1
    return d


def rec_diff(a, b, same_table=True):
    """compare two recovery outcomes of the same input -> (status, text); status: same | choice (different member of the same
    offered set applied: what follows is not comparable) | timeout | DIFF"""
    if "panic" in a or "panic" in b:
        if a.get("panic") == b.get("panic"):
            return "same", ""
        return "DIFF", "%s vs %s" % (a.get("panic", "returns"), b.get("panic", "returns"))
    for i, (x, y) in enumerate(zip(a["errs"], b["errs"])):
        if x[0] != y[0]:
            return "DIFF", "error #%d at lexeme %d vs %d" % (i, x[0], y[0])
        if not same_table:
            return "choice", ""                # the stack at the error (hence the offered set) may depend on the state merges
        if x[3] == "-" or y[3] == "-":
            if x[3] != y[3]:
                t = a["tm"] if x[3] == "-" else b["tm"]
                if t >= 0.7 * REC_BUDGET_MS:
                    return "timeout", ""
                return "DIFF", "error #%d (lexeme %d): no repair offered vs {%s}" % (i, x[0], y[3] if x[3] == "-" else x[3])
        elif x[3] != y[3]:
            return "DIFF", "error #%d (lexeme %d): repair sequences offered {%s} vs {%s}" % (i, x[0], x[3], y[3])
        if x[2] != y[2]:
            return "choice", ""
    if len(a["errs"]) != len(b["errs"]):
        return "DIFF", "%d vs %d errors after identical repairs" % (len(a["errs"]), len(b["errs"]))
    if a["val"] != b["val"]:
        return "DIFF", "value %s vs %s after identical repairs" % (a["val"], b["val"])
    return "same", ""


def extras_diff(ctx, r, ref, what, same_table=True):
    """per-state iterators and recovery parses of an accepted build `r` against the reference build `ref` (u32, release).
    -> list of differences (empty = fine)"""
    out = []
    if r["T"] != "OK" or ref["T"] != "OK":
        return out
    it = r.get("IT")
    if it is None or not it.startswith("ok"):
        out.append("%s: per-state iterators disagree with the action() cells of the same table: %s" % (what, it))
    elif same_table and ref.get("IT") and it != ref["IT"]:
        out.append("%s: %s states checked, reference %s" % (what, it, ref["IT"]))
    if len(r["R"]) != len(ref["R"]):
        if r["R"] or ref["R"]:
            out.append("%s: %d recovery parses, reference %d" % (what, len(r["R"]), len(ref["R"])))
        return out
    for j, (x, y) in enumerate(zip(r["R"], ref["R"])):
        a, b = rec_parse(x), rec_parse(y)
        if "panic" in a:
            out.append("%s: input #%d with CPCT+ recovery: %s" % (what, j, a["panic"][:200]))
            ctx.count("rec_compare_DIFF")
            continue
        st, txt = rec_diff(a, b, same_table)
        if a["errs"]:
            ctx.count("rec_compare_" + st)
            if st == "same" and len(a["errs"]) > 1:
                ctx.count("rec_compare_same_multi_error")
        if st == "DIFF":
            out.append("%s: input #%d (%s) with CPCT+ recovery: %s [this build: %s | reference: %s]"
                       % (what, j, x.split(" => ")[0][2:], txt, x.split(" => ", 1)[-1][:300], y.split(" => ", 1)[-1][:300]))
    return out


KW_TAIL = "Expr: Expr 'PLUS' Term | Term;\nTerm: 'INT' | 'LP' Expr 'RP';\n"


def dedicated_grammars(ctx):
    """grammars every width up to the stated one accepts, in which state index x tokens_len (and x prods_len) exceeds the
    storage width's maximum for most states; each with erroneous inputs -> [(name, src, [inputs])]"""
    rng = ctx.rng
    out = []

    def inputs(n, kws):
        k = lambda: "K%d" % rng.choice([0, 1, n // 2, n - 2, n - 1, rng.randrange(n)])
        ins = ["%s INT PLUS INT SEMI %s LP INT RP SEMI" % (k(), k()),
               "%s INT PLUS PLUS INT SEMI" % k(),
               "%s INT INT SEMI" % k(),
               "%s SEMI" % k(),
               "%s LP INT SEMI" % k(),
               "%s INT RP SEMI %s INT SEMI" % (k(), k()),
               "%s INT PLUS INT" % k(),
               "%s %s INT SEMI" % (k(), k()),
               "INT SEMI %s INT SEMI" % k(),
               "%s INT PLUS INT SEMI %s INT PLUS PLUS INT SEMI %s LP INT SEMI" % (k(), k(), k()),
               "%s LP LP INT RP SEMI" % k(),
               "%s INT SEMI SEMI %s" % (k(), k())]
        for _ in range(ctx.n(4, 12)):
            base = ("%s INT PLUS LP INT RP SEMI %s INT SEMI" % (k(), k())).split()
            for _ in range(rng.randint(1, 2)):
                c = rng.random()
                pos = rng.randrange(len(base) + 1)
                if c < 0.4 and base:
                    del base[min(pos, len(base) - 1)]
                elif c < 0.8:
                    base.insert(pos, rng.choice(["INT", "PLUS", "LP", "RP", "SEMI", k()]))
                elif base:
                    base[min(pos, len(base) - 1)] = rng.choice(["INT", "PLUS", "LP", "RP", "SEMI", k()])
            ins.append(" ".join(base))
        return ins
    for n in (30, 45, 60) + (() if ctx.quick else (36, 52, 70)):
        # one statement form per keyword: ~3n+12 states, n+6 tokens, n+7 productions
        src = "%start Stmts\n%%\nStmts: Stmts Stmt | ;\nStmt: " + " | ".join("'K%d' Expr 'SEMI'" % i for i in range(n)) + ";\n" + KW_TAIL
        out.append(("stmt-per-keyword-%d" % n, src, inputs(n, n)))
    for n in (30, 40, 55) + (() if ctx.quick else (100, 200)):
        # a keyword rule: ~n+14 states
        src = ("%start Stmts\n%%\nStmts: Stmts Stmt | ;\nStmt: Kw Expr 'SEMI';\nKw: " + " | ".join("'K%d'" % i for i in range(n)) + ";\n" + KW_TAIL)
        out.append(("keyword-rule-%d" % n, src, inputs(n, n)))
    # 16 bit: u8 refuses (tokens), u16 accepts; states x tokens_len > 65535
    for n in (300,) + (() if ctx.quick else (150,)):
        if n >= 300:
            src = ("%start Stmts\n%%\nStmts: Stmts Stmt | ;\nStmt: Kw Expr 'SEMI';\nKw: " + " | ".join("'K%d'" % i for i in range(n)) + ";\n" + KW_TAIL)
            out.append(("keyword-rule-%d" % n, src, inputs(n, n)))
        else:
            src = "%start Stmts\n%%\nStmts: Stmts Stmt | ;\nStmt: " + " | ".join("'K%d' Expr 'SEMI'" % i for i in range(n)) + ";\n" + KW_TAIL
            out.append(("stmt-per-keyword-%d" % n, src, inputs(n, n)))
    return out


def recovery_family(ctx, exe_r, exe_d, items, label):
    """items: [(name, src, [input strings], same_table)]: every input parsed with CPCT+ in u8/u16/u32, release and debug; the
    per-state iterators checked in every build.  Reference = u32 release."""
    lines, meta = [], []
    for name, src, ins, same in items:
        for w in WIDTHS:
            lines.append("N %d %s rec ; %s" % (w, hx(src), " ; ".join(ins)))
    env = dict(REC_ENV, GVH_CASE_TIMEOUT_MS=_tmo(120000))
    out_r = core.run_lines([exe_r], lines, timeout=int(_tmo(3000000)) // 1000, env=env)
    out_d = core.run_lines([exe_d], lines, timeout=int(_tmo(3000000)) // 1000, env=env)
    nbad = 0
    for k, (name, src, ins, same) in enumerate(items):
        ref = parse_impl(out_r[3 * k + 2])
        diffs = []
        builds = {}
        for prof, outs in (("release", out_r), ("debug", out_d)):
            for j, w in enumerate(WIDTHS):
                line = outs[3 * k + j]
                r = parse_impl(line)
                builds["%s u%d" % (prof, w)] = line[:700]
                if line.startswith("HANG") or line.startswith("CRASH"):
                    diffs.append("%s u%d: %s" % (prof, w, line[:120]))
                    continue
                if r["G"] == "REFUSED" or r["T"] == "REFUSED":
                    ctx.count("%s_refused_w%d" % (label, w))
                    continue
                if r["G"] != "OK" or r["T"] != "OK":
                    diffs.append("%s u%d: build did not succeed: %s" % (prof, w, line[:160]))
                    continue
                if ref["T"] != "OK":
                    continue
                iso = r["t"].get("th") == ref["t"].get("th")
                if comparable(r) != comparable(ref) and same:
                    diffs.append("%s u%d: grammar / table / plain parse transcript differs from the u32 release build" % (prof, w))
                diffs += extras_diff(ctx, r, ref, "%s u%d" % (prof, w), same_table=(same or iso))
        nrej = sum(1 for p in ref["P"] if " => rej" in p)
        ns = int(ref.get("t", {}).get("ns", 0) or 0)
        tl = int(ref.get("g", {}).get("tl", 0) or 0)
        ctx.count("%s_grammars" % label)
        ctx.coverage["recovery_inputs_rejected_without_recovery"] = ctx.coverage.get("recovery_inputs_rejected_without_recovery", 0) + nrej
        for w in WIDTHS:
            ctx.case("%s %s w%d" % (label, name, w), ns * tl > (1 << w) - 1 and nrej > 0,
                     {"grammar": src if len(src) < 600 else src[:600] + "…", "width": w, "states": ns, "tokens_len": tl, "inputs": ins[:4]})
        if ref["G"] != "OK" or ref["T"] != "OK":
            diffs.append("the u32 release build did not succeed: %s" % out_r[3 * k + 2][:200])
        if diffs:
            nbad += 1
            ctx.violation({"grammar": src, "inputs": ins, "differences": diffs[:12], "builds": builds, "family": label, "name": name,
                           "why": "per-state iterators / error recovery results (error positions, offered repair sequences, value) depend on "
                                  "the index storage width or the build profile",
                           "replay_cmd": "for w in 8 16 32; do echo \"N $w %s rec ; %s\" | GRMTOOLS_VERIF_RECOVERY_BUDGET_MS=%d "
                                         ".work/target/{release,debug}/c20; done" % (hx(src) if len(src) < 400 else "<hex of grammar>",
                                                                                      " ; ".join(ins)[:400], REC_BUDGET_MS)})
    ctx.oblige(nbad == 0, "width-independence-iterators-recovery-" + label)
    return len(items)


def merge_family(ctx, exe_r, exe_d=None):
    """small LR(1)-but-not-LALR(1) grammars (Pager must decide which same-core states to merge): the
    decision must not depend on the storage width although the hash order of the item maps does"""
    from gen import grammars as gg
    rng = ctx.rng
    gs = []
    # the classic shape with two inner rules in both declaration orders (hash order of kernel items)
    def txt(rules):
        return gg.from_text("%start S\n%%\n" + "\n".join(r.strip() + ";" for r in rules.split(";") if r.strip()) + "\n")
    for e, f in (("E", "F"), ("F", "E")):
        gs.append(txt("S: 'a' %s 'c' | 'a' %s 'x' | 'a' %s 'd' | 'b' %s 'x' | 'b' %s 'c' | 'y' Q; %s: 'e'; Q: 'q' | 'q' 'q'; %s: 'e';"
                      % (e, e, f, e, f, e, f)))
        gs.append(txt("S: 'a' %s 'a' | 'b' %s 'b' | 'a' %s 'b' | 'b' %s 'a'; %s: 'e'; %s: 'e';" % (e, e, f, f, e, f)))
    # grammars on which Pager's garbage collection runs / rare construction shapes (which width collects can differ:
    # the item-map hash order depends on the key width), compared across widths like the others
    for src, _, _ in gg.rare_shape_corpus():
        gs.append(gg.from_text(src))
    for src in gg.gc_corpus()[:ctx.n(40, 120)] + gg.gc_chain_corpus()[:ctx.n(15, 60)]:
        gs.append(gg.from_text(src))
    # random (mostly conflicted, often unproductive) small grammars: with resolved conflicts Pager's merging is
    # order-sensitive, so any dependence of an iteration order on the key width shows as different tables
    # (first: the grammar that had 13 states with u8 and 12 with u16/u32 before /repo ba4835d)
    gs.append(txt("S: S S S A; A: A 'a' S | B 'b' 'a'; B: 'a' A;"))
    tables_only = set()
    for i in range(ctx.n(400, 6000)):
        g = gg.random_grammar(rng)
        if g is not None:
            gs.append(g)
            tables_only.add(g.key())        # conflict-resolved tables may loop on parsing (C07's known class): tables only
    n = ctx.n(18, 120)
    for i in range(n):
        gs.append(gg.not_lalr_template(rng))
        gs.append(gg.not_lalr_multi(rng))
        gs.append(gg.depth_merge_grammar(rng))
        g = gg.layered_grammar(rng).reduced()
        if g is not None:
            gs.append(g)
    seen, uniq = set(), []
    for g in gs:
        # a rule deriving just itself makes any Yacc-style parser loop (C07's domain: "no rule can derive just itself"):
        # such grammars have no parse results to compare
        if g is not None and g.derives_cycle():
            ctx.count("merge_family_skipped_cyclic")
            continue
        if g is not None and g.key() not in seen:
            seen.add(g.key())
            uniq.append(g)
    gs = uniq
    lines, meta, ins_of = [], [], []
    for g in gs:
        inputs = [[]] if g.key() in tables_only else gg.inputs_for(rng, g, ctx.n(10, 20), maxlen=8)
        ins_of.append(inputs)
        ins = " ; ".join(" ".join(x) for x in inputs)
        for w in WIDTHS:
            lines.append("N %d %s ; %s" % (w, hx(g.render()), ins))
            meta.append((g, w))
    out = core.run_lines([exe_r], lines)
    nbad = 0
    for k in range(0, len(lines), 3):
        g = meta[k][0]
        obs = {w: width_invariant(out[k + j]) for j, w in enumerate(WIDTHS)}
        ths = {w: parse_impl(out[k + j]).get("t", {}).get("th") for j, w in enumerate(WIDTHS)}
        ref = obs[32]
        nontriv = ref[0] == "OK" and int(ref[3] or 0) >= 8 and any(o.startswith("acc") for o in ref[4]) and any(o.startswith("rej") for o in ref[4])
        for j, w in enumerate(WIDTHS):
            ctx.case("merge %s w%d" % (g.key(), w), nontriv, {"grammar": g.render(), "width": w, "impl": out[k + j][:400]})
        ctx.count("merge_family_grammars")
        if len(set(ths.values())) > 1:
            ctx.count("merge_family_tables_not_isomorphic")
            if all(o[0] == "OK" for o in obs.values()):
                # "the same numbering, table contents … in all widths that accept it": the (canonically renumbered)
                # action/goto tables differ between widths
                nbad += 1
                ctx.violation({"grammar": g.render(), "table_digest_per_width": {str(w): ths[w] for w in WIDTHS},
                               "observations_per_width": {str(w): str(obs[w])[:300] for w in WIDTHS},
                               "why": "the state table of this grammar depends on the index storage width (different digests of "
                                      "the canonically renumbered action/goto tables)",
                               "replay_cmd": "for w in 8 16 32; do echo \"N $w %s\" | .work/target/release/c20; done" % hx(g.render())})
                continue
        accepting = [w for w in WIDTHS if obs[w][0] == "OK"]
        if ref[0] != "OK" and len(set(tuple(map(str, obs[w][:1])) for w in WIDTHS)) == 1 and not accepting:
            # no width produced a result (the same outcome class everywhere, e.g. a parse that does not return on a
            # conflict-resolved table: C07's known class): nothing depends on the width here
            ctx.count("merge_family_no_result_in_any_width_%s" % str(ref[0])[:12])
            continue
        if ref[0] != "OK" or any(obs[w] != ref for w in accepting) or len(accepting) != 3:
            nbad += 1
            diff = []
            for w in (8, 16):
                if obs[w] != ref:
                    if obs[w][0] == "OK" and ref[0] == "OK":
                        for name, a, b in zip(("sr_conflicts", "rr_conflicts", "states"), obs[w][1:4], ref[1:4]):
                            if a != b:
                                diff.append("u%d: %s=%s, u32: %s" % (w, name, a, b))
                        for i, (a, b) in enumerate(zip(obs[w][4], ref[4])):
                            if a != b:
                                diff.append("u%d: input #%d -> %s, u32 -> %s" % (w, i, a, b))
                    else:
                        diff.append("u%d: %s, u32: %s" % (w, obs[w][:3], ref[:3]))
            ctx.violation({"grammar": g.render(), "widths": {str(w): out[k + j][:500] for j, w in enumerate(WIDTHS)},
                           "differences": diff[:12] or ["a build of this small grammar did not succeed"],
                           "why": "conflict counts, state count or parse results (accept/tree, first error position) of this small grammar "
                                  "depend on the index storage width",
                           "replay_cmd": "for w in 8 16 32; do echo \"N $w %s ; <inputs>\" | .work/target/release/c20; done" % hx(g.render())})
    ctx.oblige(nbad == 0, "width-independence-on-merge-family")
    # per-state iterators (every build of the family: ` | IT …` is always printed)
    nit = 0
    for k in range(len(lines)):
        r = parse_impl(out[k])
        if r["T"] == "OK" and not (r.get("IT") or "").startswith("ok"):
            nit += 1
            g, w = meta[k]
            ctx.violation({"grammar": g.render(), "width": w, "impl": out[k][:600],
                           "why": "per-state iterators (state_actions / state_shifts / core_reduces) disagree with the action() cells of the "
                                  "same u%d table: %s" % (w, r.get("IT")),
                           "replay_cmd": "echo \"N %d %s\" | .work/target/release/c20" % (w, hx(g.render()))})
    ctx.oblige(nit == 0, "iterators-agree-with-cells-on-merge-family")
    # phase 2: the inputs every width rejects (recovery off), parsed again with CPCT+ recovery in all widths and both profiles —
    # conflict-free grammars only (recovery on conflict-resolved tables: C05-C07's known classes)
    if exe_d is not None:
        items = []
        for k in range(0, len(lines), 3):
            g = meta[k][0]
            rs = [parse_impl(out[k + j]) for j in range(3)]
            if not all(r["T"] == "OK" and r["t"].get("sr") == "0" and r["t"].get("rr") == "0" for r in rs):
                continue
            ins_k = ins_of[k // 3]
            usable = [x for x in ins_k if all(t in g.tokens for t in x)]
            if len(usable) != len(rs[2]["P"]):
                continue
            bad = [" ".join(x) for x, p in zip(usable, rs[2]["P"]) if " => rej" in p and x]
            if not bad:
                continue
            iso = len(set(r["t"].get("th") for r in rs)) == 1
            items.append(("%s" % g.key(), g.render(), bad[:ctx.n(6, 12)], iso))
        recovery_family(ctx, exe_r, exe_d, items, "merge_rec")
    return len(gs)


def long_prod_src(n):
    """`S: 't0' … 't{k-1}';` with k = n - 2 symbols: exactly n LR states (the audit's shape)"""
    return "%start S\n%%\nS:" + "".join(" 't%d'" % (i % 7) for i in range(n - 2)) + ";\n"


def long_prod_inputs(n):
    good = ["t%d" % (i % 7) for i in range(n - 2)]
    return [" ".join(good), " ".join(good[:-1]), " ".join(good + ["t0"]), "t0 t1 t1"]


def rule_chain_shape(n):
    """-> (link, m, t): m rules, `link` tokens 'a' per link, tail of t tokens 'b'.  The goto table is states x rules cells of
    usize, so the 16-bit sizes use long links (about 1000 rules) instead of 32 k rules"""
    link = 1 if n < 1000 else 63
    links = (n - 3) // (link + 1)
    t = n - 2 - (link + 1) * links
    return link, links + 1, t


def rule_chain_src(n):
    """`R0: 'a'{L} R1 | ; … R{m-2}: 'a'{L} R{m-1} | ; R{m-1}: 'b'{t};` has 2 + (L+1)(m-1) + t states (start, accept, L+1 per
    link, t for the tail; 1 <= t <= L+1 picks the remainder): exactly n states.  L = 1 for the 8-bit sizes: the audit's
    second shape (127 rules, 255 states)"""
    link, m, t = rule_chain_shape(n)
    a = " ".join(["'a'"] * link)
    out = ["%start R0", "%%"]
    out += ["R%d: %s R%d | ;" % (i, a, i + 1) for i in range(m - 1)]
    out.append("R%d: %s;" % (m - 1, " ".join(["'b'"] * t)))
    return "\n".join(out) + "\n"


def rule_chain_inputs(n):
    link, m, t = rule_chain_shape(n)
    full = ["a"] * (link * (m - 1))
    return [" ".join(["a"] * (3 * link)), " ".join(full + ["b"] * t), " ".join(full + ["b"] * (t + 1)), " ".join(["a"] * link + ["b"]),
            "b", "a a"]


def state_boundary_family(ctx, exe_r, exe_d, mexe):
    """State counts exactly at the refusal boundary, two shapes, expectation stated WITHOUT the transcript of a neighbouring
    guard: a width w accepts n states iff n <= MAX-2 (MAX = 2^w - 1; C20_state_count_refused_iff, cross-checked against the
    extracted state_guards), then with the u32 build's table and parse results; otherwise it is refused and the panic text
    is exactly DOC_STATE_MSG (or, far beyond the width, a documented grammar-size refusal).  u8: 253, 254, 255, 256 states
    (quick); u16: 65533 … 65536 (thorough, rule chain; the long production at these sizes is a gen_cases(16) configuration)."""
    shapes = (("long-production", long_prod_src, long_prod_inputs), ("rule-chain", rule_chain_src, rule_chain_inputs))
    # (16-bit sizes: the rule chain only — the long production at 65531 … 65537 states is the `states` configuration of
    #  gen_cases(16), built there in all widths and both profiles)
    items = [(name, n, mk(n), ins(n)) for name, mk, ins in shapes
             for n in [253, 254, 255, 256] + ([65533, 65534, 65535, 65536] if (not ctx.quick and name == "rule-chain") else [])]
    lines = ["N %d %s ; %s" % (w, hx(src), " ; ".join(x for x in inputs if x)) for _, _, src, inputs in items for w in WIDTHS]
    env = dict(REC_ENV, GVH_CASE_TIMEOUT_MS=_tmo(900000))
    out_r = core.run_lines([exe_r], lines, timeout=int(_tmo(3000000)) // 1000, env=env)
    # debug profile: every width for the 8-bit sizes, the boundary width only for the 16-bit sizes (a 65 k-state build takes minutes)
    dkeys = [(k, j) for k, it in enumerate(items) for j in range(3) if it[1] < 1000 or j == 1]
    out_d = dict(zip(dkeys, core.run_lines([exe_d], [lines[3 * k + j] for k, j in dkeys], timeout=int(_tmo(3000000)) // 1000, env=env)))
    model = core.run_lines([mexe], ["1 %d O 1 1 - %d %d 0 ; 1:0:1" % (w, n, n) for _, n, _, _ in items for w in WIDTHS], timeout=3000)
    nbad = 0
    for k, (name, n, src, inputs) in enumerate(items):
        ref_line = out_r[3 * k + 2]
        ref = parse_impl(ref_line)
        # diffs: property level (a failing input); corr: the guards are no longer the mirror's (state_guards_exact), the
        # property still holds on this grammar (a clean documented refusal of something that fits / an accepted build
        # beyond MAX-2 that equals the u32 build)
        diffs, corr = [], []
        if not (ref["T"] == "OK" and ref["t"].get("ns") == str(n) and ref["t"].get("sr") == "0" and ref["t"].get("rr") == "0"):
            diffs.append("u32 release: expected a conflict-free table of %d states, got: %s" % (n, ref_line[:200]))
        for j, w in enumerate(WIDTHS):
            accept = n + 3 <= (1 << w)                                   # n <= MAX - 2
            m = parse_kv(model[3 * k + j])
            if (m.get("s") == "PASS") != accept:
                corr.append("u%d: extracted state_guards says %s for %d states, C20_state_count_refused_iff says %s"
                            % (w, m.get("s"), n, "accept" if accept else "refuse"))
            for prof, line in (("release", out_r[3 * k + j]), ("debug", out_d.get((k, j)))):
                if line is None:
                    continue
                r = parse_impl(line)
                what = "%s u%d (%d states, MAX = %d)" % (prof, w, n, (1 << w) - 1)
                stage, msg = ("G", r["gmsg"]) if r["G"] != "OK" else ("T", r["tmsg"])
                if r["G"] == "OK" and r["T"] == "OK":
                    if comparable(r) != comparable(ref):
                        diffs.append("%s: accepted, but grammar / table / parse transcript differs from the u32 build: %s" % (what, line[:240]))
                    elif not (r.get("IT") or "").startswith("ok"):
                        diffs.append("%s: per-state iterators: %s" % (what, r.get("IT")))
                    elif not accept:
                        corr.append("%s: accepted (and equal to the u32 build) although the mirror's guards refuse from MAX-1 states on" % what)
                elif r[stage] != "REFUSED":
                    diffs.append("%s: %s; got: %s %s %s" % (
                        what, ("cannot hold the state graph (states >= MAX-1) and must be refused with the documented '%s'" % DOC_STATE_MSG)
                        if not accept else "fits (states <= MAX-2) and must be built like u32 (or be refused with the documented panic)",
                        stage, r[stage], msg[:200]))
                elif stage == "T" and msg.strip() != DOC_STATE_MSG and not size_assert_class(msg):
                    diffs.append("%s: refused, but not with the documented text '%s': %s" % (what, DOC_STATE_MSG, msg[:200]))
                elif accept:
                    corr.append("%s: fits (states <= MAX-2) but was refused: %s" % (what, line[:240]))
                ctx.count("state_boundary_%s_%s_w%d" % (prof, "accept" if accept else "refuse", w))
            ctx.case("state-boundary %s %d w%d" % (name, n, w), abs(n + 2 - (1 << w)) <= 2,
                     {"shape": name, "states": n, "width": w, "expected": "accepted" if accept else "refused: " + DOC_STATE_MSG,
                      "impl": out_r[3 * k + j][:300]})
        if diffs or corr:
            nbad += 1
            fn = "long_prod_src" if name == "long-production" else "rule_chain_src"
            data = {"grammar": src if len(src) < 6000 else src[:3000] + "…(%d bytes; checks.C20.%s(%d))" % (len(src), fn, n),
                    "shape": name, "states": n, "inputs": [x[:200] for x in inputs], "differences": (diffs + corr)[:12],
                    "builds": {"release u%d" % w: out_r[3 * k + j][:500] for j, w in enumerate(WIDTHS)},
                    "size_assert_fixed": SIZE_ASSERT_FIXED,
                    "replay_cmd": "cd /verif && for w in 8 16 32; do python3 -c 'from checks.C20 import *; print(\"N '$w' \" + hx(%s(%d)))' "
                                  "| .work/target/release/c20; done" % (fn, n)}
            if diffs:
                ctx.violation(dict(data, why="a grammar whose state graph has MAX-1 or more states (MAX = StorageT::max_value()) must be refused "
                                             "with the documented 'StorageT is not big enough to store this stategraph.' panic, one with fewer "
                                             "must be built exactly as with u32 (authority: the u32 build; C20_state_count_refused_iff for the bound)"))
            else:
                ctx.violation(dict(data, broken="correspondence C20 state-count guards (C20_state_guards_exact / C20_state_count_refused_iff: "
                                                "refused iff states >= MAX-1) vs implementation"), no_input=True)
    ctx.oblige(nbad == 0, "state-count-boundary-documented-refusal")
    return len(items)


def gen_cases(ctx, w, full):
    """boundary configurations for width w (B = 2^w)"""
    B = 1 << w
    rng = ctx.rng
    cs = []
    rng_src = list(range(B - 6, B + 2)) if full else [B - 5, B - 4, B - 3, B - 2, B - 1, B, B + 1]
    kinds = [("N", 0), ("G", 0), ("E", 0), ("E", 1)] if full else [("N", 0), ("E", 1)]
    pool = 1 if w == 8 else 16
    for kind, imp in kinds:
        for n in rng_src:
            # rules (and hence productions) at the boundary
            cs.append(Case(kind, n, 1, n, implicit=imp, tag="rules"))
            # tokens at the boundary
            cs.append(Case(kind, 2, n, 2, implicit=imp, tag="tokens"))
            # productions at the boundary, few rules
            cs.append(Case(kind, 3, 1, n, implicit=imp, tag="prods"))
            # symbols of an (unreachable) production at the boundary: all tokens / all rules / half-half
            cs.append(Case(kind, 2, 1, 2, long=(0, n), implicit=imp, tag="symbols-tok"))
            cs.append(Case(kind, 2, 1, 2, long=(n, 0), implicit=imp, tag="symbols-rule"))
            if kind == "E" and imp:
                h = (n + 1) // 2
                cs.append(Case(kind, 2, 1, 2, long=(0, h), implicit=imp, tag="symbols-eco-doubling"))
                cs.append(Case(kind, 2, 1, 2, long=(n - 2 * (n // 3), n // 3), implicit=imp, tag="symbols-eco-mixed"))
            # two long productions: the one that overflows after Eco's expansion (a `~` after every token)
            # is NOT the longest in the source: U1 rule-heavy and longer, U2 token-heavy around 2^w/2 tokens
            h = (n + 1) // 2
            heavy = (B * 25) // 32            # 200 for w = 8: fits on its own, longer than U2 in the source
            cs.append(Case(kind, 3, 1, 3, long=(heavy, 0), long2=(0, h), implicit=imp, tag="symbols-2prods-tok-vs-rule"))
            cs.append(Case(kind, 3, 1, 3, long=(0, h), long2=(heavy, 0), implicit=imp, tag="symbols-2prods-tok-vs-rule"))
            cs.append(Case(kind, 3, 1, 3, long=(heavy, 3), long2=(n - 2 * (n // 3), n // 3), implicit=imp, tag="symbols-2prods-mixed"))
            cs.append(Case(kind, 3, 1, 3, long=(heavy - 40, 20), long2=(7, (n - 7 + 1) // 2), implicit=imp, tag="symbols-2prods-mixed"))
            # states at the boundary: chain of n-2 tokens gives n states (non-Eco)
            if not (kind == "E" and imp):
                cs.append(Case(kind, 1, pool, 1, chain=n - 2, pool=pool, tag="states"))
            else:
                # with implicit tokens every chain token is followed by `~`: 2*chain + 6 states (even counts only)
                cs.append(Case(kind, 1, pool + 1, 1, chain=(n - 6) // 2, pool=pool, implicit=imp, tag="states"))
    # mixed: two dimensions near the boundary at once
    for _ in range(ctx.n(12, 40) if w == 8 else ctx.n(0, 6)):
        kind, imp = rng.choice([("N", 0), ("G", 0), ("E", 0), ("E", 1)])
        r = rng.choice(rng_src + [3, 10])
        p = max(r, rng.choice(rng_src + [r, r]))
        t = rng.choice(rng_src + [2, 5])
        if w == 16 and t > 100:
            t = rng.choice([2, 5])          # 65k tokens x chain states would make the table huge
        cs.append(Case(kind, r, t, p, chain=rng.choice([1, 2, 5]), pool=1, implicit=imp, tag="mixed"))
    return cs


def run(ctx):
    ctx.gate = core.proof_gate("C20")
    for _ in ctx.gate["theorems"]:
        ctx.oblige(True)
    exe_r = core.build_harness("c20", "release")
    exe_d = core.build_harness("c20", "debug")
    mexe = core.build_model("c20")

    cases = []
    cases += gen_cases(ctx, 8, True)
    if ctx.quick:
        # a few 16-bit boundary configurations also in the quick tier
        B = 1 << 16
        for n in (B - 2, B - 1, B):
            cases.append(Case("N", n, 1, n, tag="rules"))
            cases.append(Case("N", 2, n, 2, tag="tokens"))
            cases.append(Case("N", 1, 16, 1, chain=n - 2, pool=16, tag="states"))
        cases.append(Case("E", B - 3, 2, B - 3, implicit=1, tag="rules"))
        cases.append(Case("E", 2, 1, 2, long=(0, B // 2), implicit=1, tag="symbols-eco-doubling"))
        cases.append(Case("E", 3, 1, 3, long=(50000, 0), long2=(0, B // 2), implicit=1, tag="symbols-2prods-tok-vs-rule"))
        cases.append(Case("E", 3, 1, 3, long=(50000, 0), long2=(0, B // 2 - 1), implicit=1, tag="symbols-2prods-tok-vs-rule"))
    else:
        cases += gen_cases(ctx, 16, False)
    # distinct
    seen, uniq = set(), []
    for c in cases:
        if c.key() not in seen:
            seen.add(c.key())
            uniq.append(c)
    cases = uniq

    env = dict(REC_ENV, GVH_CASE_TIMEOUT_MS=_tmo(600000))
    hl = [c.harness_line(w) for c in cases for w in WIDTHS]
    impl_r = core.run_lines([exe_r], hl, timeout=int(_tmo(3000000)) // 1000, env=env)
    # debug profile (overflow checks, debug assertions): all 8-bit-sized cases, the big ones only in thorough
    dbg_idx = [i for i, c in enumerate(cases)
               if not (c.rules > 1000 or c.tokens > 1000 or c.prods > 1000 or c.chain > 1000 or (c.long and sum(c.long) > 1000)
                       or (c.long2 and sum(c.long2) > 1000)) or not ctx.quick]
    dl = [cases[i].harness_line(w) for i in dbg_idx for w in WIDTHS]
    impl_d_l = core.run_lines([exe_d], dl, timeout=int(_tmo(3000000)) // 1000, env=env)
    impl_d = {}
    for k, i in enumerate(dbg_idx):
        for j, w in enumerate(WIDTHS):
            impl_d[(i, w)] = impl_d_l[k * len(WIDTHS) + j]

    # reference = u32 release build; its state count feeds the model
    ml, mref = [], []
    for i, c in enumerate(cases):
        ref = parse_impl(impl_r[i * 3 + 2])
        ns = int(ref["t"]["ns"]) if ref["T"] == "OK" and "ns" in ref.get("t", {}) else 0
        for w in WIDTHS:
            ml.append(c.model_line(w, ns))
            mref.append((i, w))
    model = core.run_lines([mexe], ml, timeout=3000)

    ndiff = 0
    nprop = 0
    for k, (i, w) in enumerate(mref):
        c = cases[i]
        line_r = impl_r[i * 3 + WIDTHS.index(w)]
        r = parse_impl(line_r)
        ref = parse_impl(impl_r[i * 3 + 2])
        m = parse_kv(model[k])
        B = 1 << w
        sizes = [c.rules, c.tokens, c.prods, (sum(c.long) if c.long else 0), (sum(c.long2) if c.long2 else 0), c.chain + 2]
        near = any(B - 6 <= v <= B + 1 for v in sizes) or any(
            l and c.kind == "E" and c.implicit and B - 6 <= l[0] + 2 * l[1] <= B + 2 for l in (c.long, c.long2))
        replay = ("cd /verif && python3 -c 'from checks.C20 import Case; print(Case(\"%s\", %d, %d, %d, chain=%d, pool=%d, long=%r, long2=%r, implicit=%d)"
                  ".harness_line(%d))' | .work/target/release/c20" % (c.kind, c.rules, c.tokens, c.prods, c.chain, c.pool, c.long, c.long2, c.implicit, w))
        base = {"case": c.desc(), "width": w, "impl": line_r[:600], "impl_u32": impl_r[i * 3 + 2][:600], "model": model[k],
                "replay_cmd": replay, "guards_fixed": GUARDS_FIXED, "size_assert_fixed": SIZE_ASSERT_FIXED}
        if c.rules + c.tokens + c.prods + c.chain + (sum(c.long) if c.long else 0) + (sum(c.long2) if c.long2 else 0) < 1500:
            base["grammar"] = c.src()
        if "true" not in m:
            ndiff += 1
            ctx.violation(dict(base, broken="model driver gave no result"), no_input=True)
            continue
        tv = [int(x) for x in m["true"].split(",")]
        ov = [int(x) for x in m["obs"].split(",")]
        nowrap = m["nowrap"].split(",")
        # ---- outcome class of the implementation (property level, model-independent) ----
        cls, why = "Same", ""
        if ref["G"] != "OK" or ref["T"] != "OK":
            cls, why = "NoReference", "the u32 build did not succeed: %s" % impl_r[i * 3 + 2][:200]
        elif r["G"] == "REFUSED":
            cls = "Refused"
        elif r["G"] in ("OTHERPANIC", "OTHER", "ERR") or r["G"] is None:
            cls, why = "OtherPanic", "grammar construction: %s %s" % (r["G"], r["gmsg"][:200])
        else:
            g, gref = r["g"], ref["g"]
            small = [kk for kk in ("rl", "pl", "tl", "eof", "sp", "mpl", "nr", "np", "nt") if int(g.get(kk, -1)) < int(gref.get(kk, -1))]
            if small or "LISTPANIC" in line_r.split(" | ")[0]:
                cls, why = "Wrapped", "grammar accepted but reports %s smaller than the u32 build (%s vs %s)" % (
                    small, {kk: g.get(kk) for kk in small}, {kk: gref.get(kk) for kk in small})
            elif g != gref:
                cls, why = "Wrapped", "grammar accepted but its listing differs from the u32 build"
            if r["T"] == "REFUSED":
                cls = cls if cls == "Wrapped" else "Refused"
            elif r["T"] in ("OTHERPANIC", "ERR"):
                if cls != "Wrapped":
                    cls = "OtherPanic"
                why = (why + "; " if why else "") + "table construction: %s %s" % (r["T"], r["tmsg"][:200])
                if size_assert_class(r["tmsg"]):
                    why += (" — a width that cannot hold the state graph must be refused with the documented '%s', not by a bare "
                            "assertion of a constructor" % DOC_STATE_MSG)
            elif cls == "Same" and comparable(r) != comparable(ref):
                cls, why = "Wrapped", "accepted but table / parse transcript differs from the u32 build"
            elif cls == "Same" and any("panic" in p for p in r["P"]):
                cls, why = "OtherPanic", "parser panicked"
            if cls == "Same" and r["T"] == "OK":
                ex = extras_diff(ctx, r, ref, "release u%d" % w)
                if ex:
                    cls, why = ("OtherPanic" if any("panic" in e.lower() for e in ex) else "Wrapped"), "; ".join(ex[:3])
        # debug profile must behave like release
        dline = impl_d.get((i, w))
        if dline is not None and dline != line_r:
            dr = parse_impl(dline)
            if comparable(dr) != comparable(r) or dr["G"] != r["G"] or dr["T"] != r["T"]:
                if cls in ("Same", "Refused"):
                    cls, why = "OtherPanic", "debug and release profiles differ: debug=%s" % dline[:300]
                else:
                    why += "; debug=%s" % dline[:200]
            elif cls in ("Same", "Refused") and dr["T"] == "OK" and ref["T"] == "OK":
                ex = extras_diff(ctx, dr, ref, "debug u%d" % w)
                if ex:
                    cls, why = "OtherPanic", "debug profile: " + "; ".join(ex[:3])
        if r["raw"].startswith("HANG") or r["raw"].startswith("CRASH"):
            cls, why = "OtherPanic", r["raw"][:200]
        ctx.count("class_%s_w%d" % (cls, w))
        ctx.count("tag_%s" % c.tag)
        ctx.case("%s w%d" % (c.key(), w), bool(near), dict(base, outcome=cls))
        if cls in ("Wrapped", "OtherPanic", "NoReference"):
            nprop += 1
            band = m["go"] == "PASS" and m["gf"] != "PASS" and w in (8, 16) and not GUARDS_FIXED
            kk = KNOWN.get(m["gf"]) if band else None
            ctx.violation(dict(base, outcome=cls, why=why, boundary_class=m["gf"] if band else None,
                               true_sizes=dict(zip(["rules_len", "tokens_len", "prods_len", "eof", "start_prod", "max_prod_len", "states"], tv)),
                               authority="C20_guards_imply_no_wrap_refuted / C20_orig_extra_accepts_wrap (model) and the u32 build (reference)"),
                          known_key=kk)
        # ---- correspondence: mirror vs implementation ----
        bad = None
        if cls == "NoReference":
            bad = "no u32 reference"
        elif ref["G"] == "OK" and [int(ref["g"][x]) for x in ("rl", "tl", "pl", "eof", "sp", "mpl")] != tv[:6]:
            bad = "true sizes of the mirror differ from the u32 build"
        elif m["g"] != "PASS":
            if not (r["G"] == "REFUSED" and refusal_class(r["gmsg"]) == guard_message(m["g"])):
                bad = "mirror: grammar refused by %s; impl: %s %s" % (m["g"], r["G"], r["gmsg"][:80])
        else:
            if r["G"] != "OK":
                bad = "mirror: grammar accepted; impl: %s %s" % (r["G"], r["gmsg"][:80])
            else:
                got = [int(r["g"].get(x, -1)) for x in ("rl", "tl", "pl", "eof", "sp", "mpl")]
                if "LISTPANIC" in line_r.split(" | ")[0]:
                    got[5] = ov[5]
                if got != ov[:6]:
                    bad = "reported sizes %s differ from the mirror's %s" % (got, ov[:6])
                elif nowrap[0] == "1":
                    if m["s"] != "PASS":
                        if not (r["T"] == "REFUSED" and refusal_class(r["tmsg"]) == guard_message(m["s"])):
                            bad = "mirror: table refused by guard %s (message class %s); impl: %s %s" % (
                                m["s"], guard_message(m["s"]), r["T"], r["tmsg"][:80])
                    else:
                        # (Case grammars are one chain production + unreachable rules: the Pager merges nothing and gc
                        #  removes nothing, so pre-gc = post-gc = the u32 build's count and a refusal the mirror does not
                        #  predict is a guard that fires too early — all guards print the same text now, so the message
                        #  cannot tell them apart)
                        if r["T"] != "OK" or int(r["t"]["ns"]) != tv[6]:
                            bad = "mirror: table accepted with %d states; impl: %s %s" % (tv[6], r["T"], r.get("t", {}).get("ns"))
        if bad:
            ndiff += 1
            if cls not in ("Wrapped", "OtherPanic"):
                ctx.violation(dict(base, broken="correspondence C20 mirror vs implementation", difference=bad), no_input=True)
    ctx.oblige(ndiff == 0, "correspondence-grammar-table")

    # ---- lexer rule ids ----
    lex_cfg = [(n, 0) for n in [253, 254, 255, 256, 257, 258]] + [(n, k) for n in [255, 256, 257, 258] for k in (1, 2)] + \
              ([] if ctx.quick else [(n, k) for n in [65534, 65535, 65536, 65537] for k in (0, 1)])
    lex_ns = [n for n, _ in lex_cfg]
    ll = ["L %d %s" % (w, hx(lex_src(n, k))) for n, k in lex_cfg for w in WIDTHS]
    lex_r = core.run_lines([exe_r], ll, timeout=int(_tmo(3000000)) // 1000, env=env)
    # debug profile only for the 8-bit-sized lexers (65 k rules: the duplicate-name scan is quadratic)
    lex_d_small = core.run_lines([exe_d], [l for l, n in zip(ll, [n for n in lex_ns for w in WIDTHS]) if n < 1000], timeout=int(_tmo(3000000)) // 1000, env=env)
    it = iter(lex_d_small)
    lex_d = [next(it) if n < 1000 else None for n in lex_ns for w in WIDTHS]
    lm = core.run_lines([mexe], ["%d %d O 1 1 - 3 3 %d ; 1:0:1" % (1 if GUARDS_FIXED else 0, w, n) for n in lex_ns for w in WIDTHS], timeout=3000)
    nl = 0
    for k, (n, w) in enumerate([(n, w) for n in lex_ns for w in WIDTHS]):
        a, d, m = lex_r[k], lex_d[k], parse_kv(lm[k])
        ref = lex_r[(k // 3) * 3 + 2]
        base = {"lexer_rules": n, "unnamed_rules": ["none", "last", "every third"][lex_cfg[k // 3][1]], "width": w, "impl": a,
                "impl_u32": ref, "model": lm[k],
                "replay_cmd": "echo 'L %d <hex of %d rules>' | .work/target/release/c20" % (w, n)}
        kv = parse_kv(a)
        if a.startswith("L REFUSED"):
            cls = "Refused"
        elif a.startswith("L OK"):
            cls = "Same" if (a == ref and kv.get("n") == str(n) and kv.get("ids_are_positions") == "1") else "Wrapped"
        else:
            cls = "OtherPanic"
        if d is not None and a != d:
            cls = "OtherPanic"
        ctx.count("lex_%s_w%d" % (cls, w))
        ctx.case("L %d k%d w%d" % (n, lex_cfg[k // 3][1], w), abs(n - (1 << w)) <= 3, dict(base, outcome=cls))
        if cls in ("Wrapped", "OtherPanic"):
            ctx.violation(dict(base, outcome=cls, why="lexer rule ids wrapped / differ from u32 / debug differs: debug=%s" % (d or "")[:200]))
        exp_ok = m.get("l") == "PASS"
        mn, mmax, mpos = (m.get("lex", "0,0,0").split(",") + ["", "", ""])[:3]
        if exp_ok:
            good = a.startswith("L OK") and kv.get("n") == mn and kv.get("maxid") == mmax and kv.get("ids_are_positions") == mpos
        else:
            good = a.startswith("L REFUSED") and refusal_class(a) == "LEXRULE"
        if not good:
            nl += 1
            if cls not in ("Wrapped", "OtherPanic"):
                ctx.violation(dict(base, broken="correspondence C20 lexer mirror vs implementation"), no_input=True)
    ctx.oblige(nl == 0, "correspondence-lexer")

    n_sb = state_boundary_family(ctx, exe_r, exe_d, mexe)
    n_merge = merge_family(ctx, exe_r, exe_d)
    ded = dedicated_grammars(ctx)
    n_ded = recovery_family(ctx, exe_r, exe_d, [(n, src, ins, True) for n, src, ins in ded], "dedicated_rec")

    ctx.coverage["rule"] = (
        "grammars S(chain of c tokens)+unused rules/tokens/productions with ONE dimension (source rules, tokens, productions, symbols of "
        "a production [all-token, all-rule, Eco-doubling, mixed], LR states via chain length) at 2^w-6 … 2^w+1 for w=8 (all of "
        "{Original/NoAction, Grmtools, Eco, Eco+%implicit_tokens}) and w=16 (thorough: {Original, Eco+implicit}; quick: 11 configurations), "
        "plus random two-dimension mixes; each built with u8, u16, u32 storage in release and debug profile (big ones debug only in thorough), "
        "3 inputs parsed; lexers of 253…258 (thorough also 65534…65537) rules x 3 widths x 2 profiles. "
        "A case = (configuration, width); non-trivial = some count within [2^w-6, 2^w+1] of that width; distinct by configuration+width. "
        "Eco grammars use ONE implicit token (with >= 2 the numbering of `~` productions depends on HashMap order, cf. C15). "
        "Two-long-production configurations: a rule-heavy production that is longer in the source beside a token-heavy one that outgrows it "
        "after Eco's expansion (2^w/2 tokens -6…+1, and mixes). ") + (
        "Merge family: %d small LR(1)-not-LALR(1) grammars (gen.grammars not_lalr_template / not_lalr_multi / depth_merge_grammar / "
        "layered_grammar.reduced + the classic E/F shape in both declaration orders) x 3 widths with generated inputs; compared across widths: "
        "#sr, #rr conflicts, #states, accept+tree / first-error position per input (non-trivial: >= 8 states, an accepted and a rejected input)." % n_merge)
    ctx.coverage["rule"] += (
        " Per-state iterators: in every accepted build (boundary configurations, merge family, dedicated grammars) state_actions / "
        "state_shifts / core_reduces of every state are compared with the action() cells of that width. Error recovery: every boundary "
        "configuration's 3 inputs, the rejected inputs of the conflict-free merge-family grammars and %d dedicated grammars (one statement "
        "form per keyword / a keyword rule with 30-60 [thorough -200] keywords: u8 accepts, state index x tokens_len > 255; 300 keywords: "
        "u16 accepts, product > 65535) with 16+ erroneous inputs each are parsed with RecoveryKind::CPCTPlus in u8, u16, u32, release and "
        "debug; compared with the u32 release build: error positions, the sorted SET of repair sequences of each error up to the first "
        "error where a different member of the set was applied (counters rec_compare_same / _choice / _timeout), the value when all applied "
        "sequences agree; on non-isomorphic tables (merge family) only error positions." % n_ded)
    ctx.coverage["rule"] += (
        " State-count boundary: %d grammars (shapes `S: 't0' … 't{k-1}';` = k+2 states and the rule chain `R0: 'a' R1 | ; … R{m-1}: 'b';` "
        "= 2m+1 / 2m+2 states; 16-bit sizes: 63 tokens per link, about 1000 rules) with exactly 253, 254, 255, 256 (thorough also 65533 … 65536) states x 3 widths x 2 profiles: a width accepts "
        "iff states <= MAX-2 and then equals the u32 build; otherwise the panic text must be exactly '%s' (SIZE_ASSERT_FIXED=%s: a bare "
        "assertion failure is a violation)." % (n_sb, DOC_STATE_MSG, SIZE_ASSERT_FIXED))
    ctx.coverage["size_assert_variant_expected"] = "documented panic" if SIZE_ASSERT_FIXED else "bare asserts (before 394c6e3)"
    ctx.coverage["exhaustive"] = False
    ctx.coverage["guards_variant_expected"] = "fixed" if GUARDS_FIXED else "original"
    ctx.coverage["property_level_witnesses"] = nprop
    ctx.assumptions += [
        "state numbers are compared up to the canonical BFS renumbering (raw numbering follows FNV hash order of (PIdx<T>,SIdx<T>) keys and so legitimately depends on T)",
        "number of states before gc is not observable through the public API: the mirror is fed pre_gc = post_gc = states of the u32 build "
        "(exact for the boundary configurations: one chain production / a rule chain, nothing is merged or collected)",
        "refusal = panic message containing 'not big enough' (for a state-count guard exactly '%s'), or the lexer's try_from message; "
        "SIZE_ASSERT_FIXED=%s: a bare `assertion failed` of StateGraph::new / StateTable::new is %s" % (
            DOC_STATE_MSG, SIZE_ASSERT_FIXED, "a crash (OTHERPANIC -> VIOLATION)" if SIZE_ASSERT_FIXED else "counted as a refusal (tree before 394c6e3)"),
        "the SET of minimum-cost repair sequences CPCT+ offers for an error is a function of the table, the stack and the remaining input; "
        "the ORDER (hence repairs()[0], the applied one) is arbitrary (HashSet drain): errors after a differently chosen repair are not compared; "
        "a search that ends without repairs after >= 70%% of the %d ms budget counts as a timeout, not as a difference" % REC_BUDGET_MS,
        "usize is 64 bit (C20_cell_roundtrip needs width(usize) >= width(StorageT) + 2)",
        "same numbering / table contents / parse results across widths — what is a theorem and what is differential: in C01's construction mirror "
        "from_yacc_mirror the width is exactly the StorageT bound max_st plus the hash-order oracles. THEOREMS (Properties/C20.v, for every grammar, "
        "fuel and oracle): the bound occurs only in checks — with the SAME iteration orders a wider type builds the identical StateGraph and StateTable "
        "and a narrower one the identical ones or is refused by a StorageT size check (C20_construction_bound_monotone, _bound_only_refuses, "
        "_narrow_same_or_refused, C20_refusal_is_storage_check, C20_construction_sizes_fit); for LR(1) grammars, and whenever both runs report no "
        "conflict, ANY two successful runs (any bounds, any hash orders) give parsers with the same tree or the same first-error position on every "
        "input (C20_parse_results_width_independent(_total), _conflict_free_agree); for arbitrary grammars both parsers are sound "
        "(C20_parse_results_always_sound). DIFFERENTIAL ONLY: that the implementation's u8/u16/u32 builds are runs of that mirror under their own "
        "FNV hash orders (tied for u32 by C01/C02's trace replay, not per width here), table contents across the implementation's per-width hash "
        "orders (compared after canonical renumbering), parse results of conflict-resolved tables across widths (a resolved table may depend on the "
        "merge order, see the remark in theories/C20/PipelineSpec.v), and everything about the grammar object and the lexer beyond the size guards "
        "(transcript of an accepted u8/u16 build == transcript of the u32 build)",
        "boundary-size grammars have no weakly-compatible state merges, so their state graph is unique up to renumbering; for the merge family "
        "only renaming-invariant observations (conflict counts, state count, parse results) must agree — non-isomorphic tables are counted, not alarmed",
    ]
