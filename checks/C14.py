"""C14 — serialised grammars and tables come back observationally identical.

Proof (theories/C14): a model of wincode's byte format (both integer
encodings) with `decode (encode v ++ rest) = Some (v, rest)` for every value of
every well-formed schema, instantiated for the schemas that
tools/schema_of_rust.py reads off the Rust type definitions on every run
(`_reconstitute` returns what was serialised, never panics), soundness of the
decoder, canonicity for the fixed encoding, a refutation of canonicity for the
variable one and the exact remaining freedom (the writer's output is the unique
shortest).
Tie, per generated grammar x {fix,var} x {u8,u16,u32}:
 (1) the extracted decoder, driven by the GENERATED schema, must consume the
     implementation's bytes completely and re-encode them identically;
 (2) the decoded field values must equal what the public API answers;
 (3) — the property itself, decided per instance — every public query and a
     batch of parses on `_reconstitute(bytes)` must equal those on the originals.
"""
import importlib.util
import json
import os

from vlib import core
from gen import grammars as G

NAMES_JSON = os.path.join(core.WORK, "c14", "schema_names.json")
SCHEMA_V = os.path.join(core.COQ, "theories", "C14", "Schema_gen.v")


def _translator():
    spec = importlib.util.spec_from_file_location("schema_of_rust", os.path.join(core.VERIF, "tools", "schema_of_rust.py"))
    m = importlib.util.module_from_spec(spec)
    spec.loader.exec_module(m)
    return m


def pregen():
    """re-read the Rust definitions; regenerate Schema_gen.v (only rewritten when it changes)"""
    tr = _translator()
    try:
        coq, names, info = tr.translate(core.REPO)
    except tr.TranslationError as e:
        raise core.GateFailure("schema-translation",
                               "tools/schema_of_rust.py does not understand the Rust definitions any more: %s" % e)
    old = open(SCHEMA_V).read() if os.path.exists(SCHEMA_V) else None
    if old != coq + "\n":
        with open(SCHEMA_V, "w") as f:
            f.write(coq + "\n")
    os.makedirs(os.path.dirname(NAMES_JSON), exist_ok=True)
    with open(NAMES_JSON, "w") as f:
        json.dump({"names": names, "info": info}, f, indent=1)


# ------------------------------------------------------------------ grammars

NONASCII = ["é", "♠x", "日本", "ß+", "λ", "ü.ö", "→", "𝔸"]
ACTION_TXT = ["Ok(())", "/* ü♠ */ Ok(1)", "{ let s = \"é\"; Ok(s.len() as u64) }", "$1", "Err(())", "{ /* 日本 */ Ok(0) }"]
TYPES = ["Result<u64, ()>", "u64", "Vec<String>", "Option<(u8, &'input str)>", "Ré<'a>"]
# action bodies / programs / comments spanning several lines (rendered with LF, then re-rendered with other line endings)
ML_ACTION_TXT = ["\n    let x = 1;\n    Ok(x)\n", "// é line comment\n    Ok(())\n", "/* a\n   b ü */ Ok(2)",
                 "{\n\tlet s = \"a\nb\";\n\tOk(0)\n}", "Ok(\n1\n)", "\n\n$1\n\n", "Err(()) // t\n"]
ML_PROGRAMS = "// é helper\nfn helper() -> &'static str {\n    \"ü♠\n%s\"\n}\n\n/* block\n   comment */\nfn g() {}\n"
ML_COMMENTS = ["/* c1\n   c2 é */", "// lc ♠", "/*\n*/", "// a\n// b"]


def with_eol(rng, src, eol):
    """re-render the line ends of an LF source: crlf (Windows), cr (bare CR), mixed (each line end drawn from LF/CRLF/CR),
    crlf_body (LF everywhere except inside action bodies and the programs section — decided by the caller's markers)"""
    if eol in (None, "lf"):
        return src
    if eol == "crlf":
        return src.replace("\n", "\r\n")
    if eol == "cr":
        return src.replace("\n", "\r")
    if eol == "mixed":
        return "".join(rng.choice(["\n", "\r\n", "\r\n", "\r"]) if c == "\n" else c for c in src)
    if eol == "lfcr":
        return src.replace("\n", "\n\r")
    raise ValueError(eol)


class Opts:
    """which optional declarations are present"""
    KEYS = ["actions", "parse_param", "parse_generics", "epp", "avoid_insert", "expect", "expectrr", "prec",
            "programs", "nonascii", "actiontype"]

    def __init__(self, **kw):
        for k in self.KEYS:
            setattr(self, k, bool(kw.get(k, False)))

    def tag(self):
        return "".join("1" if getattr(self, k) else "0" for k in self.KEYS)


def render_rich(rng, g, kind, o, pad=0, multiline=False):
    """yacc source of abstract grammar g for yacc kind `kind` (G/U/O/N/E) with the optional
    declarations selected by o; returns (source, token rename map).  `multiline`: action bodies, the
    programs section and comments span several lines."""
    ren = {}
    for i, t in enumerate(g.tokens):
        ren[t] = (NONASCII[i % len(NONASCII)] + t) if (o.nonascii and i % 2 == 0) else t
    q = lambda t: "'%s'" % ren[t]
    out = []
    out.append("%%start %s" % g.start)
    precs = list(g.precs)
    if o.prec and not precs and g.tokens:
        precs = [(rng.choice(["left", "right", "nonassoc"]), [t]) for t in g.tokens[:2]]
    if not o.prec:
        precs = []
    for k_, toks in precs:
        out.append("%%%s %s" % (k_, " ".join(q(t) for t in toks)))
    used = g.used_tokens()
    if o.avoid_insert and used:
        out.append("%%avoid_insert %s" % " ".join(q(t) for t in used if rng.random() < 0.6 or t == used[0]))
    if o.epp:
        for t in used:
            if rng.random() < 0.7:
                out.append("%%epp %s \"%s\"" % (q(t), rng.choice(["plus é", "Ω", "tok %s" % t, "日本 語", "x"])))
    if o.expect:
        out.append("%%expect %d" % rng.choice([0, 1, 2, 7, 300]))
    if o.expectrr:
        out.append("%%expect-rr %d" % rng.choice([0, 1, 3, 70000]))
    if kind in "GU":
        if o.parse_param:
            out.append("%%parse-param %s: %s" % (rng.choice(["p", "ctx"]), rng.choice(["&'a u8", "&mut Vec<é>", "u64"])))
        if o.parse_generics:
            out.append("%%parse-generics %s" % rng.choice(["'a", "'a, T: Clone", "Ü"]))
    if kind == "U" and o.actiontype:
        out.append("%%actiontype %s" % rng.choice(TYPES))
    if kind == "E" and g.implicit:
        out.append("%%implicit_tokens %s" % " ".join(q(t) for t in g.implicit))
    if pad:
        out.append("/* %s */" % ("pad é " * (pad // 7)))
    out.append("%%")
    precpool = [t for _, toks in precs for t in toks]
    for n, ps in g.rules:
        alts = []
        for syms, prec in ps:
            s = " ".join(q(x) if k_ == 't' else x for k_, x in syms)
            if not syms and rng.random() < 0.5:
                s = "%empty"
            if o.prec and precpool and (prec in precpool or (prec is None and rng.random() < 0.15)):
                s += " %%prec %s" % q(prec if prec in precpool else rng.choice(precpool))
            if kind in "GU" and (o.actions or kind == "G"):
                if multiline and rng.random() < 0.75:
                    s += " {%s}" % rng.choice(ML_ACTION_TXT)
                else:
                    s += " { %s }" % rng.choice(ACTION_TXT)
            alts.append(s)
        if multiline and rng.random() < 0.6:
            out.append(rng.choice(ML_COMMENTS))
        if kind == "G":
            out.append("%s -> %s: %s;" % (n, rng.choice(TYPES), " | ".join(alts)))
        else:
            out.append("%s: %s;" % (n, " | ".join(alts)))
    if o.programs and multiline:
        out.append("%%")
        out.append(ML_PROGRAMS % ("x" * rng.randint(0, 40)))
    elif o.programs:
        out.append("%%")
        out.append("fn helper() -> &'static str { \"ü♠ %s\" }" % ("x" * rng.randint(0, 40)))
    return "\n".join(out) + "\n", ren


def wide_grammar(rng, ntoks, nrules):
    """many tokens / rules: indices beyond 250 (one-byte limit of the variable encoding) and,
    with u8 storage, beyond the storage type (then the grammar is refused)"""
    toks = ["t%d" % i for i in range(ntoks)]
    names = ["R%d" % i for i in range(nrules)]
    rules = [("S", [[('r', n)] for n in names])]
    per = max(1, ntoks // nrules)
    for i, n in enumerate(names):
        ts = toks[i * per:(i + 1) * per] or [toks[i % ntoks]]
        rules.append((n, [[('t', t)] for t in ts] + [[('t', ts[0]), ('r', n)]]))
    return G.Gram(toks, rules)


def gen_cases(ctx, n_random):
    rng = ctx.rng
    cases = []   # (label, kind, src, rename, gram, inputs)

    def add(label, g, kind, o, pad=0, n_inputs=6, eol=None, multiline=False):
        src, ren = render_rich(rng, g, kind, o, pad, multiline)
        src = with_eol(rng, src, eol)
        inputs = [[ren[t] for t in inp] for inp in G.inputs_for(rng, g, n_inputs)]
        cases.append((label, kind, src, o, g, inputs))

    all_on = Opts(**{k: True for k in Opts.KEYS})
    all_off = Opts()
    corpus = G.classic_corpus()
    for g in corpus:
        for kind in ("G", "U", "O", "N"):
            add("corpus_all_on", g, kind, all_on)
            add("corpus_all_off", g, kind, all_off)
    # each optional declaration alone, and all but one
    g0 = corpus[0]
    for k in Opts.KEYS:
        add("only_" + k, g0, "G", Opts(**{k: True}))
        add("only_" + k, g0, "U", Opts(**{k: True}))
        add("all_but_" + k, g0, "G", Opts(**{x: (x != k) for x in Opts.KEYS}))
        add("all_but_" + k, g0, "U", Opts(**{x: (x != k) for x in Opts.KEYS}))
    # line endings: multi-line action bodies, a multi-line programs section and comments, rendered with LF, CRLF
    # (a Windows checkout), bare CR, LF+CR and mixed line ends (text fields must come back byte for byte)
    with_code = Opts(**{k: True for k in Opts.KEYS})
    for gi, g in enumerate(corpus):
        for kind in ("G", "U"):
            add("eol_lf_multiline", g, kind, with_code, multiline=True)
            add("eol_crlf", g, kind, with_code, eol="crlf", multiline=True)
            add("eol_mixed", g, kind, with_code, eol="mixed", multiline=True)
        add("eol_cr", g, "GU"[gi % 2], with_code, eol="cr", multiline=True)
        add("eol_lfcr", g, "UG"[gi % 2], with_code, eol="lfcr", multiline=True)
        add("eol_crlf_single_line", g, "GU"[gi % 2], with_code, eol="crlf")
        add("eol_crlf", g, "ON"[gi % 2], Opts(programs=True, epp=True, prec=True), eol="crlf", multiline=True)
    add("eol_crlf", g0, "G", Opts(actions=True), eol="crlf", multiline=True)
    add("eol_crlf", g0, "U", Opts(programs=True), eol="crlf", multiline=True)
    add("eol_crlf_pad", g0, "G", with_code, pad=400, eol="crlf", multiline=True)
    # Eco kind with implicit tokens (implicit_rule is Some)
    ge = G.Gram(["a", "b", "w"], [("S", [[('t', 'a'), ('r', 'S')], [('t', 'b')]])], implicit=["w"])
    add("eco_implicit", ge, "E", all_off)
    add("eco_implicit", ge, "E", Opts(nonascii=True, epp=True, avoid_insert=True, expect=True))
    # offsets / lengths beyond one byte, two bytes (spans, string lengths): padded sources
    add("pad_300", g0, "G", all_on, pad=300)
    add("pad_70000", g0, "G", all_on, pad=70000)
    add("pad_70000", corpus[3], "U", all_on, pad=70000)
    # many tokens / rules / states
    add("wide_300_tokens", wide_grammar(rng, 300, 12), "O", Opts(avoid_insert=True, epp=True), n_inputs=3)
    add("wide_260_rules", wide_grammar(rng, 270, 260), "N", all_off, n_inputs=3)
    add("wide_64_tokens", wide_grammar(rng, 63, 7), "O", Opts(avoid_insert=True), n_inputs=3)   # + EOF = 64 tokens
    add("wide_128_tokens", wide_grammar(rng, 127, 8), "G", Opts(avoid_insert=True, nonascii=True), n_inputs=3)
    # accept-state shapes: the state holding [^ -> S ., $] also holds completed items of other rules / shifts (a derived
    # per-state view recomputed after reconstitution must treat Accept like the constructor does), and the rare shapes
    tt, rr = (lambda x: ('t', x)), (lambda x: ('r', x))
    for g in (G.Gram(["x", "y"], [("S", [[rr("T"), tt("x")], [tt("y")]]), ("T", [[rr("S")]])]),
              G.Gram(["x", "y"], [("S", [[rr("A")]]), ("A", [[rr("S"), tt("x")], [tt("y")]])]),
              G.Gram(["a", "b"], [("S", [[rr("S"), tt("a")], [tt("b")]])]),
              G.Gram(["x", "y", "z"], [("S", [[rr("T"), tt("x")], [rr("U"), tt("z")], [tt("y")]]), ("T", [[rr("S")]]), ("U", [[rr("S")]])])):
        add("accept_state_shape", g, "O", all_off, n_inputs=4)
        add("accept_state_shape", g, "N", all_off, n_inputs=2)
    for src, _, _ in G.rare_shape_corpus():
        add("rare_shapes", G.from_text(src), "O", all_off, n_inputs=3)
    # shapes on which a field RE-DERIVED at load time (instead of stored) would differ: a rule re-opened after another
    # rule (its productions are not numbered consecutively); a state completing two productions of one rule with
    # different lengths; both also with precedence-free conflicts
    for txt in ("%start A\n%%\nA: 'a';\nB: 'b';\nA: 'c' | 'd' A | B;\n",
                "%start S\n%%\nS: X 'x';\nX: 'p';\nY: 'q';\nX: 'r' Y;\nS: Y;\nY: 'q' 'q' X;\n",
                "%start S\n%%\nS: 'a' E 'x' | E 'y';\nE: 'a' 'b' | 'b';\n",
                "%start S\n%%\nS: 'a' E 'x' | E 'y' | 'c' E;\nE: 'a' 'b' 'b' | 'b' 'b' | 'b';\n"):
        g = G.from_text(txt)
        for kind in ("O", "G"):
            add("rederived_field_shapes", g, kind, all_off, n_inputs=3)
    fams = [("random", lambda: G.random_grammar(rng)),
            ("reduced", lambda: G.reduced_random_grammar(rng)),
            ("nullable", lambda: G.nullable_heavy(rng)),
            ("expr", lambda: G.expr_grammar(rng)),
            ("exprnoprec", lambda: G.expr_grammar(rng, with_prec=False)),
            ("notlalr", lambda: G.not_lalr_template(rng))]
    n = 0
    while n < n_random:
        name, f = rng.choices(fams, [2, 4, 3, 4, 1, 2])[0]
        g = f()
        if g is None:
            continue
        if g.derives_cycle():
            # a rule deriving just itself makes any Yacc-style parser loop (C07's domain): the parses
            # could not be compared.  Residual non-returning parses are resolved one side at a time below.
            ctx.count("skipped_cyclic")
            continue
        kind = rng.choice("GGUUON")
        o = Opts(**{k: rng.random() < 0.5 for k in Opts.KEYS})
        eol = rng.choice([None, None, None, "crlf", "crlf", "mixed", "cr"])
        add("random_" + name + ("_eol_" + eol if eol else ""), g, kind, o, pad=rng.choice([0, 0, 0, 120, 400]),
            eol=eol, multiline=rng.random() < 0.5)
        n += 1
    return cases


# ------------------------------------------------------------------ decoded values

def parse_value(s):
    """value dump of the OCaml driver -> python (ints, bytes, None, ('S',v), lists, tuples, ('E',i,v))"""
    pos = [0]

    def val():
        ch = s[pos[0]]
        if ch.isdigit():
            j = pos[0]
            while j < len(s) and s[j].isdigit():
                j += 1
            v = int(s[pos[0]:j])
            pos[0] = j
            return v
        if ch in "tf":
            pos[0] += 1
            return ch == "t"
        if ch == "x":
            j = pos[0] + 1
            while j < len(s) and s[j] in "0123456789abcdef":
                j += 1
            v = bytes.fromhex(s[pos[0] + 1:j])
            pos[0] = j
            return v
        if ch == "N":
            pos[0] += 1
            return None
        if ch == "O":
            pos[0] += 1
            return "OPAQUE"
        if ch == "S":
            pos[0] += 2
            v = val()
            assert s[pos[0]] == ")"
            pos[0] += 1
            return ("S", v)
        if ch == "E":
            j = pos[0] + 1
            while s[j].isdigit():
                j += 1
            i = int(s[pos[0] + 1:j])
            pos[0] = j + 1
            v = val()
            assert s[pos[0]] == ")"
            pos[0] += 1
            return ("E", i, v)
        if ch in "[(":
            close = "]" if ch == "[" else ")"
            pos[0] += 1
            items = []
            while s[pos[0]] != close:
                items.append(val())
                if s[pos[0]] == ",":
                    pos[0] += 1
            pos[0] += 1
            return items if ch == "[" else tuple(items)
        raise ValueError("value dump: unexpected %r at %d" % (ch, pos[0]))
    v = val()
    if pos[0] != len(s):
        raise ValueError("value dump: trailing text")
    return v


def named(v, n):
    """attach the translator's field names to a decoded value"""
    k = n["k"]
    if k == "struct":
        if not isinstance(v, tuple) or len(v) != len(n["fields"]):
            raise ValueError("struct %s: %d fields decoded, %d named" % (n["name"], len(v) if isinstance(v, tuple) else -1, len(n["fields"])))
        d = {fn: named(x, fnn) for x, (fn, fnn) in zip(v, n["fields"])}
        if list(d.keys()) == ["0"]:
            return d["0"]          # newtype
        return d
    if k == "tuple":
        return tuple(named(x, m) for x, m in zip(v, n["items"]))
    if k == "option":
        return None if v is None else named(v[1], n["of"])
    if k == "vec":
        return [named(x, n["of"]) for x in v]
    if k == "enum":
        vn, fields = n["variants"][v[1]]
        return (vn,) + tuple(named(x, m[1]) for x, m in zip(v[2], fields))
    return v


def bit(vob, k):
    return (vob["vec"][k // 64] >> (k % 64)) & 1


def txt(b):
    return "-" if b is None else "s" + b.hex()


def span(sp):
    return "-" if sp is None else "%d..%d" % (sp["start"], sp["end"])


ASSOC = {"Left": 0, "Right": 1, "Nonassoc": 2}


def prec(p):
    return "-" if p is None else "%d:%d" % (p["level"], ASSOC[p["kind"][0]])


def expected_from_decoded(gd, sd, nst):
    """API answers (transcript keys) predicted from the decoded fields alone"""
    e = {}
    nr, nt, np_ = gd["rules_len"], gd["tokens_len"], gd["prods_len"]
    e["g.rules_len"], e["g.tokens_len"], e["g.prods_len"] = str(nr), str(nt), str(np_)
    e["g.start_prod"] = str(gd["start_prod"])
    e["g.eof_token_idx"] = str(gd["eof_token_idx"])
    e["g.implicit_rule"] = "-" if gd["implicit_rule"] is None else str(gd["implicit_rule"])
    pp = gd["parse_param"]
    e["g.parse_param"] = "-" if pp is None else "%s,%s" % (txt(pp[0]), txt(pp[1]))
    e["g.parse_generics"] = txt(gd["parse_generics"])
    e["g.programs"] = txt(gd["programs"])
    e["g.expect"] = "-" if gd["expect"] is None else str(gd["expect"])
    e["g.expectrr"] = "-" if gd["expectrr"] is None else str(gd["expectrr"])
    def put(key, lst, i, f):
        # arrays shorter than the index range (e.g. no action slot for the start production):
        # the API panics there on both sides; nothing to predict
        if i < len(lst):
            e[key] = f(lst[i])

    for r in range(nr):
        put("g.rule.%d.name" % r, gd["rule_names"], r, lambda x: txt(x[0]))
        put("g.rule.%d.name_span" % r, gd["rule_names"], r, lambda x: span(x[1]))
        put("g.rule.%d.prods" % r, gd["rules_prods"], r, lambda x: ",".join(str(p) for p in x))
        put("g.rule.%d.actiontype" % r, gd["actiontypes"], r, txt)
    ai = gd["avoid_insert"]
    for t in range(nt):
        put("g.tok.%d.name" % t, gd["token_names"], t, lambda tn: "-" if tn is None else txt(tn[1]))
        put("g.tok.%d.span" % t, gd["token_names"], t, lambda tn: "-" if tn is None else span(tn[0]))
        put("g.tok.%d.prec" % t, gd["token_precs"], t, prec)
        put("g.tok.%d.epp" % t, gd["token_epp"], t, txt)
        if ai is None:
            e["g.tok.%d.avoid_insert" % t] = "0"
        elif t < ai["len"]:
            e["g.tok.%d.avoid_insert" % t] = str(bit(ai, t))
    for p in range(np_):
        put("g.prod.%d.syms" % p, gd["prods"], p,
            lambda x: ",".join(str(2 * s[1] + (1 if s[0] == "Rule" else 0)) for s in x))
        put("g.prod.%d.len" % p, gd["prods"], p, lambda x: str(len(x)))
        put("g.prod.%d.rule" % p, gd["prods_rules"], p, str)
        put("g.prod.%d.prec" % p, gd["prod_precs"], p, prec)
        put("g.prod.%d.action" % p, gd["actions"], p, txt)
        put("g.prod.%d.action_span" % p, gd["action_spans"], p, span)
        put("g.prod.%d.span" % p, gd["prod_spans"], p, span)
    e["s.start_state"] = str(sd["start_state"])
    snt, snp = sd["tokens_len"], sd["prods_len"]
    for s in range(nst):
        e["s.%d.state_actions" % s] = ",".join(str(t) for t in range(snt) if bit(sd["state_actions"], s * snt + t))
        e["s.%d.state_shifts" % s] = ",".join(str(t) for t in range(snt) if bit(sd["state_shifts"], s * snt + t))
        e["s.%d.core_reduces" % s] = ",".join(str(p) for p in range(snp) if bit(sd["core_reduces"], s * snp + p))
        e["s.%d.reduce_only" % s] = str(bit(sd["reduce_states"], s))
    c = sd["conflicts"]
    if c is None:
        e["s.conflicts"] = "-"
    else:
        e["s.conflicts~"] = "sr%d[%s]rr%d[%s]pp" % (
            len(c["shift_reduce"]), ",".join("%d:%d:%d" % x for x in c["shift_reduce"]),
            len(c["reduce_reduce"]), ",".join("%d:%d:%d:%d" % x for x in c["reduce_reduce"]))
    return e


def vob_lengths(gd, sd):
    ls = []
    if gd["avoid_insert"] is not None:
        ls.append(gd["avoid_insert"]["len"])
    for k in ("state_actions", "core_reduces", "state_shifts", "reduce_states"):
        ls.append(sd[k]["len"])
    ls.append(sd["actions"]["empties"]["len"])
    ls.append(sd["gotos"]["empties"]["len"])
    return ls


# ------------------------------------------------------------------ call sites in ctbuilder.rs

def ctbuilder_pairing():
    """The harness repeats the two call sites of ctbuilder.rs (serialise at build time, `_reconstitute`
    in generated code) instead of running them (they sit inside the code generator).  Read them back
    from the source: per SerialisationFormat the configuration used for writing, the one handed to
    `_reconstitute` by generated code, and the body of `_reconstitute`.  Returns (facts, problems)."""
    import re
    path = os.path.join(core.REPO, "lrpar/src/lib/ctbuilder.rs")
    src = open(path, encoding="utf-8").read()
    facts, problems, notes = {}, [], []
    for m in re.finditer(r"SerialisationFormat::(FixedSizeInteger|VariableSizedInteger)\s*=>\s*\{", src):
        depth, j = 1, m.end()
        while j < len(src) and depth:
            depth += {"{": 1, "}": -1}.get(src[j], 0)
            j += 1
        block = src[m.end():j - 1]
        encs = sorted(set(re.findall(r"with_(fixint|varint)_encoding\s*\(\)", block)))
        if "_reconstitute" in block:
            side = "read"
            ok = re.search(r"_reconstitute\s*\(\s*__GRM_DATA\s*,\s*__STABLE_DATA\s*,[^;{}]*Configuration::default\(\)\s*\.\s*with_\w+_encoding\(\)\s*\)", block)
        elif "serialize" in block:
            side = "write"
            ok = (re.search(r"Configuration::default\(\)\s*\.\s*with_\w+_encoding\(\)", block)
                  and re.search(r"config::serialize\s*\(\s*grm\s*,\s*config\s*\)", block)
                  and re.search(r"config::serialize\s*\(\s*stable\s*,\s*config\s*\)", block))
        else:
            continue
        facts.setdefault(m.group(1), {}).setdefault(side, []).append(encs)
        if not ok:
            notes.append("%s/%s: call site has a different shape from the one the harness repeats" % (m.group(1), side))
    want = {"FixedSizeInteger": ["fixint"], "VariableSizedInteger": ["varint"]}
    for fmt, enc in want.items():
        f = facts.get(fmt, {})
        if "write" not in f or "read" not in f:
            notes.append("%s: call sites not recognised" % fmt)
        elif f["write"] != [enc] or f["read"] != [enc]:
            # a definite disagreement between what is written and what generated code reads back
            problems.append("%s: written with %s, read back with %s (the harness uses %s for both)"
                            % (fmt, f["write"], f["read"], enc))
    m = re.search(r"pub fn _reconstitute\b.*?\n\}", src, re.S)
    body = m.group(0) if m else ""
    if not (re.search(r"deserialize_from\s*\(\s*grm_buf\s*,\s*config\s*\)\s*\.unwrap\(\)", body)
            and re.search(r"deserialize_from\s*\(\s*stable_buf\s*,\s*config\s*\)\s*\.unwrap\(\)", body)):
        notes.append("_reconstitute is not literally `deserialize_from(buf, config).unwrap()` for both buffers (it is CALLED by the harness, so this is informational)")
    facts["notes"] = notes
    return facts, problems


# ------------------------------------------------------------------ transcripts

def parse_transcript(out):
    secs = out.split(" # ")
    d = {"raw0": secs[0], "O": {}, "R": {}, "DIFF": [], "okeys": [], "rkeys": []}
    for s in secs:
        if s.startswith("BG "):
            d["BG"] = s[3:]
        elif s.startswith("BS "):
            d["BS"] = s[3:]
        elif s.startswith("NST "):
            d["NST"] = int(s[4:])
        elif s.startswith("O "):
            k, _, v = s[2:].partition(" ")
            d["O"][k] = v
            d["okeys"].append(k)
        elif s.startswith("R "):
            k, _, v = s[2:].partition(" ")
            d["R"][k] = v
            d["rkeys"].append(k)
        elif s.startswith("DIFF ") or s.startswith("RECONPANIC"):
            d["DIFF"].append(s)
    return d


def resolve_hangs(ctx, exe, cases, idx, parsed):
    """A case whose transcript did not come back (a parse that does not return: the plain LR loop can
    repeat an epsilon reduction for ever on tables with resolved conflicts — C07's subject) is redone:
    once without inputs (all queries), then every input separately on the originals only and on the
    reconstituted objects only.  'Does not return' is an answer like any other: it must be the same
    on both sides."""
    todo = [li for li, d in enumerate(parsed) if d["raw0"].split()[:1] in (["HANG"], ["CRASH"])]
    if not todo:
        return
    relines, ref = [], []
    for li in todo:
        ci, w, e = idx[li]
        label, kind, src, o, g, inputs = cases[ci]
        head = "%s %s %s %s" % (kind, src.encode().hex(), w, e)
        relines.append(head)
        ref.append((li, None, None))
        for ii, inp in enumerate(inputs):
            toks = " ".join(t.encode().hex() for t in inp)
            for side in "or":
                relines.append("%s %s ; %s" % (head, side, toks))
                ref.append((li, ii, side))
    outs = core.run_lines([exe], relines, env={"GVH_CASE_TIMEOUT_MS": "4000"})
    merged = {}
    for (li, ii, side), out in zip(ref, outs):
        if ii is None:
            merged[li] = parse_transcript(out)
            continue
        d = merged[li]
        if "BG" not in d:
            continue
        if out.split()[:1] in (["HANG"], ["CRASH"]):
            val = "DOES-NOT-RETURN"
        else:
            t = parse_transcript(out)
            d["DIFF"] += [x for x in t["DIFF"] if x not in d["DIFF"]]
            val = (t["O"] if side == "o" else t["R"]).get("parse.0", "INPUT-DROPPED")
        key = "parse.%d" % ii
        if side == "o":
            d["O"][key] = val
            d["okeys"].append(key)
        else:
            d["R"][key] = val
            d["rkeys"].append(key)
            if d["O"].get(key) == "DOES-NOT-RETURN" and val == "DOES-NOT-RETURN":
                ctx.count("parse_does_not_return_on_both")
    for li in todo:
        parsed[li] = merged[li]
        ctx.count("case_redone_after_hang")


# ------------------------------------------------------------------ the check

def run(ctx):
    gate_err = None
    try:
        ctx.gate = core.proof_gate("C14", pregen=pregen)
        for _ in ctx.gate["theorems"]:
            ctx.oblige(True)
    except core.GateFailure as g:
        # the translation or the proof no longer checks (the Rust definitions use something the translator does not
        # model, or the generated schema is not well-formed): still search for a failing input, then report the
        # broken gate.  Without a usable schema only the observational part runs (every query and every parse on the
        # originals vs the reconstituted objects), which needs no model.
        gate_err = g
    with_model = gate_err is None or (gate_err.what != "schema-translation" and os.path.exists(NAMES_JSON))
    try:
        differential(ctx, with_model)
    except core.GateFailure:
        if gate_err is None:
            raise
    if gate_err is not None:
        raise gate_err


def differential(ctx, with_model=True):
    if with_model:
        meta = json.load(open(NAMES_JSON))
        names, info = meta["names"], meta["info"]
        mexe = core.build_model("c14")
    else:
        names, info, mexe = {}, {"versions": None, "notes": "schema translation failed: observational part only", "digest": {}}, None
    exe = core.build_harness("c14")
    cases = gen_cases(ctx, ctx.n(70, 1200))
    confs = [(w, e) for w in ("8", "16", "32") for e in ("fix", "var")]
    lines, idx = [], []
    for ci, (label, kind, src, o, g, inputs) in enumerate(cases):
        tail = "".join(" ; " + " ".join(t.encode().hex() for t in inp) for inp in inputs)
        for w, e in confs:
            lines.append("%s %s %s %s%s" % (kind, src.encode().hex(), w, e, tail))
            idx.append((ci, w, e))
    impl = core.run_lines([exe], lines)
    parsed = [parse_transcript(out) for out in impl]
    resolve_hangs(ctx, exe, cases, idx, parsed)
    # model side: decode both blobs of every case that produced bytes
    mlines, mref = [], []
    for li, d in enumerate(parsed):
        if with_model and "BG" in d and "BS" in d:
            ci, w, e = idx[li]
            mlines.append("G %s %s %s" % (w, e, d["BG"] or "-"))
            mref.append((li, "G"))
            mlines.append("S %s %s %s" % (w, e, d["BS"] or "-"))
            mref.append((li, "S"))
    mout = core.run_lines([mexe], mlines) if with_model else []
    model = {}
    for (li, which), o in zip(mref, mout):
        model[(li, which)] = o
    n_corr_bad = 0
    n_diff = 0
    vob_mod = {"multiple_of_64": 0, "not_multiple_of_64": 0}
    for li, d in enumerate(parsed):
        ci, w, e = idx[li]
        label, kind, src, o, g, inputs = cases[ci]
        conf = "%s/%s" % (w, e)
        base = {"grammar": src if len(src) < 4000 else src[:1500] + "...(%d bytes)" % len(src), "yacckind": kind,
                "storage_width": int(w), "encoding": e, "options": o.tag(), "case": label,
                "case_line": lines[li] if len(lines[li]) < 30000 else "(long: kind hex(source) width enc ; hex token names ...)",
                "replay_cmd": "echo \"$case_line\" | .work/target/release/c14   # sections: O = originals, R = reconstituted, DIFF = differences"}
        if "BG" not in d:
            head = d["raw0"].split()[0] if d["raw0"] else "EMPTY"
            ctx.count("not_built_%s_w%s" % (head, w))
            if head in ("BUILDPANIC", "SERERR", "HANG", "CRASH", "BADCASE", "EMPTY"):
                if head == "BUILDPANIC" and w == "8":
                    continue        # storage type too small for the grammar: outside the property's domain
                if head == "SERERR":
                    # serialize returned Err: ctbuilder propagates it (`?`), no parser is generated
                    ctx.count("serialize_err")
                    continue
                ctx.violation(dict(base, what="harness did not produce a transcript", impl=d["raw0"][:400]), no_input=True)
                ctx.oblige(False)
            continue
        ctx.count("built_w%s_%s" % (w, e))
        ctx.count("kind_" + kind)
        # ---- (3) the property, per instance
        diffs = list(d["DIFF"])
        if d["okeys"] != d["rkeys"] and not diffs:
            diffs.append("DIFF query lists differ")
        for k in d["okeys"]:
            if k in d["R"] and d["O"][k] != d["R"][k] and not any(x.startswith("DIFF %s " % k) for x in diffs):
                diffs.append("DIFF %s orig=%s recon=%s" % (k, d["O"][k], d["R"][k]))
        if diffs:
            n_diff += 1
            ctx.violation(dict(base, what="the reconstituted grammar/table answers differently from the originals",
                               differing_queries=[x[:300] for x in diffs[:8]], number_differing=len(diffs)))
        # ---- (1) model decodes the implementation's bytes completely and re-encodes them identically
        problems = []
        dec = {}
        for which, nm in ((("G", "YaccGrammar"), ("S", "StateTable")) if with_model else ()):
            mo = model.get((li, which), "MISSING")
            if not mo.startswith("OK "):
                problems.append("%s: extracted decoder rejects the implementation's bytes (%s)" % (nm, mo[:60]))
                continue
            head, _, vtxt = mo.partition(" V ")
            f = dict(x.split("=") for x in head.split()[1:])
            if f["rest"] != "0":
                problems.append("%s: %s bytes left over after decoding under the generated schema" % (nm, f["rest"]))
            if f["reenc"] != "same":
                problems.append("%s: re-encoding the decoded value differs from the implementation's bytes (%s)" % (nm, f["reenc"]))
            if f["wf"] != "1":
                problems.append("%s: generated schema is not well-formed" % nm)
            try:
                dec[which] = named(parse_value(vtxt), names[nm])
            except Exception as ex:        # noqa
                problems.append("%s: decoded value does not fit the translator's field tree: %s" % (nm, ex))
        # ---- (2) decoded fields vs API answers on the ORIGINALS
        if "G" in dec and "S" in dec and not problems:
            try:
                exp = expected_from_decoded(dec["G"], dec["S"], d["NST"])
                for k, v in exp.items():
                    if k.endswith("~"):
                        got = d["O"].get(k[:-1], "<absent>")
                        if not got.startswith(v):
                            problems.append("decoded field vs API: %s: decoded %s, API %s" % (k[:-1], v[:80], got[:80]))
                    elif d["O"].get(k, "<absent>") != v:
                        problems.append("decoded field vs API: %s: decoded %s, API %s" % (k, v[:80], d["O"].get(k, "<absent>")[:80]))
                ctx.coverage["decoded_fields_compared"] = ctx.coverage.get("decoded_fields_compared", 0) + len(exp)
                for l_ in vob_lengths(dec["G"], dec["S"]):
                    vob_mod["multiple_of_64" if l_ % 64 == 0 else "not_multiple_of_64"] += 1
            except Exception as ex:        # noqa
                problems.append("decoded value cannot be interpreted with the translator's field names: %r" % ex)
        if problems:
            n_corr_bad += 1
            if not diffs:
                ctx.violation(dict(base, what="model/implementation correspondence broken, no differing query found",
                                   problems=problems[:8],
                                   broken_correspondence="C14.Run.run_case (decode/encode under Schema_gen) vs wincode's writer; "
                                                         "C14_grammar_reconstitute / C14_table_reconstitute no longer apply to these bytes",
                                   grammar_bytes=d["BG"][:400], table_bytes=d["BS"][:400]), no_input=True)
        ctx.oblige(not diffs and not problems)
        nparse_acc = sum(1 for k, v in d["O"].items() if k.startswith("parse.") and "val:-" not in v and ";nerr=0" in v)
        nparse_rej = sum(1 for k, v in d["O"].items() if k.startswith("parse.") and ";nerr=0" not in v)
        nontriv = d["NST"] >= 4 and (nparse_acc > 0) and (o.tag().count("1") > 0 or kind in "GU")
        ctx.count("options_%d" % o.tag().count("1"))
        ctx.count("states_%s" % ("<4" if d["NST"] < 4 else "4-15" if d["NST"] < 16 else "16-250" if d["NST"] <= 250 else ">250"))
        ctx.coverage["queries_compared"] = ctx.coverage.get("queries_compared", 0) + len(d["okeys"])
        ctx.coverage["parses_compared"] = ctx.coverage.get("parses_compared", 0) + nparse_acc + nparse_rej
        ctx.coverage["bytes_decoded"] = ctx.coverage.get("bytes_decoded", 0) + (len(d["BG"]) + len(d["BS"])) // 2
        ctx.case("%s|%s|%s|%s" % (kind, src, w, e), nontriv,
                 {"case": label, "yacckind": kind, "options(%s)" % ",".join(Opts.KEYS): o.tag(), "width": w, "encoding": e,
                  "states": d["NST"], "grammar_bytes": len(d["BG"]) // 2, "table_bytes": len(d["BS"]) // 2,
                  "queries": len(d["okeys"]), "parses": nparse_acc + nparse_rej, "grammar": src[:300]})
    facts, pproblems = ctbuilder_pairing()
    ctx.coverage["ctbuilder_call_sites"] = facts
    if pproblems:
        ctx.violation({"what": "the build-time / start-up call sites in lrpar/src/lib/ctbuilder.rs are no longer the ones the harness "
                               "repeats (the format written need not be the format read back)", "problems": pproblems,
                       "call_sites": facts}, no_input=True)
    ctx.oblige(not pproblems, "ctbuilder call sites")
    ctx.oblige(n_diff == 0, "no query differs")
    ctx.oblige(n_corr_bad == 0, "decoder correspondence")
    ctx.coverage["bit_vector_lengths"] = vob_mod
    ctx.coverage["schema_translation"] = {"crate_versions": info["versions"], "notes": info["notes"],
                                          "types": {k: v for k, v in info["digest"].items()}}
    ctx.coverage["rule"] = (
        "grammars: classic corpus x yacc kinds {Grmtools, Original(UserAction), Original(GenericParseTree), Original(NoAction)} "
        "with all optional declarations present / absent; each declaration alone and each one missing "
        "(actions, %parse-param, %parse-generics, %epp, %avoid_insert, %expect, %expect-rr, %left/%right/%nonassoc + %prec, programs section, "
        "non-ASCII token names/action text/types, %actiontype); corpus x {Grmtools, UserAction} with multi-line action bodies, multi-line programs "
        "section and multi-line comments under LF / CRLF / bare CR / LF+CR / mixed line ends (and a third of the random grammars); "
        "Eco with %implicit_tokens; sources padded beyond 250 and 65535 bytes "
        "(spans and lengths in every varint class that can occur); grammars with 64/128/301 tokens and 261 rules; random grammars of the "
        "LR families with random option subsets.  Each x {fix,var} x {u8,u16,u32}.  Inputs: sentences, near-sentences, random strings, "
        "the empty input.  Non-trivial = >= 4 states, an accepted input, and a user-action kind or an optional declaration; distinct by "
        "(kind, source, width, encoding)")
    ctx.coverage["exhaustive"] = False
    ctx.coverage["trusted_base_extra"] = [
        "tools/schema_of_rust.py (regex-level reader of the listed Rust definitions; fails on anything it does not understand); its "
        "reading of wincode-derive (fields in declaration order, variant index as u32 tag) is validated per case by the byte-exact "
        "decode/re-encode of the implementation's output under the generated schema",
        "the argument 'same fields => same answers' (YaccGrammar/StateTable are plain data: no interior mutability, no field outside the "
        "derive) is read off the sources, and backed per instance by the direct comparison of all public queries",
    ]
    ctx.assumptions += [
        "64-bit little-endian target (usize travels as u64; try_into on read never fails)",
        "sequences stay below wincode's preallocation limit (4 MiB per container): beyond it wincode::serialize returns Err, "
        "ctbuilder propagates it and no parser is generated (a loud build failure, not a silent difference)",
        "strings are byte lists with a length prefix in the model; UTF-8 validation on read (String::from_utf8) is outside the model "
        "— the writer only ever emits the bytes of a valid String",
        "storage types too small for a grammar (u8 with > 255 tokens/rules/productions/states) make construction fail before "
        "serialisation; such cases are outside the property",
        "parses compared with RecoveryKind::None only (CPCT+ is time-bounded, its repair lists are not deterministic under load)",
    ]
