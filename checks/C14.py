"""C14 — serialised grammars and tables come back observationally identical.

Proof (theories/C14): a model of wincode's byte format (both integer
encodings) with `decode (encode v ++ rest) = Some (v, rest)` for every value of
every well-formed schema, instantiated for the schemas that
tools/schema_of_rust.py reads off the Rust type definitions on every run
(`_reconstitute` returns what was serialised, never panics), soundness of the
decoder, canonicity for the fixed encoding, a refutation of canonicity for the
variable one and the exact remaining freedom (the writer's output is the unique
shortest).
Tie, per generated grammar x {fix,var} x {u8,u16,u32}:
 (1) the extracted decoder, driven by the GENERATED schema, must consume the
     implementation's bytes completely and re-encode them identically;
 (2) the decoded field values must equal what the public API answers;
 (3) — the property itself, decided per instance — every public query and a
     batch of parses on `_reconstitute(bytes)` must equal those on the originals.
The two wincode configurations the harness uses are the expressions of ctbuilder.rs itself
(vlib/ctconfig.py copies them from the source into harness/src/c14_config.rs before the build).

Size limit (LIMIT_FIXED).  Until /repo 40b4e42 both configurations kept wincode's default 4 MiB
"preallocation size limit": any single sequence above it (a states x productions bit vector, a programs
section of 4 MiB + 1 bytes, > 104 857 tokens) made `serialize` return Err — `CTParserBuilder::build`
failed in both formats for grammars whose counts all fit the storage type.  The model's `decode` has no
limit (= the code now); `decode_limited` is the reader of a configuration with one, proved to be exactly
`decode` restricted to values all of whose sequences pass the size check (C14_decode_limited_exact), equal
to it below the limit (C14_decode_limited_agrees_below_limit) and refuted for the round trip above it
(C14_codec_roundtrip_limited_refuted).  LIMIT_FIXED = True: a serialisation error is a violation, the
family `big_*` (one sequence just above 4 MiB) must round-trip like every other case.  LIMIT_FIXED = False
(the old configurations): the build must fail EXACTLY when `decode_limited 4 MiB mem_size` refuses the bytes
the unlimited writer produces (C14_limited_build_fails_iff); those failures are the known-finding class.
"""
import importlib.util
import json
import os
import re
import zlib

from vlib import core, ctconfig
from gen import grammars as G

# True:  /repo's ctbuilder.rs configurations have no preallocation size limit (40b4e42): the correspondence is with `decode`,
#        a serialisation error is a violation.
# False: the configurations keep wincode's default 4 MiB limit: a build error is expected exactly when the model's
#        `decode_limited` refuses the (unlimited) bytes, and is matched as the known-finding class K_LIMIT.
LIMIT_FIXED = True
# development aid (tools/scratch_eval.sh runs): GV_C14_LIMIT_FIXED=1/0 overrides the flag for one process
if os.environ.get("GV_C14_LIMIT_FIXED") in ("0", "1"):
    LIMIT_FIXED = os.environ["GV_C14_LIMIT_FIXED"] == "1"
K_LIMIT = "wincode preallocation size limit: a single sequence above 4 MiB makes CTParserBuilder::build fail in both formats"
PREALLOC_LIMIT = 4 << 20

NAMES_JSON = os.path.join(core.WORK, "c14", "schema_names.json")
SCHEMA_V = os.path.join(core.COQ, "theories", "C14", "Schema_gen.v")


def _translator():
    spec = importlib.util.spec_from_file_location("schema_of_rust", os.path.join(core.VERIF, "tools", "schema_of_rust.py"))
    m = importlib.util.module_from_spec(spec)
    spec.loader.exec_module(m)
    return m


def pregen():
    """re-read the Rust definitions; regenerate Schema_gen.v (only rewritten when it changes)"""
    tr = _translator()
    try:
        coq, names, info = tr.translate(core.REPO)
    except tr.TranslationError as e:
        raise core.GateFailure("schema-translation",
                               "tools/schema_of_rust.py does not understand the Rust definitions any more: %s" % e)
    old = open(SCHEMA_V).read() if os.path.exists(SCHEMA_V) else None
    if old != coq + "\n":
        with open(SCHEMA_V, "w") as f:
            f.write(coq + "\n")
    os.makedirs(os.path.dirname(NAMES_JSON), exist_ok=True)
    with open(NAMES_JSON, "w") as f:
        json.dump({"names": names, "info": info}, f, indent=1)


# ------------------------------------------------------------------ grammars

NONASCII = ["é", "♠x", "日本", "ß+", "λ", "ü.ö", "→", "𝔸"]
ACTION_TXT = ["Ok(())", "/* ü♠ */ Ok(1)", "{ let s = \"é\"; Ok(s.len() as u64) }", "$1", "Err(())", "{ /* 日本 */ Ok(0) }"]
TYPES = ["Result<u64, ()>", "u64", "Vec<String>", "Option<(u8, &'input str)>", "Ré<'a>"]
# action bodies / programs / comments spanning several lines (rendered with LF, then re-rendered with other line endings)
ML_ACTION_TXT = ["\n    let x = 1;\n    Ok(x)\n", "// é line comment\n    Ok(())\n", "/* a\n   b ü */ Ok(2)",
                 "{\n\tlet s = \"a\nb\";\n\tOk(0)\n}", "Ok(\n1\n)", "\n\n$1\n\n", "Err(()) // t\n"]
ML_PROGRAMS = "// é helper\nfn helper() -> &'static str {\n    \"ü♠\n%s\"\n}\n\n/* block\n   comment */\nfn g() {}\n"
ML_COMMENTS = ["/* c1\n   c2 é */", "// lc ♠", "/*\n*/", "// a\n// b"]


def with_eol(rng, src, eol):
    """re-render the line ends of an LF source: crlf (Windows), cr (bare CR), mixed (each line end drawn from LF/CRLF/CR),
    crlf_body (LF everywhere except inside action bodies and the programs section — decided by the caller's markers)"""
    if eol in (None, "lf"):
        return src
    if eol == "crlf":
        return src.replace("\n", "\r\n")
    if eol == "cr":
        return src.replace("\n", "\r")
    if eol == "mixed":
        return "".join(rng.choice(["\n", "\r\n", "\r\n", "\r"]) if c == "\n" else c for c in src)
    if eol == "lfcr":
        return src.replace("\n", "\n\r")
    raise ValueError(eol)


class Opts:
    """which optional declarations are present"""
    KEYS = ["actions", "parse_param", "parse_generics", "epp", "avoid_insert", "expect", "expectrr", "prec",
            "programs", "nonascii", "actiontype"]

    def __init__(self, **kw):
        for k in self.KEYS:
            setattr(self, k, bool(kw.get(k, False)))

    def tag(self):
        return "".join("1" if getattr(self, k) else "0" for k in self.KEYS)


def render_rich(rng, g, kind, o, pad=0, multiline=False):
    """yacc source of abstract grammar g for yacc kind `kind` (G/U/O/N/E) with the optional
    declarations selected by o; returns (source, token rename map).  `multiline`: action bodies, the
    programs section and comments span several lines."""
    ren = {}
    for i, t in enumerate(g.tokens):
        ren[t] = (NONASCII[i % len(NONASCII)] + t) if (o.nonascii and i % 2 == 0) else t
    q = lambda t: "'%s'" % ren[t]
    out = []
    out.append("%%start %s" % g.start)
    precs = list(g.precs)
    if o.prec and not precs and g.tokens:
        precs = [(rng.choice(["left", "right", "nonassoc"]), [t]) for t in g.tokens[:2]]
    if not o.prec:
        precs = []
    for k_, toks in precs:
        out.append("%%%s %s" % (k_, " ".join(q(t) for t in toks)))
    used = g.used_tokens()
    if o.avoid_insert and used:
        out.append("%%avoid_insert %s" % " ".join(q(t) for t in used if rng.random() < 0.6 or t == used[0]))
    if o.epp:
        for t in used:
            if rng.random() < 0.7:
                out.append("%%epp %s \"%s\"" % (q(t), rng.choice(["plus é", "Ω", "tok %s" % t, "日本 語", "x"])))
    if o.expect:
        out.append("%%expect %d" % rng.choice([0, 1, 2, 7, 300]))
    if o.expectrr:
        out.append("%%expect-rr %d" % rng.choice([0, 1, 3, 70000]))
    if kind in "GU":
        if o.parse_param:
            out.append("%%parse-param %s: %s" % (rng.choice(["p", "ctx"]), rng.choice(["&'a u8", "&mut Vec<é>", "u64"])))
        if o.parse_generics:
            out.append("%%parse-generics %s" % rng.choice(["'a", "'a, T: Clone", "Ü"]))
    if kind == "U" and o.actiontype:
        out.append("%%actiontype %s" % rng.choice(TYPES))
    if kind == "E" and g.implicit:
        out.append("%%implicit_tokens %s" % " ".join(q(t) for t in g.implicit))
    if pad:
        out.append("/* %s */" % ("pad é " * (pad // 7)))
    out.append("%%")
    precpool = [t for _, toks in precs for t in toks]
    for n, ps in g.rules:
        alts = []
        for syms, prec in ps:
            s = " ".join(q(x) if k_ == 't' else x for k_, x in syms)
            if not syms and rng.random() < 0.5:
                s = "%empty"
            if o.prec and precpool and (prec in precpool or (prec is None and rng.random() < 0.15)):
                s += " %%prec %s" % q(prec if prec in precpool else rng.choice(precpool))
            if kind in "GU" and (o.actions or kind == "G"):
                if multiline and rng.random() < 0.75:
                    s += " {%s}" % rng.choice(ML_ACTION_TXT)
                else:
                    s += " { %s }" % rng.choice(ACTION_TXT)
            alts.append(s)
        if multiline and rng.random() < 0.6:
            out.append(rng.choice(ML_COMMENTS))
        if kind == "G":
            out.append("%s -> %s: %s;" % (n, rng.choice(TYPES), " | ".join(alts)))
        else:
            out.append("%s: %s;" % (n, " | ".join(alts)))
    if o.programs and multiline:
        out.append("%%")
        out.append(ML_PROGRAMS % ("x" * rng.randint(0, 40)))
    elif o.programs:
        out.append("%%")
        out.append("fn helper() -> &'static str { \"ü♠ %s\" }" % ("x" * rng.randint(0, 40)))
    return "\n".join(out) + "\n", ren


def wide_grammar(rng, ntoks, nrules):
    """many tokens / rules: indices beyond 250 (one-byte limit of the variable encoding) and,
    with u8 storage, beyond the storage type (then the grammar is refused)"""
    toks = ["t%d" % i for i in range(ntoks)]
    names = ["R%d" % i for i in range(nrules)]
    rules = [("S", [[('r', n)] for n in names])]
    per = max(1, ntoks // nrules)
    for i, n in enumerate(names):
        ts = toks[i * per:(i + 1) * per] or [toks[i % ntoks]]
        rules.append((n, [[('t', t)] for t in ts] + [[('t', ts[0]), ('r', n)]]))
    return G.Gram(toks, rules)


# ------------------------------------------------------------------ one sequence around wincode's old 4 MiB limit

def chain_grammar(n, extra_tokens=0):
    """`A0: 'a' A1 | 'b'; ... A{n-1}: 'b';` — conflict-free, 3 states and 2 productions per rule; plus declared, unused tokens"""
    decl = "".join("%%token %s\n" % " ".join("t%d" % i for i in range(k, min(k + 1000, extra_tokens)))
                   for k in range(0, extra_tokens, 1000))
    return ("%start A0\n" + decl + "%%\n" + "".join("A%d: 'a' A%d | 'b';\n" % (i, i + 1) for i in range(n - 1))
            + "A%d: 'b';\n" % (n - 1))


def big_source(label):
    """(yacc kind, source, inputs as token-name lists, what is big) of a member of the `big_*` family"""
    L = PREALLOC_LIMIT
    if label.startswith("big_programs"):
        # a programs section of exactly `size` bytes (a String is a sequence of u8: the limit counted its bytes)
        size = L + 1 if label.endswith("_above") else L
        head, tail = 'const X: &str = "', '";'
        return "U", "%start S\n%%\nS: 'a' S | 'b';\n%%\n" + head + "x" * (size - len(head) - len(tail)) + tail, \
            [["a", "a", "b"], ["b"], []], "programs section of %d bytes" % size
    if label == "big_action_above":
        head, tail = "/*", "*/ 1"
        return "U", "%start S\n%actiontype u64\n%%\nS: 'a' S {" + head + "y" * (L + 1 - len(head) - len(tail)) + tail \
            + "} | 'b' { 2 };\n", [["a", "a", "b"], ["b"], ["a"]], "one action of %d bytes" % (L + 1)
    if label == "big_core_reduces_above":
        # the auditor's input: 7200 states x 4800 productions = 34 560 000 bits = 4 320 000 bytes in ONE Vec<u64>
        return "O", chain_grammar(2400), [["a", "a", "b"], ["b"], ["a", "a"]], "core_reduces: 7200 states x 4800 productions bits"
    if label == "big_core_reduces_below":
        return "O", chain_grammar(2350), [["a", "a", "b"], ["b"]], "core_reduces: 7050 states x 4700 productions bits (just below)"
    if label == "big_state_actions_above":
        # 65534 declared tokens (+ EOF = 65535, the most u16 can index) x 537 states = 35 192 295 bits
        return "O", chain_grammar(179, extra_tokens=65532), [["a", "a", "b"], ["b"], ["t7"]], "state_actions/state_shifts: 537 states x 65535 tokens bits"
    if label == "big_token_names_above":
        # 104 859 tokens x 40 bytes (Option<(Span, String)>) = 4 194 360 bytes
        return "O", chain_grammar(2, extra_tokens=104856), [["a", "b"], ["b"]], "token_names: 104 859 elements of 40 bytes"
    raise ValueError(label)


BIG_QUICK = [("big_programs_above", [("16", "fix"), ("32", "var")]), ("big_action_above", [("16", "var"), ("32", "fix")]),
             ("big_programs_at_limit", [("8", "fix")])]
BIG_THOROUGH = [("big_core_reduces_above", [("16", "fix"), ("16", "var"), ("32", "var")]), ("big_core_reduces_below", [("16", "var")]),
                ("big_state_actions_above", [("16", "var"), ("16", "fix")]), ("big_token_names_above", [("32", "var"), ("32", "fix")])]


def big_case_line(label, w, e):
    """the harness case line of a `big_*` case (replays name it instead of carrying megabytes of hex)"""
    kind, src, inputs, _ = big_source(label)
    return "%s %s %s %s d%s" % (kind, src.encode().hex(), w, e, "".join(" ; " + " ".join(t.encode().hex() for t in inp) for inp in inputs))


def gen_cases(ctx, n_random):
    rng = ctx.rng
    cases = []   # (label, kind, src, rename, gram, inputs)

    def add(label, g, kind, o, pad=0, n_inputs=6, eol=None, multiline=False):
        src, ren = render_rich(rng, g, kind, o, pad, multiline)
        src = with_eol(rng, src, eol)
        inputs = [[ren[t] for t in inp] for inp in G.inputs_for(rng, g, n_inputs)]
        cases.append((label, kind, src, o, g, inputs))

    all_on = Opts(**{k: True for k in Opts.KEYS})
    all_off = Opts()
    corpus = G.classic_corpus()
    for g in corpus:
        for kind in ("G", "U", "O", "N"):
            add("corpus_all_on", g, kind, all_on)
            add("corpus_all_off", g, kind, all_off)
    # each optional declaration alone, and all but one
    g0 = corpus[0]
    for k in Opts.KEYS:
        add("only_" + k, g0, "G", Opts(**{k: True}))
        add("only_" + k, g0, "U", Opts(**{k: True}))
        add("all_but_" + k, g0, "G", Opts(**{x: (x != k) for x in Opts.KEYS}))
        add("all_but_" + k, g0, "U", Opts(**{x: (x != k) for x in Opts.KEYS}))
    # line endings: multi-line action bodies, a multi-line programs section and comments, rendered with LF, CRLF
    # (a Windows checkout), bare CR, LF+CR and mixed line ends (text fields must come back byte for byte)
    with_code = Opts(**{k: True for k in Opts.KEYS})
    for gi, g in enumerate(corpus):
        for kind in ("G", "U"):
            add("eol_lf_multiline", g, kind, with_code, multiline=True)
            add("eol_crlf", g, kind, with_code, eol="crlf", multiline=True)
            add("eol_mixed", g, kind, with_code, eol="mixed", multiline=True)
        add("eol_cr", g, "GU"[gi % 2], with_code, eol="cr", multiline=True)
        add("eol_lfcr", g, "UG"[gi % 2], with_code, eol="lfcr", multiline=True)
        add("eol_crlf_single_line", g, "GU"[gi % 2], with_code, eol="crlf")
        add("eol_crlf", g, "ON"[gi % 2], Opts(programs=True, epp=True, prec=True), eol="crlf", multiline=True)
    add("eol_crlf", g0, "G", Opts(actions=True), eol="crlf", multiline=True)
    add("eol_crlf", g0, "U", Opts(programs=True), eol="crlf", multiline=True)
    add("eol_crlf_pad", g0, "G", with_code, pad=400, eol="crlf", multiline=True)
    # Eco kind with implicit tokens (implicit_rule is Some)
    ge = G.Gram(["a", "b", "w"], [("S", [[('t', 'a'), ('r', 'S')], [('t', 'b')]])], implicit=["w"])
    add("eco_implicit", ge, "E", all_off)
    add("eco_implicit", ge, "E", Opts(nonascii=True, epp=True, avoid_insert=True, expect=True))
    # offsets / lengths beyond one byte, two bytes (spans, string lengths): padded sources
    add("pad_300", g0, "G", all_on, pad=300)
    add("pad_70000", g0, "G", all_on, pad=70000)
    add("pad_70000", corpus[3], "U", all_on, pad=70000)
    # many tokens / rules / states
    add("wide_300_tokens", wide_grammar(rng, 300, 12), "O", Opts(avoid_insert=True, epp=True), n_inputs=3)
    add("wide_260_rules", wide_grammar(rng, 270, 260), "N", all_off, n_inputs=3)
    add("wide_64_tokens", wide_grammar(rng, 63, 7), "O", Opts(avoid_insert=True), n_inputs=3)   # + EOF = 64 tokens
    add("wide_128_tokens", wide_grammar(rng, 127, 8), "G", Opts(avoid_insert=True, nonascii=True), n_inputs=3)
    # accept-state shapes: the state holding [^ -> S ., $] also holds completed items of other rules / shifts (a derived
    # per-state view recomputed after reconstitution must treat Accept like the constructor does), and the rare shapes
    tt, rr = (lambda x: ('t', x)), (lambda x: ('r', x))
    for g in (G.Gram(["x", "y"], [("S", [[rr("T"), tt("x")], [tt("y")]]), ("T", [[rr("S")]])]),
              G.Gram(["x", "y"], [("S", [[rr("A")]]), ("A", [[rr("S"), tt("x")], [tt("y")]])]),
              G.Gram(["a", "b"], [("S", [[rr("S"), tt("a")], [tt("b")]])]),
              G.Gram(["x", "y", "z"], [("S", [[rr("T"), tt("x")], [rr("U"), tt("z")], [tt("y")]]), ("T", [[rr("S")]]), ("U", [[rr("S")]])])):
        add("accept_state_shape", g, "O", all_off, n_inputs=4)
        add("accept_state_shape", g, "N", all_off, n_inputs=2)
    for src, _, _ in G.rare_shape_corpus():
        add("rare_shapes", G.from_text(src), "O", all_off, n_inputs=3)
    # shapes on which a field RE-DERIVED at load time (instead of stored) would differ: a rule re-opened after another
    # rule (its productions are not numbered consecutively); a state completing two productions of one rule with
    # different lengths; both also with precedence-free conflicts
    for txt in ("%start A\n%%\nA: 'a';\nB: 'b';\nA: 'c' | 'd' A | B;\n",
                "%start S\n%%\nS: X 'x';\nX: 'p';\nY: 'q';\nX: 'r' Y;\nS: Y;\nY: 'q' 'q' X;\n",
                "%start S\n%%\nS: 'a' E 'x' | E 'y';\nE: 'a' 'b' | 'b';\n",
                "%start S\n%%\nS: 'a' E 'x' | E 'y' | 'c' E;\nE: 'a' 'b' 'b' | 'b' 'b' | 'b';\n"):
        g = G.from_text(txt)
        for kind in ("O", "G"):
            add("rederived_field_shapes", g, kind, all_off, n_inputs=3)
    fams = [("random", lambda: G.random_grammar(rng)),
            ("reduced", lambda: G.reduced_random_grammar(rng)),
            ("nullable", lambda: G.nullable_heavy(rng)),
            ("expr", lambda: G.expr_grammar(rng)),
            ("exprnoprec", lambda: G.expr_grammar(rng, with_prec=False)),
            ("notlalr", lambda: G.not_lalr_template(rng))]
    n = 0
    while n < n_random:
        name, f = rng.choices(fams, [2, 4, 3, 4, 1, 2])[0]
        g = f()
        if g is None:
            continue
        if g.derives_cycle():
            # a rule deriving just itself makes any Yacc-style parser loop (C07's domain): the parses
            # could not be compared.  Residual non-returning parses are resolved one side at a time below.
            ctx.count("skipped_cyclic")
            continue
        kind = rng.choice("GGUUON")
        o = Opts(**{k: rng.random() < 0.5 for k in Opts.KEYS})
        eol = rng.choice([None, None, None, "crlf", "crlf", "mixed", "cr"])
        add("random_" + name + ("_eol_" + eol if eol else ""), g, kind, o, pad=rng.choice([0, 0, 0, 120, 400]),
            eol=eol, multiline=rng.random() < 0.5)
        n += 1
    return cases


# ------------------------------------------------------------------ decoded values

_DIGITS = re.compile(r"[0-9]*")
_HEX = re.compile(r"[0-9a-f]*")


def parse_value(s):
    """value dump of the OCaml driver -> python (ints, bytes, None, ('S',v), lists, tuples, ('E',i,v))"""
    pos = [0]

    def val():
        ch = s[pos[0]]
        if ch.isdigit():
            j = _DIGITS.match(s, pos[0]).end()
            v = int(s[pos[0]:j])
            pos[0] = j
            return v
        if ch in "tf":
            pos[0] += 1
            return ch == "t"
        if ch == "x":
            j = _HEX.match(s, pos[0] + 1).end()
            v = bytes.fromhex(s[pos[0] + 1:j])
            pos[0] = j
            return v
        if ch == "N":
            pos[0] += 1
            return None
        if ch == "O":
            pos[0] += 1
            return "OPAQUE"
        if ch == "S":
            pos[0] += 2
            v = val()
            assert s[pos[0]] == ")"
            pos[0] += 1
            return ("S", v)
        if ch == "E":
            j = pos[0] + 1
            while s[j].isdigit():
                j += 1
            i = int(s[pos[0] + 1:j])
            pos[0] = j + 1
            v = val()
            assert s[pos[0]] == ")"
            pos[0] += 1
            return ("E", i, v)
        if ch in "[(":
            close = "]" if ch == "[" else ")"
            pos[0] += 1
            items = []
            while s[pos[0]] != close:
                items.append(val())
                if s[pos[0]] == ",":
                    pos[0] += 1
            pos[0] += 1
            return items if ch == "[" else tuple(items)
        raise ValueError("value dump: unexpected %r at %d" % (ch, pos[0]))
    v = val()
    if pos[0] != len(s):
        raise ValueError("value dump: trailing text")
    return v


def named(v, n):
    """attach the translator's field names to a decoded value"""
    k = n["k"]
    if k == "struct":
        if not isinstance(v, tuple) or len(v) != len(n["fields"]):
            raise ValueError("struct %s: %d fields decoded, %d named" % (n["name"], len(v) if isinstance(v, tuple) else -1, len(n["fields"])))
        d = {fn: named(x, fnn) for x, (fn, fnn) in zip(v, n["fields"])}
        if list(d.keys()) == ["0"]:
            return d["0"]          # newtype
        return d
    if k == "tuple":
        return tuple(named(x, m) for x, m in zip(v, n["items"]))
    if k == "option":
        return None if v is None else named(v[1], n["of"])
    if k == "vec":
        return [named(x, n["of"]) for x in v]
    if k == "enum":
        vn, fields = n["variants"][v[1]]
        return (vn,) + tuple(named(x, m[1]) for x, m in zip(v[2], fields))
    return v


def bit(vob, k):
    return (vob["vec"][k // 64] >> (k % 64)) & 1


class Rows:
    """the set positions of row r of a bit matrix stored row after row in a Vob (bit k = word k // 64, bit k % 64);
    same answers as `[c for c in range(ncols) if bit(vob, r * ncols + c)]`, without touching every bit"""

    def __init__(self, vob, ncols):
        self.data = b"".join(w.to_bytes(8, "little") for w in vob["vec"])
        self.ncols = ncols
        self.mask = (1 << ncols) - 1

    def row(self, r):
        start = r * self.ncols
        x = (int.from_bytes(self.data[start // 8:(start + self.ncols + 7) // 8 + 1], "little") >> (start % 8)) & self.mask
        out = []
        while x:
            low = x & -x
            out.append(low.bit_length() - 1)
            x ^= low
        return out


def digest(v):
    """what harness c14 prints in digest mode for an answer longer than 96 bytes"""
    return "~%08x:%d" % (zlib.crc32(v.encode()) & 0xffffffff, len(v)) if len(v) > 96 else v


def txt(b):
    return "-" if b is None else "s" + b.hex()


def span(sp):
    return "-" if sp is None else "%d..%d" % (sp["start"], sp["end"])


ASSOC = {"Left": 0, "Right": 1, "Nonassoc": 2}


def prec(p):
    return "-" if p is None else "%d:%d" % (p["level"], ASSOC[p["kind"][0]])


def expected_from_decoded(gd, sd, nst):
    """API answers (transcript keys) predicted from the decoded fields alone"""
    e = {}
    nr, nt, np_ = gd["rules_len"], gd["tokens_len"], gd["prods_len"]
    e["g.rules_len"], e["g.tokens_len"], e["g.prods_len"] = str(nr), str(nt), str(np_)
    e["g.start_prod"] = str(gd["start_prod"])
    e["g.eof_token_idx"] = str(gd["eof_token_idx"])
    e["g.implicit_rule"] = "-" if gd["implicit_rule"] is None else str(gd["implicit_rule"])
    pp = gd["parse_param"]
    e["g.parse_param"] = "-" if pp is None else "%s,%s" % (txt(pp[0]), txt(pp[1]))
    e["g.parse_generics"] = txt(gd["parse_generics"])
    e["g.programs"] = txt(gd["programs"])
    e["g.expect"] = "-" if gd["expect"] is None else str(gd["expect"])
    e["g.expectrr"] = "-" if gd["expectrr"] is None else str(gd["expectrr"])
    def put(key, lst, i, f):
        # arrays shorter than the index range (e.g. no action slot for the start production):
        # the API panics there on both sides; nothing to predict
        if i < len(lst):
            e[key] = f(lst[i])

    for r in range(nr):
        put("g.rule.%d.name" % r, gd["rule_names"], r, lambda x: txt(x[0]))
        put("g.rule.%d.name_span" % r, gd["rule_names"], r, lambda x: span(x[1]))
        put("g.rule.%d.prods" % r, gd["rules_prods"], r, lambda x: ",".join(str(p) for p in x))
        put("g.rule.%d.actiontype" % r, gd["actiontypes"], r, txt)
    ai = gd["avoid_insert"]
    for t in range(nt):
        put("g.tok.%d.name" % t, gd["token_names"], t, lambda tn: "-" if tn is None else txt(tn[1]))
        put("g.tok.%d.span" % t, gd["token_names"], t, lambda tn: "-" if tn is None else span(tn[0]))
        put("g.tok.%d.prec" % t, gd["token_precs"], t, prec)
        put("g.tok.%d.epp" % t, gd["token_epp"], t, txt)
        if ai is None:
            e["g.tok.%d.avoid_insert" % t] = "0"
        elif t < ai["len"]:
            e["g.tok.%d.avoid_insert" % t] = str(bit(ai, t))
    for p in range(np_):
        put("g.prod.%d.syms" % p, gd["prods"], p,
            lambda x: ",".join(str(2 * s[1] + (1 if s[0] == "Rule" else 0)) for s in x))
        put("g.prod.%d.len" % p, gd["prods"], p, lambda x: str(len(x)))
        put("g.prod.%d.rule" % p, gd["prods_rules"], p, str)
        put("g.prod.%d.prec" % p, gd["prod_precs"], p, prec)
        put("g.prod.%d.action" % p, gd["actions"], p, txt)
        put("g.prod.%d.action_span" % p, gd["action_spans"], p, span)
        put("g.prod.%d.span" % p, gd["prod_spans"], p, span)
    e["s.start_state"] = str(sd["start_state"])
    snt, snp = sd["tokens_len"], sd["prods_len"]
    ra, rs, rc = Rows(sd["state_actions"], snt), Rows(sd["state_shifts"], snt), Rows(sd["core_reduces"], snp)
    for s in range(nst):
        e["s.%d.state_actions" % s] = ",".join(map(str, ra.row(s)))
        e["s.%d.state_shifts" % s] = ",".join(map(str, rs.row(s)))
        e["s.%d.core_reduces" % s] = ",".join(map(str, rc.row(s)))
        e["s.%d.reduce_only" % s] = str(bit(sd["reduce_states"], s))
    c = sd["conflicts"]
    if c is None:
        e["s.conflicts"] = "-"
    else:
        e["s.conflicts~"] = "sr%d[%s]rr%d[%s]pp" % (
            len(c["shift_reduce"]), ",".join("%d:%d:%d" % x for x in c["shift_reduce"]),
            len(c["reduce_reduce"]), ",".join("%d:%d:%d:%d" % x for x in c["reduce_reduce"]))
    return e


def vob_lengths(gd, sd):
    ls = []
    if gd["avoid_insert"] is not None:
        ls.append(gd["avoid_insert"]["len"])
    for k in ("state_actions", "core_reduces", "state_shifts", "reduce_states"):
        ls.append(sd[k]["len"])
    ls.append(sd["actions"]["empties"]["len"])
    ls.append(sd["gotos"]["empties"]["len"])
    return ls


# ------------------------------------------------------------------ call sites in ctbuilder.rs

def ctbuilder_pairing(cfgs):
    """The harness repeats the two call sites of ctbuilder.rs (serialise at build time, `_reconstitute`
    in generated code) instead of running them (they sit inside the code generator) — with the configuration
    expressions of the source itself (`cfgs` = vlib/ctconfig.read(), compiled into the harness).  Per
    SerialisationFormat the expression used for writing and the one handed to `_reconstitute` by generated code
    must be the same configuration, and of the format's integer encoding.  Returns (facts, problems)."""
    src = open(os.path.join(core.REPO, "lrpar/src/lib/ctbuilder.rs"), encoding="utf-8").read()
    facts, problems, notes = {}, [], []
    for fmt, _, enc in ctconfig.FORMATS:
        w, r = ctconfig.norm(cfgs[fmt]["write"]), ctconfig.norm(cfgs[fmt]["read"])
        facts[fmt] = {"write": w, "read": r, "size_limit": {"write": ctconfig.has_limit(w), "read": ctconfig.has_limit(r)}}
        encs = [sorted(set(re.findall(r"with_(fixint|varint)_encoding\(\)", x))) for x in (w, r)]
        if encs != [[enc], [enc]]:
            problems.append("%s: written with %s, read back with %s (the format's encoding is %s)" % (fmt, encs[0], encs[1], enc))
        elif w != r:
            # the same integer encoding but otherwise different configurations: what is written need not be readable
            # (a size limit on one side only, another length encoding, another byte order)
            problems.append("%s: written with `%s`, read back by generated code with `%s`" % (fmt, w, r))
        if ctconfig.has_limit(w) != (not LIMIT_FIXED) or ctconfig.has_limit(r) != (not LIMIT_FIXED):
            notes.append("%s: LIMIT_FIXED = %s but the source %s a preallocation size limit (write: %s, read: %s)"
                         % (fmt, LIMIT_FIXED, "keeps" if ctconfig.has_limit(w) or ctconfig.has_limit(r) else "has no",
                            ctconfig.has_limit(w), ctconfig.has_limit(r)))
    m = re.search(r"pub fn _reconstitute\b.*?\n\}", src, re.S)
    body = m.group(0) if m else ""
    if not (re.search(r"deserialize_from\s*\(\s*grm_buf\s*,\s*config\s*\)\s*\.unwrap\(\)", body)
            and re.search(r"deserialize_from\s*\(\s*stable_buf\s*,\s*config\s*\)\s*\.unwrap\(\)", body)):
        notes.append("_reconstitute is not literally `deserialize_from(buf, config).unwrap()` for both buffers (it is CALLED by the harness, so this is informational)")
    facts["notes"] = notes
    return facts, problems


# ------------------------------------------------------------------ transcripts

def parse_transcript(out):
    secs = out.split(" # ")
    d = {"raw0": secs[0], "O": {}, "R": {}, "DIFF": [], "okeys": [], "rkeys": []}
    for s in secs:
        if s.startswith("BG "):
            d["BG"] = s[3:]
        elif s.startswith("BS "):
            d["BS"] = s[3:]
        elif s.startswith("UG ") or s.startswith("US "):
            d[s[:2]] = s[3:]        # SERERR: what the same configuration writes without its size limit
        elif s.startswith("NST "):
            d["NST"] = int(s[4:])
        elif s.startswith("O "):
            k, _, v = s[2:].partition(" ")
            d["O"][k] = v
            d["okeys"].append(k)
        elif s.startswith("R "):
            k, _, v = s[2:].partition(" ")
            d["R"][k] = v
            d["rkeys"].append(k)
        elif s.startswith("DIFF ") or s.startswith("RECONPANIC"):
            d["DIFF"].append(s)
    return d


def resolve_hangs(ctx, exe, cases, idx, parsed):
    """A case whose transcript did not come back (a parse that does not return: the plain LR loop can
    repeat an epsilon reduction for ever on tables with resolved conflicts — C07's subject) is redone:
    once without inputs (all queries), then every input separately on the originals only and on the
    reconstituted objects only.  'Does not return' is an answer like any other: it must be the same
    on both sides."""
    todo = [li for li, d in enumerate(parsed) if li < len(idx) and d["raw0"].split()[:1] in (["HANG"], ["CRASH"])]
    if not todo:
        return
    relines, ref = [], []
    for li in todo:
        ci, w, e = idx[li]
        label, kind, src, o, g, inputs = cases[ci]
        head = "%s %s %s %s" % (kind, src.encode().hex(), w, e)
        relines.append(head)
        ref.append((li, None, None))
        for ii, inp in enumerate(inputs):
            toks = " ".join(t.encode().hex() for t in inp)
            for side in "or":
                relines.append("%s %s ; %s" % (head, side, toks))
                ref.append((li, ii, side))
    outs = core.run_lines([exe], relines, env={"GVH_CASE_TIMEOUT_MS": "4000"})
    merged = {}
    for (li, ii, side), out in zip(ref, outs):
        if ii is None:
            merged[li] = parse_transcript(out)
            continue
        d = merged[li]
        if "BG" not in d:
            continue
        if out.split()[:1] in (["HANG"], ["CRASH"]):
            val = "DOES-NOT-RETURN"
        else:
            t = parse_transcript(out)
            d["DIFF"] += [x for x in t["DIFF"] if x not in d["DIFF"]]
            val = (t["O"] if side == "o" else t["R"]).get("parse.0", "INPUT-DROPPED")
        key = "parse.%d" % ii
        if side == "o":
            d["O"][key] = val
            d["okeys"].append(key)
        else:
            d["R"][key] = val
            d["rkeys"].append(key)
            if d["O"].get(key) == "DOES-NOT-RETURN" and val == "DOES-NOT-RETURN":
                ctx.count("parse_does_not_return_on_both")
    for li in todo:
        parsed[li] = merged[li]
        ctx.count("case_redone_after_hang")


# ------------------------------------------------------------------ the check

def run(ctx):
    gate_err = None
    try:
        ctx.gate = core.proof_gate("C14", pregen=pregen)
        for _ in ctx.gate["theorems"]:
            ctx.oblige(True)
    except core.GateFailure as g:
        # the translation or the proof no longer checks (the Rust definitions use something the translator does not
        # model, or the generated schema is not well-formed): still search for a failing input, then report the
        # broken gate.  Without a usable schema only the observational part runs (every query and every parse on the
        # originals vs the reconstituted objects), which needs no model.
        gate_err = g
    with_model = gate_err is None or (gate_err.what != "schema-translation" and os.path.exists(NAMES_JSON))
    try:
        differential(ctx, with_model)
    except core.GateFailure:
        if gate_err is None:
            raise
    if gate_err is not None:
        raise gate_err


def differential(ctx, with_model=True):
    if with_model:
        meta = json.load(open(NAMES_JSON))
        names, info = meta["names"], meta["info"]
        mexe = core.build_model("c14")
    else:
        names, info, mexe = {}, {"versions": None, "notes": "schema translation failed: observational part only", "digest": {}}, None
    cfgs = ctconfig.ensure_harness_config()      # the configuration expressions of ctbuilder.rs -> harness/src/c14_config.rs
    exe = core.build_harness("c14")
    cases = gen_cases(ctx, ctx.n(70, 1200))
    confs = [(w, e) for w in ("8", "16", "32") for e in ("fix", "var")]
    lines, idx = [], []
    for ci, (label, kind, src, o, g, inputs) in enumerate(cases):
        tail = "".join(" ; " + " ".join(t.encode().hex() for t in inp) for inp in inputs)
        for w, e in confs:
            lines.append("%s %s %s %s%s" % (kind, src.encode().hex(), w, e, tail))
            idx.append((ci, w, e))
    n_small = len(lines)
    # the `big_*` family: one sequence just above (at / below) wincode's default 4 MiB preallocation size limit; digest mode
    big_what = {}
    for label, bconfs in BIG_QUICK + ([] if ctx.tier == "quick" else BIG_THOROUGH):
        kind, src, inputs, what = big_source(label)
        big_what[label] = what
        cases.append((label, kind, src, Opts(programs=label.startswith("big_programs"), actions=label.startswith("big_action")), None, inputs))
        for w, e in bconfs:
            lines.append(big_case_line(label, w, e))
            idx.append((len(cases) - 1, w, e))
    impl = core.run_lines([exe], lines[:n_small])
    impl += core.run_lines([exe], lines[n_small:], shards=len(lines) - n_small, timeout=3000, env={"GVH_CASE_TIMEOUT_MS": "1500000"})
    parsed = [parse_transcript(out) for out in impl]
    resolve_hangs(ctx, exe, cases, idx[:n_small], parsed)
    # model side: decode both blobs of every case that produced bytes (of a case whose serialisation failed: the bytes
    # the same configuration writes without its size limit)
    mlines, mref = [], []
    for li, d in enumerate(parsed):
        if not with_model:
            break
        ci, w, e = idx[li]
        for which, key in (("G", "BG"), ("S", "BS")):
            blob = d.get(key) if "BG" in d and "BS" in d else d.get("U" + which)
            if blob is not None:
                mlines.append("%s %s %s %s" % (which, w, e, blob or "-"))
                mref.append((li, which))
    small = [k for k, (li, _) in enumerate(mref) if li < n_small]
    bigm = [k for k, (li, _) in enumerate(mref) if li >= n_small]
    mout = [None] * len(mlines)
    for k, o in zip(small, core.run_lines([mexe], [mlines[k] for k in small]) if small else []):
        mout[k] = o
    # megabyte blobs: the extracted decoder recurses once per byte (stack), and a small minor heap would rescan that stack
    bigcmd = ["bash", "-c", "ulimit -s unlimited 2>/dev/null || ulimit -s $(ulimit -Hs); exec \"$0\"", mexe]
    for k, o in zip(bigm, core.run_lines(bigcmd, [mlines[k] for k in bigm], shards=len(bigm), timeout=3000,
                                         env={"OCAMLRUNPARAM": "s=32M"}) if bigm else []):
        mout[k] = o
    model = {}
    for (li, which), o in zip(mref, mout):
        model[(li, which)] = o
    # in-memory element sizes: the model's mem_size (what decode_limited multiplies lengths with) vs size_of
    sizes_bad = []
    if with_model:
        sl = ["SIZES %s" % w for w in ("8", "16", "32")]
        for w, a, b in zip(("8", "16", "32"), core.run_lines([exe], sl, shards=1), core.run_lines([mexe], sl, shards=1)):
            ia = [x.split() for x in a.split(" # ")]
            ib = [x.split() for x in b.split(" # ")]
            try:
                impl_sizes = [(lab.rpartition("=")[0], int(lab.rpartition("=")[2])) for sec in (ia[0][2:], ia[1][1:]) for lab in sec]
                model_sizes = [int(x) for sec in (ib[0][2:], ib[1][1:]) for x in sec]
            except (IndexError, ValueError):
                sizes_bad.append("width %s: SIZES answers not understood (%s | %s)" % (w, a[:80], b[:80]))
                continue
            if [n for _, n in impl_sizes] != model_sizes:
                sizes_bad.append("width %s: size_of %s, mem_size %s" % (w, impl_sizes, model_sizes))
            ctx.count("element_sizes_compared", len(model_sizes))
    ctx.coverage["mem_size_vs_size_of"] = sizes_bad or "equal for every sequence element type of YaccGrammar / StateTable, u8/u16/u32"
    if sizes_bad and not LIMIT_FIXED:
        # only the limited reader depends on element sizes: with LIMIT_FIXED nothing of the verdict does
        ctx.violation({"what": "the model's in-memory element sizes (Model.mem_size, used by decode_limited) are not size_of of the "
                               "implementation's element types: the expectation 'build fails iff decode_limited refuses' does not apply",
                       "problems": sizes_bad}, no_input=True)
        ctx.oblige(False, "mem_size = size_of")
    big_seen = {}
    n_corr_bad = 0
    n_diff = 0
    vob_mod = {"multiple_of_64": 0, "not_multiple_of_64": 0}
    for li, d in enumerate(parsed):
        ci, w, e = idx[li]
        label, kind, src, o, g, inputs = cases[ci]
        conf = "%s/%s" % (w, e)
        isbig = li >= n_small
        base = {"grammar": src if len(src) < 4000 else src[:1500] + "...(%d bytes)" % len(src), "yacckind": kind,
                "storage_width": int(w), "encoding": e, "options": o.tag(), "case": label,
                "case_line": lines[li] if len(lines[li]) < 30000 else "(long: kind hex(source) width enc ; hex token names ...)",
                "replay_cmd": "echo \"$case_line\" | .work/target/release/c14   # sections: O = originals, R = reconstituted, DIFF = differences"}
        if isbig:
            base.update({"what_is_big": big_what[label], "case_line": "(megabytes; rebuilt by the replay_cmd)",
                         "replay_cmd": "cd /verif && python3 -c 'from checks import C14; print(C14.big_case_line(\"%s\", \"%s\", \"%s\"))' | "
                                       "GVH_CASE_TIMEOUT_MS=1500000 .work/target/release/c14 | tr '#' '\\n' | grep -v '^ [OR] '   "
                                       "# digest mode: long answers as ~crc32:length" % (label, w, e)})
        # what the reader of wincode's DEFAULT configuration (4 MiB limit) says about the bytes: C14.Run.run_limited
        lim = {}
        for which in "GS":
            mo = model.get((li, which), "")
            if mo.startswith("OK "):
                lim[which] = dict(x.split("=") for x in mo.partition(" V ")[0].split()[1:]).get("lim")
        above = [nm for which, nm in (("G", "YaccGrammar"), ("S", "StateTable")) if lim.get(which) == "0"]
        if isbig and lim:
            big_seen.setdefault(label, set()).add(bool(above))
        if "BG" not in d:
            head = d["raw0"].split()[0] if d["raw0"] else "EMPTY"
            ctx.count("not_built_%s_w%s" % (head, w))
            if head in ("BUILDPANIC", "SERERR", "HANG", "CRASH", "BADCASE", "EMPTY"):
                if head == "BUILDPANIC" and w == "8":
                    continue        # storage type too small for the grammar: outside the property's domain
                if head == "SERERR":
                    # the build-time `serialize` returned Err: ctbuilder propagates it (`?`), CTParserBuilder::build fails and no
                    # parser is generated — although the grammar and the table were built for this storage type
                    ctx.count("serialize_err")
                    explained = with_model and "UG" in d and bool(above) and set(lim) == {"G", "S"}
                    rep_ = dict(base, what="a grammar and state table built for this storage type cannot be serialised: "
                                           "CTParserBuilder::build fails, no generated parser exists",
                                serialize_error=d["raw0"][:300],
                                model=("the unlimited writer's bytes are decoded and re-encoded by the model; the reader of a "
                                       "configuration with wincode's default 4 MiB preallocation size limit (decode_limited) refuses: %s"
                                       % ", ".join(above)) if explained else
                                      "decode_limited (4 MiB limit) accepts the unlimited writer's bytes: the size limit does not explain the error"
                                      if with_model and "UG" in d else "no bytes to evaluate")
                    if not LIMIT_FIXED and explained:
                        ctx.count("serialize_err_explained_by_size_limit")
                        ctx.violation(rep_, known_key=K_LIMIT)
                        ctx.oblige(False)
                    else:
                        ctx.violation(rep_)
                        ctx.oblige(False)
                    continue
                ctx.violation(dict(base, what="harness did not produce a transcript", impl=d["raw0"][:400]), no_input=True)
                ctx.oblige(False)
            continue
        ctx.count("built_w%s_%s" % (w, e))
        ctx.count("kind_" + kind)
        # ---- (3) the property, per instance
        diffs = list(d["DIFF"])
        if d["okeys"] != d["rkeys"] and not diffs:
            diffs.append("DIFF query lists differ")
        for k in d["okeys"]:
            if k in d["R"] and d["O"][k] != d["R"][k] and not any(x.startswith("DIFF %s " % k) for x in diffs):
                diffs.append("DIFF %s orig=%s recon=%s" % (k, d["O"][k], d["R"][k]))
        if diffs:
            n_diff += 1
            ctx.violation(dict(base, what="the reconstituted grammar/table answers differently from the originals",
                               differing_queries=[x[:300] for x in diffs[:8]], number_differing=len(diffs)))
        # ---- (1) model decodes the implementation's bytes completely and re-encodes them identically
        problems = []
        dec = {}
        for which, nm in ((("G", "YaccGrammar"), ("S", "StateTable")) if with_model else ()):
            mo = model.get((li, which), "MISSING")
            if not mo.startswith("OK "):
                problems.append("%s: extracted decoder rejects the implementation's bytes (%s)" % (nm, mo[:60]))
                continue
            head, _, vtxt = mo.partition(" V ")
            f = dict(x.split("=") for x in head.split()[1:])
            if f["rest"] != "0":
                problems.append("%s: %s bytes left over after decoding under the generated schema" % (nm, f["rest"]))
            if f["reenc"] != "same":
                problems.append("%s: re-encoding the decoded value differs from the implementation's bytes (%s)" % (nm, f["reenc"]))
            if f["wf"] != "1":
                problems.append("%s: generated schema is not well-formed" % nm)
            try:
                dec[which] = named(parse_value(vtxt), names[nm])
            except Exception as ex:        # noqa
                problems.append("%s: decoded value does not fit the translator's field tree: %s" % (nm, ex))
        if not LIMIT_FIXED and above:
            problems.append("the configurations are taken to keep the 4 MiB preallocation size limit (LIMIT_FIXED = False), the model's "
                            "limited reader refuses the bytes of %s, yet serialisation and _reconstitute succeeded" % ", ".join(above))
        # ---- (2) decoded fields vs API answers on the ORIGINALS
        if "G" in dec and "S" in dec and not problems:
            try:
                exp = expected_from_decoded(dec["G"], dec["S"], d["NST"])
                for k, v in exp.items():
                    if k.endswith("~"):
                        got = d["O"].get(k[:-1], "<absent>")
                        if not got.startswith(v) and not (isbig and got.startswith("~")):
                            problems.append("decoded field vs API: %s: decoded %s, API %s" % (k[:-1], v[:80], got[:80]))
                    elif d["O"].get(k, "<absent>") != (digest(v) if isbig else v):
                        problems.append("decoded field vs API: %s: decoded %s, API %s" % (k, v[:80], d["O"].get(k, "<absent>")[:80]))
                ctx.coverage["decoded_fields_compared"] = ctx.coverage.get("decoded_fields_compared", 0) + len(exp)
                for l_ in vob_lengths(dec["G"], dec["S"]):
                    vob_mod["multiple_of_64" if l_ % 64 == 0 else "not_multiple_of_64"] += 1
            except Exception as ex:        # noqa
                problems.append("decoded value cannot be interpreted with the translator's field names: %r" % ex)
        if problems:
            n_corr_bad += 1
            if not diffs:
                ctx.violation(dict(base, what="model/implementation correspondence broken, no differing query found",
                                   problems=problems[:8],
                                   broken_correspondence="C14.Run.run_case (decode/encode under Schema_gen) vs wincode's writer; "
                                                         "C14_grammar_reconstitute / C14_table_reconstitute no longer apply to these bytes",
                                   grammar_bytes=d["BG"][:400], table_bytes=d["BS"][:400]), no_input=True)
        if isbig:
            ctx.count("big_case_round_trips" if not diffs and not problems else "big_case_fails")
        ctx.oblige(not diffs and not problems)
        nparse_acc = sum(1 for k, v in d["O"].items() if k.startswith("parse.") and "val:-" not in v and ";nerr=0" in v)
        nparse_rej = sum(1 for k, v in d["O"].items() if k.startswith("parse.") and ";nerr=0" not in v)
        nontriv = d["NST"] >= 4 and (nparse_acc > 0) and (o.tag().count("1") > 0 or kind in "GU")
        ctx.count("options_%d" % o.tag().count("1"))
        ctx.count("states_%s" % ("<4" if d["NST"] < 4 else "4-15" if d["NST"] < 16 else "16-250" if d["NST"] <= 250 else ">250"))
        ctx.coverage["queries_compared"] = ctx.coverage.get("queries_compared", 0) + len(d["okeys"])
        ctx.coverage["parses_compared"] = ctx.coverage.get("parses_compared", 0) + nparse_acc + nparse_rej
        ctx.coverage["bytes_decoded"] = ctx.coverage.get("bytes_decoded", 0) + (len(d["BG"]) + len(d["BS"])) // 2
        ctx.case("%s|%s|%s|%s" % (kind, src if not isbig else label, w, e), nontriv,
                 {"case": label, "yacckind": kind, "options(%s)" % ",".join(Opts.KEYS): o.tag(), "width": w, "encoding": e,
                  "states": d["NST"], "grammar_bytes": len(d["BG"]) // 2, "table_bytes": len(d["BS"]) // 2,
                  "queries": len(d["okeys"]), "parses": nparse_acc + nparse_rej, "grammar": src[:300]})
    facts, pproblems = ctbuilder_pairing(cfgs)
    ctx.coverage["big_sequences"] = {
        l: {"what": big_what[l], "refused_by_the_4MiB_limited_reader": sorted(big_seen.get(l, []))} for l in big_what}
    ctx.coverage["ctbuilder_call_sites"] = facts
    if pproblems:
        ctx.violation({"what": "the build-time / start-up call sites in lrpar/src/lib/ctbuilder.rs are no longer the ones the harness "
                               "repeats (the format written need not be the format read back)", "problems": pproblems,
                       "call_sites": facts}, no_input=True)
    ctx.oblige(not pproblems, "ctbuilder call sites")
    ctx.oblige(n_diff == 0, "no query differs")
    ctx.oblige(n_corr_bad == 0, "decoder correspondence")
    ctx.coverage["bit_vector_lengths"] = vob_mod
    ctx.coverage["schema_translation"] = {"crate_versions": info["versions"], "notes": info["notes"],
                                          "types": {k: v for k, v in info["digest"].items()}}
    ctx.coverage["rule"] = (
        "grammars: classic corpus x yacc kinds {Grmtools, Original(UserAction), Original(GenericParseTree), Original(NoAction)} "
        "with all optional declarations present / absent; each declaration alone and each one missing "
        "(actions, %parse-param, %parse-generics, %epp, %avoid_insert, %expect, %expect-rr, %left/%right/%nonassoc + %prec, programs section, "
        "non-ASCII token names/action text/types, %actiontype); corpus x {Grmtools, UserAction} with multi-line action bodies, multi-line programs "
        "section and multi-line comments under LF / CRLF / bare CR / LF+CR / mixed line ends (and a third of the random grammars); "
        "Eco with %implicit_tokens; sources padded beyond 250 and 65535 bytes "
        "(spans and lengths in every varint class that can occur); grammars with 64/128/301 tokens and 261 rules; ONE SEQUENCE AROUND "
        "4 MiB (wincode's default preallocation size limit, in force until /repo 40b4e42; digest mode: long answers compared by crc32 + "
        "length): a programs section of 4 MiB + 1 and of exactly 4 MiB bytes, one action of 4 MiB + 1 bytes [quick and thorough]; the "
        "2400-rule chain (core_reduces = 7200 states x 4800 productions bits) and its 2350-rule neighbour just below, 65534 declared tokens "
        "x 537 states with u16 (state_actions / state_shifts), 104 859 tokens (token_names, 40-byte elements) [thorough]; random grammars of the "
        "LR families with random option subsets.  Each x {fix,var} x {u8,u16,u32}.  Inputs: sentences, near-sentences, random strings, "
        "the empty input.  Non-trivial = >= 4 states, an accepted input, and a user-action kind or an optional declaration; distinct by "
        "(kind, source, width, encoding)")
    ctx.coverage["exhaustive"] = False
    ctx.coverage["trusted_base_extra"] = [
        "tools/schema_of_rust.py (regex-level reader of the listed Rust definitions; fails on anything it does not understand); its "
        "reading of wincode-derive (fields in declaration order, variant index as u32 tag) is validated per case by the byte-exact "
        "decode/re-encode of the implementation's output under the generated schema",
        "the argument 'same fields => same answers' (YaccGrammar/StateTable are plain data: no interior mutability, no field outside the "
        "derive) is read off the sources, and backed per instance by the direct comparison of all public queries",
    ]
    ctx.assumptions += [
        "64-bit little-endian target (usize travels as u64; try_into on read never fails)",
        "sequence LENGTHS fit a u64 (they are usize values in memory); no other size bound: the configurations of ctbuilder.rs have no "
        "preallocation size limit since /repo 40b4e42 (LIMIT_FIXED = True: a serialisation error of a grammar/table that was built is a "
        "violation; with the limit, C14_codec_roundtrip_limited_refuted / C14_limited_build_fails_iff describe exactly which builds fail)",
        "strings are byte lists with a length prefix in the model; UTF-8 validation on read (String::from_utf8) is outside the model "
        "— the writer only ever emits the bytes of a valid String",
        "storage types too small for a grammar (u8 with > 255 tokens/rules/productions/states) make construction fail before "
        "serialisation; such cases are outside the property",
        "parses compared with RecoveryKind::None only (CPCT+ is time-bounded, its repair lists are not deterministic under load)",
    ]
