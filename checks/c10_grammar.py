"""C10 (a) — AST -> indexed grammar (cfgrammar/src/lib/yacc/grammar.rs:141-395).

Proof: theories/C10 (mirror `build_grammar` of new_from_ast_with_validity_info + accessors, proved
dense/in-range/faithful for every well-formed AST).  Tie: generated .y sources (gen/c10gen.py) are
parsed by the implementation; the public fields of the AST it built are dumped (harness c10grm),
the extracted mirror is run on that dump and must print the same answer as every YaccGrammar
accessor on every index the API hands out; `wf_astb` (the hypothesis of the theorems) is evaluated
on every dumped AST.  Independently of the mirror a Python oracle checks, from the harness output
alone, ranges, the rule/production partition, faithfulness against the AST dump and that spans
select the defining text.
"""
import itertools
import re
from vlib import core
from gen import c10gen

GRM_FIXED = True           # False: mirror of the current code (F0); True: mirror of the code after the proposed fix (F1)
KNOWN_KEY = "prod_span/action_span of the added start production (and Eco-inserted productions) index out of bounds"
CORR = "correspondence C10a: extracted build_grammar vs YaccGrammar accessors"
DECL_TAGS = {"start_decl", "token_decl", "prec_decl", "epp", "avoid_insert", "implicit", "expect", "parse_param",
             "parse_generics", "expect_unused", "actiontype"}
SINGLE = ("LEN", "EOF", "SP", "SR", "IR", "IRS", "IPS", "ITS", "TM", "EX", "EXRR", "PPM", "PG", "PROG")


def sections(s):
    return [x.split() for x in s.split(" # ")]


def txt(h):
    return bytes.fromhex(h[1:]).decode()


def parse_ast(secs):
    a = {"R": [], "D": [], "T": [], "PR": {}, "EPP": {}}
    for s in secs:
        t = s[0]
        if t == "R":
            a["R"].append({"key": s[1], "span": s[3:5], "at": s[5], "pidxs": [int(x) for x in s[6:]]})
        elif t == "D":
            a["D"].append({"span": (int(s[1]), int(s[2])), "prec": s[3], "act": s[4], "aspan": s[5:7],
                           "syms": [(x[0],) + tuple(x[1:].split(":")) for x in s[7:]]})
        elif t == "T":
            a["T"].append(tuple(s[1:4]))
        elif t == "PR":
            a["PR"][s[1]] = s[2] + " " + s[3]
        elif t == "EPP":
            a["EPP"][s[1]] = s[2]
        elif t in ("AI", "ITO"):
            a[t] = None if s[1:] == ["-"] else [x.split(":")[0] for x in s[1:]]
        else:
            a[t] = s[1:]                   # K ST IT NSPANS EX EXRR PP PG PROG
    return a


def expected(a):
    """the accessor transcript a faithful grammar object must give for AST dump `a` (written from the
    property text, independent of the mirror); None = not constrained here (spans/actions of added productions)"""
    R, D, T, ito = a["R"], a["D"], a["T"], a["ITO"]
    eco = a["K"] == ["E"] and ito is not None
    off = 3 if eco else 1
    ridx = {r["key"]: off + j for j, r in enumerate(R)}
    tidx = {t[0]: i for i, t in enumerate(T)}
    nD, nT, start = len(D), len(T), ridx[a["ST"][0]]
    if eco:     # ^: ^~ ;  ~: t ~ | ... | ;  ^~: ~ S
        # one production per implicit token, in token (first occurrence) order — not in hash-map order
        added = [([5], 0)] + [([2 * tidx[t[0]], 3], 1) for t in T if t[0] in ito] + [([], 1), ([3, 2 * start + 1], 2)]
    else:       # ^: S
        added = [([2 * start + 1], 0)]
    rl, pl = off + len(R), nD + len(added)
    ints = lambda l: "".join(" %d" % x for x in l)
    o = ["LEN %d %d %d" % (rl, pl, nT + 1), "EOF %d" % nT, "SP %d" % nD, "SR 0", "IR " + ("1" if eco else "-"),
         "IRS" + ints(range(rl)), "IPS" + ints(range(pl)), "ITS" + ints(range(nT + 1))]
    special = [("x5e", [nD])] + ([("x7e", list(range(nD + 1, pl - 1))), ("x5e7e", [pl - 1])] if eco else [])
    for i, (nm, ps) in enumerate(special):
        o += ["RN %d %s" % (i, nm), "RI %d %d" % (i, i), "RS %d 0 0" % i, "RP %d%s" % (i, ints(ps)), "AT %d -" % i]
    for i, r in enumerate(R, off):
        o += ["RN %d %s" % (i, r["key"]), "RI %d %d" % (i, i), "RS %d %s %s" % (i, r["span"][0], r["span"][1]),
              "RP %d%s" % (i, ints(r["pidxs"])), "AT %d %s" % (i, r["at"])]
    owner = {p: ridx[r["key"]] for r in R for p in r["pidxs"]}
    for i, d in enumerate(D):
        codes = []
        for k, nm, _, _ in d["syms"]:
            codes += [2 * ridx[nm] + 1] if k == "r" else [2 * tidx[nm]] + ([3] if eco else [])
        toks = [nm for k, nm, _, _ in d["syms"] if k == "t"]
        pp = a["PR"].get(d["prec"], "?") if d["prec"] != "-" else a["PR"].get(toks[-1], "-") if toks else "-"
        o += ["PD %d%s" % (i, ints(codes)), "PL %d %d" % (i, len(codes)), "PR %d %s" % (i, owner.get(i, "?")),
              "PP %d %s" % (i, pp), "PS %d %d %d" % ((i,) + d["span"]), "AC %d %s" % (i, d["act"]),
              "AS %d %s" % (i, "-" if d["act"] == "-" else " ".join(d["aspan"]))]
    for i, (syms, r) in enumerate(added, nD):
        o += ["PD %d%s" % (i, ints(syms)), "PL %d %d" % (i, len(syms)), "PR %d %d" % (i, r), "PP %d -" % i, None, None, None]
    avoid = set(a["AI"] or [])
    for i, (nm, s, e) in enumerate(T):
        o += ["TN %d %s" % (i, nm), "TI %d %d" % (i, i), "TP %d %s" % (i, a["PR"].get(nm, "-")),
              "TE %d %s" % (i, a["EPP"].get(nm, nm)), "TS %d %s %s" % (i, s, e), "AV %d %d" % (i, nm in avoid)]
    o += ["%s %d -" % (t, nT) for t in ("TN", "TP", "TE", "TS")] + ["AV %d 0" % nT]
    o += ["TM" + "".join(" %d:%s" % (i, t[0]) for i, t in enumerate(T)), "EX " + a["EX"][0], "EXRR " + a["EXRR"][0],
          "PPM " + " ".join(a["PP"]), "PG " + a["PG"][0], "PROG " + a["PROG"][0]]
    return o, off


def ranges(obs):
    """(a) every index handed out is in range, names unique, (b) rule->productions is a partition"""
    bad = []
    one = {s[0]: s[1:] for s in obs if s[0] in SINGLE}
    idx = {}
    for s in obs:
        if s[0] not in SINGLE and s[2:] != ["P"]:
            idx.setdefault(s[0], {})[int(s[1])] = s[2:]
    r, p, t = (int(x) for x in one["LEN"])

    def lt(v, n, what):
        if not (v.isdigit() and int(v) < n):
            bad.append("%s: %s is not an index below %d" % (what, v, n))
    lt(one["EOF"][0], t, "eof_token_idx")
    if one["EOF"] != [str(t - 1)]:
        bad.append("eof_token_idx %s is not tokens_len-1" % one["EOF"][0])
    lt(one["SP"][0], p, "start_prod")
    if one["SR"] != ["P"]:
        lt(one["SR"][0], r, "start_rule_idx")
    if one["IR"] != ["-"]:
        lt(one["IR"][0], r, "implicit_rule")
    for tag, n in (("IRS", r), ("IPS", p), ("ITS", t)):
        if one[tag] != [str(i) for i in range(n)]:
            bad.append("%s is not 0..%d" % (tag, n - 1))
    seen = {}
    for i, f in idx.get("RP", {}).items():
        for x in f:
            lt(x, p, "rule_to_prods(%d)" % i)
            seen.setdefault(x, []).append(i)
    for i in range(p):
        rs = seen.get(str(i), [])
        if len(rs) != 1:
            bad.append("production %d occurs in the rule_to_prods of rules %s (must be exactly one)" % (i, rs))
        elif i in idx.get("PR", {}) and idx["PR"][i] != [str(rs[0])]:
            bad.append("prod_to_rule(%d)=%s but rule_to_prods lists it under rule %d" % (i, idx["PR"][i][0], rs[0]))
    for i, f in idx.get("PR", {}).items():
        lt(f[0], r, "prod_to_rule(%d)" % i)
    for i, f in idx.get("PD", {}).items():
        for c in f:
            lt(str(int(c) // 2), r if int(c) % 2 else t, "symbol %s of prod(%d)" % (c, i))
        if i in idx.get("PL", {}) and idx["PL"][i] != [str(len(f))]:
            bad.append("prod_len(%d)=%s but prod(%d) has %d symbols" % (i, idx["PL"][i][0], i, len(f)))
    for tag, what in (("RI", "rule_idx(rule_name(%d))=%s"), ("TI", "token_idx(token_name(%d))=%s")):
        for i, f in idx.get(tag, {}).items():
            if f != [str(i)]:
                bad.append(what % (i, f[0]))
    named = {i: f[0] for i, f in idx.get("TN", {}).items() if f != ["-"]}
    if [i for i in idx.get("TN", {}) if i not in named] != [t - 1]:
        bad.append("the unnamed tokens are not exactly the eof token")
    if one["TM"] != ["P"] and sorted(one["TM"]) != sorted("%d:%s" % x for x in named.items()):
        bad.append("tokens_map differs from the named tokens")
    for tag, n in (("RN", r), ("RS", r), ("RP", r), ("AT", r), ("PD", p), ("PL", p), ("PR", p), ("PP", p),
                   ("TN", t), ("TP", t), ("TE", t), ("TS", t), ("AV", t)):
        if any(i >= n for i in idx.get(tag, {})):
            bad.append("%s answered beyond the length %d" % (tag, n))
    return bad


def span_texts(ctx, a, off, X, src):
    """(d) spans select the defining text.  X: (tag, index) -> 'x<hex>' or '!'"""
    bad = []
    for tag, base, items, what in (("XR", off, [r["key"] for r in a["R"]], "rule_name_span"), ("XT", 0, [t[0] for t in a["T"]], "token_span")):
        for i, nm in enumerate(items, base):
            got = X.get((tag, i))
            if got is not None and got != nm:
                bad.append("%s(%d) selects %s, the name is %r" % (what, i, "no char-boundary range" if got == "!" else repr(txt(got)), txt(nm)))
    prev = 0
    for i, d in enumerate(a["D"]):
        s, e = d["span"]
        got = X.get(("XP", i))
        if got is None:
            continue
        if got == "!" or s > e:
            bad.append("prod_span(%d)=(%d,%d) is not a char-boundary range of the source" % (i, s, e))
            continue
        if s < prev:
            bad.append("prod_span(%d) starts at %d before the end %d of the previous production" % (i, s, prev))
        prev = e
        for k, nm, ss, se in d["syms"]:
            if not (s <= int(ss) and int(se) <= e):
                bad.append("prod_span(%d)=(%d,%d) does not cover its symbol %r at (%s,%s)" % (i, s, e, txt(nm), ss, se))
        if not d["syms"] and s != e:
            t = txt(got)
            if d["prec"] != "-":
                t = t.replace("'%s'" % txt(d["prec"]), " ").replace('"%s"' % txt(d["prec"]), " ")
            t = re.sub(r"//[^\n\r]*", " ", re.sub(r"/\*.*?\*/", " ", t, flags=re.S))
            t = t.replace("%prec", " ").replace("%empty", " ")
            if d["prec"] != "-":
                t = re.sub(r"\b%s\b" % re.escape(txt(d["prec"])), " ", t)
            if t.strip():
                bad.append("prod_span(%d) of an empty production selects %r" % (i, txt(got)))
        ga = X.get(("XA", i))
        if d["act"] != "-" and ga is not None:
            key = ("action_span_not_on_char_boundary" if ga == "!" else "action_span_text_equals_action" if ga == d["act"]
                   else "action_span_text_differs_from_action")
            ctx.count(key)
            obs = ctx.coverage.setdefault("observations", [])
            if ga != d["act"] and not any(o.startswith(key) for o in obs):
                obs.append("%s: source %r, action %r at span (%s) selecting %s" % (
                    key, src, txt(d["act"]), ",".join(d["aspan"]), "nothing sliceable" if ga == "!" else repr(txt(ga))))
    return bad


def oracle(ctx, a, obs, tx, src):
    """independent oracle over one harness answer: list of complaints (known-class panics excluded)"""
    exp, off = expected(a)
    got = [" ".join(s) for s in obs]
    bad = []
    if len(exp) != len(got):
        bad.append("the transcript has %d sections, %d expected" % (len(got), len(exp)))
    for x, y in zip(exp, got):
        if x is not None and x != y and y.split()[-1] != "P":      # panics are classified by the caller
            bad.append("expected `%s`, accessor says `%s`" % (x, y))
    bad += ranges(obs)
    X = {(s[0], int(s[1])): s[2] for s in tx if len(s) == 3}
    bad += span_texts(ctx, a, off, X, src)
    return bad


def run_part(ctx, gate=True):
    """correspondence + oracle part of C10a; the caller has run core.proof_gate (gate is informational)"""
    exe = core.build_harness("c10grm")
    mexe = core.build_model("c10grm")
    cases = c10gen.cases(ctx.rng, ctx.n(1500, 20000))
    lines = ["%s %s" % (k, s.encode().hex() or "-") for k, s, _ in cases]
    impl = core.run_lines([exe], lines)
    valid = [i for i, r in enumerate(impl) if " @@ " in r and not r.startswith("INVALID")]
    flag = "F1 " if GRM_FIXED else "F0 "
    model = dict(zip(valid, core.run_lines([mexe], [flag + impl[i].split(" @@ ")[0] for i in valid])))
    alarms, known = [], []            # (data, no_input)
    n_corr = n_wf = n_oracle = n_rej = queries = 0
    for i, ((kind, src, tags), line, out) in enumerate(zip(cases, lines, impl)):
        for t in tags:
            ctx.count(t)
        base = {"yacckind": kind, "source": src, "replay_cmd": "echo '%s' | .work/target/release/c10grm" % line}
        if out.startswith("INVALID"):
            ctx.count("ast_invalid")
            ctx.case(line, False)
            if not out.endswith("@@ ERR"):
                n_rej += 1
                alarms.append((dict(base, what="AST with errors: new_from_ast_with_validity_info must return Err", harness=out), False))
            continue
        if i not in model:            # ASTPANIC / HANG / CRASH: no AST to talk about
            ctx.count("no_ast:" + out.split()[0])
            ctx.case(line, False)
            if out.startswith("ASTPANIC"):      # the parser (C10b/C12), not the AST -> grammar step
                ctx.coverage.setdefault("observations", []).append("ASTWithValidityInfo::new panicked on %r: %s" % (src, out[:200]))
            else:
                n_corr += 1
                alarms.append((dict(base, what="the harness did not answer", harness=out[:300]), False))
            continue
        ctx.count("ast_valid")
        parts = out.split(" @@ ")
        a = parse_ast(sections(parts[0]))
        nontrivial = (len(a["R"]) >= 2 or len(a["D"]) >= 3) and len(tags & DECL_TAGS) >= 2
        ctx.case(line, nontrivial, dict(base, rules=len(a["R"]), prods=len(a["D"]), tags=sorted(tags)))
        m = model[i].split(" @@ ")
        if m[0] != "WF 1":
            n_wf += 1
            alarms.append((dict(base, what="hypothesis wf_ast of the C10a theorems does not hold for an AST built by the implementation "
                                "(wf_astb = false on the dump of ASTWithValidityInfo::ast())", model=model[i][:300], ast=parts[0]), True))
            if len(m) < 2:
                continue
        if len(parts) < 3:            # BUILDPANIC / BUILDERR on a valid AST
            n_oracle += 1
            alarms.append((dict(base, what="valid AST but new_from_ast_with_validity_info did not return a grammar",
                                harness=parts[1][:300], model=m[1][:100]), False))
            continue
        obs, mobs = sections(parts[1]), sections(m[1])
        queries += len(obs)
        pan = [s for s in obs if "P" in s[1:]]
        kn = [" ".join(s) for s in pan if s[0] in ("PS", "AS", "AC") and len(s) == 3 and int(s[1]) >= len(a["D"])]
        other = [" ".join(s) for s in pan if " ".join(s) not in kn]
        bad = ["accessor panics on an index handed out by the API: " + x for x in other] + oracle(ctx, a, obs, sections(parts[2]), src)
        if kn:
            ctx.count("known_defect_cases")
            known.append(dict(base, what=KNOWN_KEY, panicking_sections=kn))
        if bad:
            n_oracle += 1
        if obs != mobs:
            n_corr += 1
            d = [(x and " ".join(x), y and " ".join(y)) for x, y in itertools.zip_longest(obs, mobs) if x != y][:8]
            alarms.append((dict(base, what=CORR, model_flag=flag.strip(), differences_impl_vs_model=d, oracle=bad[:8]), not bad))
        elif bad:
            alarms.append((dict(base, what="independent oracle (ranges, partition, faithfulness to the AST, span texts)", oracle=bad[:8]), False))
    for data, no_input in alarms:     # unknown classes first: core keeps only the first 20 replays
        ctx.violation(data, no_input=no_input)
    for data in known[:3]:            # one class; every valid grammar is a witness (count in input_distribution)
        ctx.violation(data, known_key=KNOWN_KEY)
    ctx.oblige(n_corr == 0, "model == impl on every accessor section")
    ctx.oblige(n_wf == 0, "wf_astb holds on every valid implementation AST")
    ctx.oblige(n_oracle == 0, "oracle clean apart from the known class")
    ctx.oblige(n_rej == 0, "invalid ASTs rejected with Err")
    ctx.coverage["rule"] = (
        "fixed corpus (every declaration, every kind, duplicate rule definitions, start rule that is not the first rule, tokens "
        "that occur only in one declaration, invalid sources) + the classic grammars in all five kinds + random renderings of "
        "gen.grammars skeletons: random YaccKind, token spellings ('x', \"x\", names of a token declaration, multi-byte), declarations "
        "in random order, prec overrides/actions/empty alternatives, layouts with comments/CRLF/tabs, about 3 in 100 deliberately "
        "invalid.  Every accessor on every index 0..len-1 is compared with the extracted mirror (flag " + flag.strip() + ") and with "
        "a Python oracle.  non-trivial = valid AST with >= 2 rules or >= 3 productions and >= 2 kinds of declaration; distinct by case line")
    ctx.coverage["queries"] = queries
    ctx.assumptions += [
        "HashMap/IndexMap/IndexSet are modelled as association lists / ordered lists with unique keys (wf_astb checks uniqueness on every dumped AST)",
        "narrowing of indices to the storage type u32 is not modelled here (C20)"]
