"""C10 half (b) — text -> AST (cfgrammar/src/lib/yacc/parser.rs, ast.rs), also the
yacc part of C12 (totality).

(i)  print-then-parse oracle: abstract grammars (gen/c10ypgen.py) are rendered
     under >= 7 layouts each; the AST the implementation builds
     (ASTWithValidityInfo::new, public fields) must be the abstract grammar, and
     every span must select the text that defines the item.  Decided on the
     implementation alone; a difference is a concrete witness.
(ii) mirror tie: the extracted Coq mirror of YaccParser (C10/YpModel.v) and the
     implementation print the same transcript (whole AST incl. every span, or the
     same error kinds and spans, plus the partial AST) on those sources and on
     mutated / truncated / random ones; a panic or hang of the implementation is
     directly a C12 witness.
"""
import re
from vlib import core
from gen import c10ypgen as G

KNOWN_COMMENT = "block comment containing a line starting with '/' after a newline is terminated early"
KNOWN_ACTION_SPAN = "action span is computed from the trimmed action text and does not skip the whitespace after '{'"

# After the proposed repairs are applied to /repo set these to True: the mirror is then run in its
# repaired variant and the corresponding known-defect classification is switched off.
COMMENT_FIXED = True
ACTION_SPAN_FIXED = False
MODEL_FLAGS = (" fc" if COMMENT_FIXED else "") + (" fa" if ACTION_SPAN_FIXED else "")

CORPUS = [
    ("O", "%%\nA: /* a\n// b */ 'a';"),                       # DESIGN §9 comment defect
    ("O", "%%\nA: 'a' {  act };"),                            # action span with leading blanks
    ("O", "%start A\n%token x\n%left '+' \"-\"\n%epp x \"ex\"\n%expect 2\n%%\nA: A '+' x {act } | /* c */ B %prec '+' ;\nB: ;\n%%\nprog"),
    ("G", "%avoid_insert \"a\" 'b'\n%%\nA -> Result<u8, ()> : %empty { Ok(1) } | \"a\" B { { } } ; B -> x::y: ;"),
    ("E", "%implicit_tokens ws\n%epp q \"x\"\n%%\nA: ;"),
    ("O", ""), ("O", "%"), ("O", "%%"), ("O", "%%%%"), ("O", "/"), ("O", "/*"), ("O", "//"), ("O", "%token"),
    ("O", "%avoid_insert"), ("O", "%avoid_insert 'a'"), ("O", "%left 'a'"), ("O", "%epp a '\\"), ("O", "%epp a '\\x'"),
    ("O", "%expect 99999999999999999999\n%%"), ("O", "%expect \n%%"), ("O", "%expect-unused A 'b' \"c\" é\n%%"),
    ("O", "%token a a\n%start A\n%start B\n%start C\n%%\nA: a | é;"),
    ("G", "%%\nA -> T"), ("G", "%%\nA -> T:"), ("G", "%%\nA : ;"), ("G", "%%\nA -> a::"), ("G", "%%\nA -> a:::b: ;"),
    ("O", "%%\nA: {"), ("O", "%%\nA: {}}"), ("O", "%%\nA: { } x;"), ("O", "%%\nA: %empty x;"), ("O", "%%\nA: x %empty;"),
    ("O", "%%\nA: %prec"), ("O", "%%\nA: %prec ;"), ("O", "%%\nA: ''';"), ("O", "%%\nA: '\n';"), ("O", "%%\nA: \"\"\";"),
    ("O", "%%\nA: 'é' | \"\U0001F600\" ;"), ("O", "%%\nA: B; A: C;\nB: ; C: ;"), ("O", "%start X\n%%\nA: ;"),
    ("O", "%epp a 'x'\n%epp b 'y'\n%%\nA: ;"), ("O", "%left a\n%right a\n%nonassoc a\n%%\nA: ;"),
    ("O", "%parse-param a\n"), ("O", "%parse-param a:\n"), ("O", "%parse-param a: b"), ("O", "%actiontype"),
    ("E", "%actiontype T\n%%\nA: ;"), ("O", "%implicit_tokens a\n%%\nA: ;"), ("O", "%unknown"),
    ("O", "\u00a0%%\nA: ;"), ("O", "%%\nA: ; %% \u00a0 p"), ("O", "%%\nA\u00a0: ;"),
]


def hexs(s):
    h = s.encode("utf-8").hex()
    return h if h else "-"


def strip_w(line):
    """drop the warning sections (compared separately, they are not part of the AST)"""
    return " # ".join(s for s in line.split(" # ") if not s.startswith("W "))


def has_trigger(text):
    """a block comment (as a correct scanner delimits it) containing a newline directly followed by '/'"""
    return re.search(r"/\*(?:(?!\*/)[\s\S])*?[\r\n]/", text) is not None


def badspans(a):
    return [tuple(int(x) for x in s.split()[1:3]) for s in a.split(" # ") if s.startswith("BADSPAN ")]


def strip_bad(line):
    """BADSPAN sections are computed by the harness only"""
    return " # ".join(s for s in line.split(" # ") if not s.startswith("BADSPAN "))


def badspans_are_action_spans(text, a):
    """every off-boundary span is the span of an action whose text starts after blanks:
    (brace+1, brace+1+len(trimmed action)) — the known action-span defect"""
    b = text.encode("utf-8")
    tr = G.parse_transcript(strip_bad(a))
    acts = {p["action"][1] for p in tr["prods"] if p["action"]}
    for sp in badspans(a):
        if sp not in acts or sp[0] == 0 or b[sp[0] - 1:sp[0]] != b"{" or not b[sp[0]:sp[0] + 4].decode("utf-8", errors="ignore")[:1].isspace():
            return False
    return True


def run_part(ctx, tag="C10b"):
    exe = core.build_harness("c10yp")
    mexe = core.build_model("c10yp")
    rng = ctx.rng

    # ---------------------------------------------------------------- (i) printed grammars
    printed = []                                       # (kind, text, exp, style, ag, lay)
    n_ag = ctx.n(220, 2500)
    for gi in range(n_ag):
        ag = G.random_grammar(rng)
        for style in G.Layout.STYLES:
            lay = G.Layout(rng, style)
            text, exp = G.render(ag, lay)
            printed.append((ag["kind"], text, exp, style, ag, lay.trigger_used))
    lines = ["%s %s" % (k, hexs(t)) for k, t, _, _, _, _ in printed]
    impl = core.run_lines([exe], lines)
    model = core.run_lines([mexe], [l + MODEL_FLAGS for l in lines])
    fixed_lines = [l + " fc" + MODEL_FLAGS for l, p in zip(lines, printed) if p[5]]
    fixed_out = dict(zip(fixed_lines, core.run_lines([mexe], fixed_lines)))
    n_oracle_bad = n_tie_bad = n_known_comment = n_known_action = 0
    for (kind, text, exp, style, ag, trig), line, a, m in zip(printed, lines, impl, model):
        ctx.count("layout_" + style)
        ctx.count("kind_" + kind)
        nontriv = len(exp["prods"]) >= 2 and (len(exp["tokens"]) >= 2)
        ctx.case("P " + line, nontriv, {"kind": kind, "layout": style, "text": text[:400]})
        if a.startswith("PANIC") or a.startswith("HANG") or a.startswith("CRASH"):
            ctx.violation({"what": "the yacc parser %s on a printed grammar" % a.split()[0], "kind": kind, "text": text,
                           "impl": a[:300], "replay_cmd": "echo '%s' | .work/target/release/c10yp" % line})
            n_oracle_bad += 1
            continue
        tr = G.parse_transcript(strip_bad(a))
        diffs = G.oracle(text, exp, tr)
        if " # BADSPAN" in a and (ACTION_SPAN_FIXED or not badspans_are_action_spans(text, a)):
            diffs.append(("span", "span off a character boundary / out of range: " + a[a.index(" # BADSPAN"):][:80]))
        # ---- classify
        unexplained = []
        for cls, detail in diffs:
            if cls == "action-span":
                # known: span = (brace+1, brace+1+len(trimmed text)) although blanks follow the brace
                pi = int(detail.split()[1])
                act = exp["prods"][pi]["action"]
                got = tr["prods"][pi]["action"][1]
                brace = exp["prods"][pi]["after"]
                if not ACTION_SPAN_FIXED and act[2] != "" and got == (brace + 1, brace + 1 + G.blen(act[0])):
                    n_known_action += 1
                    ctx.violation({"what": "action span does not select the action text", "kind": kind, "text": text,
                                   "detail": detail}, known_key=KNOWN_ACTION_SPAN)
                    continue
            unexplained.append((cls, detail))
        if unexplained and trig and has_trigger(text) and not COMMENT_FIXED:
            # known comment defect: the repaired scan (mirror with fixed=true, proved to skip such comments:
            # ws_skips_layout_fixed) must give exactly the expected AST
            fo = fixed_out.get(line + " fc" + MODEL_FLAGS, "")
            fd = [x for x in G.oracle(text, exp, G.parse_transcript(fo)) if x[0] != "action-span"] if fo[:2] in ("OK", "ER") else [("result", fo)]
            if not fd:
                n_known_comment += 1
                ctx.violation({"what": "block comment ended early", "kind": kind, "text": text, "detail": unexplained[:3]},
                              known_key=KNOWN_COMMENT)
                unexplained = []
        if unexplained:
            n_oracle_bad += 1
            ctx.violation({"what": "print-then-parse: the AST is not the printed grammar", "kind": kind, "layout": style,
                           "text": text, "differences": [list(x) for x in unexplained[:6]], "impl": a[:2000],
                           "replay_cmd": "echo '%s' | .work/target/release/c10yp" % line})
        if strip_bad(a) != m:
            n_tie_bad += 1
            report_tie(ctx, kind, text, line, a, m)
    ctx.oblige(n_oracle_bad == 0, "print-then-parse oracle")
    ctx.count("known_comment_defect_cases", n_known_comment)
    ctx.count("known_action_span_cases", n_known_action)

    # ---------------------------------------------------------------- (ii) mutated sources
    muts = []
    for k, t in CORPUS:
        muts.append((k, t))
    base = [(k, t) for k, t, _, _, _, _ in printed]
    for _ in range(ctx.n(16000, 120000)):
        k, t = rng.choice(base)
        m = G.mutate(rng, t)
        if rng.random() < 0.25:
            m = G.mutate(rng, m)
        if rng.random() < 0.1:
            k = rng.choice("OGE")
        muts.append((k, m))
    # every truncation of a few sources, a multi-byte character injected at every offset of a few
    for k, t, _, _, _, _ in rng.sample(printed, ctx.n(12, 120)):
        if len(t) <= 400:
            for c in range(len(t) + 1):
                muts.append((k, t[:c]))
    for k, t, _, _, _, _ in rng.sample(printed, ctx.n(6, 60)):
        if len(t) <= 300:
            ch = rng.choice(["é", "→", "\U0001F600", "\u00a0", "\u2028"])
            for c in range(len(t) + 1):
                muts.append((k, t[:c] + ch + t[c:]))
    # random soup over the parser's alphabet
    for _ in range(ctx.n(3000, 20000)):
        muts.append((rng.choice("OGE"), "".join(rng.choice(G.MUT_CHARS + ["A", "b", " ", "\n", "'x'", "A: ", ";"]) for _ in range(rng.randint(1, 14)))))
    seen = set()
    mlines = []
    mcases = []
    for k, t in muts:
        l = "%s %s" % (k, hexs(t))
        if l in seen:
            continue
        seen.add(l)
        mlines.append(l)
        mcases.append((k, t))
    impl = core.run_lines([exe], mlines)
    model = core.run_lines([mexe], [l + MODEL_FLAGS for l in mlines])
    n_hdr = 0
    for (k, t), line, a, m in zip(mcases, mlines, impl, model):
        head = a.split(" ", 1)[0]
        ctx.count("mut_outcome_" + (head if head in ("OK", "ERRS", "PANIC", "HANG") else "other"))
        ctx.case("M " + line, head == "ERRS", None)
        if m == "HEADER":
            n_hdr += 1                      # %grmtools section: the other mirror's domain (C12 header part)
            if head in ("PANIC", "HANG", "CRASH"):
                pass                        # reported by the C12 header check
            continue
        if head in ("PANIC", "HANG", "CRASH"):
            ctx.violation({"what": "the yacc parser does not return on this text: %s" % a[:200], "kind": k, "text": t,
                           "replay_cmd": "echo '%s' | .work/target/release/c10yp" % line})
            n_tie_bad += 1
            continue
        if head == "ERRS" and " # E " not in a:
            ctx.violation({"what": "errors reported but the list is empty", "kind": k, "text": t})
        if " # BADSPAN" in a:
            ctx.violation({"what": "a span is out of range or off a character boundary", "kind": k, "text": t, "impl": a[:1500],
                           "replay_cmd": "echo '%s' | .work/target/release/c10yp" % line},
                          known_key=KNOWN_ACTION_SPAN if (not ACTION_SPAN_FIXED and badspans_are_action_spans(t, a)) else None)
        if strip_bad(a) != m:
            n_tie_bad += 1
            report_tie(ctx, k, t, line, a, m)
    ctx.count("header_cases_skipped", n_hdr)
    ctx.oblige(n_tie_bad == 0, "implementation = mirror on printed and mutated sources")
    ctx.coverage["rule"] = (
        "%d random abstract grammars (all directives, 3 yacc kinds, tokens with quotes/multi-byte/comment-like names) x %d layouts "
        "(dense, airy, comment-heavy, CRLF+tabs, multi-byte, %%token-names+shuffled declarations, known-defect trigger); oracle = "
        "names/order/symbols/precedences/epp/avoid_insert/expect/actions/action types/start/programs + every span against the "
        "printer's positions; then mutated (truncate/insert/delete/replace/move/duplicate), all truncations and a multi-byte char "
        "at every offset of sampled sources, random token soup: whole transcript impl vs extracted mirror. non-trivial = >=2 "
        "productions and >=2 tokens (printed) / ends in errors (mutated); distinct by case line" % (n_ag, len(G.Layout.STYLES)))
    ctx.coverage["printed_sources"] = len(printed)
    ctx.coverage["mutated_sources"] = len(mlines)
    ctx.assumptions += [
        "regex crate: '.' excludes only \\n, leftmost-first alternation, lazy +? (RE_TOKEN), greedy * (RE_NAME) as modelled by re_token/re_name",
        "usize = u64 (parse::<usize>); str::trim = Unicode White_Space set as listed in YpModel.is_whitespace",
        "sources carry no %grmtools section (yacc kind passed through the API); sources that start with one are skipped here (header mirror: C12)",
        "layout domain of the oracle: values read to end of line (%actiontype, %parse-param type, %parse-generics) are followed directly by the newline; "
        "a Grmtools action type is separated from ':' by blanks only; no layout between '%%' and the programs text is part of the programs",
        "HashMap iteration order in complete_and_validate's %epp check is canonicalised by the harness (first declared unknown key)",
    ]


def report_tie(ctx, kind, text, line, a, m):
    fa, fm = a.split(" # "), m.split(" # ")
    d = [(x, y) for x, y in zip(fa, fm) if x != y][:4]
    if len(fa) != len(fm):
        d.append(("sections %d" % len(fa), "sections %d" % len(fm)))
    ctx.violation({"what": "the mirror of YaccParser (C10/YpModel.v) and the implementation disagree: the C10b/C12 theorems no longer "
                           "speak about this code", "kind": kind, "text": text, "differences_impl_vs_model": d,
                   "replay_cmd": "echo '%s' | .work/target/release/c10yp ; echo '%s' | .work/ocaml/c10yp/gvm_c10yp" % (line, line)},
                  no_input=True)
