"""C10 half (b) — text -> AST (cfgrammar/src/lib/yacc/parser.rs, ast.rs), also the
yacc part of C12 (totality).

(i)  print-then-parse oracle: abstract grammars (gen/c10ypgen.py) are rendered
     under >= 7 layouts each; the AST the implementation builds
     (ASTWithValidityInfo::new, public fields) must be the abstract grammar, and
     every span must select the text that defines the item.  Decided on the
     implementation alone; a difference is a concrete witness.
(ii) mirror tie: the extracted Coq mirror of YaccParser (C10/YpModel.v) and the
     implementation print the same transcript (whole AST incl. every span, or the
     same error kinds and spans, plus the partial AST) on those sources and on
     mutated / truncated / random ones; a panic or hang of the implementation is
     directly a C12 witness.
"""
import re
from vlib import core
from gen import c10ypgen as G

KNOWN_COMMENT = "block comment containing a line starting with '/' after a newline is terminated early"
KNOWN_ACTION_SPAN = "action span is computed from the trimmed action text and does not skip the whitespace after '{'"
KNOWN_LITERAL_BRACE = "braces inside literals/comments of action code are counted"
KNOWN_ACTIONTYPE_LAYOUT = "blanks and comments after an action type are part of the type"

# After the proposed repairs are applied to /repo set these to True: the mirror is then run in its
# repaired variant and the corresponding known-defect classification is switched off.
COMMENT_FIXED = True
ACTION_SPAN_FIXED = False
# /repo 69c4b9b (pos_prod_end.get_or_insert(i) at an action's brace): the production span ends with the last item
# also when an action follows.  False = the pinned variant of the mirror and of the oracle (span up to the brace).
PROD_SPAN_FIXED = True
# /repo 4ff022d (GrammarAST::unused_symbols): the %prec token of every reachable production counts as used.  False = the
# pinned variant of the mirror (YpModel.seen_prec) and of the warnings oracle (a precedence pseudo-token is reported).
PREC_USED_FIXED = True
MODEL_FLAGS = (" fc" if COMMENT_FIXED else "") + (" fa" if ACTION_SPAN_FIXED else "") + (" fp" if PROD_SPAN_FIXED else "") + \
    (" fu" if PREC_USED_FIXED else "")

CORPUS = [
    ("O", "%%\nA: /* a\n// b */ 'a';"),                       # DESIGN §9 comment defect
    ("O", "%%\nA: 'a' {  act };"),                            # action span with leading blanks
    ("O", "%start A\n%token x\n%left '+' \"-\"\n%epp x \"ex\"\n%expect 2\n%%\nA: A '+' x {act } | /* c */ B %prec '+' ;\nB: ;\n%%\nprog"),
    ("G", "%avoid_insert \"a\" 'b'\n%%\nA -> Result<u8, ()> : %empty { Ok(1) } | \"a\" B { { } } ; B -> x::y: ;"),
    ("E", "%implicit_tokens ws\n%epp q \"x\"\n%%\nA: ;"),
    ("O", ""), ("O", "%"), ("O", "%%"), ("O", "%%%%"), ("O", "/"), ("O", "/*"), ("O", "//"), ("O", "%token"),
    ("O", "%avoid_insert"), ("O", "%avoid_insert 'a'"), ("O", "%left 'a'"), ("O", "%epp a '\\"), ("O", "%epp a '\\x'"),
    ("O", "%expect 99999999999999999999\n%%"), ("O", "%expect \n%%"), ("O", "%expect-unused A 'b' \"c\" é\n%%"),
    ("O", "%token a a\n%start A\n%start B\n%start C\n%%\nA: a | é;"),
    ("G", "%%\nA -> T"), ("G", "%%\nA -> T:"), ("G", "%%\nA : ;"), ("G", "%%\nA -> a::"), ("G", "%%\nA -> a:::b: ;"),
    ("O", "%%\nA: {"), ("O", "%%\nA: {}}"), ("O", "%%\nA: { } x;"), ("O", "%%\nA: %empty x;"), ("O", "%%\nA: x %empty;"),
    ("O", "%%\nA: %prec"), ("O", "%%\nA: %prec ;"), ("O", "%%\nA: ''';"), ("O", "%%\nA: '\n';"), ("O", "%%\nA: \"\"\";"),
    ("O", "%%\nA: 'é' | \"\U0001F600\" ;"), ("O", "%%\nA: B; A: C;\nB: ; C: ;"), ("O", "%start X\n%%\nA: ;"),
    ("O", "%epp a 'x'\n%epp b 'y'\n%%\nA: ;"), ("O", "%left a\n%right a\n%nonassoc a\n%%\nA: ;"),
    ("O", "%parse-param a\n"), ("O", "%parse-param a:\n"), ("O", "%parse-param a: b"), ("O", "%actiontype"),
    ("E", "%actiontype T\n%%\nA: ;"), ("O", "%implicit_tokens a\n%%\nA: ;"), ("O", "%unknown"),
    ("O", "\u00a0%%\nA: ;"), ("O", "%%\nA: ; %% \u00a0 p"), ("O", "%%\nA\u00a0: ;"),
    # production span with layout before the action (/repo 69c4b9b), several unknown %epp (3e32e4e)
    ("N", "%%\nS: 'a' 'b'   /* build the pair */\n    { x }\n  ;"), ("O", "%%\nS: 'a' 'b' { x };"), ("O", "%%\nS: %empty /* c */ { x } | 'a' %prec 'a' // c\n { y };"),
    ("O", "%start S\n%epp U1 'one'\n%epp U2 'two'\n%epp U3 'three'\n%epp U4 'four'\n%epp U5 'five'\n%epp U6 'six'\n%%\nS: 'a';\n"),
    ("E", "%implicit_tokens ws\n%epp ws 'blank'\n%epp U2 'two'\n%epp 'a' 'A'\n%epp U1 'one'\n%%\nS: 'a';\n"),
    # the witnesses of the two known findings (C10/YpRoundFindings.v)
    ("G", "%%\nS -> String:\n    'a' { \"{\".to_string() }\n  | 'b' { \"}\".to_string() }\n  ;\n"), ("G", "%%\nS -> char: 'a' { '}' } ;\n"),
    ("O", "%actiontype u32  \n%%\nS: 'a' { 1 };"), ("G", "%%\nS -> u32 // note: the value\n : 'a' { 1 };"),
    # precedence pseudo-tokens (/repo 4ff022d; C10/YpPrecUsed.v): the unary-minus grammar, a %prec token of an unreachable rule
    ("O", "%start E\n%left '-'\n%left UMINUS\n%%\nE: E '-' E | '-' E %prec UMINUS | 'n';\n"),
    ("O", "%start E\n%left UM\n%expect-unused X\n%%\nE: 'n';\nX: 'n' %prec UM;\n"),
    ("O", "%token UMINUS\n%%\nE: '-' E %prec UMINUS | 'n' | D;\nD: ;\nX: 'n' %prec UM | X %prec UMINUS;\n"),
]


def hexs(s):
    h = s.encode("utf-8").hex()
    return h if h else "-"


def strip_w(line):
    """drop the warning sections (compared separately, they are not part of the AST)"""
    return " # ".join(s for s in line.split(" # ") if not s.startswith("W "))


def has_trigger(text):
    """a block comment (as a correct scanner delimits it) containing a newline directly followed by '/'"""
    return re.search(r"/\*(?:(?!\*/)[\s\S])*?[\r\n]/", text) is not None


def badspans(a):
    return [tuple(int(x) for x in s.split()[1:3]) for s in a.split(" # ") if s.startswith("BADSPAN ")]


def strip_bad(line):
    """BADSPAN sections are computed by the harness only"""
    return " # ".join(s for s in line.split(" # ") if not s.startswith("BADSPAN "))


def badspans_are_action_spans(text, a):
    """every off-boundary span is the span of an action whose text starts after blanks:
    (brace+1, brace+1+len(trimmed action)) — the known action-span defect"""
    b = text.encode("utf-8")
    tr = G.parse_transcript(strip_bad(a))
    acts = {p["action"][1] for p in tr["prods"] if p["action"]}
    for sp in badspans(a):
        if sp not in acts or sp[0] == 0 or b[sp[0] - 1:sp[0]] != b"{" or not b[sp[0]:sp[0] + 4].decode("utf-8", errors="ignore")[:1].isspace():
            return False
    return True


def colon_pairs_only(t):
    """every ':' of the text belongs to a '::' pair, read left to right (YpRoundSpec.colon_scan)"""
    i = 0
    while i < len(t):
        if t[i] == ":":
            if t[i + 1:i + 2] != ":":
                return False
            i += 2
        else:
            i += 1
    return True


def run_unknown_epp(ctx, rng, exe, mexe, clean):
    """/repo 3e32e4e: of several %epp declarations for tokens the grammar does not have, validation reports the one
    declared FIRST (it used to be whichever the randomly seeded HashMap iterated first).  Valid printed grammars get
    2..6 %epp lines for unknown names (plus some for known tokens / implicit tokens, which are not errors) inserted at
    the start and at the end of their declarations; expected: exactly one error, UnknownEPP of the first unknown name in
    source order, its span on that name; and the whole transcript equals the mirror's (kind argument and span included)."""
    cases = []
    base = [p for p in clean if len(p[1]) < 3000]          # valid grammars: the oracle found no difference
    for _ in range(ctx.n(700, 6000)):
        kind, text, exp, style, ag, _ = rng.choice(base)
        nl = "\r\n" if style == "crlf" else "\n"
        taken = set(exp["tokens"]) | {r["name"] for r in exp["rules"]} | set(exp["epp"]) | set((exp["implicit"] or {}))
        unknown, n_unknown = [], rng.randint(2, 6)
        while len(unknown) < n_unknown:
            n = rng.choice(["U", "Unk", "zz", "T_", "e"]) + str(rng.randint(0, 99)) if rng.random() < 0.8 else rng.choice(["?", "!=", "a b", "\u00e9\u00e9", "->"])
            if n not in taken and n not in unknown:
                unknown.append(n)
        known = [t for t in exp["tokens"] if t not in exp["epp"] and "'" not in t and '"' not in t and "\n" not in t]
        known += [t for t in (exp["implicit"] or {}) if t not in exp["epp"] and t not in known]
        rng.shuffle(known)
        decls = [(n, False) for n in unknown] + [(n, True) for n in known[:rng.randint(0, 2)]]
        rng.shuffle(decls)
        cut = rng.randint(0, len(decls))
        pre, post = decls[:cut], decls[cut:]

        def epp_lines(ds, off):
            out, spans = "", {}
            for n, _ in ds:
                ident = n[0] in G.IDENT0 and all(c in G.IDENT for c in n)
                q = "" if ident and rng.random() < 0.5 else rng.choice("'\"")
                head = "%epp" + rng.choice([" ", "  ", "\t"])
                s0 = off + G.blen(out) + G.blen(head)
                spans[n] = ((s0 + len(q), s0 + len(q) + G.blen(n)), (s0, s0 + G.blen(n) + 2 * len(q)))
                out += head + q + n + q + " " + rng.choice(["'v'", '"some text"', "'\\''"]) + rng.choice(["", " ", " // c"]) + nl
            return out, spans
        a_txt, a_sp = epp_lines(pre, 0)
        pp = G.blen(a_txt) + exp["pp_pos"]
        b_txt, b_sp = epp_lines(post, pp)
        bt = text.encode("utf-8")
        # the declarations end with a gap that may be a // comment without newline?  no: every gap before '%%' that ends a
        # line-bound declaration holds its newline; a fresh line is forced all the same
        mid = bt[:exp["pp_pos"]].decode("utf-8")
        need_nl = mid != "" and mid[-1] not in "\r\n"
        if need_nl:
            b_txt, b_sp = epp_lines(post, pp + G.blen(nl))
            b_txt = nl + b_txt
        new = a_txt + mid + b_txt + bt[exp["pp_pos"]:].decode("utf-8")
        order = [n for n, kn in pre + post if not kn]
        first = order[0]
        sp = (a_sp if first in a_sp else b_sp)[first]
        cases.append((kind, new, first, sp, len(order)))
    lines = ["%s %s" % (k, hexs(t)) for k, t, _, _, _ in cases]
    impl = core.run_lines([exe], lines)
    model = core.run_lines([mexe], [l + MODEL_FLAGS for l in lines])
    n_bad = n_tie = 0
    for (kind, text, first, sp, n_unk), line, a, m in zip(cases, lines, impl, model):
        ctx.count("unknown_epp_case_kind_" + kind)
        ctx.count("unknown_epp_declarations_%d" % n_unk)
        ctx.case("U " + line, True, {"kind": kind, "text": text[:300]})
        tr = G.parse_transcript(strip_bad(a)) if a[:2] in ("OK", "ER") else None
        want = ("UnknownEPP", "x" + first.encode("utf-8").hex())
        ok = tr is not None and tr["head"] == "ERRS 1" and len(tr["errors"]) == 1 and tr["errors"][0][:2] == want and \
            tuple(tr["errors"][0][2]) in (sp[0], sp[1])
        if not ok:
            n_bad += 1
            ctx.violation({"what": "several %%epp declarations name unknown tokens: the error must be UnknownEPP of the one declared first "
                                   "(%r at %r), whatever the hash order" % (first, sp), "kind": kind, "text": text,
                           "errors": tr and tr["errors"], "impl": a[:600],
                           "replay_cmd": "echo '%s' | .work/target/release/c10yp" % line})
        if strip_bad(a) != m:
            n_tie += 1
            report_tie(ctx, kind, text, line, a, m)
    ctx.oblige(n_bad == 0, "of several unknown %epp keys the first declared is reported")
    ctx.coverage["unknown_epp_cases"] = len(cases)
    return n_tie


def run_prec_pseudo(ctx, rng, exe, mexe):
    """/repo 4ff022d: precedence pseudo-tokens.  Grammars of gen/c10ypgen.prec_pseudo_grammar (pseudo-tokens declared by a
    precedence level alone or by a level and %token; named by %prec of reachable productions, of unreachable ones
    only, or nowhere) under three layouts each: the warnings of the implementation must be exactly the ones computed from first
    principles on the printed grammar (unreachable rules, then tokens no reachable production uses as a symbol or as its %prec
    token), the AST must be the printed one, and the whole transcript (warnings included) equals the mirror's."""
    cases = []
    for _ in range(ctx.n(150, 1500)):
        ag, info = G.prec_pseudo_grammar(rng)
        for style in rng.sample(G.Layout.STYLES, 3):
            lay = G.Layout(rng, style)
            lay.neutral = True
            text, exp = G.render(ag, lay)
            cases.append((ag["kind"], text, exp, info, style))
    lines = ["%s %s" % (c[0], hexs(c[1])) for c in cases]
    impl = core.run_lines([exe], lines)
    model = core.run_lines([mexe], [l + MODEL_FLAGS for l in lines])
    n_bad = n_tie = n_reach = n_unreach = n_sep = 0
    for (kind, text, exp, info, style), line, a, m in zip(cases, lines, impl, model):
        ctx.case("W " + line, True, {"kind": kind, "layout": style, "text": text[:400]})
        want = G.expected_warnings(exp, PREC_USED_FIXED)
        other = G.expected_warnings(exp, not PREC_USED_FIXED)
        n_sep += want != other
        n_reach += any(w in ("reach", "both") for w in info["where"].values())
        n_unreach += any(w == "unreach" for w in info["where"].values()) and \
            any(k == "UnusedToken" for k, _ in want)
        if a[:2] != "OK":
            n_bad += 1
            ctx.violation({"what": "a printed grammar with precedence pseudo-tokens is not accepted: %s" % a[:300], "kind": kind,
                           "text": text, "replay_cmd": "echo '%s' | .work/target/release/c10yp" % line})
            continue
        tr = G.parse_transcript(strip_bad(a))
        got = [(w[0], (int(w[1]), int(w[2]))) for w in tr["warnings"]]
        diffs = [x for x in G.oracle(text, exp, tr, PROD_SPAN_FIXED) if x[0] != "action-span"]
        if got != want or diffs:
            n_bad += 1
            ctx.violation({"what": "the warnings of a grammar with precedence pseudo-tokens are not its unreachable rules + the tokens "
                                   "that no reachable production uses as a symbol or names by %prec", "kind": kind, "text": text,
                           "warnings": got, "expected": want, "pseudo_tokens": info, "ast_differences": [list(x) for x in diffs[:4]],
                           "replay_cmd": "echo '%s' | .work/target/release/c10yp" % line})
        if strip_bad(a) != m:
            n_tie += 1
            report_tie(ctx, kind, text, line, a, m)
    ctx.oblige(n_bad == 0, "warnings = unreachable rules + tokens unused by every reachable production (symbols and %prec)")
    ctx.oblige(n_sep >= 50 and n_unreach >= 20, "pseudo-token grammars separating the repaired from the pinned unused_symbols, "
                                                 "and ones whose pseudo-token is named by unreachable productions only, were generated")
    ctx.coverage["prec_pseudo_token_cases"] = {"cases": len(cases), "named_by_reachable_%prec": n_reach,
                                               "reported_because_only_unreachable_%prec": n_unreach,
                                               "warnings_differ_between_repaired_and_pinned_walk": n_sep}
    return n_tie


def run_part(ctx, tag="C10b"):
    exe = core.build_harness("c10yp")
    mexe = core.build_model("c10yp")
    rng = ctx.rng

    # ---------------------------------------------------------------- (i) printed grammars
    printed = []                                       # (kind, text, exp, style, ag, lay)
    extra = []                                         # per printed case: literal-brace actions, after-type layouts, twin text/exp
    n_ag = ctx.n(220, 2500)
    # fixed abstract grammars first: the witnesses of the two known findings and of the production-span repair
    fixed_ags = [
        {"kind": "G", "declared": [], "precs": [], "start": None, "expect": None, "expectrr": None, "actiontype": None,
         "parse_param": None, "parse_generics": None, "implicit_tokens": None, "avoid_insert": None, "epp": [], "programs": None,
         "rules": [{"name": "S", "actiont": "String", "prods": [
             {"syms": [("T", "a")], "prec": None, "action": '"{".to_string()', "empty_kw": False},
             {"syms": [("T", "b")], "prec": None, "action": '"}".to_string()', "empty_kw": False}]}]},
        {"kind": "G", "declared": [], "precs": [], "start": None, "expect": None, "expectrr": None, "actiontype": None,
         "parse_param": None, "parse_generics": None, "implicit_tokens": None, "avoid_insert": None, "epp": [], "programs": None,
         "rules": [{"name": "S", "actiont": "char", "prods": [
             {"syms": [("T", "a")], "prec": None, "action": "'{'", "empty_kw": False},
             {"syms": [("T", "b")], "prec": None, "action": "'}'", "empty_kw": False},
             {"syms": [("T", "c")], "prec": None, "action": "'c'", "empty_kw": False}]}]},
        {"kind": "O", "declared": [], "precs": [("left", ["b"])], "start": None, "expect": None, "expectrr": None, "actiontype": "u32",
         "parse_param": None, "parse_generics": None, "implicit_tokens": None, "avoid_insert": None, "epp": [], "programs": None,
         "rules": [{"name": "S", "actiont": None, "prods": [
             {"syms": [("T", "a"), ("T", "b")], "prec": None, "action": "x", "empty_kw": False},
             {"syms": [("T", "a")], "prec": "b", "action": "1 // }\n+ 2", "empty_kw": False},
             {"syms": [], "prec": None, "action": 'format!("{}", $1)', "empty_kw": True}]}]},
    ]
    for gi in range(n_ag):
        ag = fixed_ags[gi] if gi < len(fixed_ags) else G.random_grammar(rng)
        lits = sorted({p["action"] for r in ag["rules"] for p in r["prods"] if G.literal_brace_action(p["action"])})
        for style in G.Layout.STYLES:
            st0 = rng.getstate()
            lay = G.Layout(rng, style)
            text, exp = G.render(ag, lay)
            printed.append((ag["kind"], text, exp, style, ag, lay.trigger_used))
            twin = None
            if lits or lay.at_layout_used:
                # the twin: the same random choices with the two known-finding families neutralised
                st1 = rng.getstate()
                rng.setstate(st0)
                tlay = G.Layout(rng, style)
                tlay.neutral = True
                twin = G.render(ag, tlay)
                rng.setstate(st1)
            extra.append({"lits": lits, "at": list(lay.at_layout_used), "twin": twin, "pre_action": lay.pre_action_layout})
    lines = ["%s %s" % (k, hexs(t)) for k, t, _, _, _, _ in printed]
    impl = core.run_lines([exe], lines)
    model = core.run_lines([mexe], [l + MODEL_FLAGS for l in lines])
    fixed_lines = [l + " fc" + MODEL_FLAGS for l, p in zip(lines, printed) if p[5]]
    fixed_out = dict(zip(fixed_lines, core.run_lines([mexe], fixed_lines)))
    twin_idx = [i for i, x in enumerate(extra) if x["twin"] is not None]
    twin_out = dict(zip(twin_idx, core.run_lines([exe], ["%s %s" % (printed[i][0], hexs(extra[i]["twin"][0])) for i in twin_idx])))
    n_oracle_bad = n_tie_bad = n_known_comment = n_known_action = 0
    known_lit, known_at = [], []
    clean = []                                         # printed cases that went through the oracle without any difference
    n_pre_action = n_pre_action_comment = 0
    for ci, ((kind, text, exp, style, ag, trig), line, a, m) in enumerate(zip(printed, lines, impl, model)):
        ex = extra[ci]
        ctx.count("layout_" + style)
        ctx.count("kind_" + kind)
        if ex["lits"]:
            ctx.count("printed_with_literal_brace_action")
        if ex["at"]:
            ctx.count("printed_with_layout_after_action_type")
        bt = text.encode("utf-8")
        for pe in exp["prods"]:
            if pe["action"] is not None and pe["items"] and pe["after"] > pe["items"][-1][1]:
                n_pre_action += 1
                if b"/" in bt[pe["items"][-1][1]:pe["after"]]:
                    n_pre_action_comment += 1
        nontriv = len(exp["prods"]) >= 2 and (len(exp["tokens"]) >= 2)
        ctx.case("P " + line, nontriv, {"kind": kind, "layout": style, "text": text[:400]})
        if a.startswith("PANIC") or a.startswith("HANG") or a.startswith("CRASH"):
            ctx.violation({"what": "the yacc parser %s on a printed grammar" % a.split()[0], "kind": kind, "text": text,
                           "impl": a[:300], "replay_cmd": "echo '%s' | .work/target/release/c10yp" % line})
            n_oracle_bad += 1
            continue
        tr = G.parse_transcript(strip_bad(a))
        diffs = G.oracle(text, exp, tr, PROD_SPAN_FIXED)
        if " # BADSPAN" in a and (ACTION_SPAN_FIXED or not badspans_are_action_spans(text, a)):
            diffs.append(("span", "span off a character boundary / out of range: " + a[a.index(" # BADSPAN"):][:80]))
        if not [x for x in diffs if x[0] != "action-span"] and strip_bad(a) == m:
            clean.append(printed[ci])
        # ---- classify
        unexplained = []
        for cls, detail in diffs:
            if cls == "action-span":
                # known: span = (brace+1, brace+1+len(trimmed text)) although blanks follow the brace
                pi = int(detail.split()[1])
                act = exp["prods"][pi]["action"]
                got = tr["prods"][pi]["action"][1]
                brace = exp["prods"][pi]["after"]
                if not ACTION_SPAN_FIXED and act[2] != "" and got == (brace + 1, brace + 1 + G.blen(act[0])):
                    n_known_action += 1
                    ctx.violation({"what": "action span does not select the action text", "kind": kind, "text": text,
                                   "detail": detail}, known_key=KNOWN_ACTION_SPAN)
                    continue
            unexplained.append((cls, detail))
        if unexplained and trig and has_trigger(text) and not COMMENT_FIXED:
            # known comment defect: the repaired scan (mirror with fixed=true, proved to skip such comments:
            # ws_skips_layout_fixed) must give exactly the expected AST
            fo = fixed_out.get(line + " fc" + MODEL_FLAGS, "")
            fd = [x for x in G.oracle(text, exp, G.parse_transcript(fo), PROD_SPAN_FIXED) if x[0] != "action-span"] if fo[:2] in ("OK", "ER") else [("result", fo)]
            if not fd:
                n_known_comment += 1
                ctx.violation({"what": "block comment ended early", "kind": kind, "text": text, "detail": unexplained[:3]},
                              known_key=KNOWN_COMMENT)
                unexplained = []
        if unexplained and ex["twin"] is not None:
            # the two known classes.  Common conditions: the implementation does what the mirror does (whose scanners are
            # the plain ones the theorems describe), and the TWIN of this text — the same grammar under the same random
            # layout choices, with only the literal-brace actions' braces replaced / the text after action types removed —
            # goes through the oracle without any difference: the deviation is caused by those characters alone.
            ttext, texp = ex["twin"]
            to = twin_out[ci]
            twin_ok = to[:2] == "OK" and not [x for x in G.oracle(ttext, texp, G.parse_transcript(strip_bad(to)), PROD_SPAN_FIXED)
                                             if x[0] != "action-span"]
            cls_known = None
            if twin_ok and strip_bad(a) == m:
                if ex["lits"]:
                    # (3) some action is legal Rust whose braces balance only when literals/comments are skipped
                    cls_known = "lit"
                else:
                    # (4) layout after an action type: either every difference is an action type that equals the expected one
                    # once comments are stripped and the rest trimmed, or a comment there holds a single ':' (which ends the
                    # type: any outcome)
                    colon = any(not colon_pairs_only(t) for _, t in ex["at"])
                    only_types = all(c == "actiontype" for c, _ in unexplained) and tr["head"] == "OK" and \
                        len(tr["rules"]) == len(exp["rules"]) and \
                        all(ra["actiont"] == re_["actiont"] or
                            (ra["actiont"] is not None and G.strip_type_comments(ra["actiont"]) == re_["actiont"])
                            for ra, re_ in zip(tr["rules"], exp["rules"]))
                    if only_types or colon:
                        cls_known = "at"
            if cls_known == "lit":
                known_lit.append((kind, text, ex["lits"]))
                ctx.violation({"what": "braces inside string/char literals or comments of an action are counted", "kind": kind,
                               "text": text, "actions": ex["lits"], "detail": [list(x) for x in unexplained[:3]]},
                              known_key=KNOWN_LITERAL_BRACE)
                unexplained = []
            elif cls_known == "at":
                known_at.append((kind, text, ex["at"]))
                ctx.violation({"what": "blanks/comments after an action type become part of the type", "kind": kind,
                               "text": text, "after_type": ex["at"], "detail": [list(x) for x in unexplained[:3]]},
                              known_key=KNOWN_ACTIONTYPE_LAYOUT)
                unexplained = []
        if unexplained:
            n_oracle_bad += 1
            ctx.violation({"what": "print-then-parse: the AST is not the printed grammar", "kind": kind, "layout": style,
                           "text": text, "differences": [list(x) for x in unexplained[:6]], "impl": a[:2000],
                           "replay_cmd": "echo '%s' | .work/target/release/c10yp" % line})
        if strip_bad(a) != m:
            n_tie_bad += 1
            report_tie(ctx, kind, text, line, a, m)
    ctx.oblige(n_oracle_bad == 0, "print-then-parse oracle")
    # the layouts that separate the repaired production span from the pinned one must be there in every run
    ctx.oblige(n_pre_action_comment >= 20, "productions with blanks/comments between the last item and the action's brace were generated")
    ctx.count("productions_with_layout_before_action_brace", n_pre_action)
    ctx.count("productions_with_comment_before_action_brace", n_pre_action_comment)
    ctx.count("known_comment_defect_cases", n_known_comment)
    ctx.count("known_action_span_cases", n_known_action)
    ctx.count("known_literal_brace_cases", len(known_lit))
    ctx.count("known_actiontype_layout_cases", len(known_at))
    ctx.c10_known_notes = getattr(ctx, "c10_known_notes", {})
    if known_lit:
        k0, t0, l0 = known_lit[0]
        ctx.c10_known_notes[KNOWN_LITERAL_BRACE] = "%s (%d cases, first: kind %s, action %r in %r)" % (
            KNOWN_LITERAL_BRACE, len(known_lit), k0, l0[0], t0[:160])
    if known_at:
        k0, t0, l0 = known_at[0]
        ctx.c10_known_notes[KNOWN_ACTIONTYPE_LAYOUT] = "%s (%d cases, first: kind %s, %r after the type in %r)" % (
            KNOWN_ACTIONTYPE_LAYOUT, len(known_at), k0, l0[0][1], t0[:160])

    # ---------------------------------------------------------------- (i') several unknown %epp declarations
    n_epp_bad = run_unknown_epp(ctx, rng, exe, mexe, clean)
    n_tie_bad += n_epp_bad

    # ---------------------------------------------------------------- (i'') precedence pseudo-tokens and the warnings
    import random
    n_tie_bad += run_prec_pseudo(ctx, random.Random(ctx.seed * 7919 + 1004), exe, mexe)     # own stream: the other families keep their cases

    # ---------------------------------------------------------------- (ii) mutated sources
    muts = []
    for k, t in CORPUS:
        muts.append((k, t))
    base = [(k, t) for k, t, _, _, _, _ in printed]
    for _ in range(ctx.n(16000, 120000)):
        k, t = rng.choice(base)
        m = G.mutate(rng, t)
        if rng.random() < 0.25:
            m = G.mutate(rng, m)
        if rng.random() < 0.1:
            k = rng.choice("OGE")
        muts.append((k, m))
    # every truncation of a few sources, a multi-byte character injected at every offset of a few
    for k, t, _, _, _, _ in rng.sample(printed, ctx.n(12, 120)):
        if len(t) <= 400:
            for c in range(len(t) + 1):
                muts.append((k, t[:c]))
    for k, t, _, _, _, _ in rng.sample(printed, ctx.n(6, 60)):
        if len(t) <= 300:
            ch = rng.choice(["é", "→", "\U0001F600", "\u00a0", "\u2028"])
            for c in range(len(t) + 1):
                muts.append((k, t[:c] + ch + t[c:]))
    # random soup over the parser's alphabet
    for _ in range(ctx.n(3000, 20000)):
        muts.append((rng.choice("OGE"), "".join(rng.choice(G.MUT_CHARS + ["A", "b", " ", "\n", "'x'", "A: ", ";"]) for _ in range(rng.randint(1, 14)))))
    seen = set()
    mlines = []
    mcases = []
    for k, t in muts:
        l = "%s %s" % (k, hexs(t))
        if l in seen:
            continue
        seen.add(l)
        mlines.append(l)
        mcases.append((k, t))
    impl = core.run_lines([exe], mlines)
    model = core.run_lines([mexe], [l + MODEL_FLAGS for l in mlines])
    n_hdr = 0
    for (k, t), line, a, m in zip(mcases, mlines, impl, model):
        head = a.split(" ", 1)[0]
        ctx.count("mut_outcome_" + (head if head in ("OK", "ERRS", "PANIC", "HANG") else "other"))
        ctx.case("M " + line, head == "ERRS", None)
        if m == "HEADER":
            n_hdr += 1                      # %grmtools section: the other mirror's domain (C12 header part)
            if head in ("PANIC", "HANG", "CRASH"):
                pass                        # reported by the C12 header check
            continue
        if head in ("PANIC", "HANG", "CRASH"):
            ctx.violation({"what": "the yacc parser does not return on this text: %s" % a[:200], "kind": k, "text": t,
                           "replay_cmd": "echo '%s' | .work/target/release/c10yp" % line})
            n_tie_bad += 1
            continue
        if head == "ERRS" and " # E " not in a:
            ctx.violation({"what": "errors reported but the list is empty", "kind": k, "text": t})
        if " # BADSPAN" in a:
            ctx.violation({"what": "a span is out of range or off a character boundary", "kind": k, "text": t, "impl": a[:1500],
                           "replay_cmd": "echo '%s' | .work/target/release/c10yp" % line},
                          known_key=KNOWN_ACTION_SPAN if (not ACTION_SPAN_FIXED and badspans_are_action_spans(t, a)) else None)
        if strip_bad(a) != m:
            n_tie_bad += 1
            report_tie(ctx, k, t, line, a, m)
    ctx.count("header_cases_skipped", n_hdr)
    ctx.oblige(n_tie_bad == 0, "implementation = mirror on printed and mutated sources")
    ctx.coverage["rule"] = (
        "%d random abstract grammars (all directives, 3 yacc kinds, tokens with quotes/multi-byte/comment-like names) x %d layouts "
        "(dense, airy, comment-heavy, CRLF+tabs, multi-byte, %%token-names+shuffled declarations, known-defect trigger; extra blanks/comments "
        "between the last item of a production and its action's brace; blanks/comments after action types; 3 fixed grammars = the witnesses "
        "of the known findings; actions incl. legal Rust with braces in string/char literals and comments); production span = first item .. "
        "end of last item exactly; valid printed grammars + 2..6 %%epp for unknown names -> UnknownEPP(first declared); oracle = "
        "names/order/symbols/precedences/epp/avoid_insert/expect/actions/action types/start/programs + every span against the "
        "printer's positions; then mutated (truncate/insert/delete/replace/move/duplicate), all truncations and a multi-byte char "
        "at every offset of sampled sources, random token soup: whole transcript impl vs extracted mirror. non-trivial = >=2 "
        "productions and >=2 tokens (printed) / ends in errors (mutated); distinct by case line" % (n_ag, len(G.Layout.STYLES)))
    ctx.coverage["printed_sources"] = len(printed)
    ctx.coverage["mutated_sources"] = len(mlines)
    ctx.assumptions += [
        "regex crate: '.' excludes only \\n, leftmost-first alternation, lazy +? (RE_TOKEN), greedy * (RE_NAME) as modelled by re_token/re_name",
        "usize = u64 (parse::<usize>); str::trim = Unicode White_Space set as listed in YpModel.is_whitespace",
        "sources carry no %grmtools section (yacc kind passed through the API); sources that start with one are skipped here (header mirror: C12)",
        "layout domain of the oracle: %parse-param types and %parse-generics values are followed directly by the newline; no layout between "
        "'%%' and the programs text is part of the programs; blanks/comments after an action type (%actiontype value, Grmtools `-> type`) "
        "ARE generated: deviations there are the known class C10-actiontype-layout (twin text without them must be clean)",
        "actions of the pool that are legal Rust with braces inside literals/comments and not balanced under a plain count are the known "
        "class C10-action-literal-brace (classifier: gen/c10ypgen.py literal_brace_action + clean twin + implementation = mirror)",
        "errors are compared as reported (no canonicalisation): of several unknown %epp keys the first declared must be reported (/repo 3e32e4e)",
    ]


def report_tie(ctx, kind, text, line, a, m):
    fa, fm = a.split(" # "), m.split(" # ")
    d = [(x, y) for x, y in zip(fa, fm) if x != y][:4]
    if len(fa) != len(fm):
        d.append(("sections %d" % len(fa), "sections %d" % len(fm)))
    ctx.violation({"what": "the mirror of YaccParser (C10/YpModel.v) and the implementation disagree: the C10b/C12 theorems no longer "
                           "speak about this code", "kind": kind, "text": text, "differences_impl_vs_model": d,
                   "replay_cmd": "echo '%s' | .work/target/release/c10yp ; echo '%s' | .work/ocaml/c10yp/gvm_c10yp" % (line, line)},
                  no_input=True)
