"""C13 — a compile-time generated parser and lexer behave exactly like the run-time ones.

What is PROVED (Coq, theories/C13, all texts / all productions / all headers):
  * the mirror of the `$`-substitution scanner of lrpar/src/lib/ctbuilder.rs meets the
    declarative reading of the notation ($$, $<digits>, $span, $lexer, anything else after
    `$` is an error at that byte) for ALL action texts, never panics, and the notation is
    unambiguous;
  * the mirror of the generated wrapper's argument unpacking gives, for a production's
    symbols in order, Ok(lexeme) / Err(inserted lexeme) / the child's value, and the name the
    scanner makes of `$k` is bound to the k-th of them;
  * the flags a generated lexerdef() builds its rules with are the flags the run-time lexer
    builds them with, for every header.
What is DECIDED BY EXECUTION, per generated program (partial):
  * scanner: mirror vs CTParserBuilder on generated action texts (the substituted body is read
    back from the generated file);
  * pipeline: K grammar/lexer pairs x builder settings x ENTRY POINT are generated with CTLexerBuilder +
    CTParserBuilder (`CTLexerBuilder::lrpar_config(..).build()`, or the deprecated
    `CTParserBuilder::process_file` + `CTLexerBuilder::rule_ids_map(..).process_file`; all options set
    through the builders; families incl. lexers naming tokens the grammar lacks and one grammar with a
    programs section > 80 KB), `include!`d (as lrpar_mod!/lrlex_mod! do) into ONE throw-away crate,
    compiled with rustc, run on generated inputs, and compared with the run-time pipeline
    (from_str + set_rule_ids + RTParserBuilder) on lexemes, value/tree, number of errors, every error's
    repairs() list IN ORDER (REPAIR_ORDER_FIXED, /repo ca69cd1: its head is the sequence recovery applied —
    a function of the input), token_epp, R_*/N_* constants, on EVERY input; each erroneous input is parsed
    CT_CALLS times by the generated parse(); families tied:* give >= 50 inputs whose first error has >= 2
    equally ranked repair sequences per quick run; the value is also recomputed by the extracted Coq
    wrapper model from the run-time reduction log;
  * scope (premise "once compiled" not met; NOT findings): three specifications the builders accept whose
    generated module rustc rejects (names differing only in case -> duplicate R_* / N_* constants;
    `%parse-param grm` shadowed by a local of parse()) are generated, the rustc failure is recorded in
    the evidence (coverage.scope_observations); a module that compiles is compared like all others;
  * flags: the twelve quoted options of every generated lexerdef() are read back and
    evaluated by the model.
PIPELINE AS A THEOREM (theories/C13/Pipeline*.v, over C14's codec): the generated parse() is
`decode __GRM_DATA, decode __STABLE_DATA, call RTParserBuilder…` — for every run-time parser
(a parameter: any function of the decoded values, the recovery kind, the entry point and the
input) it returns what the run-time call on the built objects returns, in both formats and
all widths (C13_ct_equals_rt); the generated lexerdef() rebuilds the run-time definition
(C13_ct_lexerdef_equals_rt).  PER RUN (theories/C13/PipelineRun*.v): with the run-time parser a RELATION (one run may
return r) the generated parse() has the same set of outcomes (C13_ct_runs_are_rt_runs); equal value and errors on every
input, erroneous ones with tied repairs included, need the parser to be a function — applied_repair_determined, the
fact /repo ca69cd1 established (C13_ct_equals_rt_value; C13_ct_equals_rt_value_refuted for the pinned selection).  The facts about the generated text that this model assumes
(P1-P4, L1 at the head of PipelineModel.v) are checked on every generated module
(static_module_part); C13_SELFTEST=recoverer|swapdata|format|databyte|ruleflags|config damages them (scopefix: see tamper).
"""
import os
import re
import shutil

from vlib import core, ctconfig
from gen import c13gen
from gen.c13gen import hx

LEVEL = "proof"
# /repo ca69cd1 (fix: simplify_repairs deduplicates in insertion order and sorts stably): the repairs() list of an error, hence
# the repair sequence that is APPLIED (its head), the value and every later error are a function of the input.  True: the
# generated parse(), the run-time call and the model are compared on value, number of errors and every error's repairs() list
# IN ORDER on every input (C13_ct_equals_rt_value: its hypothesis applied_repair_determined is that fact).  False (the pinned
# code): repairs are compared as sets and what follows an error with several sequences is not compared (C13_ct_runs_are_rt_runs
# is all that holds; C13_ct_equals_rt_value_refuted).
REPAIR_ORDER_FIXED = True
CT_CALLS = 3          # calls of the generated parse() per erroneous input
BUDGET_ENV = {"GRMTOOLS_VERIF_RECOVERY_BUDGET_MS": "60000"}
CRATE = "c13ct"


def unhx(s):
    return bytes.fromhex(s).decode("utf-8", "replace")


def cps(s):
    return ",".join(str(ord(c)) for c in s) if s else "-"


# ------------------------------------------------------------------ part A: scanner

def scanner_part(ctx, exe, mexe, workdir):
    texts = c13gen.scanner_texts(ctx.rng, ctx.n(4000, 40000))
    ilines = ["subst %s %d %s" % (hx(workdir), i, hx(t)) for i, t in enumerate(texts)]
    mlines = ["subst %s %s" % (",".join(map(str, c13gen.numeric_extra(t))) or "-", cps(t)) for t in texts]
    impl = core.run_lines([exe], ilines)
    model = core.run_lines([mexe], mlines)
    ndiff = 0
    for t, a, b in zip(texts, impl, model):
        fa, fb = a.split(), b.split()
        agree = False
        expect = b
        if fb[0] == "OK":
            out = "".join(chr(int(x)) for x in fb[1].split(",")) if fb[1] != "-" else ""
            expect = "OK " + out
            agree = fa[0] == "OK" and unhx(fa[1]) == out
        elif fb[0] == "ERR":
            n = int(fb[1])
            col = 9 + len(t.encode()[:n].decode("utf-8", "replace"))
            expect = "ERR line 4 col %d (byte %d of the action)" % (col, n)
            agree = fa[0] == "ERR" and fa[1] == "4" and fa[2] == str(col)
        nontriv = t.count("$") >= 2
        ctx.case("subst " + t, nontriv, {"kind": "scanner", "action_text": t, "model": expect, "impl": a[:120]}
                 if len(ctx.samples) < 2 else None)
        ctx.count("scanner_" + fb[0])
        if not agree:
            ndiff += 1
            ctx.violation({"kind": "counterexample", "clause": "$-substitution in action code",
                           "action_text": t, "grammar": "%%start S\n%%actiontype String\n%%%%\nS: 'a' {%s};\n" % t,
                           "spec_says": expect,
                           "implementation": (fa[0] + " " + (unhx(fa[-1]) if len(fa) > 1 else ""))[:600],
                           "authority": "C13_subst_mirror_meets_spec (mirror = declarative notation for all texts)",
                           "replay_cmd": "mkdir -p /tmp/c13r && echo 'subst %s 0 %s' | .work/target/release/c13" % (hx("/tmp/c13r"), hx(t))})
    ctx.oblige(ndiff == 0, "scanner correspondence")
    return len(texts)


# ------------------------------------------------------------------ part B: pipeline

def gen_line(d, pr):
    s = pr['settings']
    vis = s['vis']
    if vis == "in":
        vis = "in:" + hx("crate::%s" % pr['name'])
    l = "gen %s %s yk=%s rec=%s ser=%s ed=%s vis=%s mody=%s modl=%s entry=%s" % (
        hx(d), pr['name'], pr['yk'], s['rec'], s['ser'], s['ed'], vis, s['mody'], s['modl'], s.get('entry', 'build'))
    if s.get('amp', '-') != '-':
        l += " amp=%s" % s['amp']
    for k in c13gen.ALL_FLAGS:
        if k in pr['lex_api']:
            l += " lf:%s=%d" % (k, int(pr['lex_api'][k]))
    return l


def rt_line(d, pr):
    s = pr['settings']
    l = "rt %s %s yk=%s rec=%s par=%s tpl=%s" % (
        hx("%s/%s.y" % (d, pr['name'])), hx("%s/%s.rt.l" % (d, pr['name'])), pr['yk'],
        "N" if s['rec'] == "N" else "C", pr['parse_param'] if pr['parse_param'] is not None else "-",
        hx(c13gen.template(pr)) or "-")
    for inp in pr['inputs']:
        l += " # " + hx(inp)
    return l


def parse_meta(meta):
    """`EPP … RULES … TOKS … [PRODS … PMAP … MISSING a b]` -> dict"""
    f = meta.split()
    res = {}
    i = 0
    while i < len(f):
        if f[i] in ("EPP", "RULES", "TOKS", "PRODS", "PMAP"):
            nxt = f[i + 1] if i + 1 < len(f) and f[i + 1] not in ("EPP", "RULES", "TOKS", "PRODS", "PMAP", "MISSING") else ""
            res[f[i]] = nxt
            i += 2 if nxt else 1
        elif f[i] == "MISSING":
            res["MISSING"] = (f[i + 1], f[i + 2])
            i += 3
        else:
            i += 1
    return res


def kvlist(s):
    return [tuple(x.split("=", 1)) for x in s.split(",") if x]


IDENT = re.compile(r"^[a-zA-Z_][a-zA-Z_0-9]*$")


def const_names(meta):
    """the rules / tokens whose R_* / N_* constant the glue code reads: those whose upper-cased name is unique (two names
    differing only in case give ONE constant name — the `scope` programs; never so in the other families)"""
    def unique(hs):
        names = [unhx(h) for h in hs]
        return [h for h, n in zip(hs, names) if sum(1 for x in names if x.upper() == n.upper()) == 1]
    return (unique([h for h, _ in kvlist(meta["RULES"])]),
            unique([h for h, _ in kvlist(meta["TOKS"]) if IDENT.match(unhx(h))]))


def module_source(d, pr, meta):
    name = pr['name']
    ymod = pr['settings']['mody'] if pr['settings']['mody'] != "-" else name + "_y"
    lmod = pr['settings']['modl'] if pr['settings']['modl'] != "-" else name + "_l"
    ntok = len(kvlist(meta["EPP"]))
    rnames, tnames = const_names(meta)
    rules = ", ".join('format!("%s={}", %s::R_%s)' % (h, ymod, unhx(h).upper()) for h in rnames)
    toks = ", ".join('format!("%s={}", %s::N_%s)' % (h, lmod, unhx(h).upper()) for h in tnames)
    param = ", %du64" % pr['parse_param'] if (pr['parse_param'] is not None and pr['yk'] in 'GU') else ""
    val = "crate::gv::val_tree(&v)" if pr['yk'] == 'O' else "crate::gv::val_string(&v)"
    return """
mod %(name)s {
    include!("%(d)s/%(name)s.y.rs");
    include!("%(d)s/%(name)s.l.rs");
    pub fn run(inputs: &[String]) -> Vec<String> {
        let mut out = Vec::new();
        let mut meta = String::from("EPP ");
        meta.push_str(&(0..%(ntok)du32).map(|i| format!("{}={}", i, %(ymod)s::token_epp(::cfgrammar::TIdx(i)).map(|s| crate::gv::hex(s)).unwrap_or_else(|| "-".to_string()))).collect::<Vec<_>>().join(","));
        let rules: Vec<String> = vec![%(rules)s];
        let toks: Vec<String> = vec![%(toks)s];
        meta.push_str(" RULES ");
        meta.push_str(&rules.join(","));
        meta.push_str(" TOKS ");
        meta.push_str(&toks.join(","));
        out.push(meta);
        let ld = %(lmod)s::lexerdef();
        for inp in inputs {
            let lexer = ld.lexer(inp);
            let lx = crate::gv::lexemes(&lexer);
            let (v, es) = %(ymod)s::parse(&lexer%(param)s);
            let mut line = format!("{} | {} | {}", lx, %(val)s, crate::gv::errs(&es));
            if !es.is_empty() {
                // an erroneous input: the generated parse() is called again (a fresh lexer each time); every call
                // has to return the same lexemes, value and errors with the same repairs() lists
                for _ in 1..%(calls)d {
                    let lexer = ld.lexer(inp);
                    let lx = crate::gv::lexemes(&lexer);
                    let (v, es) = %(ymod)s::parse(&lexer%(param)s);
                    line.push_str(&format!(" @@ {} | {} | {}", lx, %(val)s, crate::gv::errs(&es)));
                }
            }
            out.push(line);
        }
        out
    }
}
""" % dict(name=name, d=d, ymod=ymod, lmod=lmod, ntok=ntok, rules=rules, toks=toks, param=param, val=val, calls=CT_CALLS)


MAIN_HEAD = """#![allow(warnings)]
// throw-away crate written by checks/C13.py: `include!`s the generated modules exactly as
// lrpar_mod!/lrlex_mod! do and prints what they compute in the format of harness/src/c13_fmt.rs
extern crate cfgrammar;
extern crate lrlex;
extern crate lrpar;
#[path = "%s/src/c13_fmt.rs"]
pub mod gv;
use std::collections::HashMap;
"""

MAIN_TAIL = """
fn main() {
    std::panic::set_hook(Box::new(|_| {}));
    let path = std::env::args().nth(1).unwrap();
    let data = std::fs::read_to_string(path).unwrap();
    let mut inputs: HashMap<String, Vec<String>> = HashMap::new();
    for l in data.lines() {
        let mut it = l.split(' ');
        let name = it.next().unwrap().to_string();
        let h = it.next().unwrap_or("");
        inputs.entry(name).or_default().push(gv::unhex(h));
    }
    let empty: Vec<String> = Vec::new();
    let progs: Vec<(&str, fn(&[String]) -> Vec<String>)> = vec![%s];
    for (name, f) in progs {
        let ins = inputs.get(name).unwrap_or(&empty).clone();
        match std::panic::catch_unwind(move || f(&ins)) {
            Ok(lines) => {
                for (i, l) in lines.iter().enumerate() {
                    println!("{} {} {}", name, i, l);
                }
            }
            Err(e) => {
                let msg = if let Some(s) = e.downcast_ref::<&str>() { s.to_string() } else if let Some(s) = e.downcast_ref::<String>() { s.clone() } else { "?".to_string() };
                println!("{} PANIC {}", name, gv::hex(&msg));
            }
        }
    }
}
"""


def write_crate(cdir, d, progs, metas, nbins):
    """one package, several [[bin]] targets (compiled in parallel); the programs generated for a Rust
    edition are put into targets OF THAT EDITION"""
    shutil.rmtree(cdir, ignore_errors=True)
    os.makedirs(os.path.join(cdir, "src", "bin"))
    toml = open(os.path.join(core.HARNESS, "Cargo.toml")).read()
    toml = toml.replace('name = "gvh"\nversion', 'name = "%s"\nautobins = false\nversion' % CRATE)
    toml = re.sub(r"\[lib\]\nname = \"gvh\"\npath = \"src/lib.rs\"\n", "", toml)
    by_ed = {}
    solo = [pr for pr in progs if pr.get('scope')]          # expected to be rejected by rustc: a target of its own
    rest = [pr for pr in progs if not pr.get('scope')]
    for pr in rest:
        # output generated for Rust2015 is compiled in a 2021 target: a 2015-edition rustc rejects it (see
        # the assumptions), which puts it outside the property's premise "once compiled"
        by_ed.setdefault("2021" if pr['settings']['ed'] == "2015" else pr['settings']['ed'], []).append(pr)
    groups = []
    for ed, prs in sorted(by_ed.items()):
        k = max(1, min(len(prs), round(nbins * len(prs) / len(rest))))
        for j in range(k):
            part = prs[j::k]
            if part:
                groups.append((ed, part))
    for pr in solo:
        groups.append((pr['settings']['ed'], [pr]))
    names = []
    for b, (ed, prs) in enumerate(groups):
        src = MAIN_HEAD % core.HARNESS
        for pr in prs:
            src += module_source(d, pr, metas[pr['name']])
        src += MAIN_TAIL % ", ".join('("%s", %s::run as fn(&[String]) -> Vec<String>)' % (pr['name'], pr['name']) for pr in prs)
        bn = "%s_b%d" % (CRATE, b)
        with open(os.path.join(cdir, "src", "bin", bn + ".rs"), "w") as f:
            f.write(src)
        toml += '\n[[bin]]\nname = "%s"\npath = "src/bin/%s.rs"\nedition = "%s"\n' % (bn, bn, ed)
        # line ranges of the per-program modules (to attribute rustc errors in the glue code)
        ranges, cur = [], None
        for ln, text in enumerate(src.splitlines(), 1):
            m = re.match(r"^mod (p\d+) \{", text)
            if m:
                cur = m.group(1)
            if cur:
                ranges.append((ln, cur))
            if text.startswith("fn main()"):
                cur = None
        names.append((bn, [pr['name'] for pr in prs], dict(ranges)))
    with open(os.path.join(cdir, "Cargo.toml"), "w") as f:
        f.write(toml)
    shutil.copy(os.path.join(core.REPO, "Cargo.lock"), os.path.join(cdir, "Cargo.lock"))
    return names


def cargo_build(cdir):
    return core.sh(["cargo", "build", "--offline", "--release", "--bins", "--keep-going"], cwd=cdir,
                   env={"RUSTFLAGS": "--cfg %s" % core.GUARD, "CARGO_TARGET_DIR": core.TARGET}, timeout=3000)


def clean_artifacts():
    rel = os.path.join(core.TARGET, "release")
    for sub in ("", "deps", ".fingerprint", "incremental"):
        dd = os.path.join(rel, sub)
        if not os.path.isdir(dd):
            continue
        for f in os.listdir(dd):
            if f.startswith(CRATE):
                p = os.path.join(dd, f)
                if os.path.isdir(p):
                    shutil.rmtree(p, ignore_errors=True)
                else:
                    try:
                        os.remove(p)
                    except OSError:
                        pass


ERR_RE = re.compile(r"(L\d+:\d+|P[^{]*\{[^}]*\})")


def split_result(r):
    """`LEX … | VAL … | ERRS n e e [| RED log id]`"""
    parts = [p.strip() for p in r.split(" | ")]
    lex, val, errs = parts[0], parts[1], parts[2]
    red = parts[3] if len(parts) > 3 else None
    es = ERR_RE.findall(errs)
    n = int(errs.split()[1])
    return lex, val, n, es, red


def err_as_set(e):
    """an error with its repair sequences sorted (the SET of sequences)"""
    if e is None or not e.startswith("P"):
        return e
    head, body = e.split("{", 1)
    return head + "{" + ";".join(sorted(body[:-1].split(";"))) + "}"


def repair_seqs(e):
    if e is None or not e.startswith("P"):
        return []
    body = e.split("{", 1)[1][:-1]
    return body.split(";") if body else []


def tied_first_rank(e, avoid_ids):
    """the repairs() list of error `e` starts with >= 2 sequences of ONE rank — simplify_repairs sorts on (contains an
    insertion of an %avoid_insert token, length) only: which of them is applied is decided by the order alone"""
    seqs = repair_seqs(e)
    if len(seqs) < 2:
        return False
    def key(sq):
        items = sq.split(".")
        return (any(it.startswith("I") and it[1:] in avoid_ids for it in items), len(items))
    return key(seqs[0]) == key(seqs[1])


def compare_results(ct, rt):
    """compare what the property constrains; returns (list of differences, value_compared, deterministic)"""
    diffs = []
    clex, cval, cn, ces, _ = split_result(ct)
    rlex, rval, rn, res, _ = split_result(rt)
    if clex != rlex:
        diffs.append(("lexemes", clex, rlex))
        return diffs, False, True
    det = True
    for i in range(max(len(ces), len(res))):
        a = ces[i] if i < len(ces) else None
        b = res[i] if i < len(res) else None
        if err_as_set(a) != err_as_set(b):
            diffs.append(("error %d (position + repair set)" % i, a, b))
            return diffs, False, det
        if REPAIR_ORDER_FIXED:
            # the repairs() list IN ORDER: its head is the sequence recovery applied
            if a != b:
                diffs.append(("error %d: repairs() holds the same sequences in another ORDER (the first one is the one applied)" % i, a, b))
                break
        elif a is not None and a.startswith("P") and a.count(";") >= 1:
            # pinned code: among several sequences of the same rank the applied one was not determined (randomly
            # seeded HashSet): what follows an error with more than one repair sequence is not compared
            det = False
            break
    if det:
        if cn != rn:
            diffs.append(("number of errors", cn, rn))
        if cval != rval:
            diffs.append(("value", cval, rval))
    return diffs, det, det


FLAG_RE = re.compile(r"lex_flags\s*\.\s*(\w+)\s*=\s*::std::option::Option::(None|Some\s*\(\s*([^)]*?)\s*\))\s*\.\s*or\s*\(")


def read_quoted_flags(path):
    src = open(path).read()
    found = {}
    for m in FLAG_RE.finditer(src):
        name, what, arg = m.group(1), m.group(2), m.group(3)
        if what == "None":
            found[name] = "-"
        else:
            arg = arg.strip()
            if arg in ("true", "false"):
                found[name] = "1" if arg == "true" else "0"
            else:
                found[name] = re.sub(r"(usize|u32|u64)$", "", arg)
    return found


def header_fields(flags):
    out = []
    for k in c13gen.ALL_FLAGS:
        if k not in flags:
            out.append("-")
        elif k in c13gen.NUM_FLAGS:
            out.append(str(flags[k]))
        else:
            out.append("1" if flags[k] else "0")
    return out


def static_flags_compare(ctx, mexe, items):
    """items: (name, path of the generated lexer, effective header flags, lexer text, api flags).  The twelve
    quoted options of the generated lexerdef() are read back, evaluated by the model (run_generated_flags)
    and compared with the model's regen/fill of the header (proved equal)."""
    qlines, hlines = [], []
    for name, path, eff, _, _ in items:
        found = read_quoted_flags(path)
        qlines.append("qflags " + " ".join(found.get(k, "?") for k in c13gen.GEN_ORDER))
        hlines.append("flags " + " ".join(header_fields(eff)))
    qres = core.run_lines([mexe], qlines, shards=1) if qlines else []
    hres = core.run_lines([mexe], hlines, shards=1) if hlines else []
    ok = True
    nrep = 0
    for (name, path, eff, ltxt, api), ql, qa, ha in zip(items, qlines, qres, hres):
        regen, fill = [x.strip() for x in ha.split("|")] if "|" in ha else (ha, ha)
        ctx.case("flags %s %s %s" % (sorted(eff.items()), sorted(api.items()), ql), bool(eff),
                 {"kind": "flags", "header": eff, "via_api": api, "generated_quoted": ql, "evaluated": qa}
                 if len(ctx.samples) < 3 else None)
        ctx.count("static_flag_headers")
        if "?" in ql or not (qa == regen == fill):
            ok = False
            ctx.count("static_flag_mismatches")
            nrep += 1
            if nrep > 3:                       # leave room for input-level witnesses among the replays
                continue
            ctx.violation({"kind": "counterexample", "clause": "flag propagation into the generated lexerdef()",
                           "lexer": ltxt, "builder_api_flags": api, "header_flags": eff,
                           "generated_assignments(order %s)" % ",".join(c13gen.GEN_ORDER): ql,
                           "flags_of_generated_lexer": qa, "flags_of_run_time_lexer": fill,
                           "order": ",".join(c13gen.ALL_FLAGS),
                           "consequence": "the compiled lexer builds its regexes with other flags than the run-time lexer "
                                          "(LRNonStreamingLexerDef::from_str on the same source)",
                           "authority": "C13_lexerdef_flags_roundtrip / C13_fill_spec"})
    return ok


def static_flags_part(ctx, exe, mexe, d):
    """generation only (no rustc): one lexer per header of c13gen.static_flag_specs()"""
    sd = os.path.join(d, "lf")
    os.makedirs(sd)
    specs = c13gen.static_flag_specs()
    lines, items = [], []
    for i, (flags, via) in enumerate(specs):
        txt, api = c13gen.static_lexer(flags, via)
        open("%s/lf%d.l" % (sd, i), "w").write(txt)
        l = "lexgen %s lf%d" % (hx(sd), i)
        for k in c13gen.ALL_FLAGS:
            if k in api:
                l += " lf:%s=%d" % (k, int(api[k]))
        lines.append(l)
        items.append(("lf%d" % i, "%s/lf%d.l.rs" % (sd, i), flags, txt, api))
    res = core.run_lines([exe], lines)
    good = []
    nrej = 0
    for it, r in zip(items, res):
        if r.startswith("OK"):
            good.append(it)
        elif r.startswith("PANIC"):
            ctx.violation({"kind": "correspondence-only", "what": "CTLexerBuilder panics", "lexer": it[3], "api": it[4],
                           "panic": unhx(r.split()[1]) if len(r.split()) > 1 else r}, no_input=True)
        else:
            nrej += 1
    ctx.count("static_flag_headers_rejected", nrej)
    ok = static_flags_compare(ctx, mexe, good)
    # every flag must have been seen alone with a non-default value
    # every flag must have been seen alone with every value (in particular its non-default one), both ways
    alone = {(k, str(v), bool(api)) for _, _, eff, _, api in good if len(eff) == 1 for k, v in eff.items()}
    want = {(k, str(v), bool(api)) for f, via in specs if len(f) == 1 for k, v in f.items() for api in [via != "section"]}
    if alone != want:
        ctx.violation({"kind": "correspondence-only", "what": "CTLexerBuilder rejects lexers of the static flag sweep that it accepts "
                       "on the unchanged tree", "missing": sorted(map(str, want - alone))}, no_input=True)
    ctx.oblige(ok and alone == want, "flags correspondence (every flag alone, section and API, and pairs)")
    return len(good)


# ---- the generated parse() / lexerdef() text = the module of theories/C13/PipelineModel.v ----

ENTRY_TEXT = {
    "G": ".parse_actions(lexer,&actions,",
    "U": ".parse_actions(lexer,&actions,",
    "O": ".parse_map(lexer,&|lexeme|Node::Term{lexeme},&|ridx,nodes|Node::Nonterm{ridx,nodes})",
    "N": ".parse_map(lexer,&|_|(),&|_,_|()).1",
}
RECONSTITUTE_ARM = "::lrpar::ctbuilder::SerialisationFormat::%s=>{::lrpar::ctbuilder::_reconstitute(__GRM_DATA,__STABLE_DATA,"


def reconstitute_arm_config(T, fmt):
    """the configuration expression (third argument of `_reconstitute`) of the arm of `fmt` in the squeezed text of a
    generated parser; None unless there is exactly one arm of the expected shape `Fmt => { _reconstitute(G, S, <cfg>) }`"""
    head = RECONSTITUTE_ARM % fmt
    if T.count(head) != 1:
        return None
    i = T.index(head) + len(head)
    depth, j = 1, i
    while j < len(T) and depth:
        depth += {"(": 1, ")": -1}.get(T[j], 0)
        j += 1
    if depth or not T.startswith("}", j):
        return None
    return T[i:j - 1]


def squeeze(text):
    """layout-free form of a generated file: no white space, no trailing comma before a closing bracket
    (the pretty-printer adds one when it breaks an argument list over lines)"""
    return re.sub(r",(?=[)\]}])", "", re.sub(r"\s+", "", text))


def embedded_bytes(T, name):
    m = re.findall(r"const%s:&\[u8\]=&\[((?:\d+u8,?)*)\];" % name, T)
    if len(m) != 1:
        return None
    return bytes(int(x[:-2]) for x in m[0].split(",") if x)


def module_text_facts(T, yk, rec, ser, cfgs):
    """the facts P1-P3 of PipelineModel.v on the whitespace-free text of a generated parser module;
    returns (list of broken facts, __GRM_DATA bytes, __STABLE_DATA bytes)"""
    bad = []
    kind = "None" if rec == "N" else "CPCTPlus"                 # default: RecoveryKind::CPCTPlus
    fmt = "FixedSizeInteger" if ser == "F" else "VariableSizedInteger"   # default: VariableSizedInteger
    gb, sb = embedded_bytes(T, "__GRM_DATA"), embedded_bytes(T, "__STABLE_DATA")
    if gb is None or sb is None:
        bad.append("P1: not exactly one `const __GRM_DATA: &[u8]` / `const __STABLE_DATA: &[u8]` byte-array constant")
    # each constant: its definition + one use per arm of __lrpar_parser_data, nothing else
    if T.count("__GRM_DATA") != 3 or T.count("__STABLE_DATA") != 3 or T.count("_reconstitute(") != 2:
        bad.append("P1: __GRM_DATA / __STABLE_DATA are used elsewhere than as the two arguments of the two _reconstitute calls")
    # each arm reads with the configuration its format is WRITTEN with: the expression of the build-time `serialize` site of
    # ctbuilder.rs (vlib/ctconfig.py; the one harness c14 — P4 — serialises with), of the format's integer encoding
    for f, enc in (("FixedSizeInteger", "fixint"), ("VariableSizedInteger", "varint")):
        arm, want = reconstitute_arm_config(T, f), ctconfig.norm(cfgs[f]["write"])
        if arm is None or ctconfig.norm(arm) != want or ("with_%s_encoding()" % enc) not in want:
            bad.append("P2: the %s arm of __lrpar_parser_data is not `_reconstitute(__GRM_DATA, __STABLE_DATA, <the %s configuration "
                       "the data is serialised with: %s>)` but reads with `%s`" % (f, enc, want, arm))
    if T.count("const__SERIALISATION_FORMAT:::lrpar::ctbuilder::SerialisationFormat=::lrpar::ctbuilder::SerialisationFormat::%s;" % fmt) != 1 \
            or T.count("const__SERIALISATION_FORMAT") != 1:
        bad.append("P2: __SERIALISATION_FORMAT is not the configured format %s" % fmt)
    if T.count("DATA.get_or_init(||{match__SERIALISATION_FORMAT{") != 1 or T.count("__lrpar_parser_data()") != 2:
        bad.append("P2/P3: __lrpar_parser_data is not `DATA.get_or_init(|| match __SERIALISATION_FORMAT {..})` called once (by parse)")
    head = "let__data=__lrpar_parser_data();letgrm=__data.grm();letstable=__data.stable();"
    call = "::lrpar::RTParserBuilder::new(grm,stable).recoverer(::lrpar::RecoveryKind::%s)%s" % (kind, ENTRY_TEXT[yk])
    if T.count(head) != 1 or T.count("RTParserBuilder") != 1 or T.count(".recoverer(") != 1:
        bad.append("P3: parse() does not take grm/stable from __lrpar_parser_data() or builds more/less than one RTParserBuilder")
    elif T.count(call) != 1:
        bad.append("P3: parse() does not call `RTParserBuilder::new(grm, stable).recoverer(RecoveryKind::%s)%s..`" % (kind, ENTRY_TEXT[yk][:14]))
    else:
        i, j = T.index(head), T.index(call)
        if not (T.index("pubfnparse") < i < j):
            bad.append("P3: the RTParserBuilder call is not in the body of parse() after the data look-up")
    return bad, gb, sb


def lexer_text_facts(T):
    """fact L1 of PipelineModel.v on the whitespace-free text of a generated lexer module"""
    bad = []
    n = T.count("Rule::new(")
    if n == 0 or T.count("Rule::new(::lrlex::unstable_api::InternalPublicApi,") != n or T.count(",&lex_flags).unwrap()") != n:
        bad.append("L1: a Rule::new of lexerdef() is not built with `&lex_flags` (and unwrapped)")
    if T.count("letmutlex_flags=::lrlex::DEFAULT_LEX_FLAGS;") != 1 or T.count("letlex_flags=lex_flags;") != 1 \
            or T.count("letlex_flags") != 1 or T.count("letmutlex_flags") != 1:
        bad.append("L1: `lex_flags` is not the one variable the twelve quoted options are folded into")
    if T.count("letstart_states:Vec<StartState>=vec![") != 1 or T.count("letrules=vec![") != 1 \
            or T.count("::lrlex::LRNonStreamingLexerDef::from_rules(start_states,rules)}") != 1:
        bad.append("L1: lexerdef() does not return `LRNonStreamingLexerDef::from_rules(start_states, rules)`")
    return bad


def static_module_part(ctx, d, accepted):
    """Every generated module: the facts about its TEXT that the pipeline theorems (C13_ct_equals_rt,
    C13_ct_lexerdef_equals_rt) assume — P1-P3, L1 by reading the text, P4 by comparing the embedded
    constants with the serialisation (harness c14: same wincode calls as ctbuilder) of the grammar and
    table the RUN-TIME functions build from the same .y source, in the configured format."""
    cfgs = ctconfig.ensure_harness_config()     # harness c14 serialises with the configuration expressions of ctbuilder.rs
    exe14 = core.build_harness("c14")
    lines = []
    for pr in accepted:
        enc = "fix" if pr['settings']['ser'] == "F" else "var"
        lines.append("%s %s 32 %s" % (pr['yk'], hx(c13gen.render_y(pr)), enc))
    rt = core.run_lines([exe14], lines) if lines else []
    ok = True
    nrep = 0
    for pr, r in zip(accepted, rt):
        s = pr['settings']
        T = squeeze(open("%s/%s.y.rs" % (d, pr['name'])).read())
        L = squeeze(open("%s/%s.l.rs" % (d, pr['name'])).read())
        bad, gb, sb = module_text_facts(T, pr['yk'], s['rec'], s['ser'], cfgs)
        bad += lexer_text_facts(L)
        secs = dict((x.split(" ", 1) + [""])[:2] for x in r.split(" # "))
        if "BG" not in secs or "BS" not in secs:
            bad.append("P4: the run-time serialisation of the grammar/table is not available (%s)" % r[:60])
        elif gb is not None and sb is not None:
            if gb != bytes.fromhex(secs["BG"]):
                bad.append("P4: __GRM_DATA is not the %s serialisation of the grammar built at run time from the same source" %
                           ("fixint" if s['ser'] == "F" else "varint"))
            if sb != bytes.fromhex(secs["BS"]):
                bad.append("P4: __STABLE_DATA is not the %s serialisation of the state table built at run time from the same source" %
                           ("fixint" if s['ser'] == "F" else "varint"))
        ctx.count("static_modules")
        ctx.case("module-text %s %s" % (pr['name'], sorted(s.items())), True,
                 {"kind": "module-text", "yk": pr['yk'], "settings": s, "grm_bytes": len(gb or b""), "stable_bytes": len(sb or b""),
                  "facts": "P1-P4, L1 hold"} if not bad and ctx.hist.get("static_modules", 0) <= 1 else None)
        if bad:
            ok = False
            ctx.count("static_module_mismatches")
            nrep += 1
            if nrep > 2:
                continue
            ctx.violation({"kind": "correspondence-only",
                           "what": "the text of a generated module is not the module of theories/C13/PipelineModel.v: the theorems "
                                   "C13_ct_equals_rt / C13_ct_lexerdef_equals_rt (generated parse()/lexerdef() = the run-time library on "
                                   "the same objects) no longer apply to it",
                           "broken_facts": bad, "yacckind": pr['yk'], "settings": s,
                           "grammar": c13gen.render_y(pr), "lexer": c13gen.render_l(pr)}, no_input=True)
    return ok


def plan(ctx):
    """programs of this run: every family under every yacc kind first, then random ones"""
    rng = ctx.rng
    progs = []
    def ff(variant, via):
        return lambda r: c13gen.fam_flags(r, variant=variant, value=c13gen.NON_DEFAULT.get(variant), via=via)
    # one compiled program per behaviour-changing flag at its NON-default value, with rules and inputs
    # that are sensitive to that single flag (section and API alternate), then the other families
    first = [(ff(v, "section" if i % 2 == 0 else "api"), "GUO"[i % 3])
             for i, v in enumerate(["dot", "ml", "ci", "greed", "iw", "posix", "uni", "nums", "cmt"])]
    first += [(ff("dot", "api"), "G"), (ff("ml", "section"), "U")]
    # %avoid_insert tokens that recovery nevertheless inserts (unique cheapest repair): `$k` must be Err
    pinned = {"rec": "C"}
    first += [(lambda r: c13gen.fam_insert(r, avoid=["INT", "EQ", "ID"]), "G", pinned), (c13gen.fam_avoid, "U", pinned),
              (c13gen.fam_avoid, "G", {"rec": "-"})]
    # the ENTRY POINT is an input of the generation step: programs generated through the deprecated
    # CTParserBuilder::process_file (+ CTLexerBuilder::process_file) with the recoverer set through the builder
    # (families with erroneous inputs: the recoverer is visible in the errors / repair sets / value)
    first += [(c13gen.fam_insert, "G", {"rec": "N", "entry": "pf"}), (c13gen.fam_expr, "O", {"rec": "N", "entry": "pf"}),
              (c13gen.fam_list, "U", {"rec": "C", "entry": "pf"}), (c13gen.fam_avoid, "G", {"rec": "N", "entry": "build"})]
    # the .l names tokens the grammar lacks (reserved words before the identifier rule): both entry points,
    # allow_missing_tokens_in_parser set / unset
    first += [(lambda r: c13gen.fam_keywords(r, "stmts"), "G", {"entry": "build", "amp": "1"}),
              (lambda r: c13gen.fam_keywords(r, "calls"), "O", {"entry": "pf", "amp": "-"}),
              (lambda r: c13gen.fam_keywords(r, "stmts"), "U", {"entry": "build", "amp": "-"})]
    # ONE program whose grammar has a programs section of > 80 KB (big embedded constants at the parser's start-up)
    first += [(c13gen.fam_expr, "G", {"ser": "V"}, {"big_programs": 90000})]
    # inputs whose first error has >= 2 equally ranked repair sequences (the auditor's grammar; statements with an
    # alternative missing; lists with two openers): the applied sequence decides the value and the later errors
    def ft(variant):
        return lambda r: c13gen.fam_tied(r, variant)
    first += [(ft("audit"), "G", {"rec": "C"}), (ft("alt"), "G", {"rec": "C"}), (ft("openers"), "U", {"rec": "-"}),
              (ft("alt"), "O", {"rec": "-"}), (ft("openers"), "G", {"rec": "C", "entry": "pf"}), (ft("audit"), "O", {"rec": "C"})]
    first += [(c13gen.fam_expr, "G"), (c13gen.fam_insert, "U"), (c13gen.fam_long, "G"),
              (c13gen.fam_list, "O"), (c13gen.fam_list, "G"), (c13gen.fam_insert, "G"),
              (c13gen.fam_random, "G"), (c13gen.fam_expr, "U"),
              (c13gen.fam_states, "G"), (c13gen.fam_states, "O")]
    k = ctx.n(62, 300)
    for i in range(k):
        if i < len(first):
            f, yk = first[i][0], first[i][1]
            forced_ = first[i][2] if len(first[i]) > 2 else None
            pr = c13gen.make_program(rng, i, family=f, yk=yk, forced=forced_)
            pr['pinned'] = bool(forced_) and bool(pr.get('avoid_insert'))
            pr['pinned_keys'] = set(forced_ or ())
            if len(first[i]) > 3:
                pr.update(first[i][3])
            progs.append(pr)
        else:
            progs.append(c13gen.make_program(rng, i))
    # settings coverage: make sure every recoverer / format / edition / visibility occurs
    forced = [("rec", ["C", "N", "-"]), ("ser", ["F", "V", "-"]), ("ed", ["2015", "2018", "2021"]),
              ("vis", ["priv", "pub", "super", "self", "crate", "in"]), ("entry", ["build", "pf"]), ("amp", ["-", "0", "1"])]
    for key, vals in forced:
        for j, v in enumerate(vals):
            idx = (j * 5 + len(key)) % len(progs)
            while key in progs[idx].get('pinned_keys', ()):
                idx = (idx + 1) % len(progs)
            progs[idx]['settings'][key] = v
    # SCOPE (premise "once compiled" not met — measured, not findings): specifications the builders accept whose generated
    # module rustc rejects; should one compile after a change, it is compared like any other program
    for j, (variant, yk) in enumerate(c13gen.SCOPE_VARIANTS):
        progs.append(c13gen.make_scope_program(rng, k + j, variant, yk))
    return progs


def tamper(d, progs, how):
    """SELF-TEST ONLY (env C13_SELFTEST): damage the generated files the way a code-generation fault
    would, to see that the check alarms.  Never active in a normal run."""
    for pr in progs:
        yp, lp = "%s/%s.y.rs" % (d, pr['name']), "%s/%s.l.rs" % (d, pr['name'])
        if how == "swapargs" and os.path.exists(yp):
            src = open(yp).read()
            src = re.sub(r"(__gt_action_\d+\(\s*__gt_ridx,\s*__gt_lexer,\s*__gt_span,\s*[\w()]+,\s*)__gt_arg_1,(\s*)__gt_arg_2,",
                         r"\1__gt_arg_2,\2__gt_arg_1,", src)
            open(yp, "w").write(src)
        if how == "wrapperorder" and os.path.exists(yp):
            src = open(yp).read()
            src = src.replace("let __gt_arg_1 = match", "let __gt_arg_TMP = match").replace("let __gt_arg_2 = match", "let __gt_arg_1 = match").replace("let __gt_arg_TMP = match", "let __gt_arg_2 = match")
            open(yp, "w").write(src)
        if how == "dropflag" and os.path.exists(lp):
            src = open(lp).read()
            src = re.sub(r"(lex_flags\s*\.\s*\w+\s*=\s*::std::option::Option::)Some\s*\([^)]*\)", r"\1None", src)
            open(lp, "w").write(src)
        if how == "arg10" and os.path.exists(yp):
            src = open(yp).read()
            src = re.sub(r"&__gt_arg_1(\d)\b", r"&__gt_arg_1", src)
            open(yp, "w").write(src)
        if how == "recoverer" and os.path.exists(yp):
            src = open(yp).read()
            src = src.replace("RecoveryKind::CPCTPlus", "RecoveryKind::TMP").replace("RecoveryKind::None", "RecoveryKind::CPCTPlus").replace("RecoveryKind::TMP", "RecoveryKind::None")
            open(yp, "w").write(src)
        if how == "swapdata" and os.path.exists(yp):
            src = open(yp).read()
            src = re.sub(r"__GRM_DATA,(\s*)__STABLE_DATA,", r"__STABLE_DATA,\1__GRM_DATA,", src)
            open(yp, "w").write(src)
        if how == "format" and os.path.exists(yp):
            src = open(yp).read()
            src = re.sub(r"(const __SERIALISATION_FORMAT[^=]*=[^;]*::)(FixedSizeInteger|VariableSizedInteger);",
                         lambda m: m.group(1) + ("VariableSizedInteger" if m.group(2) == "FixedSizeInteger" else "FixedSizeInteger") + ";", src)
            open(yp, "w").write(src)
        if how == "databyte" and os.path.exists(yp):
            src = open(yp).read()
            src = re.sub(r"(const __STABLE_DATA: &\[u8\] = &\[\s*)(\d+)u8", lambda m: "%s%du8" % (m.group(1), (int(m.group(2)) + 1) % 256), src)
            open(yp, "w").write(src)
        if how == "ruleflags" and os.path.exists(lp):
            src = open(lp).read()
            src = src.replace("& lex_flags).unwrap()", "& ::lrlex::DEFAULT_LEX_FLAGS).unwrap()", 1)
            open(lp, "w").write(src)
        if how == "config" and os.path.exists(yp):
            # the Fixed arm reads with a configuration other than the one ctbuilder.rs writes with (a size limit on the reading side only)
            src = open(yp).read()
            src = re.sub(r"(with_fixint_encoding\s*\(\s*\))\s*\.\s*disable_preallocation_size_limit\s*\(\s*\)", r"\1", src)
            open(yp, "w").write(src)
        if how == "scopefix" and pr.get('scope'):
            # what a repaired code generator could write for the SCOPE programs (distinct constant names, a local that does
            # not shadow the parameter): the modules compile and must then behave like the run-time pipeline
            for path, pat in ((yp, r"pub const R_A: u32"), (lp, r"pub const N_E: u32")):
                src = open(path).read()
                if src.count(pat) == 2:
                    i = src.rindex(pat)
                    src = src[:i] + pat.replace(": u32", "_2: u32") + src[i + len(pat):]
                    open(path, "w").write(src)
            if pr.get('param_name') == "grm":
                src = open(yp).read()
                src = src.replace("let grm = __data.grm();", "let __gt_grm = __data.grm();").replace("RTParserBuilder::new(grm, stable)", "RTParserBuilder::new(__gt_grm, stable)")
                open(yp, "w").write(src)
        if how == "okerr" and os.path.exists(yp):
            src = open(yp).read()
            src = src.replace("if l.faulty() { Err(l) } else { Ok(l) }", "if l.faulty() { Ok(l) } else { Err(l) }")
            open(yp, "w").write(src)


def pipeline_part(ctx, exe, mexe, d):
    progs = plan(ctx)
    for pr in progs:
        open("%s/%s.y" % (d, pr['name']), "w").write(c13gen.render_y(pr))
        open("%s/%s.l" % (d, pr['name']), "w").write(c13gen.render_l(pr))
        open("%s/%s.rt.l" % (d, pr['name']), "w").write(c13gen.render_l(pr, merged=True))
    gen = core.run_lines([exe], [gen_line(d, pr) for pr in progs], env=BUDGET_ENV)
    rt = core.run_lines([exe], [rt_line(d, pr) for pr in progs], env=BUDGET_ENV)
    if os.environ.get("C13_SELFTEST"):
        tamper(d, progs, os.environ["C13_SELFTEST"])
    accepted, metas, rtres = [], {}, {}
    skipped = 0
    scope_obs = []
    for pr, g, r in zip(progs, gen, rt):
        desc = {"family": pr['family'], "yk": pr['yk'], "settings": pr['settings'], "lex_section": pr['lex_section'],
                "lex_api": pr['lex_api'], "parse_param": pr['parse_param']}
        if not g.startswith("OK"):
            msg = unhx(g.split()[1]) if len(g.split()) > 1 else g
            if pr.get('scope') and g.startswith("ERR"):
                # the builders now REJECT the specification: outside the property's domain ("the builders accept")
                scope_obs.append({"program": pr['family'], "why": pr['scope'], "builders": "Err: " + msg[:300], "rustc": "not reached"})
                ctx.count("scope_%s_rejected_by_builder" % pr['family'].split(":")[1])
                continue
            if not r.startswith("OK") or (pr['family'] == "random" and not g.startswith("PANIC")):
                # outside the property's domain: the builders do not accept it (rejected by both pipelines, or a
                # random grammar with conflicts, which only the compile-time builder treats as an error)
                skipped += 1
                ctx.count("rejected_by_builder")
                continue
            ctx.violation({"kind": "correspondence-only", "what": "the compile-time builders reject (or panic on) a specification of a "
                           "family they accept on the unchanged tree, while the run-time pipeline is " + r[:40],
                           "program": desc, "grammar": c13gen.render_y(pr), "lexer": c13gen.render_l(pr), "builder_says": msg[:1500]},
                          no_input=True)
            ctx.oblige(False, "builder accepts")
            continue
        if not r.startswith("OK"):
            ctx.violation({"kind": "counterexample", "what": "compile-time builders accept the specification, the run-time pipeline does not",
                           "program": desc, "grammar": c13gen.render_y(pr), "lexer": c13gen.render_l(pr, merged=True),
                           "runtime_says": (unhx(r.split()[1]) if len(r.split()) > 1 else r)[:1500]})
            ctx.oblige(False, "run-time accepts")
            continue
        secs = r.split(" ## ")
        metas[pr['name']] = parse_meta(secs[0][3:])
        rtres[pr['name']] = secs[1:]
        accepted.append(pr)
    ctx.count("programs_generated", len(progs))
    ctx.count("programs_accepted", len(accepted))

    # ---- static: the quoted flags of every generated lexerdef() ----
    flags_ok = static_flags_compare(ctx, mexe, [(pr['name'], "%s/%s.l.rs" % (d, pr['name']), c13gen.effective_flags(pr),
                                                 c13gen.render_l(pr), pr['lex_api']) for pr in accepted])
    ctx.oblige(flags_ok, "flags correspondence (compiled programs)")

    # ---- static: the text of every generated parse() / lexerdef() is what the pipeline theorems assume ----
    ctx.oblige(static_module_part(ctx, d, accepted), "generated parse()/lexerdef() text (P1-P4, L1 of PipelineModel.v)")

    # ---- compile (one cargo invocation per pass, targets in parallel), run ----
    cdir = os.path.join(d, "crate")
    nbins = min(len(accepted), max(1, min(core.NPROC, 12)))
    todo = list(accepted)
    outputs = {}
    broken = {}
    inp = os.path.join(d, "inputs.txt")
    with open(inp, "w") as f:
        for pr in accepted:
            for i in pr['inputs']:
                f.write("%s %s\n" % (pr['name'], hx(i)))
    for attempt in range(4):
        if not todo:
            break
        clean_artifacts()
        bins = write_crate(cdir, d, todo, metas, min(nbins, len(todo)))
        p = cargo_build(cdir)
        failed_bins = set(re.findall(r'could not compile `%s` \(bin "(\w+)"\)' % CRATE, p.stderr))
        if p.returncode != 0 and not failed_bins:
            raise core.GateFailure("c13-crate-build", p.stderr[-6000:])
        # rustc's error blocks, attributed to programs through the path of the generated file or the
        # line of the glue module
        blocks = re.split(r"\n(?=error)", p.stderr)
        perr = {}
        for blk in blocks:
            if not blk.startswith("error") or blk.startswith("error: could not compile"):
                continue
            who = set(re.findall(r"-->\s*%s/(\w+)\.[yl]\.rs" % re.escape(d), blk))
            for bn, _, ranges in bins:
                for ln in re.findall(r"-->\s*src/bin/%s\.rs:(\d+)" % bn, blk):
                    if int(ln) in ranges:
                        who.add(ranges[int(ln)])
            for w in who:
                perr.setdefault(w, []).append(blk[:1200])
        nxt = []
        for bn, names, _ in bins:
            prs = [pr for pr in todo if pr['name'] in names]
            if bn not in failed_bins:
                r = core.sh([os.path.join(core.TARGET, "release", bn), inp], env=BUDGET_ENV, timeout=1200)
                for l in r.stdout.splitlines():
                    f = l.split(" ", 2)
                    outputs.setdefault(f[0], {})[f[1]] = f[2] if len(f) > 2 else ""
                continue
            blamed = [pr for pr in prs if pr['name'] in perr]
            if not blamed and len(prs) == 1:
                perr[prs[0]['name']] = [b[:1200] for b in blocks if b.startswith("error") and bn in b][:3] or \
                                       ["rustc rejects target %s (the only program of the target)" % bn]
                blamed = prs
            if not blamed:
                raise core.GateFailure("c13-crate-build", p.stderr[-6000:])
            for pr in prs:
                errs = perr.get(pr['name'])
                if not errs:
                    nxt.append(pr)                       # innocent bystander of a failed target
                else:
                    broken[pr['name']] = "\n".join(errs)[:4000]
        todo = nxt
    for pr in accepted:
        if pr.get('scope'):
            # premise "once compiled": build() is Ok and rustc rejects the module -> an OBSERVATION in the evidence; if the
            # module compiles it is compared below like every other program
            codes = sorted(set(re.findall(r"error\[(E\d+)\]", broken.get(pr['name'], ""))))
            first = re.search(r"error(?:\[E\d+\])?: [^\n]*", broken.get(pr['name'], ""))
            scope_obs.append({"program": pr['family'], "why": pr['scope'], "builders": "Ok",
                              "rustc": ("rejects: %s %s" % (",".join(codes), first.group(0)[:200] if first else "")).strip()
                              if pr['name'] in broken else "compiles: compared with the run-time pipeline like every program"})
            ctx.count("scope_%s_%s" % (pr['family'].split(":")[1], "rustc_rejects_" + "_".join(codes) if pr['name'] in broken else "compiles"))
            ctx.case("scope %s" % pr['family'], False,
                     {"kind": "scope-observation", "grammar": c13gen.render_y(pr), "lexer": c13gen.render_l(pr), "observation": scope_obs[-1]})
            continue
        if pr['name'] in broken:
            ctx.violation({"kind": "counterexample", "what": "the generated module is rejected by rustc",
                           "grammar": c13gen.render_y(pr), "lexer": c13gen.render_l(pr), "settings": pr['settings'],
                           "yacckind": pr['yk'], "rustc": broken[pr['name']]})
    ctx.coverage["scope_observations"] = scope_obs
    ctx.oblige(not [pr for pr in accepted if pr['name'] in broken and not pr.get('scope')], "generated modules compile")

    # ---- compare ----
    ndiff = 0
    nprog_compared = 0
    evl, evmeta = [], []
    stats = dict(inputs=0, with_errors=0, values_compared=0, err_values=0, nondet_skipped=0, lexerr=0, avoid_insert_err_values=0,
                 tied_inputs=0, tied_first_error=0, tied_then_later_errors=0, tied_values=0, ct_repeat_calls=0, several_sequences=0,
                 unused_token_rule_hits=0, process_file_inputs=0, process_file_recN_error_inputs=0, process_file_recC_repaired_inputs=0)
    for pr in accepted:
        name = pr['name']
        if name in broken:
            continue
        out = outputs.get(name)
        desc = {"family": pr['family'], "yk": pr['yk'], "settings": pr['settings'], "lex_section": pr['lex_section'],
                "lex_api": pr['lex_api'], "parse_param": pr['parse_param']}
        base = {"kind": "counterexample", "program": desc, "grammar": c13gen.render_y(pr), "lexer": c13gen.render_l(pr),
                "files": "written by checks/C13.py (seed %d, tier %s) as %s.{y,l}" % (ctx.seed, ctx.tier, name)}
        if out is None or "PANIC" in out:
            ndiff += 1
            if pr.get('big_programs'):
                base = dict(base, grammar=base['grammar'][:3000] + " …[programs section of %d bytes: see gen/c13gen.render_y]" % len(base['grammar']),
                            programs_section_bytes=pr['big_programs'])
            ctx.violation(dict(base, what="the compiled generated parser/lexer panics (at start-up or on one of the inputs: the run-time "
                                          "pipeline answers all of them) or produced no output",
                               inputs=pr['inputs'][:4], runtime_results=[x.split(" | RED")[0][:200] for x in rtres[name][:4]],
                               panic=unhx(out["PANIC"]) if out and "PANIC" in out else "no output"))
            continue
        nprog_compared += 1
        m = metas[name]
        cm = parse_meta(out.get("0", ""))
        if cm.get("EPP") != m.get("EPP"):
            ndiff += 1
            ctx.violation(dict(base, what="token_epp differs", compiled=cm.get("EPP"), runtime=m.get("EPP")))
        if dict(kvlist(cm.get("RULES", ""))) != {k: v for k, v in kvlist(m.get("RULES", "")) if k in const_names(m)[0]}:
            ndiff += 1
            ctx.violation(dict(base, what="R_* constants differ from the run-time rule indices", compiled=cm.get("RULES"), runtime=m.get("RULES")))
        rnames, tnames = const_names(m)
        rtoks = {k: v for k, v in kvlist(m.get("TOKS", "")) if k in tnames}
        if dict(kvlist(cm.get("TOKS", ""))) != rtoks:
            ndiff += 1
            ctx.violation(dict(base, what="N_* constants differ from the run-time token indices", compiled=cm.get("TOKS"), runtime=m.get("TOKS")))
        pmap = dict(kvlist(m.get("PMAP", "")))             # pidx -> rulehex.alt
        tpl_by_key = dict(e.split("=", 1) for e in c13gen.template(pr).split(";") if e)
        tpl_pidx = ";".join("%s=%s" % (p, tpl_by_key[k]) for p, k in sorted(pmap.items(), key=lambda x: int(x[0])) if k in tpl_by_key)
        for j, inp in enumerate(pr['inputs']):
            c = out.get(str(j + 1))
            r = rtres[name][j]
            stats['inputs'] += 1
            if c is None:
                ndiff += 1
                ctx.violation(dict(base, what="no result from the compiled parser", input=inp))
                continue
            calls = c.split(" @@ ")
            c = calls[0]
            diffs, valcmp, det = compare_results(c, r)
            _, cval, cn, ces, _ = split_result(c)
            rlex, rval, rn, res_, red = split_result(r)
            # the further calls of the generated parse() on an erroneous input: the same result as the first call
            stats['ct_repeat_calls'] += len(calls) - 1
            if cn and len(calls) != CT_CALLS:
                diffs.append(("calls of the generated parse() on an erroneous input", len(calls), CT_CALLS))
            for kc, ck in enumerate(calls[1:], 2):
                if ck != c and (REPAIR_ORDER_FIXED or compare_results(ck, r)[0]):
                    diffs.append(("call %d of the generated parse() on the same input returns another result than call 1" % kc, ck, c))
                    break
            tids = dict((unhx(k_), v_) for k_, v_ in kvlist(m.get("TOKS", "")))
            avoid_ids = {tids[t] for t in (pr.get('avoid_insert') or []) if t in tids}
            tied = [ix for ix, e_ in enumerate(res_) if tied_first_rank(e_, avoid_ids)]
            if any(len(repair_seqs(e_)) >= 2 for e_ in res_):
                stats['several_sequences'] += 1
            if tied:
                stats['tied_inputs'] += 1
                stats['tied_first_error'] += 1 if tied[0] == 0 else 0
                stats['tied_then_later_errors'] += 1 if tied[0] < len(res_) - 1 else 0
                stats['tied_values'] += 1 if (valcmp and rval != "VAL -") else 0
            if "!" in rlex:
                stats['lexerr'] += 1
                if pr.get('unused_tokens'):
                    stats['unused_token_rule_hits'] += 1     # (or another lexing error of such a program)
            if rn:
                stats['with_errors'] += 1
            if pr['settings'].get('entry') == "pf":
                stats['process_file_inputs'] += 1
                if rn and pr['settings']['rec'] == "N":
                    stats['process_file_recN_error_inputs'] += 1
                if pr['settings']['rec'] != "N" and any(e.startswith("P") and "{}" not in e for e in res_):
                    stats['process_file_recC_repaired_inputs'] += 1
            if valcmp:
                stats['values_compared'] += 1
                if "Err(" in unhx(cval.split()[1]) if cval != "VAL -" else False:
                    stats['err_values'] += 1
                if pr.get('avoid_insert') and pr['yk'] in 'GU' and rval != "VAL -":
                    # an %avoid_insert token that recovery inserted: the run-time value shows Err(<tok>@…) for it
                    tid = {unhx(k): v for k, v in kvlist(m.get("TOKS", ""))}
                    if any(("Err(%s@" % tid[t]) in unhx(rval.split()[1]) for t in pr['avoid_insert'] if t in tid):
                        stats['avoid_insert_err_values'] += 1
            if not det:
                stats['nondet_skipped'] += 1
            nontriv = len(inp.split()) >= 3
            ctx.case("%s|%s|%s|%s|%s" % (c13gen.render_y(pr), c13gen.render_l(pr), sorted(pr['settings'].items()), sorted(pr['lex_api'].items()), inp),
                     nontriv, {"kind": "pipeline", "program": desc, "input": inp, "compiled": c[:300], "runtime": r[:300]})
            if diffs:
                ndiff += 1
                def dec(x):
                    if isinstance(x, str) and x.startswith("VAL ") and x != "VAL -":
                        return unhx(x[4:])
                    return x
                ctx.violation(dict(base, input=inp,
                                   differences=[{"what": w, "this_call": a, "call_1": b} if w.startswith("call") else
                                                {"what": w, "compile_time": dec(a), "run_time": dec(b)} for w, a, b in diffs],
                                   compiled_result=c, runtime_result=r.split(" | RED")[0],
                                   replay="./check C13 --tier %s --seed %d" % (ctx.tier, ctx.seed)))
            # the value recomputed by the Coq wrapper model from the run-time reduction log
            if pr['yk'] in 'GU' and red and red.startswith("RED"):
                rf = red.split()
                if len(rf) == 3 and rf[2] != "-":
                    evl.append("eval %s %s %s %s %s %s" % (hx(inp) or "-", pr['parse_param'] if pr['parse_param'] is not None else 0,
                                                          m["PRODS"], tpl_pidx or "-", rf[1], rf[2]))
                    evmeta.append((pr, inp, c, r, valcmp, base))
    evres = core.run_lines([mexe], evl) if evl else []
    nmodel = 0
    for (pr, inp, c, r, valcmp, base), e in zip(evmeta, evres):
        _, cval, _, _, _ = split_result(c)
        _, rval, _, _, _ = split_result(r)
        nmodel += 1
        if e != rval:
            ndiff += 1
            ctx.violation(dict(base, input=inp, what="the Coq model of the wrapper (unpack + `$k` binding), evaluated on the run-time "
                               "reduction log, does not reproduce the run-time value", model=e, runtime=rval), no_input=True)
        elif valcmp and e != cval:
            ndiff += 1
            ctx.count("model_vs_compiled_value_mismatches")
            ctx.violation(dict(base, input=inp, what="value computed by the generated wrappers/actions differs from the value the "
                               "proved wrapper model computes from the run-time parse", model=e, compiled=cval,
                               authority="C13_wrapper_args_spec, C13_dollar_k_denotes_kth"))
    ctx.oblige(ndiff == 0, "pipeline correspondence")
    # the inputs C13_ct_equals_rt_value is about beyond C13_ct_runs_are_rt_runs: an error whose repairs() list starts with
    # >= 2 sequences of one rank — which one is applied (and so the value and the later errors) is decided by the order alone
    tied_ok = stats['tied_inputs'] >= 50 and stats['tied_then_later_errors'] > 0 and stats['tied_values'] > 0
    ctx.oblige(tied_ok, "coverage: >= 50 inputs with >= 2 first-rank repair sequences (value, later errors, repairs() order compared)")
    if not tied_ok:
        ctx.violation({"kind": "correspondence-only", "what": "the run no longer reaches 50 inputs with several equally ranked repair "
                       "sequences (families tied:audit / tied:alt / tied:openers): %d such inputs, %d followed by later errors, %d with a value"
                       % (stats['tied_inputs'], stats['tied_then_later_errors'], stats['tied_values'])}, no_input=True)
    ctx.oblige(stats['avoid_insert_err_values'] > 0 or not any(p.get('pinned') and p['name'] not in broken for p in accepted),
               "coverage: a compared value in which an %avoid_insert token was inserted (Err)")
    live = [p for p in accepted if p['name'] not in broken and p['name'] in outputs and "PANIC" not in outputs[p['name']]]
    ctx.oblige(stats['unused_token_rule_hits'] > 0 or not any(p.get('unused_tokens') for p in live),
               "coverage: an input lexed into a rule whose (named) token the grammar lacks")
    ctx.oblige(stats['process_file_recN_error_inputs'] > 0
               or not any(p['settings'].get('entry') == "pf" and p['settings']['rec'] == "N" for p in live),
               "coverage: an erroneous input for a parser generated through process_file with recoverer None")
    for k, v in stats.items():
        ctx.count("pipeline_" + k, v)
    ctx.count("model_value_evaluations", nmodel)
    ctx.count("programs_compiled_and_compared", nprog_compared)
    ctx.count("rust2015_output_compiled_as_2021", sum(1 for pr in accepted if pr['settings']['ed'] == "2015" and pr['name'] not in broken))
    for pr in accepted:
        ctx.count("family_" + pr['family'].split(":")[0])
        ctx.count("yk_" + pr['yk'])
        for k in ("rec", "ser", "ed", "vis", "entry", "amp"):
            ctx.count("%s_%s" % (k, pr['settings'][k]))
        ctx.count("entry_%s_rec_%s" % (pr['settings']['entry'], pr['settings']['rec']))
        if pr.get('big_programs'):
            ctx.count("programs_section_over_80KB")
        for k in c13gen.effective_flags(pr):
            ctx.count("flag_" + k)
    return nprog_compared, stats, skipped


def run(ctx):
    # theories/C13/Pipeline*.v are stated over C14's codec theorems and the schemas GENERATED from the Rust
    # definitions: regenerate them here too, so that this gate never builds against a stale Schema_gen.v
    from checks import C14 as _c14
    ctx.gate = core.proof_gate("C13", pregen=_c14.pregen)
    for _ in ctx.gate["theorems"]:
        ctx.oblige(True)
    exe = core.build_harness("c13")
    mexe = core.build_model("c13")
    base = os.path.join(core.SCRATCH if core.SCRATCH else core.WORK, "c13")
    d = os.path.join(base, "b%d_%s" % (ctx.seed, ctx.tier))
    shutil.rmtree(d, ignore_errors=True)
    os.makedirs(os.path.join(d, "subst"))
    try:
        ntexts = scanner_part(ctx, exe, mexe, os.path.join(d, "subst"))
        nstatic = static_flags_part(ctx, exe, mexe, d)
        nprog, stats, skipped = pipeline_part(ctx, exe, mexe, d)
    finally:
        if not os.environ.get("C13_KEEP"):
            shutil.rmtree(base, ignore_errors=True)
            clean_artifacts()
    ctx.coverage["programs"] = nprog
    ctx.coverage["disagreements_checked"] = stats['inputs']
    ctx.coverage["exhaustive"] = False
    ctx.coverage["rule"] = (
        ("scanner: %d action texts (corpus, all pairs of `$`-pieces, random mixtures incl. non-ASCII numeric characters), "
        "non-trivial = at least two `$`; flags (static, generation only): %d lexers, every flag set alone (each boolean value; "
        "section and builder API) and every pair of boolean flags with differing values, the quoted options of lexerdef() read back "
        "and evaluated by the model; module text (every generated program: facts P1-P4, L1 of theories/C13/PipelineModel.v read off "
        "the generated parser and lexer modules, embedded constants compared with the run-time serialisation); pipeline (the first programs: one per behaviour-changing flag at its non-default value with "
        "rules and inputs sensitive to it; programs generated through the deprecated process_file entry points with the recoverer "
        "None / CPCT+ set through the builder and erroneous inputs; lexers that NAME tokens the grammar lacks — reserved words before "
        "the identifier rule, FLOAT next to INT — with inputs that reach those rules; one grammar with a programs section of 90 KB): "
        "%d generated programs (grammar/lexer family x yacc kind x recoverer x "
        "serialisation format x edition x visibility x module names x entry point (build | process_file) x "
        "allow_missing_tokens_in_parser x lexer flags via %%grmtools section or builder API) "
        "compiled in one throw-away crate, each run on sentences, near-sentences and flag-sensitive inputs; a case = "
        "(program, settings, input), distinct by its full text, non-trivial = input of at least 3 words; " % (ntexts, nstatic, nprog))
        + ("value, number of errors and every error's repairs() list IN ORDER are compared on EVERY input (generated parse() vs run-time "
           "call vs the wrapper model; /repo ca69cd1: the applied repair is a function of the input), each erroneous input is parsed %d "
           "times by the generated parse() (%d further calls, all equal to the first); %d inputs have an error with several repair "
           "sequences, %d of them >= 2 sequences of the FIRST rank (families tied:audit — the auditor's `S: 'a' | 'b'` on the empty "
           "input —, tied:alt, tied:openers: %d at the first error, %d followed by later errors, %d with a value); "
           % (CT_CALLS, stats['ct_repeat_calls'], stats['several_sequences'], stats['tied_inputs'], stats['tied_first_error'],
              stats['tied_then_later_errors'], stats['tied_values'])
           if REPAIR_ORDER_FIXED else
           "values are compared when every error has at most one repair sequence (%d inputs skipped the value/later-error comparison "
           "because the applied repair is not determined); " % stats['nondet_skipped'])
        + "%d compared values contain an Err($k) for an inserted lexeme; "
          "%d specifications rejected by the builders (random grammars with conflicts) were skipped; SCOPE programs (builders Ok, "
          "rustc expected to reject: premise 'once compiled' not met — recorded under scope_observations, compared if they compile): %s"
          % (stats['err_values'], skipped, "; ".join("%s -> %s" % (o["program"], o["rustc"][:60]) for o in ctx.coverage.get("scope_observations", []))))
    ctx.coverage["explanation"] = (
        "level 'proof' is claimed for the Coq-carried parts only: the `$`-substitution scanner (all texts), the wrapper's "
        "argument unpacking and `$k` binding (all productions), flag propagation (all headers), and the composition of the PIPELINE over "
        "the C14 codec (generated parse() = the run-time parser on the reconstituted = original objects; generated lexerdef() = the "
        "run-time definition) under the stated facts about the generated text, which are checked on every generated module. That "
        "the compiled module behaves as its text says (serialised tables + generated wrappers + rustc vs run-time construction) is "
        "decided by compile-and-run per generated program (translation validation over the sampled programs/inputs above): partial.")
    ctx.coverage["trusted_base_extra"] = [
        "rustc/cargo (compile the generated modules), quote!/prettyplease/proc_macro2 printing (not modelled)",
        "harness/src/c13_fmt.rs is compiled into both sides so that they print in one format",
    ]
    ctx.assumptions += [
        "PIPELINE THEOREMS (theories/C13/Pipeline*.v over the C14 codec): for EVERY run-time parser (any function of the grammar value, "
        "the table value, the recovery kind, the entry point and the input), both serialisation formats and every storage width the "
        "generated parse() = decode both embedded constants, call that function = the run-time call on the built objects "
        "(C13_ct_equals_rt, _bytes, _parser_data_reconstitutes, _ct_parse_format_independent); for every regex compiler and id "
        "assignment the generated lexerdef() rebuilds the run-time definition — same start states, rules, token ids, regexes compiled "
        "under the same flags (C13_ct_lexerdef_equals_rt, _ct_lex_equals_rt).  These rest on facts about the generated TEXT, checked on "
        "every generated module of the run (obligation 'generated parse()/lexerdef() text'): P1 one __GRM_DATA / __STABLE_DATA constant "
        "each, used only as the arguments of _reconstitute in this order; P2 __SERIALISATION_FORMAT = configured format and each arm "
        "decodes with the configuration expression ctbuilder.rs serialises that format with (read from the source by vlib/ctconfig.py, "
        "which also compiles it into harness c14: size limit disabled since /repo 40b4e42); P3 parse() takes grm/stable from __lrpar_parser_data() and makes exactly one "
        "RTParserBuilder::new(grm, stable).recoverer(<configured kind>).<entry point of the YaccKind>; P4 the embedded bytes equal the "
        "serialisation (harness c14, same wincode calls) of the grammar and table the run-time functions build from the same source "
        "(needs C15: the construction is deterministic across processes); L1 every Rule::new of lexerdef() is built with the one "
        "`lex_flags` variable and lexerdef() returns from_rules(start_states, rules).  NOT checked statically, decided by compile-and-run "
        "only: L2 rustc reads the quoted rule / start-state fields back as the quoted values; the action wrappers' glue; rustc itself",
        "the pipeline theorems use the schema of YaccGrammar / StateTable that C14's translator generated from the Rust sources "
        "(theories/C14/Schema_gen.v as last regenerated and gated by ./check C14) and C14's tie wincode = encode/decode",
        "PARTIAL: 'for any grammar and lexer specification … every input … all settings' — the behaviour of the compiled module is "
        "tied to the text by compile-and-run per generated program; Coq carries the scanner, the wrapper's unpacking, the flag "
        "regeneration and the pipeline composition over the codec, not rustc, quote! or the parser itself (a parameter)",
        "char::is_numeric is a parameter of the scanner mirror; the correspondence instantiates it with ASCII digits plus the "
        "non-ASCII characters of the text in Unicode categories Nd/Nl/No (Python unicodedata)",
        "scanner mirror indexes by character, the code by byte: all slice positions are sums of find() offsets and lengths of "
        "ASCII strings, hence character boundaries",
        ("PER RUN (theories/C13/PipelineRun*.v): C13_ct_equals_rt takes the run-time parser as a FUNCTION; with the parser a relation "
         "(one run may return r) C13_ct_runs_are_rt_runs gives the same SET of outcomes for the generated parse() and the run-time call, "
         "and C13_ct_equals_rt_value equal (value, errors) on every input under applied_repair_determined — the fact /repo ca69cd1 "
         "established (simplify_repairs: insertion-ordered dedup + stable sort; mirror proved deterministic in C05_simplify_deterministic); "
         "C13_ct_equals_rt_value_refuted: for the pinned selection (any enumeration sorted by rank) the auditor's grammar has a "
         "generated-parser run and a run-time run with different values.  The check compares the repairs() lists in order, the value "
         "and the later errors on every input and calls the generated parse() %d times per erroneous input" % CT_CALLS)
        if REPAIR_ORDER_FIXED else
        ("repairs are compared as sets; after an error with more than one repair sequence the applied repair is not determined "
         "(randomly seeded HashSet in cpctplus) so later errors and the value are not compared for that input"),
        "SCOPE (premise 'once compiled'): specifications the builders accept whose generated module rustc rejects are outside the "
        "property — rule or token names differing only in ASCII case (duplicate `R_*` / `N_*` constants, E0428), a %parse-param "
        "named like a local of the generated parse() (`grm`, likewise `stable`, `actions`, `__data`, `lexer`; E0308/E0415): generated "
        "each run, rustc's verdict recorded under coverage.scope_observations (an observation, not an obligation); if such a module "
        "compiles it is compared with the run-time pipeline like every other program",
        "state indices of parse errors are not compared (internal numbering)",
        "GRMTOOLS_VERIF_RECOVERY_BUDGET_MS=60000 (existing cfg(grmtools_verif) hook) on both sides so that the recovery time "
        "budget cannot make repair sets load-dependent",
        "flags set through the CTLexerBuilder API are compared with a run-time lexer whose %grmtools section carries the same flags",
        "Rust edition: modules generated for Rust2018/Rust2021 are compiled in [[bin]] targets of that edition; modules generated "
        "with rust_edition(Rust2015) are compiled in a 2021 target, because an edition-2015 rustc rejects them (`pub use _parser_::*;` "
        "E0432, `dyn ::lrpar::…` E0433: observation reported to the coordinator) and the property speaks of modules 'once compiled'",
        "reading: `$0`, `$k` beyond the production, `$1x` are accepted by the builder and rejected later by rustc (unbound "
        "identifier; C13_dollar_out_of_range_unbound) — outside the property's domain ('once compiled')",
    ]
