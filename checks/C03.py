"""C03 — conflicts are resolved by Yacc's rules and reported exactly.

Proof (theories/C03): for EVERY iteration order of a state's items and edges
the mirror of StateTable::new's loop body ends in the declaratively specified
cell (`cell_spec`: min production among the reduction candidates; shift/reduce
by level then associativity of the token against the WINNER's precedence;
%nonassoc -> error cell; a missing precedence -> shift), reports exactly the
specified shift/reduce triples, one reduce/reduce pair per losing candidate,
fails exactly on an accept/reduce cell, and never reaches a panic site
(state_mirror_meets_spec, table_mirror_meets_spec).  Precedence levels follow
the declaration order, production precedence is %prec token / last token
(levels_from_decl_order, prod_prec_rule, decl_precs_consistent);
expect_rule / expect_mirror_characterised / expect_mirror_refuted state what
%expect demands and what ctbuilder.rs does.

Tie: for every generated grammar the extracted `cell_spec` / `sr_spec` /
`red_cands` are evaluated on the implementation's OWN closed states and edges
(dump of the `lr` harness) and compared with every cell of StateTable::action
and with conflicts() (as sets); the theorem's side conditions (wf_state_b,
prec_consistent_b) are evaluated on every dump; TP/PP are compared with the
extracted `token_prec_spec` / `prod_prec_mirror` run on the abstract
declarations; CTParserBuilder::build() Ok/Err (harness c03, generation only)
is compared with `build_ok_spec` for %expect/%expect-rr around the true counts.
A differing cell is itself the failing input (grammar, state, token, expected,
actual, justifying items).

Three-way cells (a shift and two or more reductions on one token).  The property
text states Yacc's rules pairwise; with a shift and k >= 2 reductions the ORDER
of the pairwise rules matters.  StateTable::new settles reduce/reduce first and
compares the shift with the survivor (= `cell_spec`); byacc (mkpar.c
remove_conflicts = extracted `cell_yacc`) and bison (conflicts.c set_conflicts =
extracted `cell_bison`) compare the shift by precedence with EVERY reduction
first.  theories/C03/Yacc3*.v: outside three-way cells all three coincide
(C03_yacc_agrees_outside_three_way, C03_cell_bison_eq_yacc_outside_three_way,
C03_yacc_disagreement_is_three_way); on three-way cells they differ
(C03_three_way_left/_nonassoc/_report_refuted: cell_yacc against the mirror, for
every iteration order), and byacc and bison differ from each other in corners
(C03_bison_yacc_differ, _count_differ; C03_bison_agrees_without_token_prec).
The REFERENCE of every cell (entry, reported shift/reduce pairs, losing
productions of the reported reduce/reduce pairs) is cell_yacc; where cell_bison
differs from it either is accepted (the text does not choose between the two
Yaccs).  A cell matching neither is
  * the KNOWN class (known_findings.json C03-three-way-cell) iff it is a three-way
    cell and the implementation equals cell_spec there: one KNOWN-FINDING line per
    run with the number of such cells; the %expect verdicts that differ only
    because the counts differ through such cells belong to the same finding;
  * a VIOLATION otherwise.
The model of byacc is corroborated against ocamlyacc (a Berkeley yacc 1.9
derivative, same remove_conflicts) on conflict totals when it is installed.
"""
from vlib import core, lr
from gen import c03gen
import json
import os
from checks.tblcommon import dump_case, TDump, RawGram, decl_sections, model_sections, KIND_NAME

KNOWN_3WAY = "three-way cell: reduce/reduce settled before precedence"
KNOWN_EXPECT = "%expect/%expect-rr is not compared when the table has no conflict at all (declared count != 0 yet the build succeeds)"


# /repo 4ff022d (GrammarAST::unused_symbols): the %prec token of every reachable production counts as used, so a grammar whose
# only "unused" tokens are precedence pseudo-tokens (UMINUS) builds with the builder's DEFAULT options.  False = the pinned
# code: such a token is expected to be reported (and the default build to fail for that reason, outside the %expect clause).
PREC_USED_FIXED = True


def gram_warnings(g, prec_used_fixed=None):
    """the warnings GrammarAST::warnings owes for an abstract grammar (gen.grammars.Gram), from first principles and
    independently of the implementation: (unreachable rules, unused tokens).  Tokens of the grammar = the names that occur as
    a symbol or after %prec in ANY production (Gram.render declares none with %token); a token is used when a production of
    a rule reachable from the start rule has it as a symbol or (since /repo 4ff022d) names it by %prec; %implicit_tokens
    are exempt.  The same definition as C10/YpPrecUsedSpec.v (reach_rule / reach_prod; theorem prec_token_is_used)."""
    fixed = PREC_USED_FIXED if prec_used_fixed is None else prec_used_fixed
    rules = {}
    for n, ps in g.rules:
        rules.setdefault(n, []).extend(ps)
    all_t, used_t, seen, todo = [], set(), set(), []
    for n, ps in g.rules:
        for syms, prec in ps:
            for k, x in syms:
                if k == 't' and x not in all_t:
                    all_t.append(x)
            if prec and prec not in all_t:
                all_t.append(prec)
    if g.start in rules:
        seen.add(g.start)
        todo.append(g.start)
    while todo:
        for syms, prec in rules[todo.pop()]:
            if prec and fixed:
                used_t.add(prec)
            for k, x in syms:
                if k == 't':
                    used_t.add(x)
                elif x not in seen:
                    seen.add(x)
                    if x in rules:
                        todo.append(x)
    return ([n for n in dict.fromkeys(n for n, _ in g.rules) if n not in seen],
            [x for x in all_t if x not in used_t and x not in g.implicit])


def pseudo_tokens(g):
    """tokens named by %prec of some production that occur in no right-hand side (UMINUS style)"""
    rhs = {x for _, ps in g.rules for syms, _ in ps for k, x in syms if k == 't'}
    return sorted({prec for _, ps in g.rules for _, prec in ps if prec and prec not in rhs})


def pp_cell(c):
    return "Error" if c is None else {"S": "Shift(%s)", "R": "Reduce(%s)", "A": "Accept%s"}[c[0]] % (c[1] if len(c) > 1 else "")


def rr_like_spec(cs, recs):
    """k candidates -> k-1 pairs (x,y), x<y both candidates, every losing candidate exactly once as y"""
    return (len(recs) == max(len(cs) - 1, 0) and all(x < y and x in cs and y in cs for x, y in recs)
            and sorted(y for _, y in recs) == sorted(c for c in cs if c != min(cs)))


def rr_like_yacc(cs, recs, yp):
    """as many pairs as cell_yacc reports, the same losing productions, x<y both candidates (which production a
    loser is paired with is not fixed by the property text for more than two candidates)"""
    return (len(recs) == len(yp) and sorted(y for _, y in recs) == sorted(y for _, y in yp)
            and all(x < y and x in cs and y in cs for x, y in recs))


def by_cell(recs, n):
    r = {}
    for x in recs:
        r.setdefault((x[0], x[1]), []).append(tuple(x[2:2 + n]) if n > 1 else x[2])
    return r


def check_table(ctx, g, fam, d, ms, gid="?"):
    """compare one dumped table with the model's sections; returns (ok, stats).
    The reference of every cell is `cell_yacc` (byacc's order of the pairwise rules: entry, reported shift/reduce
    pairs, reported reduce/reduce pairs); `cell_spec` (= what the mirror of StateTable::new provably computes)
    is the same outside three-way cells (C03_yacc_agrees_outside_three_way) and serves to recognise the known
    class: a three-way cell on which the implementation differs from cell_yacc but equals cell_spec."""
    ok = True
    src = d.src
    w = dict(kv.split("=") for kv in ms.get("W", [[]])[0])
    if w.get("wf") != "1" or w.get("pc") != "1":
        ctx.violation({"what": "the implementation's item sets / edges / precedences do not satisfy the side conditions of "
                               "state_mirror_meets_spec (wf_state_b=%s prec_consistent_b=%s): the theorem does not apply to this table"
                               % (w.get("wf"), w.get("pc")), "grammar": src}, no_input=True)
        ok = False
    ints = lambda l: [int(x) for x in l]
    spec = {}
    for s in ms.get("SC", []):
        spec[(int(s[0]), int(s[1]))] = tuple([s[2]] + ints(s[3:]))
    yov = {}
    for s in ms.get("YC", []):
        yov[(int(s[0]), int(s[1]))] = None if s[2] == "E" else tuple([s[2]] + ints(s[3:]))
    three = {(int(s[0]), int(s[1])): s[2] == "1" for s in ms.get("Y3", [])}
    # cell_bison where it differs from cell_yacc: entry + all its pairs
    bov = {}
    for s in ms.get("B3", []):
        bov[(int(s[0]), int(s[1]))] = [None if s[2] == "E" else tuple([s[2]] + ints(s[3:])), [], []]
    for s in ms.get("BS", []):
        bov[(int(s[0]), int(s[1]))][1].append(int(s[2]))
    for s in ms.get("BR", []):
        bov[(int(s[0]), int(s[1]))][2].append((int(s[2]), int(s[3])))
    isr = by_cell(d.xs, 1)
    ssr = by_cell([ints(s[:3]) for s in ms.get("SS", [])], 1)
    ysr = by_cell([ints(s[:3]) for s in ms.get("YS", [])], 1)
    irr = by_cell(d.xr, 2)
    yrr = by_cell([ints(s[:4]) for s in ms.get("YR", [])], 2)
    cands = {}
    for s in ms.get("SRC", []):
        cands[(int(s[0]), int(s[1]))] = ints(s[2:])
    # ---- every cell: entry, reported shift/reduce pairs, reported reduce/reduce pairs ----
    ncells = 0
    known = []
    reported = False
    as_which = {"byacc": 0, "bison": 0}
    for st in range(d.nstates):
        for a in range(d.ntoks):
            ncells += 1
            c = (st, a)
            act = d.actions.get(c)
            sp = spec.get(c)
            ya = yov[c] if c in yov else sp
            cs = cands.get(c, [])
            i_sr, i_rr = sorted(isr.get(c, [])), irr.get(c, [])
            like_yacc = (act == ya and i_sr == sorted(ysr.get(c, [])) and rr_like_yacc(cs, i_rr, yrr.get(c, [])))
            if c in bov:
                # byacc and bison differ on this (three-way) cell: the property text does not choose, either is accepted
                b = bov[c]
                like_bison = (act == b[0] and i_sr == sorted(b[1]) and rr_like_yacc(cs, i_rr, b[2]))
                if like_yacc or like_bison:
                    as_which["byacc" if like_yacc else "bison"] += 1
                    continue
            elif like_yacc:
                continue
            like_spec = (act == sp and i_sr == sorted(ssr.get(c, [])) and rr_like_spec(cs, i_rr))
            if c in three and like_spec:
                known.append(c)
                continue
            ok = False
            if reported:
                continue
            reported = True
            wit = d.cell_witness(st, a)
            parts = []
            if act != ya:
                parts.append("table cell differs from the cell Yacc's rules prescribe")
            if i_sr != sorted(ysr.get(c, [])):
                parts.append("reported shift/reduce conflicts differ from the pairs settled by the default rule")
            if not rr_like_yacc(cs, i_rr, yrr.get(c, [])):
                parts.append("reported reduce/reduce pairs of the cell do not match the pairs settled by the default rule "
                             "(x<y both candidates, every production suppressed by the reduce/reduce rule exactly once as y)")
            if c in bov:
                wit["bison's order (differs from byacc's here; either is accepted)"] = {
                    "entry": pp_cell(bov[c][0]), "shift_reduce": sorted(bov[c][1]), "reduce_reduce": bov[c][2]}
            wit.update({"what": "; ".join(parts), "grammar": src, "family": fam,
                        "expected": pp_cell(ya), "actual": pp_cell(act),
                        "shift_reduce_pairs(prod)": {"expected": sorted(ysr.get(c, [])), "reported": i_sr},
                        "reduce_reduce_pairs": {"expected": yrr.get(c, []), "reported": i_rr, "candidates": cs},
                        "three_way_cell(shift + >=2 reductions)": c in three,
                        "cell_spec(order of StateTable::new)": {"entry": pp_cell(sp), "shift_reduce": sorted(ssr.get(c, []))}})
            ctx.violation(wit)
    # conflict records that belong to no cell of the table
    stray = [x for x in d.xs if not (0 <= x[0] < d.nstates and 0 <= x[1] < d.ntoks)] + \
            [x for x in d.xr if not (0 <= x[0] < d.nstates and 0 <= x[1] < d.ntoks)]
    if stray:
        ok = False
        ctx.violation({"what": "conflict records name a state/token outside the table", "grammar": src, "records": stray[:5]})
    if ms.get("SAR"):
        ok = False
        st, a = map(int, ms["SAR"][0][:2])
        wit = d.cell_witness(st, a)
        wit.update({"what": "a cell offers accept and a reduction, yet table construction succeeded", "grammar": src})
        ctx.violation(wit)
    nsr, nrr = len(d.xs), len(d.xr)
    if (d.conflicts or (0, 0)) != (nsr, nrr):
        ok = False
        ctx.violation({"what": "sr_len()/rr_len() differ from the number of conflict records", "grammar": src,
                       "lens": d.conflicts, "records": (nsr, nrr)})
    # ---- the mirror run on the implementation's own states (its orders) must go through ----
    # (the mirror models the order of StateTable::new; on a table without known-class cells it is also Yacc's)
    m = ms.get("M", [["?"]])[0][0]
    if m != "ok":
        ok = False
        ctx.violation({"what": "the mirror of StateTable::new does not complete on the implementation's own item sets (%s) "
                               "although the implementation built the table" % m, "grammar": src}, no_input=True)
    # ---- precedences implied by the declarations ----
    etp = {int(s[0]): (int(s[1]), int(s[2])) for s in ms.get("ETP", [])}
    epp = {int(s[0]): (int(s[1]), int(s[2])) for s in ms.get("EPP", [])}
    if getattr(g, "raw", False):
        pass                      # replay from source text: no abstract declarations to compare with
    elif ms.get("EDUP") or ms.get("EPANIC") or ms.get("EMISMATCH"):
        ctx.count("decl_irregular")
    elif etp != d.tprec:
        ok = False
        bad = sorted(k for k in set(etp) | set(d.tprec) if etp.get(k) != d.tprec.get(k))
        ctx.violation({"what": "token_precedence differs from what the declaration order implies (later line = higher level)",
                       "grammar": src, "tokens": {d.tname.get(k, "?"): {"expected": d.pp_prec(etp.get(k)),
                                                                    "actual": d.pp_prec(d.tprec.get(k))} for k in bad}})
    elif epp != d.pprec:
        ok = False
        bad = sorted(k for k in set(epp) | set(d.pprec) if epp.get(k) != d.pprec.get(k))
        ctx.violation({"what": "prod_precedence differs from '%prec token, else last token, else none'",
                       "grammar": src, "productions": {d.pp_prod(k): {"expected": d.pp_prec(epp.get(k)),
                                                                      "actual": d.pp_prec(d.pprec.get(k))} for k in bad}})
    # ---- statistics ----
    kinds = {}
    for s in ms.get("SD", []):
        k = {"S": "shift", "R": "reduce", "E": "nonassoc_error"}[s[2]] + ("_default_reported" if s[3] == "1" else "_by_precedence")
        kinds[k] = kinds.get(k, 0) + 1
    yc = [len(ms.get("YS", [])), len(ms.get("YR", []))]
    bc = list(yc)
    for c, b in bov.items():
        bc[0] += len(b[1]) - len(ysr.get(c, []))
        bc[1] += len(b[2]) - len(yrr.get(c, []))
    # observation (audit c03b/2): in a cell with >= 3 reductions the implementation compares each newly met reduction with the
    # cell's CURRENT content, in the hash order of the items: a recorded pair's first component can be a production that was
    # displaced later — (A1,A2),(A0,A1) instead of (A0,A1),(A0,A2).  What is demanded (C03/Spec.v rr_ok, rr_like_yacc above):
    # x < y both candidates, every displaced production exactly once as y, k-1 records.  Measured:
    rr3 = {c: recs for c, recs in irr.items() if len(recs) >= 2}
    rr3_off = {c: [(x, y) for x, y in recs if x != min(min(p) for p in recs)] for c, recs in rr3.items()}
    stats = {"cells": ncells, "sr_reported": nsr, "rr_reported": nrr, "resolution": kinds,
             "rr_cells_with_3+_reductions": len(rr3), "rr_pairs_in_such_cells": sum(len(v) for v in rr3.values()),
             "rr_cells_with_a_pair_not_against_the_kept_production": sum(1 for v in rr3_off.values() if v),
             "rr_pairs_not_against_the_kept_production": sum(len(v) for v in rr3_off.values()),
             "rr_cells": len(cands), "max_rr_candidates": max([len(c) for c in cands.values()] + [0]),
             "three_way_cells": len(three),
             "three_way_cells_where_byacc_differs_from_cell_spec": sum(1 for v in three.values() if not v),
             "three_way_cells_where_byacc_and_bison_differ": len(bov),
             "three_way_cells_as_bison_not_byacc": as_which["bison"],
             "three_way_cells_as_byacc_not_bison": as_which["byacc"],
             "known_cells": [(gid, c[0], d.tname.get(c[1], "$end")) for c in known],
             "known_cells_entry_differs": sum(1 for c in known if d.actions.get(c) != (yov[c] if c in yov else spec.get(c))),
             "known_cells_byacc_and_bison_agree": sum(1 for c in known if c not in bov),
             "yacc_counts": tuple(yc), "bison_counts": tuple(bc)}
    return ok, stats


def to_mly(g):
    """the abstract grammar in ocamlyacc's input syntax (unit actions)"""
    alltoks = list(g.tokens) + [x for _, l in g.precs for x in l if x not in g.tokens]
    alltoks += [p for _, ps in g.rules for _, p in ps if p and p not in alltoks]
    tn = {t: "T%d" % i for i, t in enumerate(alltoks)}
    rn = {n: "r%d" % i for i, (n, _) in enumerate(g.rules)}
    o = ["%token " + " ".join(tn.values())]
    for kind, toks in g.precs:
        o.append("%%%s %s" % (kind, " ".join(tn[t] for t in toks)))
    o += ["%%start %s" % rn[g.start], "%%type <unit> %s" % rn[g.start], "%%"]
    for n, ps in g.rules:
        o.append("%s: %s;" % (rn[n], " | ".join(
            " ".join(tn[x] if k == 't' else rn[x] for k, x in syms) + ((" %%prec %s" % tn[prec]) if prec else "") + " {()}"
            for syms, prec in ps)))
    return "\n".join(o) + "\n"


def byacc_totals(items):
    """conflict totals of ocamlyacc (Berkeley yacc 1.9 with an OCaml back end: mkpar.c remove_conflicts is byacc's) for
    (grammar, (sr, rr) of cell_yacc) pairs -> (compared, agreeing, first disagreements); None if ocamlyacc is missing.
    Corroboration of the MODEL of byacc only (ocamlyacc builds LALR(1) automata, the implementation Pager's: totals can
    legitimately differ), so nothing here raises an alarm."""
    import shutil, subprocess, tempfile, re
    if not shutil.which("ocamlyacc"):
        return None
    n = agree = 0
    bad = []
    with tempfile.TemporaryDirectory(prefix="c03-oy-") as td:
        for g, y in items:
            try:
                open(os.path.join(td, "g.mly"), "w").write(to_mly(g))
                p = subprocess.run(["ocamlyacc", "g.mly"], cwd=td, capture_output=True, text=True, timeout=20)
            except Exception:
                continue
            if p.returncode != 0:
                continue
            out = p.stdout + p.stderr
            m1, m2 = re.search(r"(\d+) shift/reduce", out), re.search(r"(\d+) reduce/reduce", out)
            o = (int(m1.group(1)) if m1 else 0, int(m2.group(1)) if m2 else 0)
            n += 1
            if o == tuple(y):
                agree += 1
            elif len(bad) < 3:
                bad.append({"grammar": g.render(), "ocamlyacc": o, "cell_yacc": list(y)})
    return n, agree, bad


def UM_CORPUS():
    from gen.grammars import Gram
    t, r = (lambda x: ('t', x)), (lambda x: ('r', x))
    return [
        Gram(['-', 'n', 'UMINUS'], [("E", [[r('E'), t('-'), r('E')], ([t('-'), r('E')], 'UMINUS'), [t('n')]])],
             precs=[("left", ['-']), ("left", ['UMINUS'])]),
        Gram(['-', '*', 'n', 'UMINUS'], [("E", [[r('E'), t('-'), r('E')], [r('E'), t('*'), r('E')], ([t('-'), r('E')], 'UMINUS'), [t('n')]])],
             precs=[("left", ['-']), ("left", ['*']), ("right", ['UMINUS'])]),
        # the pseudo-token lends its precedence in an UNREACHABLE rule only: still reported (with the rule)
        Gram(['-', 'n', 'UM'], [("E", [[r('E'), t('-'), r('E')], [t('n')]]), ("X", [([t('-'), r('E')], 'UM')])],
             precs=[("left", ['-']), ("left", ['UM'])]),
        # ... and in both
        Gram(['-', 'n', 'UM'], [("E", [[r('E'), t('-'), r('E')], ([t('-'), r('E')], 'UM'), [t('n')]]), ("X", [([t('n')], 'UM')])],
             precs=[("left", ['-']), ("nonassoc", ['UM'])]),
    ]


def expect_variants(rng, g, sr, rr, nvar, ycounts=None):
    """(expect, expectrr) pairs around the true counts"""
    pool = {(None, None), (sr, rr), (sr, None), (None, rr), (sr + 1, rr), (sr, rr + 1), (sr + 1, None), (None, rr + 1),
            (0, 0), (2, None), (None, 1)}
    if sr > 0:
        pool |= {(sr - 1, rr), (sr - 1, None)}
    if rr > 0:
        pool |= {(sr, rr - 1), (None, rr - 1)}
    pool = sorted(pool, key=lambda x: (x[0] is None, x[0] or 0, x[1] is None, x[1] or 0))
    must = [(sr, rr)]
    if ycounts and tuple(ycounts) != (sr, rr):
        # the counts Yacc reports differ from the implementation's (three-way cells): what byacc/bison need is a case
        must.append(tuple(ycounts))
        pool = sorted(set(pool) | {(ycounts[0], None), (None, ycounts[1])},
                      key=lambda x: (x[0] is None, x[0] or 0, x[1] is None, x[1] or 0))
    if (sr, rr) == (0, 0):
        must.append(rng.choice([(rng.randint(1, 3), None), (None, rng.randint(1, 3)), (1, 1)]))
    rest = [p for p in pool if p not in must]
    rng.shuffle(rest)
    return must + rest[:max(nvar - len(must), 0)]


def run(ctx):
    ctx.gate = core.proof_gate("C03")
    for _ in ctx.gate["theorems"]:
        ctx.oblige(True)
    rng = ctx.rng
    exe_lr = core.build_harness("lr")
    exe_ct = core.build_harness("c03")
    mexe = core.build_model("c03")
    replay = getattr(ctx, "replay", None)
    if replay:
        grams, fams = [RawGram(json.load(open(replay))["grammar"])], ["replay"]
    else:
        grams, fams = c03gen.generate(rng, ctx.n(1500, 12000))
        # three-way cells (a shift and two or more reductions on one token): the three grammars of the known finding
        # first, then random ones; own random stream so that the families above are generated as before
        import random as _random
        g3, f3 = c03gen.generate_three_way(_random.Random(ctx.seed * 7919 + 3), ctx.n(150, 3000), seen=[g.render() for g in grams])
        grams, fams = g3 + grams, f3 + fams
        # audit c03b/1 (/repo 4ff022d): the textbook unary-minus grammar and relatives; every one goes through the default build
        grams, fams = UM_CORPUS() + grams, ["prec_pseudo_corpus"] * len(UM_CORPUS()) + fams
    srcs = [g.render() for g in grams]
    impl = core.run_lines([exe_lr], [dump_case(s) for s in srcs])
    dumps = []
    ext = []
    for g, s, line in zip(grams, srcs, impl):
        d = TDump(line)
        d.src = s
        dumps.append(d)
        ext.append(line + decl_sections(g, d) if d.ok else "SKIP")
    model = core.run_lines([mexe], ext)
    tot = {"cells": 0, "sr_reported": 0, "rr_reported": 0, "rr_cells": 0, "three_way_cells": 0,
           "three_way_cells_where_byacc_differs_from_cell_spec": 0, "three_way_cells_where_byacc_and_bison_differ": 0,
           "three_way_cells_as_bison_not_byacc": 0, "three_way_cells_as_byacc_not_bison": 0,
           "known_cells_entry_differs": 0, "known_cells_byacc_and_bison_agree": 0,
           "rr_cells_with_3+_reductions": 0, "rr_pairs_in_such_cells": 0,
           "rr_cells_with_a_pair_not_against_the_kept_production": 0, "rr_pairs_not_against_the_kept_production": 0}
    known_cells = []
    known_tables = 0
    res_hist = {}
    built = []
    tblerr = []
    for gi, (g, fam, d, ml) in enumerate(zip(grams, fams, dumps, model)):
        ctx.count("family_" + fam)
        d.fam = fam
        if not d.ok:
            what = d.line.split()[0] if d.line else "EMPTY"
            ctx.count("not_built_" + what)
            if what == "TBLERR":
                tblerr.append((g, fam, d))
            elif what in ("BUILDPANIC", "HANG", "CRASH"):
                ctx.violation({"what": "table construction does not return normally: " + d.line[:200], "grammar": d.src})
                ctx.oblige(False)
            continue
        if not ml.startswith("W "):
            ctx.violation({"what": "model driver failed on the implementation's dump", "grammar": d.src, "model": ml[:200]}, no_input=True)
            ctx.oblige(False)
            continue
        ok, st = check_table(ctx, g, fam, d, model_sections(ml), gid="%s#%d" % (fam, gi))
        ctx.oblige(ok)               # every cell outside the known class is as Yacc prescribes
        d.ycounts, d.bcounts, d.known3 = st["yacc_counts"], st["bison_counts"], bool(st["known_cells"])
        if st["known_cells"]:
            # the table as a whole is not as Yacc prescribes: demanded, failed, matched by the known finding
            known_tables += 1
            known_cells += st["known_cells"]
            ctx.oblige(False)
            gid, kst, ktok = st["known_cells"][0]
            ctx.violation({"what": KNOWN_3WAY, "grammar": d.src, "family": fam, "state": kst, "token": ktok,
                           "cells": [list(c[1:]) for c in st["known_cells"]]}, known_key=KNOWN_3WAY)
        for k in tot:
            tot[k] += st[k]
        for k, v in st["resolution"].items():
            res_hist[k] = res_hist.get(k, 0) + v
        changed = sum(st["resolution"].values()) + st["rr_cells"]
        ctx.case(d.src, changed > 0, {"grammar": d.src, "family": fam, "states": d.nstates, "cells": st["cells"],
                                      "resolution": st["resolution"], "rr_cells": st["rr_cells"],
                                      "three_way_cells": st["three_way_cells"],
                                      "sr_reported": st["sr_reported"], "rr_reported": st["rr_reported"]})
        built.append((g, d))
    # ---- the model of byacc against a byacc derivative (corroboration, see byacc_totals) ----
    if not replay:
        pool = [(g, d.ycounts) for g, d in built if not getattr(g, "raw", False)]
        with3 = [x for x in pool if x[0] in g3][:ctx.n(40, 600)]
        oy = byacc_totals(with3 + [x for x in pool if x[0] not in g3][:ctx.n(20, 300)])
        ctx.coverage["byacc_model_vs_ocamlyacc_conflict_totals"] = (
            "ocamlyacc not installed" if oy is None else {"grammars": oy[0], "equal_totals": oy[1], "first_differences": oy[2]})
    # ---- construction errors: accept/reduce must be the reason (oracle: canonical LR(1) states) ----
    if tblerr:
        gd = core.run_lines([exe_ct], [dump_case(d.src) for _, _, d in tblerr])
        gl = [x.split(" # ", 1)[1] if " # " in x else "SKIP" for x in gd]
        ar = core.run_lines([mexe, "canon-ar"], gl)
        for (g, fam, d), a in zip(tblerr, ar):
            good = a.startswith("AR 1") or a.startswith("AR none") or a.startswith("SKIP")
            if not good:
                ctx.violation({"what": "table construction fails (%s) but no cell of the canonical LR(1) automaton offers accept and a "
                                       "reduction" % d.line[:60], "grammar": d.src, "oracle": a})
            ctx.oblige(good)
            ctx.case(d.src, True, {"grammar": d.src, "family": fam, "construction_error": d.line[:60], "oracle": a})
            ctx.count("accept_reduce_confirmed" if a.startswith("AR 1") else "accept_reduce_unconfirmed")
    # ---- %expect / %expect-rr ----
    nexp = ctx.n(300, 2500)
    rng.shuffle(built)
    # grammars without conflicts first in line as well: the rule must also hold there
    # tables with known-class three-way cells first (the corpus grammars of the finding among them): there the counts
    # Yacc reports differ from the implementation's, so %expect is decided on different numbers
    pri = [x for x in built if x[1].known3][:ctx.n(20, 200)]
    pri = [x for x in built if x[1].fam == "prec_pseudo_corpus"] + pri
    # grammars with precedence pseudo-tokens and no warning owed: a share of every run (default build, see below)
    psel = [x for x in built if not getattr(x[0], "raw", False) and not any(x is y for y in pri)
            and pseudo_tokens(x[0]) and gram_warnings(x[0]) == ([], [])][:ctx.n(120, 1200)]
    pri = pri + psel
    sel = pri + [x for x in built if not any(x is y for y in pri)][:nexp]
    cases = []
    owed = {}            # case source -> (unreachable rules, unused tokens, pseudo-tokens) of its abstract grammar
    for g, d in sel:
        sr, rr = d.conflicts or (0, 0)
        yk = ((d.ycounts, d.bcounts, d.known3),)
        if getattr(g, "raw", False):
            cases.append((d.src, "?", "?", sr, rr) + yk)
            continue
        for e, err in expect_variants(rng, g, sr, rr, ctx.n(3, 5), d.ycounts):
            g.expect, g.expectrr = e, err
            cases.append((g.render(), e, err, sr, rr) + yk)
            owed[cases[-1][0]] = gram_warnings(g) + (pseudo_tokens(g),)
        g.expect = g.expectrr = None
    ct = core.run_lines([exe_ct], [dump_case(c[0]) for c in cases])
    for i, (c, cl) in enumerate(zip(cases, ct)):
        if c[1] == "?" and cl.startswith("CT "):
            # replay: the declared counts are read back from the grammar (YaccGrammar::expect / expectrr)
            kv = dict(x.split("=", 1) for x in cl.split()[2:])
            cases[i] = (c[0], None if kv["expect"] == "-" else int(kv["expect"]),
                        None if kv["expectrr"] == "-" else int(kv["expectrr"]), c[3], c[4]) + c[5:]
    cases = [c if c[1] != "?" else (c[0], None, None, c[3], c[4]) + c[5:] for c in cases]
    # ---- the ENTRY POINT and the two boolean settings are inputs too ----
    # every case above went through build() with warnings_are_errors(false) and error_on_conflicts at its default (true).
    # Second pass: the same grammars through the deprecated but public process_file() (it copies the builder field by
    # field and then calls build()) and through build(), with warnings_are_errors x error_on_conflicts varied.  The
    # warnings OWED for a grammar are computed on the abstract grammar (gram_warnings): warnings_are_errors(true) is only combined
    # with grammars that owe none (with owed warnings such a build fails for a reason outside this clause).
    base = [c + ("build", 0, 1) for c in cases]
    extra = []
    combos = [(0, 1), (1, 0), (0, 0), (1, 1)]
    for i, (c, cl) in enumerate(zip(cases, ct)):
        if not cl.startswith("CT "):
            continue
        kv = dict(x.split("=", 1) for x in cl.split()[2:])
        # whether warnings_are_errors(true) may be combined with this grammar is decided on the warnings OWED for the abstract
        # grammar (gram_warnings: independent of the implementation), not on the number the implementation reports — a spurious
        # warning (a precedence pseudo-token reported unused: /repo 4ff022d) must surface as a failing default build
        nowarn = (owed[c[0]][:2] == ([], [])) if c[0] in owed else kv.get("warn") == "0"
        if replay:
            todo = [(api, w, e) for api in ("pf", "build") for (w, e) in combos if (api, w, e) != ("build", 0, 1)]
        else:
            w, e = combos[i % 4]
            todo = [("pf", w, e)]
            if i % 3 == 0:
                todo.append(("build",) + combos[1 + (i // 3) % 3])
            if i % 5 == 0:
                todo.append(("pf",) + combos[(i // 5 + 2) % 4])
            if c[0] in owed and owed[c[0]][2] and nowarn:
                # a grammar with precedence pseudo-tokens and no warning owed: the builder's DEFAULT options
                # (warnings_are_errors = true, error_on_conflicts = true)
                todo.append(("build", 1, 1))
        for api, w, e in todo:
            if w and not nowarn:
                w = 0
                if (api, w, e) == ("build", 0, 1):
                    continue
            extra.append(c + (api, w, e))
    extra = list(dict.fromkeys(extra))
    ct2 = core.run_lines([exe_ct], ["%s api=%s wae=%d eoc=%d" % (dump_case(c[0]), c[6], c[7], c[8]) for c in extra])
    cases = base + extra
    ct = list(ct) + list(ct2)
    mo = core.run_lines([mexe, "expect"], ["%s %s %d %d" % ("-" if c[1] is None else c[1], "-" if c[2] is None else c[2], c[3], c[4])
                                          for c in cases])
    # the same rule on the counts of cell_yacc's reports: what the property demands
    moy = core.run_lines([mexe, "expect"], ["%s %s %d %d" % ("-" if c[1] is None else c[1], "-" if c[2] is None else c[2],
                                                             c[5][0][0], c[5][0][1]) for c in cases])
    # ... and of cell_bison's (they differ from cell_yacc's only on three-way cells; either is accepted)
    mob = core.run_lines([mexe, "expect"], ["%s %s %d %d" % ("-" if c[1] is None else c[1], "-" if c[2] is None else c[2],
                                                             c[5][1][0], c[5][1][1]) for c in cases])
    n_known = 0
    n_known3 = 0
    n_warn_cmp = n_default_pseudo = n_default_pseudo_ok = n_default_pseudo_err = 0
    warn_reported = set()
    by_setting = {}
    for (src, e, err, sr, rr, ((ysr, yrr), (bsr, brr), k3), api, wae, eoc), cl, ml, mly, mlb in zip(cases, ct, mo, moy, mob):
        f = cl.split()
        if not cl.startswith("CT "):
            ctx.count("expect_case_not_built")
            continue
        kv = dict(x.split("=", 1) for x in f[2:])
        verdict = f[1]
        entry = "CTParserBuilder::process_file()" if api == "pf" else "CTParserBuilder::build()"
        setting = "%s warnings_are_errors=%d error_on_conflicts=%d" % ("process_file" if api == "pf" else "build", wae, eoc)
        ow = owed.get(src)
        if ow is not None and kv.get("warn") not in (None, "?"):
            # the number of warnings of the AST against the warnings owed (C10's clause, the reason a default build fails)
            n_warn_cmp += 1
            if int(kv["warn"]) != len(ow[0]) + len(ow[1]) and src not in warn_reported:
                warn_reported.add(src)
                ctx.violation({"what": "GrammarAST::warnings reports %s warning(s); owed are the unreachable rules %r and the tokens "
                                       "%r that no reachable production uses as a symbol or names by %%prec (with warnings_are_errors "
                                       "at its default a spurious warning makes the build fail whatever the conflict counts)"
                                       % (kv["warn"], ow[0], ow[1]), "grammar": src, "precedence_pseudo_tokens": ow[2],
                               "harness": cl[:200]})
                ctx.oblige(False)
        if wae and (ow[:2] != ([], []) if ow is not None else kv.get("warn") != "0"):
            ctx.count("expect_case_outside_clause_warnings_are_errors")
            continue
        if ow is not None and ow[2] and (api, wae, eoc) == ("build", 1, 1):
            n_default_pseudo += 1
            n_default_pseudo_ok += verdict == "ok"
            n_default_pseudo_err += verdict == "err"
        # error_on_conflicts(false) is the documented switch that turns the %expect comparison off
        # rule_ok: the rule on Yacc's counts (the property); impl_ok: the rule on the counts the implementation
        # reports itself (they differ only on tables with known-class three-way cells)
        rule_ok = "spec=1" in mly
        spec_ok = rule_ok or not eoc
        spec_ok_bison = "spec=1" in mlb or not eoc
        impl_ok = "spec=1" in ml or not eoc
        mirror_ok = "mirror=1" in ml or not eoc
        consistent = (int(kv["sr"]), int(kv["rr"])) == (sr, rr) and kv["expect"] == ("-" if e is None else str(e)) \
            and kv["expectrr"] == ("-" if err is None else str(err)) \
            and (kv.get("api"), kv.get("wae"), kv.get("eoc")) == (api if api == "pf" else "build", str(wae), str(eoc))
        good = consistent and verdict in ("ok", "err") and ((verdict == "ok") == spec_ok or (verdict == "ok") == spec_ok_bison)
        known_class = consistent and verdict == "ok" and not spec_ok and (sr, rr) == (0, 0) and (ysr, yrr) == (0, 0) and mirror_ok
        # part of the three-way finding: the verdict follows the rule on the implementation's own counts, which differ
        # from Yacc's only through known-class cells of this table
        known3 = (not good) and consistent and verdict in ("ok", "err") and k3 and (sr, rr) not in ((ysr, yrr), (bsr, brr)) \
            and (verdict == "ok") == impl_ok
        ctx.count("expect_build_" + verdict)
        by_setting[setting] = by_setting.get(setting, 0) + 1
        cls = ("conflicts_match_expect" if rule_ok else "conflicts_differ_from_expect") if (sr, rr) != (0, 0) else \
              ("conflict_free_expect_ok" if rule_ok else "conflict_free_expect_nonzero")
        ctx.count("expect_%s_%s" % ("process_file" if api == "pf" else "build", cls))
        if not good:
            data = {"what": "%s %s although the conflict counts (sr=%d, rr=%d) %s %%expect=%s %%expect-rr=%s (default 0)%s"
                            % (entry, "succeeds" if verdict == "ok" else "fails (%s)" % verdict, ysr, yrr,
                               "equal" if rule_ok else "differ from", e, err,
                               "" if eoc else " and error_on_conflicts(false) switches the comparison off"),
                    "grammar": src, "entry_point": entry,
                    "settings": {"warnings_are_errors": bool(wae), "error_on_conflicts": bool(eoc),
                                 "grammar_warnings": kv.get("warn")},
                    "harness": cl[:200], "model": mly, "counts_reported_by_the_implementation": [sr, rr],
                    "counts_in_byacc's_order": [ysr, yrr], "counts_in_bison's_order": [bsr, brr],
                    "mirror_of_ctbuilder_agrees_with_implementation": (verdict == "ok") == mirror_ok}
            if known3:
                n_known3 += 1
                ctx.violation(data, known_key=KNOWN_3WAY)
            elif known_class:
                n_known += 1
                if n_known <= 3:
                    ctx.violation(data, known_key=KNOWN_EXPECT)
            else:
                ctx.violation(data)
        if (verdict == "ok") != mirror_ok and not good and not known3:
            # (build_ok_mirror models the known defect; an implementation that follows the rule instead is fine)
            ctx.violation({"what": "%s follows neither the %%expect rule nor the mirror of ctbuilder.rs:905-929" % entry,
                           "grammar": src, "settings": setting, "harness": cl[:200], "model": ml}, no_input=False)
        ctx.oblige(good or known_class)       # (a known3 case stays undischarged: excluded through the known finding)
        ctx.case("expect:%s:%s" % (setting, src), True, None)
    if not replay:
        ctx.oblige(n_default_pseudo >= ctx.n(100, 800) and n_default_pseudo_ok >= 20 and n_default_pseudo_err >= 20,
                   "grammars with precedence pseudo-tokens went through the default build, both outcomes")
    ctx.coverage["default_builds_of_grammars_with_precedence_pseudo_tokens"] = {
        "builds": n_default_pseudo, "ok": n_default_pseudo_ok, "err(counts differ from %expect)": n_default_pseudo_err,
        "warning_counts_compared_with_the_warnings_owed": n_warn_cmp}
    ctx.coverage["expect_builds_by_entry_point_and_settings"] = dict(sorted(by_setting.items()))
    ctx.coverage["cells_compared"] = tot["cells"]
    ctx.coverage["conflict_resolution_histogram"] = res_hist
    ctx.coverage["reported_conflicts_compared"] = {"shift_reduce": tot["sr_reported"], "reduce_reduce": tot["rr_reported"],
                                                   "cells_with_2+_reduce_candidates": tot["rr_cells"],
                                                   "cells_with_3+_reductions": tot["rr_cells_with_3+_reductions"],
                                                   "pairs_recorded_in_cells_with_3+_reductions": tot["rr_pairs_in_such_cells"],
                                                   "of_these_pairs_first_component_is_not_the_kept_production(observation: "
                                                   "hash-order comparison chain; losers and count as demanded)":
                                                       tot["rr_pairs_not_against_the_kept_production"],
                                                   "cells_with_such_a_pair": tot["rr_cells_with_a_pair_not_against_the_kept_production"]}
    ctx.coverage["expect_builds"] = len(cases)
    ctx.coverage["expect_known_defect_instances"] = n_known
    ctx.coverage["three_way_cells"] = {
        "cells_with_a_shift_and_2+_reductions": tot["three_way_cells"],
        "of_these_byacc's_order_differs_from_cell_spec": tot["three_way_cells_where_byacc_differs_from_cell_spec"],
        "of_these_byacc's_and_bison's_orders_differ(either accepted)": tot["three_way_cells_where_byacc_and_bison_differ"],
        "implementation_as_bison_not_byacc": tot["three_way_cells_as_bison_not_byacc"],
        "implementation_as_byacc_not_bison": tot["three_way_cells_as_byacc_not_bison"],
        "known_class_cells(implementation = cell_spec, neither byacc's nor bison's cell)": len(known_cells),
        "known_class_cells_with_a_different_table_entry": tot["known_cells_entry_differs"],
        "known_class_cells_on_which_byacc_and_bison_agree": tot["known_cells_byacc_and_bison_agree"],
        "tables_with_known_class_cells": known_tables,
        "expect_builds_decided_on_counts_that_differ_through_known_class_cells": n_known3,
        "first_known_cells": ["%s/state %d/token '%s'" % c for c in known_cells[:5]]}
    if known_cells:
        # the KNOWN-FINDING line carries the number of cells of this run and the first of them
        for i, k in enumerate(ctx.known_hits):
            if k.get("match") == KNOWN_3WAY:
                k = dict(k)
                k["note"] = "%s (%d cells, first: %s/state %d/token '%s')" % ((KNOWN_3WAY, len(known_cells)) + known_cells[0])
                ctx.known_hits[i] = k
    ctx.coverage["rule"] = ("families (gen/c03gen.py): precedence expression grammars (1-6 binary operators over random %left/%right/"
                            "%nonassoc lines, undeclared operators, pseudo tokens, %prec to higher/lower lines and other kinds, "
                            "unary/postfix/juxtaposition), dangling else with/without precedence fix, k-way reduce/reduce "
                            "(A: x; B: x; C: x), %nonassoc chains, random ambiguous grammars with random precedence lines and "
                            "%prec, mixed statement/expression grammars, accept/reduce shapes, shared expr/nullable families, "
                            "fixed witnesses; three-way families (gen/c03gen.py generate_three_way, own random stream): the three "
                            "grammars of the known finding, S: E | L f 'n'; L: E o E %prec ?; E: E o E | ... with random "
                            "levels/kinds/missing precedences and rule order, S: A 'y' | B 'y' | 'x' 'y' 'z' with A,B(,C): 'x' %prec ?; "
                            "every cell (state x token) of every table is compared with cell_yacc / cell_bison (entry, reported "
                            "shift/reduce pairs, losing productions of the reported reduce/reduce pairs); non-trivial = at least one "
                            "cell with two or more candidates (resolution changes a cell); distinct by grammar text; %expect "
                            "variants: equal, +-1, absent, present with true count 0; every %expect case runs through build() with "
                            "warnings_are_errors(false)/error_on_conflicts(true), and again through the deprecated "
                            "process_file() (plus a share through build()) with warnings_are_errors x error_on_conflicts "
                            "varied (warnings_are_errors(true) only on grammars for which NO WARNING IS OWED — unreachable rules / tokens "
                            "no reachable production uses as a symbol or names by %prec, computed on the abstract grammar, not "
                            "taken from the implementation; the implementation's warning count is compared with that number); "
                            "grammars with precedence pseudo-tokens (UMINUS style: named by %prec, in no right-hand side; the "
                            "audit's unary-minus grammar and relatives first) and no warning owed additionally through build() with "
                            "the builder's DEFAULT options (warnings_are_errors = error_on_conflicts = true): Err iff the counts "
                            "differ from %expect/%expect-rr; expected outcome = build_ok_spec when error_on_conflicts, success "
                            "otherwise")
    ctx.assumptions += ["'the action Yacc prescribes' for a cell with a shift and two or more reductions is taken from byacc "
                        "(mkpar.c remove_conflicts: the shift is compared by precedence with every reduction in rule order "
                        "before the reduce/reduce rule applies) = extracted cell_yacc; a reported pair is a conflict byacc counts "
                        "(SRcount/RRcount); bison (conflicts.c set_conflicts, extracted cell_bison) applies the same order but "
                        "differs from byacc on some three-way cells (C03_bison_yacc_differ, C03_bison_yacc_count_differ): there "
                        "either result is accepted, also for the %expect counts; the known class is 'neither'",
                        "the item sets / lookaheads / edges the cells are re-derived from are the implementation's own "
                        "(their correctness is C01/C02/C16's subject); C03 decides resolution and reporting on top of them",
                        "for k > 2 reduce/reduce candidates the property text does not fix which pairs are reported: count, "
                        "membership, x<y and 'every loser exactly once as second component' are demanded",
                        "warnings_are_errors(true) is only combined with grammars for which no warning is OWED (gram_warnings in "
                        "checks/C03.py: unreachable rules, tokens used by no reachable production as a symbol or %prec token — the "
                        "notion of C10/YpPrecUsedSpec.v; replayed raw sources: the implementation's own count); a build that fails "
                        "for an owed warning is outside the clause, one that fails for a spurious warning is a violation; error_on_conflicts(false) is the documented "
                        "switch that turns the %expect comparison off: such builds are expected to succeed; "
                        "process_file_in_src() (current_dir/src + OUT_DIR wrapper around process_file()) is not run; "
                        "only source generation is run, nothing is compiled",
                        "accept/reduce construction errors are confirmed on the canonical LR(1) automaton (extracted canon_lr1) "
                        "because the state graph of a failed construction is not observable through the public API"]
