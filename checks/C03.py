"""C03 — conflicts are resolved by Yacc's rules and reported exactly.

Proof (theories/C03): for EVERY iteration order of a state's items and edges
the mirror of StateTable::new's loop body ends in the declaratively specified
cell (`cell_spec`: min production among the reduction candidates; shift/reduce
by level then associativity of the token against the WINNER's precedence;
%nonassoc -> error cell; a missing precedence -> shift), reports exactly the
specified shift/reduce triples, one reduce/reduce pair per losing candidate,
fails exactly on an accept/reduce cell, and never reaches a panic site
(state_mirror_meets_spec, table_mirror_meets_spec).  Precedence levels follow
the declaration order, production precedence is %prec token / last token
(levels_from_decl_order, prod_prec_rule, decl_precs_consistent);
expect_rule / expect_mirror_characterised / expect_mirror_refuted state what
%expect demands and what ctbuilder.rs does.

Tie: for every generated grammar the extracted `cell_spec` / `sr_spec` /
`red_cands` are evaluated on the implementation's OWN closed states and edges
(dump of the `lr` harness) and compared with every cell of StateTable::action
and with conflicts() (as sets); the theorem's side conditions (wf_state_b,
prec_consistent_b) are evaluated on every dump; TP/PP are compared with the
extracted `token_prec_spec` / `prod_prec_mirror` run on the abstract
declarations; CTParserBuilder::build() Ok/Err (harness c03, generation only)
is compared with `build_ok_spec` for %expect/%expect-rr around the true counts.
A differing cell is itself the failing input (grammar, state, token, expected,
actual, justifying items).
"""
from vlib import core, lr
from gen import c03gen
import json
from checks.tblcommon import dump_case, TDump, RawGram, decl_sections, model_sections, KIND_NAME

KNOWN_EXPECT = "%expect/%expect-rr is not compared when the table has no conflict at all (declared count != 0 yet the build succeeds)"


def pp_cell(c):
    return "Error" if c is None else {"S": "Shift(%s)", "R": "Reduce(%s)", "A": "Accept%s"}[c[0]] % (c[1] if len(c) > 1 else "")


def check_table(ctx, g, fam, d, ms):
    """compare one dumped table with the model's sections; returns (ok, stats)"""
    ok = True
    src = d.src
    w = dict(kv.split("=") for kv in ms.get("W", [[]])[0])
    if w.get("wf") != "1" or w.get("pc") != "1":
        ctx.violation({"what": "the implementation's item sets / edges / precedences do not satisfy the side conditions of "
                               "state_mirror_meets_spec (wf_state_b=%s prec_consistent_b=%s): the theorem does not apply to this table"
                               % (w.get("wf"), w.get("pc")), "grammar": src}, no_input=True)
        ok = False
    spec = {}
    for s in ms.get("SC", []):
        spec[(int(s[0]), int(s[1]))] = tuple([s[2]] + [int(x) for x in s[3:]])
    # ---- every cell ----
    ncells = 0
    for st in range(d.nstates):
        for a in range(d.ntoks):
            ncells += 1
            exp, act = spec.get((st, a)), d.actions.get((st, a))
            if exp != act:
                ok = False
                wit = d.cell_witness(st, a)
                wit.update({"what": "table cell differs from the cell Yacc's rules prescribe", "grammar": src,
                            "expected": pp_cell(exp), "actual": pp_cell(act), "family": fam})
                ctx.violation(wit)
                break
        else:
            continue
        break
    if ms.get("SAR"):
        ok = False
        st, a = map(int, ms["SAR"][0][:2])
        wit = d.cell_witness(st, a)
        wit.update({"what": "a cell offers accept and a reduction, yet table construction succeeded", "grammar": src})
        ctx.violation(wit)
    # ---- reported shift/reduce conflicts: exactly the triples settled by the default rule ----
    ss = sorted((int(s[0]), int(s[1]), int(s[2])) for s in ms.get("SS", []))
    if sorted(d.xs) != ss:
        ok = False
        extra = sorted(set(d.xs) - set(ss))
        missing = sorted(set(ss) - set(d.xs))
        x = (extra or missing or d.xs)[0]
        wit = d.cell_witness(x[0], x[1])
        wit.update({"what": "reported shift/reduce conflicts differ from the pairs settled by the default rule",
                    "grammar": src, "reported_not_expected(state,tok,prod)": extra, "expected_not_reported": missing,
                    "reported": sorted(d.xs), "expected": ss})
        ctx.violation(wit)
    # ---- reduce/reduce: per cell k candidates -> k-1 pairs (x<y, both candidates, every loser once) ----
    cands = {}
    for s in ms.get("SRC", []):
        cands[(int(s[0]), int(s[1]))] = [int(x) for x in s[2:]]
    bycell = {}
    for (st, a, x, y) in d.xr:
        bycell.setdefault((st, a), []).append((x, y))
    for cell in sorted(set(cands) | set(bycell)):
        cs = cands.get(cell, [])
        recs = bycell.get(cell, [])
        good = (len(recs) == max(len(cs) - 1, 0) and all(x < y and x in cs and y in cs for x, y in recs)
                and sorted(y for _, y in recs) == sorted(c for c in cs if c != min(cs)))
        if not good:
            ok = False
            wit = d.cell_witness(cell[0], cell[1])
            wit.update({"what": "reported reduce/reduce pairs of a cell do not match its candidates (k candidates -> k-1 pairs "
                                "(x,y), x<y both candidates, every losing candidate exactly once as y)",
                        "grammar": src, "candidates": cs, "reported_pairs": recs})
            ctx.violation(wit)
            break
    nsr, nrr = len(d.xs), len(d.xr)
    if (d.conflicts or (0, 0)) != (nsr, nrr):
        ok = False
        ctx.violation({"what": "sr_len()/rr_len() differ from the number of conflict records", "grammar": src,
                       "lens": d.conflicts, "records": (nsr, nrr)})
    # ---- the mirror run on the implementation's own states (its orders) must go through ----
    m = ms.get("M", [["?"]])[0][0]
    if m != "ok":
        ok = False
        ctx.violation({"what": "the mirror of StateTable::new does not complete on the implementation's own item sets (%s) "
                               "although the implementation built the table" % m, "grammar": src}, no_input=True)
    # ---- precedences implied by the declarations ----
    etp = {int(s[0]): (int(s[1]), int(s[2])) for s in ms.get("ETP", [])}
    epp = {int(s[0]): (int(s[1]), int(s[2])) for s in ms.get("EPP", [])}
    if getattr(g, "raw", False):
        pass                      # replay from source text: no abstract declarations to compare with
    elif ms.get("EDUP") or ms.get("EPANIC") or ms.get("EMISMATCH"):
        ctx.count("decl_irregular")
    elif etp != d.tprec:
        ok = False
        bad = sorted(k for k in set(etp) | set(d.tprec) if etp.get(k) != d.tprec.get(k))
        ctx.violation({"what": "token_precedence differs from what the declaration order implies (later line = higher level)",
                       "grammar": src, "tokens": {d.tname.get(k, "?"): {"expected": d.pp_prec(etp.get(k)),
                                                                    "actual": d.pp_prec(d.tprec.get(k))} for k in bad}})
    elif epp != d.pprec:
        ok = False
        bad = sorted(k for k in set(epp) | set(d.pprec) if epp.get(k) != d.pprec.get(k))
        ctx.violation({"what": "prod_precedence differs from '%prec token, else last token, else none'",
                       "grammar": src, "productions": {d.pp_prod(k): {"expected": d.pp_prec(epp.get(k)),
                                                                      "actual": d.pp_prec(d.pprec.get(k))} for k in bad}})
    # ---- statistics ----
    kinds = {}
    for s in ms.get("SD", []):
        k = {"S": "shift", "R": "reduce", "E": "nonassoc_error"}[s[2]] + ("_default_reported" if s[3] == "1" else "_by_precedence")
        kinds[k] = kinds.get(k, 0) + 1
    stats = {"cells": ncells, "sr_reported": nsr, "rr_reported": nrr, "resolution": kinds,
             "rr_cells": len(cands), "max_rr_candidates": max([len(c) for c in cands.values()] + [0])}
    return ok, stats


def expect_variants(rng, g, sr, rr, nvar):
    """(expect, expectrr) pairs around the true counts"""
    pool = {(None, None), (sr, rr), (sr, None), (None, rr), (sr + 1, rr), (sr, rr + 1), (sr + 1, None), (None, rr + 1),
            (0, 0), (2, None), (None, 1)}
    if sr > 0:
        pool |= {(sr - 1, rr), (sr - 1, None)}
    if rr > 0:
        pool |= {(sr, rr - 1), (None, rr - 1)}
    pool = sorted(pool, key=lambda x: (x[0] is None, x[0] or 0, x[1] is None, x[1] or 0))
    must = [(sr, rr)]
    if (sr, rr) == (0, 0):
        must.append(rng.choice([(rng.randint(1, 3), None), (None, rng.randint(1, 3)), (1, 1)]))
    rest = [p for p in pool if p not in must]
    rng.shuffle(rest)
    return must + rest[:max(nvar - len(must), 0)]


def run(ctx):
    ctx.gate = core.proof_gate("C03")
    for _ in ctx.gate["theorems"]:
        ctx.oblige(True)
    rng = ctx.rng
    exe_lr = core.build_harness("lr")
    exe_ct = core.build_harness("c03")
    mexe = core.build_model("c03")
    replay = getattr(ctx, "replay", None)
    if replay:
        grams, fams = [RawGram(json.load(open(replay))["grammar"])], ["replay"]
    else:
        grams, fams = c03gen.generate(rng, ctx.n(1500, 12000))
    srcs = [g.render() for g in grams]
    impl = core.run_lines([exe_lr], [dump_case(s) for s in srcs])
    dumps = []
    ext = []
    for g, s, line in zip(grams, srcs, impl):
        d = TDump(line)
        d.src = s
        dumps.append(d)
        ext.append(line + decl_sections(g, d) if d.ok else "SKIP")
    model = core.run_lines([mexe], ext)
    tot = {"cells": 0, "sr_reported": 0, "rr_reported": 0, "rr_cells": 0}
    res_hist = {}
    built = []
    tblerr = []
    for g, fam, d, ml in zip(grams, fams, dumps, model):
        ctx.count("family_" + fam)
        if not d.ok:
            what = d.line.split()[0] if d.line else "EMPTY"
            ctx.count("not_built_" + what)
            if what == "TBLERR":
                tblerr.append((g, fam, d))
            elif what in ("BUILDPANIC", "HANG", "CRASH"):
                ctx.violation({"what": "table construction does not return normally: " + d.line[:200], "grammar": d.src})
                ctx.oblige(False)
            continue
        if not ml.startswith("W "):
            ctx.violation({"what": "model driver failed on the implementation's dump", "grammar": d.src, "model": ml[:200]}, no_input=True)
            ctx.oblige(False)
            continue
        ok, st = check_table(ctx, g, fam, d, model_sections(ml))
        ctx.oblige(ok)
        for k in tot:
            tot[k] += st[k]
        for k, v in st["resolution"].items():
            res_hist[k] = res_hist.get(k, 0) + v
        changed = sum(st["resolution"].values()) + st["rr_cells"]
        ctx.case(d.src, changed > 0, {"grammar": d.src, "family": fam, "states": d.nstates, "cells": st["cells"],
                                      "resolution": st["resolution"], "rr_cells": st["rr_cells"],
                                      "sr_reported": st["sr_reported"], "rr_reported": st["rr_reported"]})
        built.append((g, d))
    # ---- construction errors: accept/reduce must be the reason (oracle: canonical LR(1) states) ----
    if tblerr:
        gd = core.run_lines([exe_ct], [dump_case(d.src) for _, _, d in tblerr])
        gl = [x.split(" # ", 1)[1] if " # " in x else "SKIP" for x in gd]
        ar = core.run_lines([mexe, "canon-ar"], gl)
        for (g, fam, d), a in zip(tblerr, ar):
            good = a.startswith("AR 1") or a.startswith("AR none") or a.startswith("SKIP")
            if not good:
                ctx.violation({"what": "table construction fails (%s) but no cell of the canonical LR(1) automaton offers accept and a "
                                       "reduction" % d.line[:60], "grammar": d.src, "oracle": a})
            ctx.oblige(good)
            ctx.case(d.src, True, {"grammar": d.src, "family": fam, "construction_error": d.line[:60], "oracle": a})
            ctx.count("accept_reduce_confirmed" if a.startswith("AR 1") else "accept_reduce_unconfirmed")
    # ---- %expect / %expect-rr ----
    nexp = ctx.n(300, 2500)
    rng.shuffle(built)
    # grammars without conflicts first in line as well: the rule must also hold there
    sel = built[:nexp]
    cases = []
    for g, d in sel:
        sr, rr = d.conflicts or (0, 0)
        if getattr(g, "raw", False):
            cases.append((d.src, "?", "?", sr, rr))
            continue
        for e, err in expect_variants(rng, g, sr, rr, ctx.n(3, 5)):
            g.expect, g.expectrr = e, err
            cases.append((g.render(), e, err, sr, rr))
        g.expect = g.expectrr = None
    ct = core.run_lines([exe_ct], [dump_case(c[0]) for c in cases])
    for i, (c, cl) in enumerate(zip(cases, ct)):
        if c[1] == "?" and cl.startswith("CT "):
            # replay: the declared counts are read back from the grammar (YaccGrammar::expect / expectrr)
            kv = dict(x.split("=", 1) for x in cl.split()[2:])
            cases[i] = (c[0], None if kv["expect"] == "-" else int(kv["expect"]),
                        None if kv["expectrr"] == "-" else int(kv["expectrr"]), c[3], c[4])
    cases = [c if c[1] != "?" else (c[0], None, None, c[3], c[4]) for c in cases]
    # ---- the ENTRY POINT and the two boolean settings are inputs too ----
    # every case above went through build() with warnings_are_errors(false) and error_on_conflicts at its default (true).
    # Second pass: the same grammars through the deprecated but public process_file() (it copies the builder field by
    # field and then calls build()) and through build(), with warnings_are_errors x error_on_conflicts varied.  The
    # number of grammar warnings is known from the first pass: warnings_are_errors(true) is only combined with grammars
    # without warnings (with warnings such a build fails for a reason outside this clause).
    base = [c + ("build", 0, 1) for c in cases]
    extra = []
    combos = [(0, 1), (1, 0), (0, 0), (1, 1)]
    for i, (c, cl) in enumerate(zip(cases, ct)):
        if not cl.startswith("CT "):
            continue
        kv = dict(x.split("=", 1) for x in cl.split()[2:])
        nowarn = kv.get("warn") == "0"
        if replay:
            todo = [(api, w, e) for api in ("pf", "build") for (w, e) in combos if (api, w, e) != ("build", 0, 1)]
        else:
            w, e = combos[i % 4]
            todo = [("pf", w, e)]
            if i % 3 == 0:
                todo.append(("build",) + combos[1 + (i // 3) % 3])
            if i % 5 == 0:
                todo.append(("pf",) + combos[(i // 5 + 2) % 4])
        for api, w, e in todo:
            if w and not nowarn:
                w = 0
                if (api, w, e) == ("build", 0, 1):
                    continue
            extra.append(c + (api, w, e))
    extra = list(dict.fromkeys(extra))
    ct2 = core.run_lines([exe_ct], ["%s api=%s wae=%d eoc=%d" % (dump_case(c[0]), c[5], c[6], c[7]) for c in extra])
    cases = base + extra
    ct = list(ct) + list(ct2)
    mo = core.run_lines([mexe, "expect"], ["%s %s %d %d" % ("-" if c[1] is None else c[1], "-" if c[2] is None else c[2], c[3], c[4])
                                          for c in cases])
    n_known = 0
    by_setting = {}
    for (src, e, err, sr, rr, api, wae, eoc), cl, ml in zip(cases, ct, mo):
        f = cl.split()
        if not cl.startswith("CT "):
            ctx.count("expect_case_not_built")
            continue
        kv = dict(x.split("=", 1) for x in f[2:])
        verdict = f[1]
        entry = "CTParserBuilder::process_file()" if api == "pf" else "CTParserBuilder::build()"
        setting = "%s warnings_are_errors=%d error_on_conflicts=%d" % ("process_file" if api == "pf" else "build", wae, eoc)
        if wae and kv.get("warn") != "0":
            ctx.count("expect_case_outside_clause_warnings_are_errors")
            continue
        # error_on_conflicts(false) is the documented switch that turns the %expect comparison off
        rule_ok = "spec=1" in ml
        spec_ok = rule_ok or not eoc
        mirror_ok = "mirror=1" in ml or not eoc
        consistent = (int(kv["sr"]), int(kv["rr"])) == (sr, rr) and kv["expect"] == ("-" if e is None else str(e)) \
            and kv["expectrr"] == ("-" if err is None else str(err)) \
            and (kv.get("api"), kv.get("wae"), kv.get("eoc")) == (api if api == "pf" else "build", str(wae), str(eoc))
        good = consistent and verdict in ("ok", "err") and (verdict == "ok") == spec_ok
        known_class = consistent and verdict == "ok" and not spec_ok and (sr, rr) == (0, 0) and mirror_ok
        ctx.count("expect_build_" + verdict)
        by_setting[setting] = by_setting.get(setting, 0) + 1
        cls = ("conflicts_match_expect" if rule_ok else "conflicts_differ_from_expect") if (sr, rr) != (0, 0) else \
              ("conflict_free_expect_ok" if rule_ok else "conflict_free_expect_nonzero")
        ctx.count("expect_%s_%s" % ("process_file" if api == "pf" else "build", cls))
        if not good:
            data = {"what": "%s %s although the conflict counts (sr=%d, rr=%d) %s %%expect=%s %%expect-rr=%s (default 0)%s"
                            % (entry, "succeeds" if verdict == "ok" else "fails (%s)" % verdict, sr, rr,
                               "equal" if rule_ok else "differ from", e, err,
                               "" if eoc else " and error_on_conflicts(false) switches the comparison off"),
                    "grammar": src, "entry_point": entry,
                    "settings": {"warnings_are_errors": bool(wae), "error_on_conflicts": bool(eoc),
                                 "grammar_warnings": kv.get("warn")},
                    "harness": cl[:200], "model": ml,
                    "mirror_of_ctbuilder_agrees_with_implementation": (verdict == "ok") == mirror_ok}
            if known_class:
                n_known += 1
                if n_known <= 3:
                    ctx.violation(data, known_key=KNOWN_EXPECT)
            else:
                ctx.violation(data)
        if (verdict == "ok") != mirror_ok and not good:
            # (build_ok_mirror models the known defect; an implementation that follows the rule instead is fine)
            ctx.violation({"what": "%s follows neither the %%expect rule nor the mirror of ctbuilder.rs:905-929" % entry,
                           "grammar": src, "settings": setting, "harness": cl[:200], "model": ml}, no_input=False)
        ctx.oblige(good or known_class)
        ctx.case("expect:%s:%s" % (setting, src), True, None)
    ctx.coverage["expect_builds_by_entry_point_and_settings"] = dict(sorted(by_setting.items()))
    ctx.coverage["cells_compared"] = tot["cells"]
    ctx.coverage["conflict_resolution_histogram"] = res_hist
    ctx.coverage["reported_conflicts_compared"] = {"shift_reduce": tot["sr_reported"], "reduce_reduce": tot["rr_reported"],
                                                   "cells_with_2+_reduce_candidates": tot["rr_cells"]}
    ctx.coverage["expect_builds"] = len(cases)
    ctx.coverage["expect_known_defect_instances"] = n_known
    ctx.coverage["rule"] = ("families (gen/c03gen.py): precedence expression grammars (1-6 binary operators over random %left/%right/"
                            "%nonassoc lines, undeclared operators, pseudo tokens, %prec to higher/lower lines and other kinds, "
                            "unary/postfix/juxtaposition), dangling else with/without precedence fix, k-way reduce/reduce "
                            "(A: x; B: x; C: x), %nonassoc chains, random ambiguous grammars with random precedence lines and "
                            "%prec, mixed statement/expression grammars, accept/reduce shapes, shared expr/nullable families, "
                            "fixed witnesses; every cell (state x token) of every table is compared; non-trivial = at least one "
                            "cell with two or more candidates (resolution changes a cell); distinct by grammar text; %expect "
                            "variants: equal, +-1, absent, present with true count 0; every %expect case runs through build() with "
                            "warnings_are_errors(false)/error_on_conflicts(true), and again through the deprecated "
                            "process_file() (plus a share through build()) with warnings_are_errors x error_on_conflicts "
                            "varied (warnings_are_errors(true) only on grammars without warnings); expected outcome = "
                            "build_ok_spec when error_on_conflicts, success otherwise")
    ctx.assumptions += ["the item sets / lookaheads / edges the cells are re-derived from are the implementation's own "
                        "(their correctness is C01/C02/C16's subject); C03 decides resolution and reporting on top of them",
                        "for k > 2 reduce/reduce candidates the property text does not fix which pairs are reported: count, "
                        "membership, x<y and 'every loser exactly once as second component' are demanded",
                        "warnings_are_errors(true) is only combined with grammars for which the public AST reports no warning (a "
                        "build that fails for a warning is outside the clause); error_on_conflicts(false) is the documented "
                        "switch that turns the %expect comparison off: such builds are expected to succeed; "
                        "process_file_in_src() (current_dir/src + OUT_DIR wrapper around process_file()) is not run; "
                        "only source generation is run, nothing is compiled",
                        "accept/reduce construction errors are confirmed on the canonical LR(1) automaton (extracted canon_lr1) "
                        "because the state graph of a failed construction is not observable through the public API"]
