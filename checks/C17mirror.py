"""C17 (mirror part), stand-alone: proof gate of Properties/C17mirror.v + the mirror/implementation tie of
checks/c17_mirror.py on the grammar families of C17."""
from vlib import core
from checks import c17_mirror
from checks.C17 import gen_cases


def run(ctx):
    ctx.gate = core.proof_gate("C17mirror")
    for _ in ctx.gate["theorems"]:
        ctx.oblige(True)
    cases = gen_cases(ctx, ctx.n(1500, 15000))
    c17_mirror.run_part(ctx, cases)
    ctx.coverage["rule"] = ("the grammar families of C17 (random incl. unreachable / unproductive / unit-cyclic rules, reduced, nullable-heavy, "
                            "expression, not-LALR templates, unit cycles, nullable rules between a rule and what follows it, DAGs in shuffled "
                            "order, added unreachable rules, corpus); every epsilon / FIRST / FOLLOW bit; non-trivial = some rule nullable and "
                            "some production of length >= 2; distinct by case line")
    ctx.coverage["exhaustive"] = False
