"""C02 (stage 1) — Itemset::weakly_compatible / Itemset::weakly_merge against their proved mirror and
against Pager's definition.

Proof (theories/C02/{Model,Spec,Proofs}.v, exported from Properties/C02.v): for hash maps self, other
(distinct keys), self non-empty, and EVERY order `keys` of self's keys, the mirror of
`Itemset::weakly_compatible` (length test, same-cores test, `len == 1` shortcut, the i<j double loop with
conditions 1, 2, 3, every `items[..]` an explicit panic site) returns Done b with
b = true <-> weakly_compatible_spec self other (Pager's definition: same cores and for all i != j
(ctx1(i)∩ctx2(j) = ∅ ∧ ctx1(j)∩ctx2(i) = ∅) ∨ ctx1(i)∩ctx1(j) ≠ ∅ ∨ ctx2(i)∩ctx2(j) ≠ ∅); the mirror of
`weakly_merge` returns the item-by-item union and an exact changed flag.

Tie (this file): the implementation is called through the cfg(grmtools_verif) hooks
`lrtable::verif_weakly_compatible` / `verif_weakly_merge`
  * G probes: on the REAL core-state objects of every generated grammar's StateGraph — every ordered pair of
    distinct states with equal (production, dot) sets, every (a, a), and per state one partner with the same
    number of items but other cores and one with another number of items (the two early exits);
  * S probes: on explicit item sets built from those core states with perturbed contexts (random densities,
    rotated contexts, supersets, one-token moves) and perturbed cores (a key replaced, a key dropped);
for every probe the implementation's answers (compatible? changed? the merged set; a panic is an answer) must equal
the extracted mirror's (run with the key order the implementation's `self.items.keys()` yielded; the mirror is also
re-run under other key orders/layouts and must not depend on them) AND the declarative definitions evaluated here
in Python.
"""
from vlib import core

CORR = ("weakly_compatible_mirror / weakly_merge_mirror (proved = Pager's weak compatibility / item-by-item union) "
        "vs Itemset::weakly_compatible / weakly_merge through lrtable::verif_weakly_compatible / verif_weakly_merge")
THEOREMS = "C02_weakly_compatible_mirror_spec / _order_insensitive / C02_weakly_merge_mirror_spec"


def wc_spec(A, B):
    """Pager's definition on dicts key -> frozenset"""
    if set(A) != set(B):
        return False
    ks = list(A)
    for i in ks:
        for j in ks:
            if i == j:
                continue
            c1 = not (A[i] & B[j]) and not (A[j] & B[i])
            if not (c1 or (A[i] & A[j]) or (B[i] & B[j])):
                return False
    return True


def merge_spec(A, B):
    """(changed, merged) or None when `other.items[k]` panics"""
    if not set(A) <= set(B):
        return None
    M = {k: A[k] | B[k] for k in A}
    return any(B[k] - A[k] for k in A), M


def _fmt(D):
    return " , ".join("%d %d %s" % (p, d, " ".join(str(a) for a in sorted(la))) for (p, d), la in D.items())


def _parse_probe(rec):
    """`[GP a b] W ntoks wc mc # KA … # KB … # KM …` -> dict"""
    secs = [s.split() for s in rec.split(" # ")]
    h = secs[0]
    pair = None
    if h and h[0] == "GP":
        pair = (int(h[1]), int(h[2]))
        h = h[3:]
    if len(h) < 4 or h[0] != "W":
        return None
    out = {"pair": pair, "ntoks": int(h[1]), "wc": h[2], "mc": h[3], "A": {}, "B": {}, "M": {}, "keys": []}
    for s in secs[1:]:
        if len(s) >= 3 and s[0] in ("KA", "KB", "KM"):
            k = (int(s[1]), int(s[2]))
            la = frozenset(int(x) for x in s[3:])
            out[{"KA": "A", "KB": "B", "KM": "M"}[s[0]]][k] = la
            if s[0] == "KA":
                out["keys"].append(k)
    return out


def _perturb(rng, K, ntoks, nprods):
    """explicit (self, other) pairs derived from a real core state K (dict key -> frozenset)"""
    ks = list(K)
    toks = list(range(ntoks))
    out = []

    def rnd(p):
        return frozenset(t for t in toks if rng.random() < p)
    # random contexts on both sides, several densities (sparse ones make condition 1 hold, dense ones 2/3)
    for p in (rng.choice([0.1, 0.2]), rng.choice([0.3, 0.5]), rng.choice([0.7, 0.9])):
        out.append(("random", {k: rnd(p) for k in ks}, {k: rnd(p) for k in ks}))
    # self real, other = the real contexts rotated among the cores (the LR(1)-not-LALR(1) pattern)
    if len(ks) >= 2:
        r = rng.randrange(1, len(ks))
        out.append(("rotated", dict(K), {ks[i]: K[ks[(i + r) % len(ks)]] for i in range(len(ks))}))
        # pairwise disjoint singleton-ish contexts, other = swapped: condition 1 fails, 2 and 3 fail
        sh = toks[:]
        rng.shuffle(sh)
        A = {k: frozenset(sh[i:i + 1]) for i, k in enumerate(ks)}
        out.append(("swap", A, {ks[i]: A[ks[(i + 1) % len(ks)]] for i in range(len(ks))}))
        # the same with a shared token added on one side: condition 2 (resp. 3) rescues the pair
        t = rng.choice(toks)
        A2 = {k: v | {t} for k, v in A.items()}
        B2 = {ks[i]: A[ks[(i + 1) % len(ks)]] for i in range(len(ks))}
        out.append(("swap+cond2", A2, B2) if rng.random() < 0.5 else ("swap+cond3", B2, A2))
    # other = self plus random additions / one token moved
    out.append(("superset", dict(K), {k: K[k] | rnd(0.2) for k in ks}))
    B = dict(K)
    k = rng.choice(ks)
    if B[k]:
        B[k] = B[k] - {rng.choice(sorted(B[k]))}
    k2 = rng.choice(ks)
    B[k2] = B[k2] | {rng.choice(toks)}
    out.append(("moved", dict(K), B))
    # other cores: same number of items with one key replaced; one key dropped
    k = rng.choice(ks)
    nk = (rng.randrange(max(nprods, 1)), rng.randrange(4))
    if nk not in K:
        B = {(nk if x == k else x): v for x, v in K.items()}
        out.append(("key_replaced", dict(K), B))
        out.append(("key_replaced_rev", B, dict(K)))
    if len(ks) >= 2:
        B = {x: v for x, v in K.items() if x != k}
        out.append(("key_dropped", dict(K), B))
        out.append(("key_added", B, dict(K)))
    return out


def run_part(ctx, results):
    """results: list of vlib.lr.LRResult.  One obligation per grammar (G probes) + one per grammar (S probes)."""
    exe = core.build_harness("c02")
    mexe = core.build_model("c02")
    oks = [r for r in results if r.ok]
    rng = ctx.rng
    # ---- case lines -------------------------------------------------------------------
    lines, owner, label = [], [], []
    for gi, r in enumerate(oks):
        lines.append("G O %s" % r.src.encode().hex())
        owner.append(gi)
        label.append("G")
        ntoks = r.ntoks()
        nprods = sum(1 for s in r.secs if s and s[0] == "P")
        cores = {}
        for s in r.secs:
            if s and s[0] == "K":
                cores.setdefault(int(s[1]), {})[(int(s[2]), int(s[3]))] = frozenset(int(x) for x in s[4:])
        sts = sorted(cores, key=lambda s: (-len(cores[s]), s))
        multi = [s for s in sts if len(cores[s]) >= 2]
        pick = multi[:ctx.n(2, 4)]
        rest = [s for s in sts if s not in pick]
        if rest:
            pick.append(rng.choice(rest))
        for s in pick:
            for name, A, B in _perturb(rng, cores[s], ntoks, nprods):
                if not A:
                    continue                     # empty self: `len - 1` (see Model.v); never built by pager_stategraph
                lines.append("S %d ; %s ; %s" % (ntoks, _fmt(A), _fmt(B)))
                owner.append(gi)
                label.append(name)
    impl = core.run_lines([exe], lines)
    # ---- probes -> model ----------------------------------------------------------------
    probes = []                                   # (grammar index, label, record)
    broken = {}
    for gi, lab, line, out in zip(owner, label, lines, impl):
        if lab == "G":
            if not out.startswith("GR "):
                broken.setdefault(gi, []).append({"what": "the c02 harness did not answer for the grammar", "impl": out[:300]})
                continue
            for rec in out.split(" ## ")[1:]:
                probes.append((gi, "G", rec))
        else:
            if not out.startswith("W "):
                broken.setdefault(gi, []).append({"what": "the c02 harness did not answer", "case": line, "impl": out[:300]})
                continue
            probes.append((gi, lab, out))
    model = core.run_lines([mexe], [p[2] for p in probes]) if probes else []
    # ---- comparison -----------------------------------------------------------------------
    tot = {"probes": 0, "graph_pairs": 0, "graph_pairs_equal_cores_distinct": 0, "explicit_sets": 0,
           "compatible": 0, "incompatible_same_cores": 0, "other_cores": 0, "multi_item": 0,
           "merge_changed": 0, "merge_panic": 0}
    per_g = {}
    for (gi, lab, rec), mo in zip(probes, model):
        pr = _parse_probe(rec)
        bad = per_g.setdefault(gi, [])
        if pr is None or not mo.startswith("R "):
            bad.append({"what": "unreadable probe / model answer", "probe": rec[:300], "model": mo[:300]})
            continue
        msecs = [s.split() for s in mo.split(" # ")]
        mh = dict(kv.split("=") for kv in msecs[0][1:])
        mM = {(int(s[1]), int(s[2])): frozenset(int(x) for x in s[3:]) for s in msecs[1:] if s and s[0] == "KM"}
        A, B = pr["A"], pr["B"]
        tot["probes"] += 1
        if lab == "G":
            tot["graph_pairs"] += 1
            if pr["pair"][0] != pr["pair"][1] and set(A) == set(B):
                tot["graph_pairs_equal_cores_distinct"] += 1
        else:
            tot["explicit_sets"] += 1
        ctx.count("weak_" + lab)
        s_wc = "1" if wc_spec(A, B) else "0"
        ms = merge_spec(A, B)
        s_mc = "panic" if ms is None else ("1" if ms[0] else "0")
        if set(A) != set(B):
            tot["other_cores"] += 1
        elif s_wc == "1":
            tot["compatible"] += 1
        else:
            tot["incompatible_same_cores"] += 1
        if len(A) >= 2:
            tot["multi_item"] += 1
        if s_mc == "1":
            tot["merge_changed"] += 1
        if s_mc == "panic":
            tot["merge_panic"] += 1
        base = {"self": _fmt(A), "other": _fmt(B), "self_key_order": ["%d %d" % k for k in pr["keys"]],
                "probe_kind": lab, "states": pr["pair"], "ntoks": pr["ntoks"],
                "replay_cmd": "echo 'S %d ; %s ; %s' | .work/target/release/c02" % (pr["ntoks"], _fmt(A), _fmt(B))}
        if mh.get("od") != "0":
            bad.append(dict(base, what="weakly_compatible_mirror depends on the key order / layout — excluded by "
                                       "weakly_compatible_order_insensitive / _layout_insensitive"))
        if not (pr["wc"] == mh.get("wc") == s_wc):
            bad.append(dict(base, what="weakly_compatible: implementation %s, proved mirror %s, Pager's definition %s"
                                       % (pr["wc"], mh.get("wc"), s_wc)))
        if not (pr["mc"] == mh.get("mc") == s_mc):
            bad.append(dict(base, what="weakly_merge changed flag: implementation %s, proved mirror %s, item-by-item union %s"
                                       % (pr["mc"], mh.get("mc"), s_mc)))
        elif ms is not None and not (pr["M"] == mM == ms[1]):
            bad.append(dict(base, what="weakly_merge result is not the item-by-item union",
                            implementation=_fmt(pr["M"]), mirror=_fmt(mM), union=_fmt(ms[1])))
    reported = 0
    for gi, r in enumerate(oks):
        bad = broken.get(gi, []) + per_g.get(gi, [])
        ctx.oblige(not bad)
        for b in bad[:2]:
            reported += 1
            if reported > 6:                 # a handful of replays is enough; leave room for other violations
                break
            ctx.violation(dict(b, grammar=r.src, broken_correspondence=CORR, theorems=THEOREMS), no_input=True)
    for k, v in tot.items():
        ctx.count("weak_tie_" + k, v)
    ctx.coverage["weak_compat_tie"] = dict(tot, rule=(
        "G: real core-state objects — all ordered pairs of distinct states with equal cores, all (a, a), one partner per state "
        "with other cores / another length; S: explicit item sets from real core states with perturbed contexts (random at "
        "3 densities, rotated, swapped singletons ± a rescuing shared token, superset, one token moved) and perturbed cores; "
        "implementation vs extracted mirror (implementation's key order; 6 further orders/layouts) vs Pager's definition in Python"))
    return tot
