"""C02 — the TEXTBOOK canonical LR(1) collection as the reference, and grammars with unproductive rules.

Why.  C02's premise is "the grammar is LR(1) (the canonical, unmerged LR(1) construction has no conflicts)" — the textbook
notion over single-lookahead items [A -> alpha . beta, a].  The closure relation the construction theorems are stated over
(LR/CloseSpec.v lr1_closure_rel) follows the code: Itemset::close adds [B -> . gamma] below [A -> alpha . B beta, a] even when
FIRST(beta a) is EMPTY (beta contains a rule that derives no token string and has an empty FIRST) — an item without
any lookahead, which the textbook closure does not contain, which takes part in goto and yields Shift cells.  The reference
automaton `canon_lr1` of checks/C02.py is built on item -> lookahead-set maps in the same way, so it has those items too
and cannot see the difference; and every generator of C02 produced reduced grammars only.  On productive grammars the two
notions coincide (C02_lr1_notions_agree_productive), on others they do not (C02_lr1_notions_differ_refuted,
C02_phantom_item_costs_determinism_refuted): KNOWN FINDING.

What this part does.
 * an INDEPENDENT textbook oracle in Python over (production, dot, token) triples: FIRST/nullable fixed point, closure,
   goto, canonical collection, action table, LR driver (trees in the harness' format);
 * the extracted `canon_tb` (Coq, item sets that never hold an item without lookahead) certified by the PROVED-SOUND
   `lr1_textbook_check` (C02_lr1_textbook_check_sound) — both must agree with the Python oracle on the number of states,
   on conflict-freeness and on every generated input (machinery cross-check, never an implementation verdict);
 * for every grammar the textbook oracle says is LR(1) — a generator family of its own (own random stream): small LR(1)
   grammars with an unproductive rule of empty FIRST (`U: U 'u'`, `U: V 'u'; V: U 'v'`, `U: V; V: U`, ...) placed after
   a rule reference, the auditor's grammar first, plus controls whose unproductive rule has a non-empty FIRST, plus the
   (productive) grammars of the main run whose collection is small — the implementation must report no conflict, must
   not have more states than the textbook collection, and must give the textbook parser's tree or first-error position
   on every generated input.
 * classification of a failure: it is the KNOWN class iff (i) the grammar has an unproductive rule (productive-rule
   fixed point on the dump), (ii) some closed state of the implementation holds an item with an empty lookahead set,
   and (iii) the implementation IS the extracted mirror on this grammar: pager_mirror replays the recorded trace to the
   identical StateGraph and from_yacc_mirror returns the identical StateTable and conflict counts (nothing else is
   wrong).  Anything else — in particular any failure on a productive grammar — is a VIOLATION.
"""
import os
import random
import time
from vlib import core, lr, cfg
from gen import grammars as G
from checks import c02_loop, c01_pipe

# False = the pinned behaviour (Itemset::close creates items without lookahead; the mirrors follow it).  After
# notes/C02-phantom-item-fix.diff is applied to /repo set it to True: no failure is excused any more, and the family's own
# mirror tie is dropped (close_mirror / pager_mirror are mirrors of the pinned closure and differ from the repaired code
# exactly on grammars with an unproductive rule of empty FIRST; on productive grammars nothing changes:
# C02_lr1_notions_agree_productive, C02_phantom_needs_unproductive).
PHANTOM_FIXED = False
if os.environ.get("C02_PHANTOM_FIXED") in ("0", "1"):          # development aid (tools/scratch_eval.sh with the repair applied)
    PHANTOM_FIXED = os.environ["C02_PHANTOM_FIXED"] == "1"

KNOWN = "items with an empty lookahead set (unproductive rule) cost a textbook-LR(1) grammar its determinism"

AUDIT_GRAMMAR = "%start S\n%%\nS: B 'y' | 'x' A U;\nB: 'x';\nA: 'y';\nU: U 'u';\n"
AUDIT_INPUTS = [["x", "y"], ["x", "y", "u"], ["x", "y", "y"], ["x"], ["y"], []]


# ---------------------------------------------------------------------------------------------------------------
# the textbook oracle (triples)

class Textbook:
    """canonical collection of sets of LR(1) items (p, dot, lookahead token) of a dumped grammar (cfg.DGram);
    symbols are the dump's codes: 2k = token k, 2k+1 = rule k"""

    def __init__(self, g, max_states=400):
        self.g = g
        self.nullable = set()
        self.first = {r: set() for r in range(g.nrules)}
        ch = True
        while ch:
            ch = False
            for lhs, rhs in g.prods:
                alln = True
                for x in rhs:
                    if x % 2 == 0:
                        if x // 2 not in self.first[lhs]:
                            self.first[lhs].add(x // 2)
                            ch = True
                        alln = False
                        break
                    q = x // 2
                    if not self.first[q] <= self.first[lhs]:
                        self.first[lhs] |= self.first[q]
                        ch = True
                    if q not in self.nullable:
                        alln = False
                        break
                if alln and lhs not in self.nullable:
                    self.nullable.add(lhs)
                    ch = True
        self.states, self.edges, self.ok = [], [], True
        s0 = self.closure([(g.start_prod, 0, g.eof)])
        ids = {s0: 0}
        self.states.append(s0)
        self.edges.append({})
        i = 0
        while i < len(self.states):
            kern = {}
            for p, d, a in self.states[i]:
                rhs = g.prods[p][1]
                if d < len(rhs):
                    kern.setdefault(rhs[d], []).append((p, d + 1, a))
            for x in sorted(kern):
                c = self.closure(kern[x])
                if c not in ids:
                    ids[c] = len(self.states)
                    self.states.append(c)
                    self.edges.append({})
                    if len(self.states) > max_states:
                        self.ok = False
                        return
                self.edges[i][x] = ids[c]
            i += 1
        self.actions = []
        self.conflicts = 0
        for i, st in enumerate(self.states):
            m = {}
            for p, d, a in st:
                rhs = g.prods[p][1]
                if d == len(rhs):
                    m.setdefault(a, set()).add(("A",) if p == g.start_prod else ("R", p))
                elif rhs[d] % 2 == 0:
                    m.setdefault(rhs[d] // 2, set()).add(("S", self.edges[i][rhs[d]]))
            self.conflicts += sum(1 for v in m.values() if len(v) > 1)
            self.actions.append(m)

    def first_of(self, seq, a):
        out = set()
        for x in seq:
            if x % 2 == 0:
                out.add(x // 2)
                return out
            out |= self.first[x // 2]
            if x // 2 not in self.nullable:
                return out
        out.add(a)
        return out

    def closure(self, kernel):
        st = set(kernel)
        todo = list(st)
        while todo:
            p, d, a = todo.pop()
            rhs = self.g.prods[p][1]
            if d < len(rhs) and rhs[d] % 2 == 1:
                for b in self.first_of(rhs[d + 1:], a):          # nothing at all when FIRST(beta a) is empty
                    for q in self.g.by_rule.get(rhs[d] // 2, []):
                        it = (q, 0, b)
                        if it not in st:
                            st.add(it)
                            todo.append(it)
        return frozenset(st)

    def parse(self, toks):
        """'acc <tree>' / 'rej <k>' in the harness' format (only for a conflict-free collection)"""
        g = self.g
        stack, vals, i = [0], [], 0
        for _ in range(200 + 40 * (len(toks) + 1) * (len(g.prods) + 2)):
            a = toks[i] if i < len(toks) else g.eof
            acts = self.actions[stack[-1]].get(a)
            if not acts:
                return "rej %d" % i
            act = next(iter(acts))
            if act[0] == "S":
                stack.append(act[1])
                vals.append("[%d %d]" % (a, i))
                i += 1
            elif act[0] == "R":
                lhs, rhs = g.prods[act[1]]
                n = len(rhs)
                kids = vals[len(vals) - n:] if n else []
                if n:
                    del vals[len(vals) - n:]
                    del stack[len(stack) - n:]
                stack.append(self.edges[stack[-1]][2 * lhs + 1])
                vals.append("(%d%s)" % (lhs, "".join(" " + k for k in kids)))
            else:
                return "acc " + vals[-1]
        return "fuel"


# ---------------------------------------------------------------------------------------------------------------
# the family: small LR(1) grammars + an unproductive rule after a rule reference

def _unproductive(rng, empty_first=True):
    """rules (name, alternatives) none of which derives a token string; FIRST of the first one is empty unless asked"""
    if not empty_first:
        return rng.choice([
            [("U", [[('t', 'u'), ('r', 'U')]])],                                   # U: 'u' U          FIRST = {u}
            [("U", [[('t', 'u'), ('r', 'V')]]), ("V", [[('r', 'U'), ('t', 'v')]])],
        ])
    return rng.choice([
        [("U", [[('r', 'U'), ('t', 'u')]])],                                       # the auditor's: left-recursive, no base
        [("U", [[('r', 'U'), ('t', 'u')], [('r', 'U'), ('t', 'v')]])],
        [("U", [[('r', 'V'), ('t', 'u')]]), ("V", [[('r', 'U'), ('t', 'v')]])],   # mutually recursive, no base
        [("U", [[('r', 'V')]]), ("V", [[('r', 'U')]])],                            # U: V; V: U
        [("U", [[('r', 'U'), ('r', 'U')]])],
        [("U", [[('r', 'V'), ('r', 'U'), ('t', 'u')]]), ("V", [[('r', 'V'), ('t', 'v')]])],
    ])


def _template(rng, empty_first=True):
    """the auditor's shape with random names, tails and embedding:
         S: B c t1.. | x A U t2.. ;  B: x ;  A: c a.. ;  U unproductive
       [B -> x ., c] reduces on c; the item [A -> . c .., {}] (FIRST(U ..) empty) would shift c"""
    pool = list("abcdefgh")
    rng.shuffle(pool)
    x, c = pool[0], pool[1]
    t1 = [('t', rng.choice(pool[2:5])) for _ in range(rng.randint(0, 2))]
    t2 = [('t', rng.choice(pool[2:5])) for _ in range(rng.randint(0, 1))]
    arest = [('t', rng.choice(pool[1:5])) for _ in range(rng.randint(0, 2))]
    rules = [("S", [[('r', 'B'), ('t', c)] + t1, [('t', x), ('r', 'A'), ('r', 'U')] + t2]),
             ("B", [[('t', x)]]),
             ("A", [[('t', c)] + arest] + ([[('t', c), ('r', 'A')]] if rng.random() < 0.25 else []))]
    rules += _unproductive(rng, empty_first)
    start = "S"
    if rng.random() < 0.4:
        rules = [("T", [[('r', 'S')], [('t', pool[5]), ('r', 'S'), ('t', pool[6])]])] + rules
        start = "T"
    return G.Gram(pool[:7] + ['u', 'v'], rules, start=start)


def _planted(rng, empty_first=True):
    """a small reduced base grammar; a NEW alternative = a production cut after one of its rule references,
    followed by the unproductive rule (and sometimes the rest of the production)"""
    base = rng.choice([lambda: G.not_lalr_template(rng),
                       lambda: G.reduced_random_grammar(rng, nrules=rng.randint(2, 4), ntoks=rng.randint(2, 3), max_len=3),
                       lambda: G.nullable_heavy(rng),
                       lambda: G.expr_grammar(rng, with_prec=False)])()
    if base is None or not base.is_reduced() or base.derives_cycle():
        return None
    sites = [(ri, pi, si) for ri, (_, ps) in enumerate(base.rules) for pi, (syms, _) in enumerate(ps)
             for si, (k, _) in enumerate(syms) if k == 'r']
    if not sites:
        return None
    names = set(base.rule_names())
    if names & {"U", "V"}:
        return None
    rules = [(n, [list(sy) for sy, _ in ps]) for n, ps in base.rules]
    for _ in range(rng.randint(1, 2)):
        ri, pi, si = rng.choice(sites)
        syms = rules[ri][1][pi]
        new = list(syms[:si + 1]) + [('r', 'U')] + (list(syms[si + 1:]) if rng.random() < 0.5 else [])
        if new not in rules[ri][1]:
            rules[ri][1].append(new)
    rules += _unproductive(rng, empty_first)
    toks = list(base.tokens) + [t for t in ('u', 'v') if t not in base.tokens]
    return G.Gram(toks, rules, start=base.start)


def gen_family(seed, n):
    rng = random.Random(seed * 7919 + 20202)                 # own stream: the main families' streams stay as they are
    out = [(AUDIT_GRAMMAR, [list(x) for x in AUDIT_INPUTS], "audit")]
    seen = {AUDIT_GRAMMAR}
    tries = 0
    while len(out) < n and tries < 40 * n:
        tries += 1
        c = rng.random()
        if c < 0.35:
            g, fam = _template(rng), "template"
        elif c < 0.85:
            g, fam = _planted(rng), "planted"
        elif c < 0.92:
            g, fam = _template(rng, empty_first=False), "control_template"
        else:
            g, fam = _planted(rng, empty_first=False), "control_planted"
        if g is None:
            continue
        src = g.render()
        if src in seen:
            continue
        seen.add(src)
        out.append((g, G.inputs_for(rng, g, 14, maxlen=6), fam))
    return out


# ---------------------------------------------------------------------------------------------------------------
# "the implementation is the extracted mirror on this grammar"

def mirror_equal(srcs):
    """per grammar source: (equal, what differs, some closed state of the implementation has an item without lookahead)"""
    if not srcs:
        return []
    exe = core.build_harness("c02")
    impl = core.run_lines([exe], ["P O %s" % s.encode().hex() for s in srcs])
    good = [i for i, o in enumerate(impl) if o.startswith("G ")]
    loop = core.run_lines([core.build_model("c02"), "loop"], [impl[i] for i in good], timeout=1200) if good else []
    pipe = core.run_lines([core.build_model("c01pipe")], [impl[i] for i in good], timeout=1200) if good else []
    res = [(False, "the c02 harness did not answer: %s" % o[:80], False) for o in impl]
    for i, lo, po in zip(good, loop, pipe):
        out = impl[i]
        diff = []
        gi = c02_loop._graph(out)
        phantom = any(len(la) == 0 for la in gi[2].values())
        if not lo.startswith("PG "):
            diff.append("pager_mirror: %s" % lo[:60])
        else:
            gm = c02_loop._graph(lo)
            if gi[0] != gm[0]:
                diff.append("states %s/%s" % (gi[0], gm[0]))
            elif gi[1] != gm[1] or gi[2] != gm[2] or gi[3] != gm[3]:
                diff.append("core states, closed states or edges of the graph")
        if not po.startswith("FY "):
            diff.append("from_yacc_mirror: %s" % po[:60])
        else:
            head = po.split(" # ")[0].split()
            kv = dict(t.split("=") for t in head[2:])
            xs = [s.split() for s in out.split(" # ") if s.startswith("X ")]
            x = xs[0] if xs else ["X", "none"]
            isr, irr = (0, 0) if x[1] == "none" else (int(x[1]), int(x[2]))
            if c01_pipe._cells(out) != c01_pipe._cells(po):
                diff.append("cells of the StateTable")
            if (int(kv.get("sr", -1)), int(kv.get("rr", -1))) != (isr, irr):
                diff.append("conflict counts %d/%d vs %s/%s" % (isr, irr, kv.get("sr"), kv.get("rr")))
        res[i] = (not diff, "; ".join(diff), phantom)
    return res


# ---------------------------------------------------------------------------------------------------------------

def _same(a, b):
    """implementation outcome vs textbook outcome: same tree, or same first-error position"""
    a = a.split(" nerr=")[0]
    if a.startswith("acc") or b.startswith("acc"):
        return a == b
    return a.split()[:2] == b.split()[:2]


def run_part(ctx, main_results):
    """main_results: the LRResults of the main run (reduced grammars); a sample of them is put through the textbook
    oracle too.  One obligation per grammar."""
    t_start = time.time()
    fam = gen_family(ctx.seed, ctx.n(60, 600))
    fres = lr.run_cases([(g, ins) for g, ins, _ in fam])
    small = [r for r in main_results if r.ok and r.nstates <= ctx.n(40, 80)][:ctx.n(120, 1200)]
    todo = [(r, f) for r, (_, _, f) in zip(fres, fam)] + [(r, "main") for r in small]
    tb = core.run_lines([core.build_model("c02"), "tb"], [r.impl_line for r, _ in todo if r.ok], timeout=2400)
    tbi = iter(tb)
    failing = []            # (result, family, reasons, grammar productive?)
    tot = {"grammars": 0, "textbook_lr1": 0, "unproductive": 0, "unproductive_textbook_lr1": 0, "inputs": 0,
           "failing_known_class": 0, "oracle_states": 0}
    for r, f in todo:
        if not r.ok:
            ctx.count("phantom_family_rejected_" + r.err.split()[0])
            continue
        tl = next(tbi)
        g = cfg.DGram(r.secs)
        productive = g.all_productive()
        t = Textbook(g, max_states=ctx.n(400, 1500))
        if not t.ok:
            ctx.count("textbook_oracle_too_big")
            continue
        tot["grammars"] += 1
        tot["oracle_states"] += len(t.states)
        tot["unproductive"] += (not productive)
        ctx.count("phantom_family_" + f)
        # --- machinery: the two textbook constructions and the certificate agree (never an implementation verdict)
        secs = lr.sections(tl)
        kv = dict(x.split("=") for x in secs[0][1:] if "=" in x)
        mach = []
        if secs[0][:2] == ["TB", "none"] or secs[0][0] != "TB":
            mach.append("canon_tb gave no automaton: %s" % tl[:60])
        else:
            if int(kv["n"]) != len(t.states):
                mach.append("states: Python oracle %d, canon_tb %s" % (len(t.states), kv["n"]))
            if (int(kv["conflicts"]) == 0) != (t.conflicts == 0):
                mach.append("conflict-free: Python oracle %s, canon_tb %s" % (t.conflicts == 0, kv["conflicts"]))
            if (kv["tbcheck"] == "1") != (t.conflicts == 0):
                mach.append("lr1_textbook_check = %s on canon_tb's automaton, Python oracle counts %d conflicts"
                            % (kv["tbcheck"], t.conflicts))
            if t.conflicts == 0 and kv["S"] != "1":
                mach.append("validS rejects canon_tb's automaton")
        outs_t = [t.parse(toks) for toks in r.inputs] if t.conflicts == 0 else []
        if t.conflicts == 0 and not mach:
            outs_m = [" ".join(s[1:]) for s in secs if s and s[0] == "O"]
            for toks, a, b in zip(r.inputs, outs_t, outs_m):
                if a != "fuel" and b != "fuel" and not _same(b, a):
                    mach.append("input %s: Python oracle %s, canon_tb's automaton %s" % (toks, a, b))
                    break
        if mach:
            ctx.oblige(False)
            ctx.violation({"what": "the textbook references disagree (machinery, no verdict on the implementation): " + "; ".join(mach),
                           "grammar": r.src}, no_input=True)
            continue
        if t.conflicts != 0:
            ctx.count("phantom_family_not_textbook_lr1")
            ctx.oblige(True)
            continue
        # --- the property, premise = textbook LR(1), certified by lr1_textbook_check
        tot["textbook_lr1"] += 1
        tot["unproductive_textbook_lr1"] += (not productive)
        tot["inputs"] += len(r.inputs)
        why = []
        if r.conflicts is not None:
            why.append("grammar is LR(1) (textbook canonical collection: %d states, no conflict; certified by lr1_textbook_check) "
                       "but construction reports %s conflicts (shift/reduce, reduce/reduce)" % (len(t.states), list(r.conflicts)))
        if r.nstates > len(t.states):
            why.append("minimised automaton has %d states, the textbook canonical LR(1) collection has %d" % (r.nstates, len(t.states)))
        for toks, io, bo in zip(r.inputs, r.impl_out, outs_t):
            if bo != "fuel" and not _same(io, bo):
                why.append("input %s: implementation %s, textbook canonical LR(1) parser %s" % (toks, io, bo))
                break
        ctx.case("tb:" + r.src, len(t.states) >= 4, {"grammar": r.src, "impl_states": r.nstates, "textbook_states": len(t.states),
                                                       "productive": productive, "inputs": len(r.inputs)})
        if why:
            failing.append((r, f, why, productive, len(t.states)))
        else:
            ctx.oblige(True)
    # --- classification of the failures
    meq = mirror_equal([r.src for r, _, _, _, _ in failing])
    known = []
    for (r, f, why, productive, ncanon), (eq, diff, phantom) in zip(failing, meq):
        data = {"what": "; ".join(why), "grammar": r.src, "family": f, "impl_states": r.nstates, "textbook_states": ncanon,
                "impl_conflicts": r.conflicts, "grammar_productive": productive,
                "implementation_equals_extracted_mirror": eq, "mirror_difference": diff,
                "closed_state_with_an_item_without_lookahead": phantom}
        ctx.oblige(False)
        if (not PHANTOM_FIXED) and (not productive) and eq and phantom:
            known.append((r, why))
            ctx.violation(data, known_key=KNOWN)
        else:
            ctx.violation(data)
    tot["failing_known_class"] = len(known)
    if known:
        first = " ".join(known[0][0].src.split())
        for i, k in enumerate(ctx.known_hits):
            if k.get("match") == KNOWN:
                k = dict(k)
                k["note"] = "%s (%d grammars, first: `%s`: %s)" % (KNOWN, len(known), first, known[0][1][0])
                ctx.known_hits[i] = k
    # the family's own tie: on EVERY grammar of the family the implementation must be the mirror (the mirror follows the code,
    # items without lookahead included)
    fam_ok = [r for r, f in todo if r.ok and f != "main"]
    sample = [] if PHANTOM_FIXED else fam_ok[:ctx.n(25, 200)]
    for r, (eq, diff, _) in zip(sample, mirror_equal([r.src for r in sample])):
        ctx.oblige(eq)
        if not eq:
            ctx.violation({"what": "grammar with an unproductive rule: the implementation's construction differs from the extracted "
                                   "mirror (%s)" % diff, "grammar": r.src,
                           "broken_correspondence": c02_loop.CORR}, no_input=True)
    for k, v in tot.items():
        ctx.count("textbook_" + k, v)
    tot["wall_s"] = round(time.time() - t_start, 1)
    ctx.coverage["textbook_reference"] = dict(tot, rule=(
        "reference = textbook canonical LR(1) collection over (production, dot, token) triples (Python) = extracted canon_tb certified by "
        "lr1_textbook_check; family (own random stream, auditor's grammar first): small LR(1) grammars with an unproductive rule of empty "
        "FIRST after a rule reference + controls with non-empty FIRST + the main run's grammars with few states; a failure is the known "
        "class iff grammar unproductive AND an item without lookahead in a closed state AND implementation = extracted mirror"))
    return tot
