"""C10 — the FromStr entry points (`ASTWithValidityInfo::from_str`, `YaccGrammar::from_str` / `str::parse`),
which read the yacc kind from the text's own `%grmtools{yacckind: ..}` section.

Metamorphic correspondence on the implementation alone.  For a grammar text T (printed abstract
grammars of gen/c10ypgen.py under all layouts, mutated/erroneous ones, the parser corpus) and a header
H = `%grmtools{yacckind: <kind>}` written in several layouts, let B be H with every character replaced
by blanks of the same BYTE length (line breaks kept).  Then

    ASTWithValidityInfo::from_str(H + T)   must be, span for span (AST, errors, warnings), equal to
    ASTWithValidityInfo::new(kind, B + T)  -- the transcript the mirror of C10/YpModel.v is tied to and the
                                              print-then-parse oracle of c10_parser.py decides -- and to
    ASTWithValidityInfo::new(kind, H + T)  (the header is skipped by the parser itself),

and `YaccGrammar::from_str(H + T)` must answer every name/structure/span accessor like
`YaccGrammar::new_with_storaget(kind, B + T)`.  H and B have the same byte length and B is layout for
the yacc parser, so every item of T sits at the same offsets in the three texts: a difference means
that a span of one entry point does not select the text that defines the item (concrete input).

The kind expressions include white space after the '(' and before the ')' of `Original(..)` and the argument
on a line of its own (CTOR_WS_FIXED; /repo fdd053a — the section parser used to reject white space directly
after the '(' with IllegalName).  A header rejected only because of that white space — the same text without
it is accepted by the same entry point — is reported as a counterexample of the layout clause with both texts;
C12 mirrors the section parser (C12_header_ctor_ws_refuted, C12_header_layout_insensitive_ctor).
"""
import re
from vlib import core
from gen import c10ypgen as G
from checks import c10_parser as P

KIND_EXPR = {
    "O": ["Original(YaccOriginalActionKind::GenericParseTree)", "YaccKind::Original(GenericParseTree)",
          "original (yaccoriginalactionkind :: genericparsetree )"],
    "N": ["Original(YaccOriginalActionKind::NoAction)", "YaccKind::Original(YaccOriginalActionKind::NoAction)",
          "Original(NoAction)", "ORIGINAL(NOACTION)"],
    "U": ["Original(YaccOriginalActionKind::UserAction)", "YaccKind::Original(UserAction)"],
    "G": ["Grmtools", "YaccKind::Grmtools", "GRMTOOLS", "yacckind :: grmtools"],
    "E": ["Eco", "YaccKind::Eco", "eco"],
}

# White space between the '(' of the yacckind value and its argument (/repo fdd053a: it used to be an IllegalName error,
# `yacckind: Original( NoAction)`, although white space is skipped between every other pair of header lexemes):
#   True  = such spellings are among the kind expressions of every run; a header rejected only because of that white
#           space (the same header without it is accepted by the same entry point) is a concrete counterexample of C10's
#           layout clause
#   False = the spellings are left out
CTOR_WS_FIXED = True
KIND_EXPR_CTOR_WS = {
    "O": ["Original( GenericParseTree)", "Original(\n        YaccOriginalActionKind::GenericParseTree\n    )",
          "YaccKind::Original(\tYaccOriginalActionKind :: GenericParseTree )"],
    "N": ["Original( NoAction)", "Original( NoAction )", "Original(\n        YaccOriginalActionKind::NoAction\n    )",
          "YaccKind::Original(\u2028NoAction\u0085)"],
    "U": ["Original( UserAction)", "Original(\r\n\tYaccOriginalActionKind::UserAction\r\n)"],
}
if CTOR_WS_FIXED:
    for _k, _v in KIND_EXPR_CTOR_WS.items():
        KIND_EXPR[_k] = KIND_EXPR[_k] + _v


def strip_ctor_ws(h):
    """the header without the white space directly after a '('"""
    return re.sub("\\([%s]+" % PWS, "(", h)


# {K} = kind expression.  Everything up to the closing '}' is header syntax (white space there = Unicode
# Pattern_White_Space); what follows the '}' is layout of the YACC parser (blank, tab, CR, LF, comments).
LAYOUTS = [
    ("plain", "%grmtools{yacckind: {K}}"),
    ("space", "%grmtools {yacckind: {K}}\n"),
    ("lines", "\n \t%grmtools\n{\n\tyacckind: {K},\n}\n\n"),
    ("crlf", "%grmtools{\r\n  yacckind: {K}\r\n}\r\n"),
    ("entries", "%grmtools{yacckind: {K}, recoverer: RecoveryKind::None, test_files: \"é*.t→xt\\\"\", n: 12, !flag, "
                "arr: [1, \"\U0001F600\", [b, c::d]], f}\n"),
    ("entries_first", "%grmtools{a: \"}\", yacckind: {K}}"),
    ("pattern_ws", "\u2028%grmtools\u0085{\u200eyacckind\u200f:\u2029{K}\u000b,\u000c}\t"),
    ("kelvin", "%grmtools{yacc\u212aind: {K}} "),
    ("comment_after", "%grmtools{yacckind: {K}} /* é → */ // \U0001F600 x\n"),
    ("long", "%grmtools{" + "\n" * 40 + " " * 200 + "yacckind: {K}" + " " * 57 + "}" + "\n" * 3),
]

PWS = "\t\n\x0b\x0c\r \x85\u200e\u200f\u2028\u2029"


def blank(h):
    return "".join(c if c in "\r\n" else " " * len(c.encode("utf-8")) for c in h)


def starts_with_header(t):
    return t.lstrip(PWS).startswith("%grmtools")


def hexs(s):
    h = s.encode("utf-8").hex()
    return h if h else "-"


def first_diff(src, a, b):
    """first differing section of two transcripts, with the text each span selects"""
    fa, fb = a.split(" # "), b.split(" # ")
    bs = src.encode("utf-8")
    for x, y in zip(fa, fb):
        if x != y:
            def sel(sec):
                nums = [int(w) for w in sec.split() if re.fullmatch(r"\d+", w)]
                out = []
                for s, e in zip(nums[::2], nums[1::2]):
                    out.append("%d..%d=%r" % (s, e, bs[s:e].decode("utf-8", errors="replace") if s <= e <= len(bs) else "<out of range>"))
                return out[:4]
            return {"from_str": x[:200], "new": y[:200], "from_str_selects": sel(x), "new_selects": sel(y)}
    return {"sections_from_str": len(fa), "sections_new": len(fb)}


def canon_gerr(line):
    """hash-order freedom: when several %epp keys are unknown, validation reports whichever its HashMap iterates first
    (the AST transcript canonicalises this in the harness; the grammar-level error list is compared up to the key)"""
    if not line.startswith("GERR"):
        return line
    return " # ".join("E UnknownEPP *" if sec.startswith("E UnknownEPP:") else sec for sec in line.split(" # "))


def run_part(ctx, tag="C10h"):
    exe = core.build_harness("c10yp")
    rng = ctx.rng
    texts = []                                          # (kind, T, origin)
    for _ in range(ctx.n(400, 3000)):
        ag = G.random_grammar(rng)
        for style in rng.sample(G.Layout.STYLES, 2):
            t, _ = G.render(ag, G.Layout(rng, style))
            k = ag["kind"]
            if k == "O" and rng.random() < 0.3:
                k = "U"
            texts.append((k, t, "printed:" + style))
    printed = list(texts)
    for _ in range(ctx.n(4000, 30000)):
        k, t, _ = rng.choice(printed)
        m = G.mutate(rng, t)
        if rng.random() < 0.25:
            m = G.mutate(rng, m)
        if rng.random() < 0.1:
            k = rng.choice("ONUGE")
        texts.append((k, m, "mutated"))
    for k, t in P.CORPUS:
        texts.append((k, t, "corpus"))
    cases = []
    seen = set()
    lay_i = 0
    for k, t, origin in texts:
        if starts_with_header(t):
            ctx.count("hdr_text_has_own_header_skipped")
            continue
        n_l = len(LAYOUTS) if origin == "corpus" else 1
        for _ in range(n_l):
            lname, lay = LAYOUTS[lay_i % len(LAYOUTS)]
            lay_i += 1
            h = lay.replace("{K}", rng.choice(KIND_EXPR[k]))
            key = (k, h, t)
            if key in seen:
                continue
            seen.add(key)
            cases.append((k, h, t, lname, origin))
    lines = []
    for k, h, t, _, _ in cases:
        b = blank(h)
        assert len(b.encode("utf-8")) == len(h.encode("utf-8"))
        lines += ["F " + hexs(h + t), "%s %s" % (k, hexs(b + t)), "%s %s" % (k, hexs(h + t)),
                  "FG " + hexs(h + t), "NG %s %s" % (k, hexs(b + t))]
    out = core.run_lines([exe], lines)
    n_bad = n_rejected = n_cmp = n_ctor_ws = 0
    n_ctor_ws_cases = sum(1 for c in cases if strip_ctor_ws(c[1]) != c[1])
    # rejected headers with white space after a '(': the same text without that white space, one batch (normally empty)
    redo = [i for i, c in enumerate(cases) if out[5 * i].startswith("HDRERR") and strip_ctor_ws(c[1]) != c[1]]
    again = {}
    if redo:
        o2 = core.run_lines([exe], [x for i in redo for x in ("F " + hexs(strip_ctor_ws(cases[i][1]) + cases[i][2]),
                                                              "FG " + hexs(strip_ctor_ws(cases[i][1]) + cases[i][2]))])
        again = {i: (o2[2 * q], o2[2 * q + 1]) for q, i in enumerate(redo)}
    for i, (k, h, t, lname, origin) in enumerate(cases):
        f, rb, rh, fg, ng = out[5 * i:5 * i + 5]
        src = h + t
        head = rb.split(" ", 1)[0]
        ctx.count("hdr_layout_" + lname)
        ctx.count("hdr_kind_" + k)
        ctx.count("hdr_ref_" + (head if head in ("OK", "ERRS") else "other"))
        ctx.case("H " + lines[5 * i], origin.startswith("printed") or head == "ERRS",
                 {"kind": k, "header": h, "text": t[:300], "layout": lname})
        replay = "echo '%s' | .work/target/release/c10yp ; echo '%s' | .work/target/release/c10yp" % (lines[5 * i], lines[5 * i + 1])
        if any(x.split(" ", 1)[0] in ("PANIC", "HANG", "CRASH") for x in (f, rb, rh, fg, ng)):
            n_bad += 1
            ctx.violation({"what": "an entry point of the yacc parser does not return on a text with a %grmtools header",
                           "kind": k, "header": h, "text": t, "src": src,
                           "from_str": f[:200], "new_blanked": rb[:200], "new_header": rh[:200],
                           "grammar_from_str": fg[:200], "grammar_new": ng[:200], "replay_cmd": replay})
            continue
        if f.startswith("HDRERR"):
            n_rejected += 1
            h0 = strip_ctor_ws(h)
            if h0 != h:
                # metamorphic: the same header without the white space after '(' through the same entry points
                f0, fg0 = again[i]
                if not f0.startswith("HDRERR"):
                    n_ctor_ws += 1
                    ctx.violation({"what": "the grammar object depends on the layout of the source: ASTWithValidityInfo::from_str / "
                                           "YaccGrammar::from_str reject the %grmtools header because of white space between the '(' of the "
                                           "yacckind value and its argument, and accept the same text without that white space",
                                   "kind": k, "header": h, "header_accepted": h0, "text": t, "src": src, "layout": lname,
                                   "from_str": f[:400], "grammar_from_str": fg[:300],
                                   "from_str_without_the_white_space": f0[:300], "grammar_from_str_without_the_white_space": fg0[:300],
                                   "replay_cmd": "echo '%s' | .work/target/release/c10yp ; echo 'F %s' | .work/target/release/c10yp"
                                                 % (lines[5 * i], hexs(h0 + t))})
                    continue
            ctx.violation({"what": "ASTWithValidityInfo::from_str rejects a %grmtools header of a layout this check takes to be valid: "
                                   "the from_str/new correspondence is not evaluated", "kind": k, "header": h, "src": src,
                           "from_str": f[:400], "replay_cmd": replay}, no_input=True)
            continue
        n_cmp += 1
        bad = None
        if f != k + " " + rb:
            if f[:2] != k + " ":
                bad = {"what": "ASTWithValidityInfo::from_str reads another yacc kind than the header names", "got_kind": f[:1]}
            else:
                bad = {"what": "ASTWithValidityInfo::from_str(H+T) and ASTWithValidityInfo::new(kind, blanks+T) differ: a span (or "
                               "item) of the FromStr entry point is not the one of the text that defines it",
                       "first_difference": first_diff(src, f[2:], rb)}
        elif rh != rb:
            bad = {"what": "ASTWithValidityInfo::new(kind, H+T) and new(kind, blanks+T) differ: spans after a %grmtools header do not "
                           "select the defining text", "first_difference": first_diff(src, rh, rb)}
        elif canon_gerr(fg) != canon_gerr(ng):
            bad = {"what": "YaccGrammar::from_str(H+T) and YaccGrammar::new(kind, blanks+T) answer an accessor differently",
                   "first_difference": first_diff(src, fg, ng)}
        if bad:
            n_bad += 1
            bad.update({"kind": k, "header": h, "text": t, "src": src, "layout": lname, "replay_cmd": replay})
            ctx.violation(bad)
    ctx.oblige(n_bad == 0 and n_rejected == 0, "from_str(H+T) = new(kind, blanks+T) = new(kind, H+T), AST and grammar level")
    ctx.coverage["header_cases"] = len(cases)
    ctx.coverage["header_cases_compared"] = n_cmp
    ctx.coverage["header_cases_with_white_space_after_the_opening_parenthesis"] = n_ctor_ws_cases
    if CTOR_WS_FIXED:
        ctx.oblige(n_ctor_ws_cases > 0 and n_ctor_ws == 0,
                   "headers with white space between '(' and the yacckind argument (%d cases) are read like the ones without" % n_ctor_ws_cases)
    ctx.coverage["header_rule"] = (
        "%d texts (printed abstract grammars under 2 random layouts each, kinds O/N/U/G/E; mutated/truncated ones; the parser corpus "
        "under every header layout) x %d header layouts (plain, blanks, multi-line, CRLF, extra entries with multi-byte strings/arrays/"
        "flags, yacckind last, Pattern_White_Space characters, KELVIN SIGN key, trailing comments, long) x kind spellings "
        "(namespaces, case, blanks around `::`, before `(`, after `(` and before `)`, the argument on a line of its own): "
        "from_str(H+T) vs new(kind, blanks+T) vs new(kind, H+T) whole AST transcript incl. every span/error/warning, and "
        "YaccGrammar::from_str vs new_with_storaget accessor transcript" % (len(texts), len(LAYOUTS)))
    ctx.assumptions += [
        "header correspondence: texts that themselves start with a %grmtools section are skipped (blanks+T would then have a header of its own)",
    ]
