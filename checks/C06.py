"""C06 — repair sequences are the complete minimum-cost set, ranked as documented.

Proof (theories/C06; all grammars / tables / inputs / cost functions / %avoid_insert sets):
`all_min_repairs` is an exhaustive reference over move SEQUENCES (Ins t | Del | Shf in the
documented normal form, replay semantics of apply_repairs, no nodes, no merging, no buckets),
iterative deepening on cost, then the documented rank, trailing-shift stripping, dedup, sort.
reference_complete: its output is exactly the set of minimum-cost first successes that parse
furthest, its cost is the least cost of ANY normal-form success (reference_none: no success
under the schedule otherwise); enum_exact / cands_exact / first_success_length: the enumeration
is exact and needs no length bound ((c+1)*N moves suffice); first_succ_global /
srun_is_apply_seq / success_has_first_prefix tie the threaded definitions to apply_seq and to
arbitrary (extended) successes; del_ins_commute(+both): Delete;Insert and Insert;Delete reach
the same stack, position and cost and are applicable together, so the normal form loses
nothing; simplify_postconditions / sorted_means / reference_form: the mirror of
simplify_repairs yields NoDup, no trailing Shift, sorted by (avoid_insert, length), no Insert
of eof, one cost.  COMPLETENESS / MINIMALITY of the search mirror, as the code is now (C06/Complete*.v,
the Dijkstra invariant with node merging): dijkstra_complete / reported_cost_minimal — for EVERY
table, whatever the mirror returns costs no more than any normal-form repair whose cost fits u16,
and a repair of that cost is, move for move, a sequence of a returned node; search_complete_bounded
/ search_reports_exactly / search_complete_at_error — on reduce-confluent tables the reported SET is
the reference's; validated_reported_cost_eq_reference / validated_candidates_complete /
validated_reported_are_min_cost / validated_search_complete — the same on VALIDATED tables with the
reference at every sufficiently large reduction fuel (the set under rank_fuel_ok: rank_cnds' plain
parsing met no exhausted fuel in the model).  search_complete_stmt true exactly as stated in
C06/Refuted.v (no bound on the minimum cost) is FALSE: search_complete_needs_cost_bound (S: 'a';
a^259, costs 255: the only repair costs 65790 > u16::MAX, the search reports nothing; replayed on
the implementation).  search_complete_stmt false — the code as it was pinned, whose
CPCTPlus::shift kept its neighbour only `if n.pstack != n_pstack` — is REFUTED
(search_complete_refuted, vm_compute on the DESIGN §9 witness, on a mirror of dijkstra + CPCTPlus
that reproduced that implementation's output); /repo cf71a95 repaired it (`|| new_laidx > laidx`),
SHIFT_FIXED selects the matching mirror.  THE RANK (C06/RankCap*.v; /repo 00915cc): the distance by which rank_cnds
compares candidates is capped at in_laidx + TRY_PARSE_AT_MOST for EVERY candidate (Model.cap_dist; the mirror takes the cap
as a parameter, the check passes the implementation's 250) — rank_fixed_spec: the repaired ranking gives each candidate its
capped distance (measured by a parse that never goes beyond the cap: parse_below_within, cap_dist_is_capped_distance) and keeps
exactly the candidates for which it is maximal; far_is_capped_distance: the same distance is the rank of the reference
(parses_furthest in reference_complete); all completeness theorems above are re-established for this ranking.  The code as it
was pinned called lr_upto unconditionally — a candidate whose own repairs end beyond the cap was parsed on without limit and
out-ranked every candidate stopped at the cap: rank_cap_refuted_orig (vm_compute witness, cap 4); the reference as it stood had
the same uncapped comparison built in (reference_orig_uncapped), which is why set equality did not show it.  RANK_CAP_FIXED
selects the variant (mirror and reference).

Decision per error of every generated (grammar, costs, avoid set, input):
 (i) directly on the implementation's list: equal cost; no trailing Shift; no duplicate;
     %avoid_insert-inserting sequences last; non-decreasing length inside each group; no Insert
     of the end-of-input token;
 (ii) set equality with the extracted reference, computed at the configuration the mirror
     driver reaches by replaying the implementation's own first sequences (as C05): a missing,
     extra or over-priced sequence is a concrete witness;
 (iii) correspondence of the search mirror (pinned `shift` unless SHIFT_FIXED) with the
     implementation's set.
"""
import os
from vlib import core, repair
from gen import c06gen

# True since /repo cf71a95: cpctplus.rs `shift` keeps the neighbour whenever a lexeme was consumed
# (False = the code as pinned; then the KNOWN_SHIFT class applies and the mirror with the pinned `shift` is the tie)
SHIFT_FIXED = True
if core.SCRATCH and os.environ.get("GV_C06_SHIFT_FIXED"):      # mutation-testing aid only (never under ./check on /repo)
    SHIFT_FIXED = os.environ["GV_C06_SHIFT_FIXED"] == "1"

# True since /repo 00915cc: rank_cnds measures every candidate up to in_laidx + TRY_PARSE_AT_MOST and no further
# (False = the code as pinned: a candidate whose own repairs end beyond that limit is parsed on without limit; then the pinned
# ranking — far_orig / ranked_successes_orig / search_mirror_orig, refuted by C06_rank_cap_refuted_orig — is the tie)
RANK_CAP_FIXED = True
if core.SCRATCH and os.environ.get("GV_C06_RANK_CAP_FIXED"):   # mutation-testing aid only (never under ./check on /repo)
    RANK_CAP_FIXED = os.environ["GV_C06_RANK_CAP_FIXED"] == "1"

KNOWN_SHIFT = ("minimum-cost repair missed: shift neighbour dropped when the parse stack returns to an equal value "
               "after consuming a lexeme")
# same class as C05's finding, seen from C06: on a table with resolved conflicts the search continues from stacks
# reduced under the erroneous lookahead, the replay semantics (which defines what a repair is) does not
KNOWN_NONCONFLUENT = ("reported repair sequence does not repair on a conflict-resolved table: the search continues from a stack "
                      "reduced under the real lookahead, the replay starts from the unreduced stack")

# costs are u16 in the search: a neighbour whose cost would exceed 65535 is skipped (since /repo a91a325; it panicked before),
# so an error whose cheapest repair costs more is reported without any sequence (C06_search_complete_needs_cost_bound)
KNOWN_COSTBOUND = "no repair is reported when the cheapest repair costs more than 65535 (costs are u16 in the search)"

BUDGET_MS = 3000          # recovery budget handed to the implementation (hook); parses that use >= 80% are not compared
CASE_TIMEOUT_MS = 60000   # watchdog per case line
ONE_TIMEOUT_MS = 9000


BIG_BUDGET_MS = 60000     # the unit-cost family past the cap (a search of cost >= 84): generous budget, thorough tier
BIG_TIMEOUT_MS = 300000


def is_big(fam):
    return fam.startswith("rankcap_unit")


def run_impl(exe, cases):
    """the `repair` harness on every case (the families of is_big with their own budget)"""
    out = [None] * len(cases)
    small = [i for i, c in enumerate(cases) if not is_big(c[0])]
    big = [i for i, c in enumerate(cases) if is_big(c[0])]
    for i, l in zip(small, run_impl1(exe, [cases[i] for i in small], BUDGET_MS, CASE_TIMEOUT_MS)):
        out[i] = l
    if big:
        for i, l in zip(big, run_impl1(exe, [cases[i] for i in big], BIG_BUDGET_MS, BIG_TIMEOUT_MS)):
            out[i] = l
    return out


def run_impl1(exe, cases, budget_ms, timeout_ms):
    """a case line lost to the watchdog / memory limit is redone input by input"""
    lines = [repair.case_line(g, costs, inputs) for _, g, _, costs, inputs in cases]
    env = {"GRMTOOLS_VERIF_RECOVERY_BUDGET_MS": str(budget_ms), "GVH_CASE_TIMEOUT_MS": str(timeout_ms)}
    impl = core.run_lines([exe], lines, env=env)
    for i, out in enumerate(impl):
        if out.startswith("G "):
            continue
        _, g, _, costs, inputs = cases[i]
        sub = [repair.case_line(g, costs, [])] + [repair.case_line(g, costs, [inp]) for inp in inputs]
        env1 = {"GRMTOOLS_VERIF_RECOVERY_BUDGET_MS": str(budget_ms), "GVH_CASE_TIMEOUT_MS": str(max(ONE_TIMEOUT_MS, timeout_ms // 4))}
        outs = core.run_lines([exe], sub, env=env1, shards=min(core.NPROC, len(sub)))
        if not outs[0].startswith("G "):
            continue
        tails = []
        for o in outs[1:]:
            if o.startswith("G "):
                k = o.find(" # I")
                tails.append(o[k:] if k >= 0 else "")
        impl[i] = outs[0] + "".join(tails)
    return impl


class ErrRes:
    def __init__(self, idx, pos, st, status):
        self.idx, self.pos, self.st, self.status = idx, pos, st, status
        self.im = []            # (cost, valid, far, seq string)
        self.rf = None          # ('some', cmin, fmax) | ('none', bound) | ('cap', bound)
        self.rs = []            # (flag, seq string)
        self.mp = self.mf = None  # (status, [seq strings])
        self.rk = None          # rank_fuel_ok of the repaired mirror's candidates (OPT fullvalid=1)


def parse_model(line):
    """-> verdict dict, list (per input) of list of ErrRes"""
    verdict, inputs = {}, []
    cur, last_m = None, None
    for sec in line.split(" # "):
        s = sec.split()
        if not s:
            continue
        k = s[0]
        if k == "V":
            for kv in s[1:]:
                a, b = kv.split("=")
                verdict[a] = b == "1"
        elif k == "J":
            inputs.append([])
            cur = None
        elif k == "E" and inputs:
            cur = ErrRes(int(s[1]), int(s[2]), int(s[3]), s[4])
            inputs[-1].append(cur)
        elif cur is None:
            continue
        elif k == "IM":
            cur.im.append((int(s[1]), s[2] == "1", int(s[3]), " ".join(s[5:])))
        elif k == "RF":
            cur.rf = (s[1],) + tuple(int(x) for x in s[2:])
        elif k == "RS":
            cur.rs.append((s[1] == "1", " ".join(s[3:])))
        elif k == "RK":
            cur.rk = s[1] == "1"
        elif k in ("MP", "MF"):
            last_m = (s[1], [])
            if k == "MP":
                cur.mp = last_m
            else:
                cur.mf = last_m
        elif k == "MS" and last_m is not None:
            last_m[1].append(" ".join(s[1:]))
    return verdict, inputs


def plain(seq):
    """impl step strings I<t> D<i> S<i> -> canonical 'I<t> D S'"""
    return " ".join(st if st[0] == "I" else st[0] for st in seq) or "-"


def pretty(r, s):
    out = []
    for st in s.split():
        if st[0] == "I":
            out.append("Insert %s" % r.tname(int(st[1:])))
        elif st == "D":
            out.append("Delete")
        elif st == "S":
            out.append("Shift")
    return ", ".join(out) if out else "(empty)"


def direct_checks(r, inp, e):
    """(i) on the implementation's ordered list; returns list of problem strings"""
    seqs = e[3]
    probs = []
    costs = []
    for seq in seqs:
        c = 0
        for st in seq:
            if st[0] == "I":
                c += r.cost_by_tidx[int(st[1:])]
            elif st[0] == "D":
                i = int(st[1:])
                c += r.cost_by_tidx[inp.toks[i]] if 0 <= i < len(inp.toks) else 0
        costs.append(c)
    if len(set(costs)) > 1:
        probs.append("sequences of one error have different total costs %s" % sorted(set(costs)))
    for seq in seqs:
        if seq and seq[-1][0] == "S":
            probs.append("a sequence ends in a Shift: %s" % " ".join(seq))
            break
    canon = [" ".join(s) for s in seqs]
    if len(set(canon)) != len(canon):
        dup = [x for x in set(canon) if canon.count(x) > 1][0]
        probs.append("a sequence is reported twice: %s" % dup)
    eof = r.dgram.eof
    for seq in seqs:
        if any(st == "I%d" % eof for st in seq):
            probs.append("the end-of-input token is inserted: %s" % " ".join(seq))
            break
    av = set(r.avoid)
    keys = [(any(st[0] == "I" and int(st[1:]) in av for st in seq), len(seq)) for seq in seqs]
    for a, b in zip(keys, keys[1:]):
        if a[0] and not b[0]:
            probs.append("a sequence inserting an %avoid_insert token comes before one that does not")
            break
    for a, b in zip(keys, keys[1:]):
        if a[0] == b[0] and a[1] > b[1]:
            probs.append("inside one group a longer sequence comes before a shorter one")
            break
    return probs, costs


def run(ctx):
    ctx.gate = core.proof_gate("C06")
    for _ in ctx.gate["theorems"]:
        ctx.oblige(True)
    exe = core.build_harness("repair")
    mexe = core.build_model("c06")
    import random
    # (its own stream: the generated families below keep the cases they had)
    cases = c06gen.rankcap_cases(random.Random(ctx.seed * 7919 + 6), ctx.n(10, 0), thorough=ctx.tier == "thorough")
    cases += [c06gen.rankcap_unit(k) for k in ((70, 84) if ctx.tier != "thorough" else (60, 70, 83, 84, 85, 90, 100))]
    cases += c06gen.long_tail_cases() + c06gen.corpus_cases(ctx.rng, ctx.n(12, 120)) + c06gen.gen_cases(ctx, ctx.n(150, 1500), ctx.n(6, 8))
    impl = run_impl(exe, cases)
    todo = [(i, l) for i, l in enumerate(impl) if l.startswith("G ")]
    # the mirror with the pinned `shift` is only needed while the KNOWN_SHIFT class applies
    opt = " # OPT ncap=%d maxedits=%d mfuel=%d mirrors=%d" % (ctx.n(150000, 600000), ctx.n(6, 7), ctx.n(10000, 40000),
                                                            2 if SHIFT_FIXED else 3)
    if not RANK_CAP_FIXED:
        opt += " rankcap=0"
    # past the cap the repairs cost hundreds of edits: no edit bound for the reference (its work is still bounded by ncap nodes
    # per cost level; these trees are chains), and where it is not computed the mirror stands in (validated tables only)
    ropt = opt + " maxedits=1000000 mirrorcap=1 fullvalid=1 msmax=%d scap=100000 mfuel=%d" % (BIG_BUDGET_MS, ctx.n(400000, 1000000))
    ropt_unit = ropt.replace("ncap=%d" % ctx.n(150000, 600000), "ncap=2000") + " direct=1"

    def optfor(fam):
        return ropt_unit if fam.startswith("rankcap_unit") else ropt if fam.startswith("rankcap") else opt
    mout = core.run_lines([mexe], [repair.shrink_for_model(l) + optfor(cases[i][0]) for i, l in todo], timeout=2400)
    model = {i: m for (i, _), m in zip(todo, mout)}
    compared = 0
    mirror_ok = True
    for ci, (case, il) in enumerate(zip(cases, impl)):
        fam, gram, cname, costs, inputs = case
        r = repair.RepResult(fam, gram, gram.render(), cname, costs, inputs, il, None)
        if not r.ok:
            ctx.count("grammar_rejected_or_no_result_" + il.split()[0])
            continue
        ml = model.get(ci, "")
        if not ml.startswith("V "):
            ctx.count("model_no_result_" + (ml.split() or ["?"])[0])
            continue
        verdict, minputs = parse_model(ml)
        conflict_free = r.conflicts is None and verdict.get("single", False) and verdict.get("S", False)
        ctx.count("family_" + fam)
        ctx.count("costs_" + cname)
        ctx.count("table_conflict_free" if conflict_free else "table_with_resolved_conflicts")
        if r.avoid:
            ctx.count("grammars_with_avoid_insert")
        if (r.PN, r.TRYMAX) != (3, 250):
            ctx.count("constants_changed_PN%d_TRY%d" % (r.PN, r.TRYMAX))
        for inp, merrs in zip(r.inputs, minputs):
            if inp.value is None or inp.value in ("hang", "crash") or inp.value.startswith("panic") or inp.value == "lexerr":
                ctx.count("parse_does_not_return_or_panics(C07)")
                continue
            if not inp.errors:
                ctx.count("inputs_without_error")
                continue
            ctx.count("erroneous_inputs_%s_costs_builder_order_%s" % (
                "unit" if set(r.cost_by_tidx) <= {1} else "nonunit",
                {True: "term_costs_then_recoverer", False: "recoverer_then_term_costs", None: "unreported"}[inp.costs_first]))
            late = inp.ms >= 0.8 * r.budget
            if late:
                ctx.count("budget_possibly_exhausted(not compared)")
            base = {"grammar": r.src, "costs": r.costs, "cost_by_token": {r.tname(i): c for i, c in enumerate(r.cost_by_tidx)},
                    "avoid_insert": [r.tname(x) for x in r.avoid], "input": r.names(inp.toks), "input_tidxs": inp.toks,
                    "parse_at_least": r.PN, "try_parse_at_most": r.TRYMAX}
            rest_ok = True
            for ei, e in enumerate(inp.errors):
                seqs = e[3]
                d0 = dict(base)
                d0.update({"error_index": ei, "error_lexeme": e[0], "error_state": e[1],
                           "impl_sequences": [" ".join(s) for s in seqs[:12]], "n_impl_sequences": len(seqs)})
                ok = True
                # ---- (i) the list itself -------------------------------------------------------------------
                probs, pcosts = direct_checks(r, inp, e)
                for what in probs:
                    d = dict(d0)
                    d["what"] = what
                    ctx.count("ALARM_direct")
                    ctx.violation(d)
                    ok = False
                ctx.count("errors_direct_checked")
                if seqs:
                    ctx.count("sequences_direct_checked", len(seqs))
                m = merrs[ei] if ei < len(merrs) else None
                if m is None:
                    # beyond the model's cap (an input can carry hundreds of thousands of errors when a repair does not
                    # move the parser on): direct checks only, one obligation for all of them
                    ctx.count("errors_beyond_model_cap(direct checks only)")
                    rest_ok = rest_ok and ok
                    continue
                if m.status != "ok" or (m.pos, m.st) != (e[0], e[1]):
                    ctx.count("error_configuration_not_reproduced(C05)")
                    ctx.oblige(ok)
                    continue
                # the model's cost of each implementation sequence = the Python one
                if [x[0] for x in m.im] != pcosts[:len(m.im)]:
                    d = dict(d0)
                    d.update({"what": "cost of the reported sequences: model (scost) and checker disagree",
                              "model": [x[0] for x in m.im], "checker": pcosts[:len(m.im)]})
                    ctx.violation(d, no_input=True)
                    ok = False
                if late:
                    ctx.oblige(ok)
                    continue
                if m.rf is None or m.rf[0] == "cap" or len(m.im) < len(seqs):
                    ctx.count("reference_not_computed(cap)")
                    # past the look-ahead cap with unit costs the repairs cost >= 70 edits: the exhaustive reference is out of
                    # reach, the search mirror stands in for it where the theorem says its set IS the reference set
                    fm_ = m.mf if SHIFT_FIXED else m.mp
                    if (fam.startswith("rankcap") and ei == 0 and RANK_CAP_FIXED and SHIFT_FIXED and m.rf is not None
                            and len(m.im) == len(seqs) and fm_ is not None and fm_[0] == "done" and m.rk
                            and all(verdict.get(k_, False) for k_ in ("wf", "S", "C", "E", "single", "nse"))):
                        compared += 1
                        ctx.count("errors_compared_with_mirror_as_reference(validated table)")
                        impl_set = set(plain(s) for s in seqs)
                        if set(fm_[1]) != impl_set:
                            d = dict(d0)
                            d.update({"what": "the reported set is not the set of minimum-cost repairs that parse as far as the best "
                                              "within the look-ahead of the ranking",
                                      "missing(reference, not reported)": [pretty(r, x)[:300] for x in sorted(set(fm_[1]) - impl_set)[:6]],
                                      "extra(reported, not in reference)": [pretty(r, x)[:300] for x in sorted(impl_set - set(fm_[1]))[:6]],
                                      "authority": "C06_validated_search_complete_at_error: on this validated table (wf, validS, validC, "
                                                   "validE evaluated on the dump; rank_fuel_ok evaluated) the search mirror's set is the "
                                                   "reference set; C06_rank_fixed_spec"})
                            ctx.count("ALARM_reference_differs")
                            ctx.violation(d)
                            ok = False
                        ctx.case(r.src + repr(sorted(r.costs.items())) + repr(inp.toks) + str(ei), bool(seqs),
                                 {"grammar": r.src, "costs": cname, "input": r.names(inp.toks)[:40], "error_lexeme": e[0],
                                  "impl_sequences": [pretty(r, plain(s))[:200] for s in seqs[:6]], "reference": "search mirror"})
                    ctx.oblige(ok)
                    continue
                # ---- (ii) set equality with the reference ---------------------------------------------------
                compared += 1
                impl_set = set(plain(s) for s in seqs)
                info = {x[3]: x for x in m.im}
                fixed_m = m.mf if SHIFT_FIXED else m.mp
                mirror_same = fixed_m is not None and fixed_m[0] == "done" and set(fixed_m[1]) == impl_set
                if m.rf[0] == "none":
                    ref_set, cmin, fmax, flagged = set(), None, None, set()
                else:
                    ref_set = set(x[1] for x in m.rs)
                    cmin, fmax = m.rf[1], m.rf[2]
                    flagged = set(x[1] for x in m.rs if x[0])
                missing = sorted(ref_set - impl_set)
                extra = sorted(impl_set - ref_set)
                ctx.count("errors_compared_with_reference")
                ctx.count("reference_cost_%s" % (cmin if cmin is not None and cmin <= 4 else ("5+" if cmin is not None else "none")))
                if fixed_m is not None and fixed_m[0] == "done":
                    ctx.count("mirror_compared")
                    if not mirror_same:
                        ctx.count("mirror_differs")
                else:
                    ctx.count("mirror_not_run_or_out_of_fuel")
                if not missing and not extra:
                    ctx.count("reference_equal")
                    if fixed_m is not None and fixed_m[0] == "done" and not mirror_same:
                        # property holds on this error, the mirror does not reproduce the search: correspondence only
                        mirror_ok = False
                        d = dict(d0)
                        d.update({"what": "the search mirror (C06/Mirror.v) does not reproduce the implementation's set although "
                                          "the set equals the reference", "mirror": fixed_m[1][:12]})
                        ctx.violation(d, no_input=True)
                        ok = False
                    ctx.oblige(ok)
                    nontriv = bool(seqs)
                    ctx.case(r.src + repr(sorted(r.costs.items())) + repr(inp.toks) + str(ei), nontriv,
                             {"grammar": r.src, "costs": cname, "input": r.names(inp.toks), "error_lexeme": e[0],
                              "impl_sequences": [pretty(r, plain(s)) for s in seqs[:6]], "reference_cost": cmin,
                              "reference_sequences": [pretty(r, x) for x in sorted(ref_set)[:6]]})
                    continue
                # a difference: classify
                d = dict(d0)
                over = [x for x in extra if x in info and cmin is not None and info[x][0] > cmin]
                if m.rf[0] == "none":
                    what = ("no normal-form repair of cost <= %d exists at this error, yet sequences of that cost are reported "
                            "(they do not repair)" % m.rf[1])
                elif missing and over:
                    what = ("a repair of cost %d exists and is not reported; the reported sequences cost %d"
                            % (cmin, info[over[0]][0]))
                elif missing:
                    what = "a minimum-cost repair that parses as far as the best is not reported"
                else:
                    what = "a reported sequence is not a minimum-cost repair that parses furthest"
                d.update({"what": what, "reference_cost": cmin, "reference_furthest_lexeme": fmax,
                          "missing(reference, not reported)": [pretty(r, x) for x in missing[:8]],
                          "extra(reported, not in reference)": [{"sequence": pretty(r, x), "cost": info[x][0] if x in info else None,
                                                                 "valid_repair": info[x][1] if x in info else None,
                                                                 "parses_to_lexeme": info[x][2] if x in info else None}
                                                                for x in extra[:8]],
                          "reference": [pretty(r, x) for x in sorted(ref_set)[:12]],
                          "missing_explained_by_equal_stack_shift": [x in flagged for x in missing[:8]],
                          "search_mirror_pinned": m.mp, "search_mirror_repaired_shift": m.mf,
                          "authority": "C06_reference_complete, C06_enum_exact (reference exact); C06_search_complete_refuted"})
                extras_legit = all(x in info and info[x][1] and cmin is not None and
                                   (info[x][0] > cmin or (info[x][0] == cmin and info[x][2] < fmax)) for x in extra)
                mf_is_ref = m.mf is not None and m.mf[0] == "done" and set(m.mf[1]) == ref_set
                mp_is_impl = m.mp is not None and m.mp[0] == "done" and set(m.mp[1]) == impl_set
                known = None
                if (not SHIFT_FIXED and missing and all(x in flagged for x in missing) and extras_legit
                        and (mf_is_ref and mp_is_impl if (m.mp and m.mp[0] == "done" and m.mf and m.mf[0] == "done") else True)):
                    known = KNOWN_SHIFT
                    ctx.count("known_shift_defect_witnesses")
                    ctx.count("known_shift_defect_family_" + fam)
                elif not conflict_free and mirror_same:
                    known = KNOWN_NONCONFLUENT
                    ctx.count("known_nonconfluent_table_differences")
                else:
                    ctx.count("ALARM_reference_differs")
                ctx.violation(d, known_key=known)
                ctx.oblige(ok and known is not None)
                ctx.case(r.src + repr(sorted(r.costs.items())) + repr(inp.toks) + str(ei), True,
                         {"grammar": r.src, "costs": cname, "input": r.names(inp.toks), "error_lexeme": e[0],
                          "impl_sequences": [pretty(r, plain(s)) for s in seqs[:6]], "reference_cost": cmin,
                          "reference_sequences": [pretty(r, x) for x in sorted(ref_set)[:6]], "differs": True})
            if len(inp.errors) > len(merrs):
                ctx.oblige(rest_ok)
    # ---- the cost bound of the completeness theorems (C06_search_complete_needs_cost_bound), replayed on the implementation:
    #      S: 'a'; every token costs 255; the error is at the second `a` and the only repair deletes the rest of the input
    from gen.grammars import Gram
    cb = Gram(["a"], [("S", [[("t", "a")]])])
    cbcase = ("costbound", cb, "all255", {"a": 255}, [["a"] * 258, ["a"] * 259])
    cbl = run_impl(exe, [cbcase])[0]
    rcb = repair.RepResult("costbound", cb, cb.render(), "all255", {"a": 255}, cbcase[4], cbl, None)
    if rcb.ok and len(rcb.inputs) == 2 and all(i.errors for i in rcb.inputs):
        below, above = rcb.inputs[0].errors[0][3], rcb.inputs[1].errors[0][3]
        ctx.coverage["cost_bound_probe"] = {"cost_65535_sequences": len(below), "cost_65790_sequences": len(above)}
        ok_below = len(below) == 1 and all(st[0] == "D" for st in below[0]) and len(below[0]) == 257
        if not ok_below:
            ctx.violation({"what": "the repair of cost 65535 (delete the 257 remaining lexemes) is not the reported set",
                           "grammar": rcb.src, "costs": {"a": 255}, "input": "a x 258", "impl_sequences": [" ".join(x)[:200] for x in below[:3]]})
        ctx.oblige(ok_below, "cost 65535 is still searched")
        if not above:
            ctx.violation({"what": "the only repair (delete the 258 remaining lexemes, cost 65790) exists and is not reported: "
                                   "no sequence at all is reported for the error", "grammar": rcb.src, "costs": {"a": 255},
                           "input": "a x 259", "error_lexeme": rcb.inputs[1].errors[0][0],
                           "authority": "C06_search_complete_needs_cost_bound (vm_compute witness on this table)"},
                          known_key=KNOWN_COSTBOUND)
        ctx.oblige(True)
    else:
        ctx.count("cost_bound_probe_not_run")
    ctx.oblige(mirror_ok, "search mirror reproduces the implementation")
    ctx.count("errors_compared_total", compared)
    ctx.coverage["rank_cap_rule"] = (
        "first of all the families that reach PAST the look-ahead cap of the ranking (in_laidx + TRY_PARSE_AT_MOST = 250; gen/c06gen.py "
        "rankcap_*): `S: 'a' R; R: 'e' Bs 'c' <tail> | 'c' <tail>; Bs: | Bs 'b';` on `a b^n c d..` with cost(b) = 1 and every other "
        "token costing n (243 <= n <= 255, legal costs), so that [Delete b x n] (its trailing shifts end at in_laidx + n + 3: below, AT "
        "and beyond the cap) and [Insert e] cost the same; tails `'d'^k 'x'` / `Ds` chosen so that the inserting candidate truly parses "
        "further (the auditor's grammar and its two runs n = 255 / 240), the deleting one does, both reach the end, or the inserting one "
        "fails before the cap (control) — quick: the 6 fixed cases + 10 sampled from the grid n x ki x kd x |tail|, thorough: the whole "
        "grid (520); and the auditor's UNIT-cost grammar `S: 'p' 'q' Rest; Rest: Ps 'z' | 'k'^G 'x' Ts 'z'; ..` on (p q x)^G z "
        "(G = 70, 84 quick; 60, 70, 83, 84, 85, 90, 100 thorough; release harness, budget %d ms through the hook): deleting the G x's ends at in_laidx + "
        "3G - 1.  Oracle as for every C06 case: set equality with the extracted reference (no edit bound for these families: the "
        "enumeration trees are chains); where the reference is out of reach (unit costs, >= 60 edits) the search mirror stands in for "
        "it on the FIRST error, and only when wf/validS/validC/validE/single_candidate/no_shift_eof/rank_fuel_ok all evaluate to true "
        "on the dump (C06_validated_search_complete_at_error: the mirror's set is then the reference set)." % BIG_BUDGET_MS)
    ctx.coverage["rule"] = ("corpus first: 4 calculator-like conflict-free grammars (calc, Corchuelo's, sum, sequence) x {no "
                            "%avoid_insert, %avoid_insert on each single token (this also renumbers the tokens, i.e. reorders the "
                            "search)} x ALL inputs of length 1-3 over the alphabet + a seeded sample of length 4-5, unit costs "
                            "(search-order dependent losses such as a neighbour discarded instead of merged in the same-cost sweep "
                            "show on inputs like `) (`); then generated grammars: the DESIGN §9 witness and separator-list variants of it, calculator, Corchuelo's, layered "
                            "expression variants, nullable-heavy, statement lists, reduced random, Java-like, Pager's, LR(1)-not-LALR, "
                            "precedence-resolved x %avoid_insert sets x cost functions (unit, random 1-5, extreme 1/255) x inputs "
                            "(sentences with 1-2 edits, truncated sentences, short random strings). A case = one ERROR of one input "
                            "whose reference set was computed (iterative deepening, time-capped; capped errors are counted, only "
                            "the direct checks apply to them); non-trivial = the error carries at least one repair sequence; distinct "
                            "by (grammar text, costs, token list, error index).")
    ctx.coverage["builder_order_rule"] = repair.BUILDER_ORDER_RULE + "; both orders also carry the single-shot harness lexer (a second Lexer::iter call on one lexer panics)"
    ctx.assumptions += [
        "completeness/minimality of the search MIRROR is proved (C06_dijkstra_complete, C06_reported_cost_minimal for every table; "
        "C06_search_complete_bounded on reduce-confluent tables; C06_validated_search_complete on validated tables, reference at every "
        "sufficiently large reduction fuel, under rank_fuel_ok) for minimum costs <= 65535 (C06_search_complete_needs_cost_bound: "
        "beyond that the search reports nothing); the tie of the mirror to the implementation is the correspondence run, and "
        "completeness/minimality of the IMPLEMENTATION's set is still decided per generated error by set equality with the "
        "proved-exact reference",
        "the distance of the rank is the CAPPED one (Model.far = min(plain parse from the candidate's configuration stopped at in_laidx + "
        "TRY_PARSE_AT_MOST, that limit); C06_far_is_capped_distance): 'continue as far as the best of them' is read within the documented "
        "look-ahead of the ranking, two candidates that both reach the cap tie (both reported) whatever happens beyond it; the reference "
        "as it stood before /repo 00915cc compared uncapped with capped distances exactly as the pinned code did "
        "(C06_reference_orig_uncapped) and has been corrected; RANK_CAP_FIXED=%s" % RANK_CAP_FIXED,
        "the reference is exponential in the repair cost: errors whose minimum cost needs more than %s edits or whose "
        "enumeration exceeds the time cap are counted (reference_not_computed) and only get the direct checks (the rankcap_* families have no "
        "edit bound; rankcap_unit* fall back on the search mirror on validated tables, see rank_cap_rule)" % ctx.n(6, 7),
        "recovery budget raised to %d ms through the hook; inputs whose parse took >= 80%% of it are not compared" % BUDGET_MS,
        "error configurations are reproduced by the mirror driver of Repair/Semantics.v replaying the implementation's own first "
        "sequences (C05's tie); an error whose position/state the mirror does not reproduce is left to C05",
        "runs of reductions are cut by fuel (400 + 20(|input|+2)(|prods|+2)) in the model; a move that exhausts it is treated as "
        "not applicable (the implementation would not return: C07)",
        "known-finding classes (KNOWN_* in this file) are reported through known_key and counted as discharged obligations; "
        "KNOWN_SHIFT only when every missing reference sequence contains a Shift that leaves the state stack equal, every extra "
        "reported sequence is a valid but dearer / shorter-parsing repair, and (when both mirrors ran) the mirror with the pinned "
        "`shift` reproduces the implementation while the mirror with the repaired `shift` returns the reference; "
        "KNOWN_NONCONFLUENT only on tables with resolved conflicts and when the search mirror reproduces the implementation",
    ]
