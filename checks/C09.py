"""C09 — the lexer: longest match, earliest rule on ties, start states; tiling; set_rule_ids.

Proof: theories/C09 — a literal mirror of `LRNonStreamingLexerDef::lexer`'s scan
loop (run-length encoded start-state stack, every panic site explicit) over an
abstract match oracle, proved for ALL rule tables, start-state tables, oracles
and input lengths to satisfy the declarative specification (choice = longest
non-empty match among the rules active in the current state, earliest on ties;
error exactly where no active rule matches; contiguous tiling; named rules emit
with their id, unnamed skip; the RLE stack refines a plain stack; totality),
and a mirror of set_rule_ids_spanned proved to return exactly the two
missing-name sets.
Tie: for every generated (.l spec, input) the harness runs the real lexer and,
independently, tabulates with the regex crate the anchored match length of every
rule at every char boundary; the extracted mirror is run with that table as its
oracle and must produce the same lexemes / error / lexing state.  A Python
transcription of the declarative spec (plain stack) localises a difference.

Two tables.  The SLICE table (`\\A(?:re_str)` on `&input[pos..]`, what lexer.rs asks) ties the
model to the implementation; the WHOLE-TEXT table (re_str itself, same flags, `find_at(input, pos)`
with start == pos) is what the written regexes denote.  The same extracted model is run on both
(theories/C09/Lookbehind.v: the output depends on the table only through the consulted cells).  The
lexer must equal the run on the whole-text table; where it equals the run on the slice table
instead, some rule contains an assertion that looks behind the position (regex_syntax HIR), every
rule without one has identical rows and the tables agree at position 0, it is the known finding
C09-lookbehind-slice; anything else is a violation.
"""
import random

from vlib import core
from gen import c09gen as G

KNOWN_LB = "look-behind assertions see each lexing position as the start of the text"
# families whose regexes are plain literals / classes by construction: the two tables must be identical
LB_FREE_FAMILIES = ("stackwalk", "table")
# the witness of C09_lookbehind_tables_differ_refuted (theories/C09/Lookbehind.v lb_slice / lb_whole and the
# two Examples), as the regex crate must give it for LOOK_CORPUS[0] on "ba"
LB_WITNESS = {"RULES": "4c494e455f53544152545f41,7,-,N;42,9,-,N;41,11,-,N", "STATES": "0:0", "N": "2", "BD": "0 1 2",
              "MT": "1:1;0:1;1:1", "MW": "-;0:1;1:1", "LB": "1 0 0",
              "slice": "L 9 0 1,L 7 1 1", "whole": "L 9 0 1,L 11 1 1"}


def hx(s):
    h = s.encode("utf-8").hex()
    return h if h else "-"


def lex_line_spec(spec_text, flags, omit, inp):
    return "lex S %s %s %s %s" % (hx(spec_text), flags, ",".join(hx(o) for o in omit) if omit else "-", hx(inp))


def table_fields(rules, states):
    rs = []
    for name, tok, starts, tgt, re in rules:
        rs.append("%s,%s,%s,%s,%s" % (hx(name) if name is not None else "-",
                                      tok if tok is not None else "-",
                                      ".".join(map(str, starts)) if starts else "-",
                                      "N" if tgt is None else "%s%d" % tgt, hx(re)))
    st = ",".join("%d:%d" % (i, 1 if ex else 0) for i, ex in states) if states else "-"
    return (";".join(rs) if rs else "-"), st


def parse_head(head):
    """sections of the harness line that precede the implementation's answer"""
    secs = {}
    for s in head.split(" # "):
        k, _, v = s.strip().partition(" ")
        secs[k] = v.strip()
    return secs


def spec_lex(secs):
    """the declarative specification, transcribed: plain stack of states, choice =
    longest non-empty match among active rules, least index on ties.  Returns the
    item strings, or None outside the domain (no INITIAL / dangling target)."""
    rules = []
    if secs["RULES"] != "-":
        for r in secs["RULES"].split(";"):
            name, tok, ss, tgt = r.split(",")
            rules.append((name != "-", None if tok == "-" else int(tok),
                          [] if ss == "-" else [int(x) for x in ss.split(".")],
                          None if tgt == "N" else (tgt[0], int(tgt[1:]))))
    states = []
    if secs["STATES"] != "-":
        for s in secs["STATES"].split(","):
            i, ex = s.split(":")
            states.append((int(i), ex == "1"))

    def get(i):
        for s in states:
            if s[0] == i:
                return s
        return None
    table = []
    if secs["MT"] != "-":
        for row in secs["MT"].split(";"):
            table.append({} if row == "-" else {int(c.split(":")[0]): int(c.split(":")[1]) for c in row.split()})
    n = int(secs["N"])
    init = get(0)
    if init is None:
        return None
    stack, pos, items = [init], 0, []
    ties = False
    while pos < n:
        cur = stack[0]
        best = None
        nmatch = 0
        for j, (named, tok, ss, tgt) in enumerate(rules):
            active = (not cur[1]) if not ss else (cur[0] in ss)
            l = table[j].get(pos) if j < len(table) else None
            if active and l:
                nmatch += 1
                if best is None or l > best[1]:
                    best = (j, l)
        ties = ties or nmatch >= 2
        if best is None:
            items.append("E %d %d" % (pos, cur[0]))
            return items, ties
        j, l = best
        named, tok, ss, tgt = rules[j]
        if named:
            if tok is None:
                items.append("E %d -" % pos)
                return items, ties
            items.append("L %d %d %d" % (tok, pos, l))
        if tgt:
            st = get(tgt[1])
            if st is None:
                return None
            if tgt[0] == "R":
                stack = [st]
            elif tgt[0] == "P":
                stack = [st] + stack
            else:
                stack = stack[1:] if len(stack) > 1 else [init]
        pos += l
    return items, ties


def run(ctx):
    ctx.gate = core.proof_gate("C09")
    for _ in ctx.gate["theorems"]:
        ctx.oblige(True)
    exe = core.build_harness("c09")
    mexe = core.build_model("c09")
    rng = ctx.rng

    # ------------------------------------------------------------------ cases
    cases = []      # (kind, line, description dict)
    for ci, (spec, inputs) in enumerate(G.CORPUS):
        fl = G.CORPUS_FLAGS.get(ci, "-")
        for inp in inputs:
            cases.append(("lex", lex_line_spec(spec, fl, [], inp), {"spec": spec, "input": inp, "family": "corpus"}))
    # the auditors' look-behind inputs (fixed; no random draw): the known finding reproduces in every run
    for ci, (spec, inputs) in enumerate(G.LOOK_CORPUS):
        fl = G.LOOK_CORPUS_FLAGS.get(ci, "-")
        for ii, inp in enumerate(inputs):
            cases.append(("lex", lex_line_spec(spec, fl, [], inp),
                          {"spec": spec, "input": inp, "family": "lookbehind-corpus", "id": "lookbehind-corpus/%d/%d" % (ci, ii)}))
    nspec = ctx.n(200, 16000)
    per = 4
    for k in range(nspec):
        stackfam = k % 4 == 1
        with_flags = (not stackfam) and rng.random() < 0.2
        sp = G.stack_spec(rng) if stackfam else G.random_spec(rng, with_flags)
        text = sp.text()
        for ii in range(per):
            inp = G.stack_input(rng, sp) if stackfam else G.random_input(rng, sp)
            omit = []
            if sp.names() and rng.random() < 0.08:
                omit = [rng.choice(sp.names())]
            cases.append(("lex", lex_line_spec(text, sp.flags_field(), omit, inp),
                          {"spec": text, "input": inp, "omit": omit, "id": "spec/%d/%d" % (k, ii),
                           "family": "stackwalk" if stackfam else "flags" if with_flags else "random"}))
        if k % 2 == 0:
            mp = G.random_map(rng, sp.names())
            mf = ",".join("%s:%d" % (hx(a), b) for a, b in mp) if mp else "-"
            cases.append(("ids", "ids S %s %s %s" % (hx(text), sp.flags_field(), mf),
                          {"spec": text, "map": mp, "family": "ids"}))
    for _ in range(ctx.n(120, 8000)):
        rules, states, inp = G.random_table(rng)
        rf, sf = table_fields(rules, states)
        cases.append(("lex", "lex T %s %s - %s" % (rf, sf, hx(inp)),
                      {"rules": rules, "states": states, "input": inp, "family": "table"}))
        if rng.random() < 0.4:
            names = sorted({r[0] for r in rules if r[0] is not None})
            mp = G.random_map(rng, names)
            mf = ",".join("%s:%d" % (hx(a), b) for a, b in mp) if mp else "-"
            cases.append(("ids", "ids T %s %s %s" % (rf, sf, mf),
                          {"rules": rules, "states": states, "map": mp, "family": "table-ids"}))
    # the witness of C09_set_rule_ids_dup_names_refuted, replayed on the implementation
    dup_rules = [("T", 0, [], None, "a"), ("T", 1, [1], None, "b")]
    rf, sf = table_fields(dup_rules, [(0, False), (1, False)])
    cases.append(("ids", "ids T %s %s %s" % (rf, sf, "%s:0,%s:1" % (hx("T"), hx("U"))),
                  {"rules": dup_rules, "map": [("T", 0), ("U", 1)], "family": "dup-names-witness"}))

    # look-behind family (own random stream: the cases above stay what they were)
    lrng = random.Random(ctx.seed * 7919 + 9)
    nlook = ctx.n(60, 6000)
    for k in range(nlook):
        sp = G.look_spec(lrng)
        text = sp.text()
        for ii in range(per):
            inp = G.look_input(lrng, sp)
            cases.append(("lex", lex_line_spec(text, sp.flags_field(), [], inp),
                          {"spec": text, "input": inp, "family": "lookbehind", "id": "lookbehind/%d/%d" % (k, ii)}))

    lines = [c[1] for c in cases]
    impl = core.run_lines([exe], lines)

    # --------------------------------------------------------- model side
    heads, idx = [], []
    for i, (c, out) in enumerate(zip(cases, impl)):
        cut = " # LEX " if c[0] == "lex" else " # OUT "
        if cut in out and "REFERR" not in out and "ANOM" not in out:
            heads.append(out[:out.index(cut)])
            idx.append(i)
    model = dict(zip(idx, core.run_lines([mexe], heads)))
    # the same model on the whole-text table (only where the tables differ)
    heads2, idx2 = [], []
    for i, h in zip(idx, heads):
        if cases[i][0] != "lex":
            continue
        secs = parse_head(h)
        if secs["MW"] != secs["MT"]:
            heads2.append(" # ".join("%s %s" % (k, secs[k]) for k in ("RULES", "STATES", "N", "BD")) + " # MT " + secs["MW"])
            idx2.append(i)
    model_whole = dict(zip(idx2, core.run_lines([mexe], heads2)))

    def lex_of(m):
        m = m.partition(" # GHOST ")[0]
        return m[4:] if m.startswith("LEX ") else m

    def cell0(row):
        for c in row.split():
            if c.startswith("0:"):
                return c
        return None

    ndiff = nspecdiff = nden = ntab = 0
    known_cases = []
    witness_seen = False
    for i, (c, out) in enumerate(zip(cases, impl)):
        kind, line, desc = c
        fam = desc["family"]
        replay = "echo '%s' | .work/target/release/c09" % line
        if out.startswith("BUILDERR"):
            # the .l text is not a valid specification under its flags (e.g. a regex the
            # regex crate refuses): outside the property's domain
            ctx.count("rejected_spec_" + fam)
            continue
        if out.startswith(("BUILDPANIC", "HANG", "CRASH", "BADCASE")):
            ctx.case(line, False)
            ctx.violation({"what": "building the lexer definition did not return normally", "case": desc,
                           "impl": out[:300], "replay_cmd": replay})
            continue
        if "REFERR" in out or "ANOM" in out:
            ctx.case(line, False)
            ctx.violation({"what": "the reference regex (same pattern, same flags as Rule::new) could not be built or "
                                   "matched away from the slice start although the lexer definition was built",
                           "case": desc, "impl": out[:400], "replay_cmd": replay}, no_input=True)
            continue
        ctx.count("family_" + fam)
        if kind == "lex":
            head, impl_lex = out.split(" # LEX ")
            secs = parse_head(head)
            m = model[i]
            mlex, _, ghost = m.partition(" # GHOST ")
            mlex = mlex[4:] if mlex.startswith("LEX ") else mlex
            g = dict(kv.split("=") for kv in ghost.split()) if ghost else {}
            sp = spec_lex(secs)
            ties = bool(sp and sp[1])
            moved = int(g.get("ops", 0)) > 0
            nontriv = ties or moved
            ctx.count("stop_" + g.get("stop", "?"))
            if ties:
                ctx.count("cases_with_overlapping_matches")
            if moved:
                ctx.count("cases_with_stack_operations")
            if int(g.get("depth", 0)) >= 3:
                ctx.count("cases_with_stack_depth_ge_3")
            if any(ord(ch) > 127 for ch in desc.get("input", "")):
                ctx.count("cases_with_multibyte_input")
            ctx.case(line, nontriv, {"case": desc, "impl_equals_model": impl_lex == mlex, "lexemes": impl_lex[:200]})
            if sp is not None:
                want = ",".join(sp[0]) if sp[0] else "-"
                if want != mlex:
                    # the proved mirror and the transcription of its specification disagree:
                    # a defect of this check, not of the implementation
                    nspecdiff += 1
                    ctx.violation({"what": "extracted mirror differs from the Python transcription of the spec",
                                   "case": desc, "model": mlex, "spec": want, "replay_cmd": replay}, no_input=True)
            # ---- slice table vs whole-text table
            rows_s, rows_w, lb = secs["MT"].split(";"), secs["MW"].split(";"), secs["LB"].split()
            mwhole = lex_of(model_whole[i]) if i in model_whole else mlex
            any_lb = "1" in lb
            if any_lb:
                ctx.count("cases_with_a_look_behind_rule")
            if "E" in lb or len(rows_s) != len(rows_w) or (secs["RULES"] != "-" and len(lb) != len(rows_s)):
                ntab += 1
                ctx.violation({"what": "the HIR of an accepted rule regex could not be built, or the two match tables "
                                       "have different shapes", "case": desc, "LB": secs["LB"], "replay_cmd": replay},
                              no_input=True)
                lb = ["1"] * len(rows_s)
            table_ok = True
            if rows_s != rows_w:
                ctx.count("cases_where_the_two_tables_differ")
                bad = [j for j in range(len(rows_s)) if rows_s[j] != rows_w[j] and lb[j] != "1"]
                pos0 = [j for j in range(len(rows_s)) if cell0(rows_s[j]) != cell0(rows_w[j])]
                if bad or pos0 or fam in LB_FREE_FAMILIES:
                    # matching on the slice `&s[i..]` with `\A(?:re)` differs from what re denotes at i for a
                    # regex WITHOUT a look-behind assertion (or at position 0): the slicing has an effect
                    # beyond the known class
                    table_ok = False
                    ntab += 1
                    ctx.violation({"what": "a rule without look-behind assertion (or position 0) has different matches on the "
                                           "slice `&input[pos..]` and in the whole input at pos",
                                   "case": desc, "rules_without_look_behind_that_differ": bad,
                                   "rules_that_differ_at_0": pos0, "rule_table": secs.get("RULES"),
                                   "slice_table": secs["MT"], "whole_text_table": secs["MW"], "look_behind": secs["LB"],
                                   "replay_cmd": replay})
                if mwhole != mlex:
                    ctx.count("cases_where_the_model_runs_on_the_two_tables_differ")
            if desc.get("id") == "lookbehind-corpus/0/0":
                witness_seen = all(secs.get(k) == v for k, v in LB_WITNESS.items() if k.isupper()) \
                    and mlex == LB_WITNESS["slice"] and mwhole == LB_WITNESS["whole"]
            if impl_lex != mwhole and impl_lex == mlex:
                # the lexer follows the slice table and so deviates from what the regexes denote
                nden += 1
                if any_lb and table_ok and fam not in LB_FREE_FAMILIES:
                    known_cases.append("%s %s" % (fam, desc["id"]) if "id" in desc and not desc["id"].startswith(fam)
                                       else desc.get("id") or "%s spec %r input %r" % (fam, desc.get("spec"), desc.get("input")))
                    ctx.count("known_look_behind_cases_" + fam)
                    ctx.violation({"what": KNOWN_LB, "case": desc, "impl": impl_lex, "denotation": mwhole,
                                   "replay_cmd": replay}, known_key=KNOWN_LB)
                else:
                    ctx.violation({"what": "lexer output differs from the specified lexer run on what the rules' regexes "
                                           "denote in the whole input, outside the known look-behind class",
                                   "case": desc, "impl": impl_lex, "model_on_whole_text_table": mwhole,
                                   "model_on_slice_table": mlex, "rule_table": secs.get("RULES"),
                                   "slice_table": secs["MT"], "whole_text_table": secs["MW"], "look_behind": secs["LB"],
                                   "authority": "C09_lex_choice_spec ... (model = spec for all oracles), "
                                                "C09_lex_table_extensional", "replay_cmd": replay})
            elif impl_lex == mwhole and impl_lex != mlex:
                # a lexer that searches the whole text (the repair): the property holds on this case
                ctx.count("cases_where_the_lexer_follows_the_whole_text_table_only")
            if impl_lex != mlex and impl_lex != mwhole:
                ndiff += 1
                # the mirror is proved to meet the declarative spec for every oracle; the oracle
                # table comes from the same regex crate with the same pattern and flags: the
                # implementation's scan loop / state handling deviates on this concrete input
                ctx.violation({"what": "lexer output differs from the specified lexer on this (spec, input)",
                               "case": desc, "impl": impl_lex, "model": mlex,
                               "spec_transcription": (",".join(sp[0]) if sp and sp[0] else None),
                               "rule_table": secs.get("RULES"), "states": secs.get("STATES"),
                               "match_table": secs.get("MT"), "whole_text_table": secs.get("MW"),
                               "model_on_whole_text_table": mwhole,
                               "authority": "C09_lex_choice_spec, C09_lex_tiles, C09_named_emit_unnamed_skip, "
                                            "C09_lex_states (model = spec for all oracles)",
                               "replay_cmd": replay})
        else:
            head, rest = out.split(" # OUT ")
            o1, _, o2 = rest.partition(" # OUT2 ")
            m = model[i]
            m = m[4:] if m.startswith("OUT ") else m
            nontriv = "NONE ; NONE" not in o1
            ctx.case(line, nontriv, {"case": desc, "impl": o1, "impl_equals_model": o1 == m})
            if o1 != m or o2 != m:
                ndiff += 1
                ctx.violation({"what": "set_rule_ids(_spanned) differs from the specified result",
                               "case": desc, "impl_spanned": o1, "impl_plain": o2, "model": m,
                               "authority": "C09_set_rule_ids_exact", "replay_cmd": replay})
    ctx.oblige(ndiff == 0, "correspondence")
    ctx.oblige(nspecdiff == 0, "spec-transcription")
    # the lexer equals the model run on what the regexes denote (restricted by the known finding)
    ctx.oblige(nden == 0, "denotation")
    # slicing changes the matches of look-behind rules only, and never at position 0
    ctx.oblige(ntab == 0, "tables-differ-for-look-behind-rules-only")
    # the tables of C09_lookbehind_tables_differ_refuted are the ones the regex crate gives
    if not witness_seen:
        ctx.violation({"what": "the tables / model outputs of the witness of C09_lookbehind_tables_differ_refuted "
                               "(`^a`/`b`/`a` on \"ba\") are no longer what the harness computes", "expected": LB_WITNESS},
                      no_input=True)
    ctx.oblige(witness_seen, "lookbehind-witness")
    ctx.coverage["look_behind"] = {"known_class_cases": len(known_cases), "first_known_cases": known_cases[:5]}
    if known_cases:
        # the KNOWN-FINDING line carries the number of cases of this run and the first of them
        for i, k in enumerate(ctx.known_hits):
            if k.get("match") == KNOWN_LB:
                k = dict(k)
                k["note"] = "%s (%d cases, first: %s)" % (KNOWN_LB, len(known_cases), known_cases[0])
                ctx.known_hits[i] = k
    ctx.coverage["rule"] = (
        "hand-written corpus first; then %d random .l specs (2-8 rules drawn from overlapping regex families: keyword vs "
        "identifier in both orders, =/==/=+, a|ab vs ab|a, possibly-empty and lazy regexes, 2/3/4-byte characters; "
        "0-3 start states inclusive/exclusive; rules restricted to 1-3 states; push/pop/replace targets; skip rules; "
        "every 4th spec from the start-state family (every state pushed/replaced from everywhere, a pop rule, one observer rule per "
        "state, inputs = random walks over these); 20%% of the others with a %%grmtools section over the 9 boolean flags; 8%% with one name left out of the id map) x %d inputs "
        "(concatenations of the rules' sample strings biased towards rules with targets, plus junk); raw from_rules tables "
        "(missing INITIAL, dangling targets, duplicate ids/names, id-less rules); set_rule_ids on random maps.  "
        "non-trivial = at some visited position >= 2 active rules have a non-empty match, or a completed step has a "
        "stack operation (ids: some name is missing on either side); distinct by canonical case line" % (nspec, per))
    ctx.coverage["rule_look_behind_family"] = (
        "own random stream (the cases above are unaffected): the auditors' specs/inputs first (C09 audit 1, C11 audit 5), then "
        "%d specs of 1-3 rules with `^`, `\\A`, `\\b`, `\\B`, `\\b{start}`, `(?m:^)`, `(?-m)^`, assertions inside/at the end of "
        "the match, next to 1-4 plain rules over the same text, 25%% with a pushed start state, 25%% with flags (multi_line, "
        "unicode, case_insensitive, dot_matches_new_line) x %d inputs; EVERY lex case of every family is evaluated on both "
        "match tables (slice / whole text)" % (nlook, per))
    ctx.coverage["exhaustive"] = False
    ctx.assumptions += [
        "regex matching is the regex crate's: the match oracle of the theorems is instantiated by the table "
        "`Regex::find(&input[pos..]).end()` of `\\A(?:re_str)` built with the options Rule::new applies (slice table) and by "
        "`Regex::find_at(input, pos)` (match start == pos) of re_str built with the same options (whole-text table = what the "
        "written regex denotes at pos; leftmost-first semantics make it the anchored match at pos)",
        "which assertions look behind the position is read off regex_syntax's HIR of re_str (LookSet of the translated regex: "
        "Start, StartLF, StartCRLF, Word* except WordEndHalf*)",
        "matches of a Regex on a &str end on char boundaries inside the haystack (oracle_on_boundaries / oracle_in_bounds)",
        "HashMap keys are pairwise distinct; rule names are pairwise distinct (LexParser's DuplicateName error) — "
        "without the latter set_rule_ids' None shortcut is wrong (C09_set_rule_ids_dup_names_refuted, from_rules only)",
        "StartState id/exclusive and StartStateId are read off their derived Debug output (no public accessor)",
    ]
