#!/usr/bin/env python3
"""Store a confirmed seeded change: tools/store_seeded.py <Cxx> <src dir (…/seeded/n)> <caught|missed> <caught_by,comma> <note>
Copies patch.diff, demo*, run.txt; extends meta.json with origin / what_i_ran / caught_by / note; prints the new id."""
import json, os, shutil, sys, glob
prop, src, verdict, caught_by, note = sys.argv[1:6]
root = os.path.join(os.path.dirname(os.path.dirname(os.path.abspath(__file__))), "seeded")
n = 1
while os.path.exists(os.path.join(root, "%s-%d" % (prop, n))):
    n += 1
dst = os.path.join(root, "%s-%d" % (prop, n))
os.makedirs(dst)
for f in glob.glob(os.path.join(src, "*")):
    b = os.path.basename(f)
    if b in ("patch.diff", "run.txt") or b.startswith("demo"):
        shutil.copy(f, dst)
m = json.load(open(os.path.join(src, "meta.json")))
m["origin"] = os.environ.get("SEEDED_ORIGIN", "independent sub-agent (later round (3rd to 7th), given the one-line summaries of earlier changes to avoid), property text + scratch worktree only")
m["what_i_ran"] = ["tools/scratch_eval.sh <name> seeded/%s-%d/patch.diff %s" % (prop, n, caught_by.replace(",", " ").replace(" quick", ""))]
m["caught_by"] = [c for c in caught_by.split(",") if c]
m["initially"] = verdict
m["note"] = note
json.dump(m, open(os.path.join(dst, "meta.json"), "w"), indent=1, ensure_ascii=False)
print(os.path.basename(dst))
