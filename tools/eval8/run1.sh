#!/bin/bash
# usage: run1.sh c09 1 C09 [more checks]
p=$1; n=$2; shift 2
name=b8${p}s${n}
cd /verif
( echo "== $p $n checks: $@"; tools/scratch_eval.sh $name /tmp/wt8-$p/seeded/$n/patch.diff "$@" 2>&1 | grep -v "^\s*$" | tail -12 ) > /tmp/eval8/$name.log 2>&1
tools/scratch_eval.sh --rm $name
