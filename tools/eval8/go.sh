#!/bin/bash
# go.sh c12 "C12 C11" "C12"   -> confirm + eval of seeded/1 with first list, seeded/2 with second
p=$1; l1=$2; l2=$3
cd /tmp/eval8
(nohup ./confirm.sh $p >/dev/null 2>&1 &)
(nohup sh -c "./run1.sh $p 1 $l1; [ -n \"$l2\" ] && ./run1.sh $p 2 $l2" >/dev/null 2>&1 &)
