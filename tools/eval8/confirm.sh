#!/bin/bash
# confirm.sh c09 : for each seeded/<n> of /tmp/wt8-c09 — suite with the change (only the demo may fail), suite without (all pass)
p=$1; wt=/tmp/wt8-$p; cd $wt || exit 2
git checkout -q -- . 
for d in seeded/*/; do n=$(basename $d)
  [ -f $d/patch.diff ] || continue
  git apply $d/patch.diff || { echo "$p $n PATCH-DOES-NOT-APPLY" > /tmp/eval8/confirm-$p-$n.txt; continue; }
  CARGO_NET_OFFLINE=true cargo test --workspace --no-fail-fast --offline -j 6 2>&1 | grep -E "^test result|^test .*FAILED|^    [a-z_:0-9]+$|error(\[|:)" > /tmp/eval8/confirm-$p-$n-with.txt
  git checkout -q -- .
done
CARGO_NET_OFFLINE=true cargo test --workspace --no-fail-fast --offline -j 6 2>&1 | grep -E "^test result|^test .*FAILED|error(\[|:)" > /tmp/eval8/confirm-$p-without.txt
echo done > /tmp/eval8/confirm-$p.done
