#!/bin/sh
# run before committing in /verif: regenerate the files that are derived from /repo's current source
# (a scratch evaluation of a seeded change can leave theories/C14/Schema_gen.v in the seeded state) and MANIFEST.json
cd "$(dirname "$0")/.." || exit 1
python3 -c "
import sys; sys.path.insert(0, '.')
from checks import C14; C14.pregen()" || exit 1
(cd coq && ./mkproject.sh) || exit 1
python3 tools/mkmanifest.py || exit 1
git status --short | grep -v '^ M evidence/' | head -40
