#!/bin/bash
# Development aid: evaluate checks against a scratch copy of /repo with a patch applied,
# without touching /repo or /verif/evidence.   tools/scratch_eval.sh <name> <patch.diff|-> <Cxx>...
# Leaves /tmp/gvmut-<name>; remove it with:  tools/scratch_eval.sh --rm <name>
set -uo pipefail
if [ "$1" = "--rm" ]; then git -C /repo worktree remove --force "/tmp/gvmut-$2/repo" 2>/dev/null; rm -rf "/tmp/gvmut-$2"; exit 0; fi
name="$1"; patch="$2"; shift 2
d="/tmp/gvmut-$name"
if [ ! -d "$d/repo" ]; then
  mkdir -p "$d"
  git -C /repo worktree add -q --detach "$d/repo" HEAD || exit 2
  rsync -a --exclude target /verif/harness/ "$d/harness/"
  sed -i "s#/repo/#$d/repo/#g" "$d/harness/Cargo.toml"
  sed -i "s#/verif/.work/target#$d/target#" "$d/harness/.cargo/config.toml"
  # reuse already compiled dependencies
  mkdir -p "$d/target"; cp -al /verif/.work/target/release "$d/target/release" 2>/dev/null || true
  # C19 builds the in-tree example programs into its own target directory: reuse their compiled dependencies too
  if [ -d /verif/.work/target-examples/debug ]; then mkdir -p "$d/target-examples"; cp -al /verif/.work/target-examples/debug "$d/target-examples/debug" 2>/dev/null || true; fi
fi
rsync -a --exclude target --exclude Cargo.toml --exclude .cargo /verif/harness/ "$d/harness/"
git -C "$d/repo" checkout -q -- . 
[ -f "$d/repo/Cargo.lock" ] || cp /repo/Cargo.lock "$d/repo/Cargo.lock"
if [ "$patch" != "-" ]; then git -C "$d/repo" apply "$patch" 2>/dev/null || ( cd "$d/repo" && patch -s -p1 -F3 < "$patch" ) || { echo "patch does not apply"; exit 2; }; fi
cd /verif
for c in "$@"; do
  out=$(GV_SCRATCH="$d" ./check "$c" --tier "${TIER:-quick}" 2>&1)
  echo "$out" | tail -4
  echo "SUMMARY $c violations=$(echo "$out" | grep -c '^VIOLATION') with_input=$(echo "$out" | grep '^VIOLATION' | grep -vc 'no-failing-input-found') known=$(echo "$out" | grep -c '^KNOWN-FINDING') $(echo "$out" | grep -E "^$c (ok|FAIL)" | cut -d' ' -f2)"
done
