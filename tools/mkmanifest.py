#!/usr/bin/env python3
"""Regenerate MANIFEST.json from checks/registry.py (keeps it schema-valid)."""
import json, os, sys
here = os.path.dirname(os.path.dirname(os.path.abspath(__file__)))
sys.path.insert(0, here)
from checks.registry import CHECKS, NOT_APPLICABLE, HOOK_COMMITS
props = [json.loads(l)["id"] for l in open(os.path.join(here, "properties.jsonl"))]
claimed = [c["id"] for c in CHECKS]
for p in props:
    assert p in claimed or p in [n["property_id"] for n in NOT_APPLICABLE], p
m = {
 "version": 1,
 "setup_cmd": "./setup.sh",
 "hooks": {
  "guard": "--cfg grmtools_verif",
  "enable": "RUSTFLAGS='--cfg grmtools_verif' cargo build --offline (harness crate /verif/harness with path dependencies on /repo/{cfgrammar,lrtable,lrpar,lrlex})",
  "baseline_off_cmd": "cd /repo && cargo test --workspace --no-fail-fast --offline",
  "source_commits": HOOK_COMMITS,
  "add_only": True
 },
 "engines": [
  {"name": "coq", "path": "coq/", "serves_properties": claimed,
   "kind_free_text": "Coq 8.16.1 development: executable models, declarative specs, proofs; Properties/Cxx.v holds the property theorems"},
  {"name": "gvm", "path": "ocaml/", "serves_properties": claimed,
   "kind_free_text": "models extracted to OCaml (ExtrOcamlBasic) + line-oriented drivers"},
  {"name": "gvh", "path": "harness/", "serves_properties": claimed,
   "kind_free_text": "Rust harness observing /repo through public APIs under catch_unwind"},
 ],
 "checks": [],
 "not_applicable": NOT_APPLICABLE,
 "notes": "See DESIGN.md. Every check = proof gate (full Coq build + audit + Print Assumptions) + correspondence of the model with /repo's working tree + failing-input search."
}
for c in CHECKS:
    m["checks"].append({
     "property_id": c["id"],
     "quick_cmd": "./check %s --tier quick" % c["id"],
     "thorough_cmd": "./check %s --tier thorough" % c["id"],
     "evidence_file": "evidence/%s.json" % c["id"],
     "replay_cmd_template": "./check %s --replay {path}" % c["id"],
     "engine": "coq",
     "level_claimed": {"category": c.get("category", "proof"), "text": c["text"], "design_ref": c["design_ref"]},
     "level_note": c["note"],
     "technique": c["technique"],
    })
json.dump(m, open(os.path.join(here, "MANIFEST.json"), "w"), indent=1)
print("MANIFEST.json: %d checks, %d not applicable" % (len(m["checks"]), len(NOT_APPLICABLE)))
