#!/usr/bin/env python3
"""C14 translator: Rust type definitions that derive wincode's SchemaWrite /
SchemaRead  ->  a Coq term of type `schema` (coq/theories/C14/Model.v) per root
type, plus a JSON tree of the field names in the same order.

It re-reads, on every run of the check, the definitions of
  YaccGrammar, Precedence, AssocKind (cfgrammar/src/lib/yacc/grammar.rs),
  Symbol (cfgrammar/src/lib/mod.rs), Span (cfgrammar/src/lib/span.rs),
  RIdx/PIdx/SIdx/TIdx (macro IdxNewtype!, cfgrammar/src/lib/idxnewtype.rs),
  StIdx (macro IdxNewtype!, lrtable/src/lib/mod.rs),
  StateTable, Conflicts (lrtable/src/lib/statetable.rs),
  Vob, SparseVec, PackedVec (the vendored crates at the versions of Cargo.lock).

Deliberately small and strict: a line/regex level reader of exactly the Rust
subset those definitions use.  Everything it does not understand raises
`TranslationError` (the check turns that into a failed gate).  Things it does
understand but which do not travel — a `#[wincode(skip)]` field, a referenced
type without both derives — become `SOpaque` in the output, which makes
`schema_wf` false and so breaks the Coq proof gate.

wincode-derive semantics relied on (wincode-derive 0.4.6, schema_write.rs /
schema_read.rs): struct and tuple fields are written in declaration order;
enums write the variant index (declaration order, unless `#[wincode(tag=..)]`,
which is refused here) with the configured tag encoding (u32), then the
variant's fields in order.
"""
import glob
import json
import os
import re
import sys


class TranslationError(Exception):
    pass


def fail(msg):
    raise TranslationError(msg)


# ---------------------------------------------------------------- lexical level

def strip_comments(src):
    """remove // and (nested) /* */ comments; string literals are kept (a `//`
    inside a string literal would be cut, which at worst breaks parsing loudly)"""
    out, i, n, depth = [], 0, len(src), 0
    while i < n:
        if depth == 0 and src.startswith("//", i):
            j = src.find("\n", i)
            i = n if j < 0 else j
        elif src.startswith("/*", i):
            depth += 1
            i += 2
        elif depth > 0 and src.startswith("*/", i):
            depth -= 1
            i += 2
        else:
            if depth == 0:
                out.append(src[i])
            i += 1
    return "".join(out)


OPEN = {"(": ")", "[": "]", "{": "}", "<": ">"}
CLOSE = {v: k for k, v in OPEN.items()}


def balanced(src, i, angle=False):
    """src[i] is an opening bracket; return index just after its partner"""
    op = src[i]
    assert op in OPEN
    stack = [op]
    j = i + 1
    while j < len(src):
        ch = src[j]
        if ch in "([{" or (ch == "<" and angle):
            stack.append(ch)
        elif ch in ")]}" or (ch == ">" and angle and not src.startswith("->", j - 1)):
            if not stack or OPEN[stack[-1]] != ch:
                fail("unbalanced %r at offset %d: %r" % (ch, j, src[max(0, j - 40):j + 10]))
            stack.pop()
            if not stack:
                return j + 1
        j += 1
    fail("unterminated %r at offset %d" % (op, i))


def split_top(s, sep=","):
    parts, depth, cur = [], 0, []
    for k, ch in enumerate(s):
        if ch in "([{<":
            depth += 1
        elif ch in ")]}" or (ch == ">" and not (k > 0 and s[k - 1] == "-")):
            depth -= 1
        if ch == sep and depth == 0:
            parts.append("".join(cur))
            cur = []
        else:
            cur.append(ch)
    if depth != 0:
        fail("unbalanced brackets in %r" % s)
    last = "".join(cur)
    if last.strip():
        parts.append(last)
    return [p.strip() for p in parts]


def take_attrs(s):
    """leading #[...] attributes of s -> (list of attribute bodies, rest)"""
    attrs = []
    s = s.lstrip()
    while s.startswith("#"):
        if not s.startswith("#["):
            fail("unexpected attribute syntax: %r" % s[:40])
        j = balanced(s, 1)
        attrs.append(s[2:j - 1].strip())
        s = s[j:].lstrip()
    return attrs, s


# ------------------------------------------------------------- attribute meaning

IGNORED_ATTR = re.compile(r"^(doc\b|allow\b|non_exhaustive$|repr\b|serde\b|must_use\b|default$|expect\b|warn\b|deny\b)")
ENABLED_FEATURES = {"wincode"}       # what lrpar turns on in cfgrammar/lrtable/vob/sparsevec/packedvec
IRRELEVANT_FEATURES = {"serde"}


class Attrs:
    def __init__(self):
        self.derives = set()
        self.excluded = False     # cfg(test) etc: not compiled
        self.skip = False         # wincode(skip)


def feature_of(cond):
    m = re.match(r'^feature\s*=\s*"([^"]+)"$', cond.strip())
    return m.group(1) if m else None


def interpret_attr(a, acc, where):
    a = a.strip()
    if IGNORED_ATTR.match(a):
        return
    m = re.match(r"^derive\s*\((.*)\)$", a, re.S)
    if m:
        for d in split_top(m.group(1)):
            acc.derives.add(d.split("::")[-1].strip())
        return
    m = re.match(r"^cfg_attr\s*\((.*)\)$", a, re.S)
    if m:
        parts = split_top(m.group(1))
        if len(parts) < 2:
            fail("%s: cfg_attr with %d parts: %r" % (where, len(parts), a))
        f = feature_of(parts[0])
        if f in ENABLED_FEATURES:
            for inner in parts[1:]:
                interpret_attr(inner, acc, where)
            return
        if f in IRRELEVANT_FEATURES:
            return
        fail("%s: cfg_attr condition not understood: %r" % (where, parts[0]))
    m = re.match(r"^cfg\s*\((.*)\)$", a, re.S)
    if m:
        c = m.group(1).strip()
        if c == "test":
            acc.excluded = True
            return
        f = feature_of(c)
        if f in ENABLED_FEATURES:
            return
        fail("%s: cfg condition not understood: %r" % (where, c))
    m = re.match(r"^wincode\s*\((.*)\)$", a, re.S)
    if m:
        body = m.group(1).strip()
        if re.match(r"^skip\b", body):
            acc.skip = True
            return
        fail("%s: #[wincode(%s)] changes the byte format in a way this translator does not model" % (where, body))
    fail("%s: attribute not understood: #[%s]" % (where, a))


def interpret_attrs(attrs, where):
    acc = Attrs()
    for a in attrs:
        interpret_attr(a, acc, where)
    return acc


# ---------------------------------------------------------------- item level

ITEM_RE = re.compile(r"(?:pub(?:\s*\([^)]*\))?\s+)?(struct|enum)\s+([A-Za-z_]\w*)")
ALIAS_RE = re.compile(r"(?:pub(?:\s*\([^)]*\))?\s+)?type\s+([A-Za-z_]\w*)\s*(<[^=;]*>)?\s*=\s*([^;]+);")


class Item:
    def __init__(self, kind, name, origin):
        self.kind, self.name, self.origin = kind, name, origin
        self.params = []        # [(name, default type text or None)]
        self.attrs = None
        self.fields = []        # struct: [(fname, type text, Attrs)]
        self.variants = []      # enum: [(vname, [(fname, type text, Attrs)])]


def parse_generics(text, where):
    params = []
    for p in split_top(text):
        if p.startswith("'") or p.startswith("const "):
            fail("%s: generic parameter %r not supported" % (where, p))
        m = re.match(r"^([A-Za-z_]\w*)\s*(?::[^=]*)?(?:=\s*(.+))?$", p, re.S)
        if not m:
            fail("%s: generic parameter %r not understood" % (where, p))
        params.append((m.group(1), m.group(2).strip() if m.group(2) else None))
    return params


def parse_named_fields(body, where):
    fields = []
    for piece in split_top(body):
        attrs, rest = take_attrs(piece)
        m = re.match(r"^(?:pub(?:\s*\([^)]*\))?\s+)?([A-Za-z_]\w*)\s*:\s*(.+)$", rest, re.S)
        if not m:
            fail("%s: field not understood: %r" % (where, piece))
        fields.append((m.group(1), " ".join(m.group(2).split()), interpret_attrs(attrs, "%s.%s" % (where, m.group(1)))))
    return fields


def parse_tuple_fields(body, where):
    fields = []
    for k, piece in enumerate(split_top(body)):
        attrs, rest = take_attrs(piece)
        rest = re.sub(r"^pub(?:\s*\([^)]*\))?\s+", "", rest)
        if not rest:
            fail("%s: empty tuple field" % where)
        fields.append((str(k), " ".join(rest.split()), interpret_attrs(attrs, "%s.%d" % (where, k))))
    return fields


def scan_items(src, origin, wanted):
    """all struct/enum items of `src` (comment-stripped) whose name is in `wanted`"""
    items = []
    for m in ITEM_RE.finditer(src):
        kind, name = m.group(1), m.group(2)
        if name not in wanted:
            continue
        # must start an item: preceded (after attributes) by start of file, `}` `;` or whitespace only
        line_start = src.rfind("\n", 0, m.start()) + 1
        if src[line_start:m.start()].strip():
            continue
        where = "%s:%s" % (origin, name)
        # attributes: walk back over `#[...]` blocks and blank space
        attrs, j = [], m.start()
        while True:
            k = j
            while k > 0 and src[k - 1].isspace():
                k -= 1
            if k > 0 and src[k - 1] == "]":
                # find the matching `#[`
                depth, p = 0, k - 1
                while p >= 0:
                    if src[p] == "]":
                        depth += 1
                    elif src[p] == "[":
                        depth -= 1
                        if depth == 0:
                            break
                    p -= 1
                if p < 1 or src[p - 1] != "#":
                    fail("%s: cannot find the start of an attribute before the item" % where)
                attrs.insert(0, src[p + 1:k - 1].strip())
                j = p - 1
            else:
                break
        it = Item(kind, name, origin)
        it.attrs = interpret_attrs(attrs, where)
        i = m.end()
        while src[i].isspace():
            i += 1
        if src[i] == "<":
            e = balanced(src, i, angle=True)
            it.params = parse_generics(src[i + 1:e - 1], where)
            i = e
            while src[i].isspace():
                i += 1
        if src.startswith("where", i):
            fail("%s: where clause on the type definition not supported" % where)
        if kind == "struct":
            if src[i] == "{":
                e = balanced(src, i)
                it.fields = parse_named_fields(src[i + 1:e - 1], where)
            elif src[i] == "(":
                e = balanced(src, i)
                it.fields = parse_tuple_fields(src[i + 1:e - 1], where)
                rest = src[e:].lstrip()
                if not rest.startswith(";"):
                    fail("%s: tuple struct not followed by ';'" % where)
            elif src[i] == ";":
                it.fields = []
            else:
                fail("%s: struct body not understood: %r" % (where, src[i:i + 30]))
        else:
            if src[i] != "{":
                fail("%s: enum body not understood" % where)
            e = balanced(src, i)
            for piece in split_top(src[i + 1:e - 1]):
                attrs, rest = take_attrs(piece)
                vm = re.match(r"^([A-Za-z_]\w*)\s*(.*)$", rest, re.S)
                if not vm:
                    fail("%s: variant not understood: %r" % (where, piece))
                vname, tail = vm.group(1), vm.group(2).strip()
                va = interpret_attrs(attrs, "%s::%s" % (where, vname))
                if va.excluded or va.skip:
                    fail("%s::%s: conditional / skipped variants are not supported" % (where, vname))
                if tail == "":
                    vf = []
                elif tail.startswith("(") and balanced(tail, 0) == len(tail):
                    vf = parse_tuple_fields(tail[1:-1], "%s::%s" % (where, vname))
                elif tail.startswith("{") and balanced(tail, 0) == len(tail):
                    vf = parse_named_fields(tail[1:-1], "%s::%s" % (where, vname))
                else:
                    fail("%s::%s: explicit discriminants / unknown variant syntax: %r" % (where, vname, tail))
                it.variants.append((vname, vf))
        items.append(it)
    return items


def expand_idx_macro(src, origin):
    """`macro_rules! IdxNewtype { ($(#[$attr:meta])* $n: ident) => { BODY } }` and its
    invocations `IdxNewtype!( Name );`  ->  BODY with $n := Name, per invocation"""
    m = re.search(r"macro_rules!\s*IdxNewtype\s*\{", src)
    if not m:
        fail("%s: macro_rules! IdxNewtype not found" % origin)
    e = balanced(src, m.end() - 1)
    mac = src[m.end():e - 1]
    arm = re.match(r"\s*\(\s*\$\(\s*#\[\s*\$attr\s*:\s*meta\s*\]\s*\)\s*\*\s*\$n\s*:\s*ident\s*\)\s*=>\s*\{", mac)
    if not arm:
        fail("%s: IdxNewtype! has an unexpected pattern: %r" % (origin, mac[:80]))
    be = balanced(mac, arm.end() - 1)
    if mac[be:].strip().strip(";").strip():
        fail("%s: IdxNewtype! has more than one arm" % origin)
    body = mac[arm.end():be - 1]
    if not re.search(r"\$\(\s*#\[\s*\$attr\s*\]\s*\)\s*\*", body):
        fail("%s: IdxNewtype! body does not forward its attributes as expected" % origin)
    body = re.sub(r"\$\(\s*#\[\s*\$attr\s*\]\s*\)\s*\*", "", body)
    rest = src[:m.start()] + src[e:]
    out = []
    for inv in re.finditer(r"IdxNewtype!\s*\(([^)]*)\)\s*;", rest):
        arg = inv.group(1).strip()
        if not re.match(r"^[A-Za-z_]\w*$", arg):
            fail("%s: IdxNewtype!(%s): invocation with attributes/unknown argument" % (origin, arg))
        out.append((arg, body.replace("$n", arg)))
    if not out:
        fail("%s: no IdxNewtype! invocation found" % origin)
    return out


# ---------------------------------------------------------------- translation

PRIMS = {
    "u8": ("SU8", "u8"), "u16": ("(SInt W16)", "u16"), "u32": ("(SInt W32)", "u32"),
    "u64": ("(SInt W64)", "u64"), "usize": ("SUsize", "usize"), "bool": ("SBool", "bool"),
    "String": ("SString", "string"),
}
OPAQUE_SKIP, OPAQUE_NODERIVE = 1, 2


class Translator:
    def __init__(self):
        self.items = {}      # name -> Item
        self.aliases = {}    # name -> type text
        self.defs = []       # [(coq name, params, coq body)] in dependency order
        self.done = {}       # name -> coq def name
        self.stack = []
        self.notes = []      # human-readable findings (opaque positions)
        self.digest = {}     # name -> description of fields (for the evidence)

    def add_source(self, text, origin, wanted):
        src = strip_comments(text)
        for it in scan_items(src, origin, wanted):
            if it.name in self.items:
                fail("type %s defined twice (%s and %s)" % (it.name, self.items[it.name].origin, origin))
            if it.attrs.excluded:
                fail("%s:%s is compiled only under cfg(test)" % (origin, it.name))
            self.items[it.name] = it
        for m in ALIAS_RE.finditer(src):
            if m.group(2):
                continue
            self.aliases[m.group(1)] = m.group(3).strip()

    # -- type expressions: returns (coq term, names tree)
    def ty(self, t, env, where):
        t = t.strip()
        if t.startswith("("):
            if balanced(t, 0) != len(t):
                fail("%s: type not understood: %r" % (where, t))
            parts = split_top(t[1:-1])
            if len(parts) == 1 and not t[1:-1].rstrip().endswith(","):
                return self.ty(parts[0], env, where)
            subs = [self.ty(p, env, where) for p in parts]
            return ("(STuple [%s])" % "; ".join(s[0] for s in subs), {"k": "tuple", "items": [s[1] for s in subs]})
        if t.startswith("["):
            fail("%s: bare slice/array type %r not supported" % (where, t))
        if t.startswith("&") or t.startswith("*") or t.startswith("dyn ") or t.startswith("impl "):
            fail("%s: reference/pointer/trait-object type %r not supported" % (where, t))
        m = re.match(r"^([A-Za-z_][\w:]*)\s*(<.*>)?$", t, re.S)
        if not m:
            fail("%s: type not understood: %r" % (where, t))
        head, args = m.group(1).split("::")[-1], m.group(2)
        argl = split_top(args[1:-1]) if args else []
        if args and balanced(args, 0, angle=True) != len(args):
            fail("%s: type not understood: %r" % (where, t))
        if head in env and not argl:
            return env[head]
        if head in PRIMS and not argl:
            return (PRIMS[head][0], {"k": PRIMS[head][1]})
        if head == "Option" and len(argl) == 1:
            s = self.ty(argl[0], env, where)
            return ("(SOption %s)" % s[0], {"k": "option", "of": s[1]})
        if head == "Vec" and len(argl) == 1:
            s = self.ty(argl[0], env, where)
            return ("(SVec %s)" % s[0], {"k": "vec", "of": s[1]})
        if head == "Box" and len(argl) == 1:
            a = argl[0].strip()
            if a.startswith("[") and a.endswith("]") and ";" not in a:
                s = self.ty(a[1:-1], env, where)
                return ("(SVec %s)" % s[0], {"k": "vec", "of": s[1]})
            return self.ty(a, env, where)      # Box<T>: transparent (impl_heap_container)
        if head in self.aliases and not argl:
            return self.ty(self.aliases[head], env, where)
        if head in self.items:
            it = self.items[head]
            actual = list(argl)
            if len(actual) > len(it.params):
                fail("%s: %s given %d type arguments, takes %d" % (where, head, len(actual), len(it.params)))
            subs = [self.ty(a, env, where) for a in actual]
            for (pn, pd) in it.params[len(actual):]:
                if pd is None:
                    fail("%s: %s lacks the type argument %s" % (where, head, pn))
                subs.append(self.ty(pd, {}, "%s(default of %s)" % (where, pn)))
            dn = self.define(it)
            if dn is None:
                self.notes.append("%s: type %s does not derive both SchemaRead and SchemaWrite -> SOpaque" % (where, head))
                return ("(SOpaque %d)" % OPAQUE_NODERIVE, {"k": "opaque", "why": "no derive: " + head})
            coq = "(%s%s)" % (dn, "".join(" " + s[0] for s in subs)) if subs else dn
            return (coq, self.names(it, [s[1] for s in subs]))
        fail("%s: unknown type %r (not a primitive, not one of the translated definitions)" % (where, t))

    def field_list(self, fields, env, where):
        coq, names, desc = [], [], []
        for fname, ftype, fa in fields:
            if fa.excluded:
                desc.append("%s: (cfg(test), not compiled)" % fname)
                continue
            if fa.skip:
                self.notes.append("%s.%s: #[wincode(skip)] -> SOpaque" % (where, fname))
                coq.append("(SOpaque %d)" % OPAQUE_SKIP)
                names.append([fname, {"k": "opaque", "why": "skip"}])
                desc.append("%s: SKIPPED" % fname)
                continue
            s = self.ty(ftype, env, "%s.%s" % (where, fname))
            coq.append(s[0])
            names.append([fname, s[1]])
            desc.append("%s: %s" % (fname, ftype))
        return coq, names, desc

    def define(self, it):
        """emit the Coq definition of item `it` (once); None if it does not derive"""
        if it.name in self.done:
            return self.done[it.name]
        if not {"SchemaRead", "SchemaWrite"} <= it.attrs.derives:
            self.done[it.name] = None
            return None
        if it.name in self.stack:
            fail("recursive type %s" % it.name)
        self.stack.append(it.name)
        env = {pn: (pn, {"k": "param", "name": pn}) for pn, _ in it.params}
        where = "%s:%s" % (it.origin, it.name)
        if it.kind == "struct":
            coq, _, desc = self.field_list(it.fields, env, where)
            body = "STuple [%s]" % "; ".join(coq)
            self.digest[it.name] = desc
        else:
            vs, desc = [], []
            for vname, vf in it.variants:
                coq, _, d = self.field_list(vf, env, "%s::%s" % (where, vname))
                vs.append("STuple [%s]" % "; ".join(coq))
                desc.append("%s(%s)" % (vname, ", ".join(d)))
            body = "SEnum [%s]" % "; ".join(vs)
            self.digest[it.name] = desc
        self.stack.pop()
        dn = "sch_" + it.name
        self.defs.append((dn, [pn for pn, _ in it.params], body))
        self.done[it.name] = dn
        return dn

    def names(self, it, argnames):
        env = {pn: ("", an) for (pn, _), an in zip(it.params, argnames)}
        where = "%s:%s" % (it.origin, it.name)
        saved_notes = list(self.notes)
        if it.kind == "struct":
            _, names, _ = self.field_list(it.fields, env, where)
            r = {"k": "struct", "name": it.name, "fields": names}
        else:
            vs = []
            for vname, vf in it.variants:
                _, names, _ = self.field_list(vf, env, "%s::%s" % (where, vname))
                vs.append([vname, names])
            r = {"k": "enum", "name": it.name, "variants": vs}
        self.notes = saved_notes
        return r


def crate_dir(repo, name):
    lock = open(os.path.join(repo, "Cargo.lock")).read()
    vs = re.findall(r'\[\[package\]\]\s*name = "%s"\s*version = "([^"]+)"' % re.escape(name), lock)
    if len(vs) != 1:
        fail("Cargo.lock: expected exactly one version of %s, found %r" % (name, vs))
    home = os.environ.get("CARGO_HOME", os.path.expanduser("~/.cargo"))
    ds = glob.glob(os.path.join(home, "registry", "src", "*", "%s-%s" % (name, vs[0])))
    if len(ds) < 1:
        fail("vendored crate %s-%s not found under %s/registry/src" % (name, vs[0], home))
    return sorted(ds)[0], vs[0]


def translate(repo="/repo"):
    tr = Translator()
    versions = {}

    def rd(path):
        if not os.path.exists(path):
            fail("source file %s is missing" % path)
        return open(path, encoding="utf-8").read()

    tr.add_source(rd(os.path.join(repo, "cfgrammar/src/lib/yacc/grammar.rs")), "cfgrammar/yacc/grammar.rs",
                  {"YaccGrammar", "Precedence", "AssocKind"})
    tr.add_source(rd(os.path.join(repo, "cfgrammar/src/lib/mod.rs")), "cfgrammar/mod.rs", {"Symbol"})
    tr.add_source(rd(os.path.join(repo, "cfgrammar/src/lib/span.rs")), "cfgrammar/span.rs", {"Span"})
    src = strip_comments(rd(os.path.join(repo, "cfgrammar/src/lib/idxnewtype.rs")))
    got = set()
    for name, text in expand_idx_macro(src, "cfgrammar/idxnewtype.rs"):
        tr.add_source(text, "cfgrammar/idxnewtype.rs", {name})
        got.add(name)
    if got != {"RIdx", "PIdx", "SIdx", "TIdx"}:
        fail("cfgrammar/idxnewtype.rs defines %s, expected RIdx PIdx SIdx TIdx" % sorted(got))
    src = strip_comments(rd(os.path.join(repo, "lrtable/src/lib/mod.rs")))
    got = set()
    for name, text in expand_idx_macro(src, "lrtable/mod.rs"):
        tr.add_source(text, "lrtable/mod.rs", {name})
        got.add(name)
    if got != {"StIdx"}:
        fail("lrtable/mod.rs defines %s via IdxNewtype!, expected StIdx" % sorted(got))
    tr.add_source(rd(os.path.join(repo, "lrtable/src/lib/statetable.rs")), "lrtable/statetable.rs",
                  {"StateTable", "Conflicts"})
    for crate, ty in (("vob", "Vob"), ("sparsevec", "SparseVec"), ("packedvec", "PackedVec")):
        d, v = crate_dir(repo, crate)
        versions[crate] = v
        tr.add_source(rd(os.path.join(d, "src/lib.rs")), "%s-%s/src/lib.rs" % (crate, v), {ty})
    for crate in ("wincode", "wincode-derive"):
        versions[crate] = crate_dir(repo, crate)[1]
    need = {"YaccGrammar", "Precedence", "AssocKind", "Symbol", "Span", "RIdx", "PIdx", "SIdx", "TIdx", "StIdx",
            "StateTable", "Conflicts", "Vob", "SparseVec", "PackedVec"}
    missing = need - set(tr.items)
    if missing:
        fail("definitions not found: %s" % sorted(missing))
    roots = {}
    for root, coqname in (("YaccGrammar", "yacc_grammar_schema"), ("StateTable", "state_table_schema")):
        it = tr.items[root]
        if len(it.params) != 1:
            fail("%s is expected to have exactly the storage type parameter, has %r" % (root, it.params))
        dn = tr.define(it)
        if dn is None:
            tr.notes.append("%s does not derive both SchemaRead and SchemaWrite -> SOpaque" % root)
            tr.defs.append((("sch_" + root), [it.params[0][0]], "SOpaque %d" % OPAQUE_NODERIVE))
            dn = "sch_" + root
            names = {"k": "opaque", "why": "no derive: " + root}
        else:
            names = tr.names(it, [{"k": "storage"}])
        roots[root] = (coqname, dn, names)
    # SIdx is not reachable from the roots but belongs to the public index types: translate it as well
    sidx = tr.define(tr.items["SIdx"])
    if sidx is None:
        tr.notes.append("SIdx does not derive both SchemaRead and SchemaWrite")
    o = []
    o.append("(* GENERATED by tools/schema_of_rust.py from the Rust sources — do not edit.")
    o.append("   Regenerated by every run of `./check C14` before the proof gate. *)")
    o.append("From Coq Require Import List NArith.")
    o.append("Import ListNotations.")
    o.append("From GV Require Import C14.Model.")
    o.append("Local Open Scope N_scope.")
    o.append("")
    for dn, params, body in tr.defs:
        ps = "".join(" (%s : schema)" % p for p in params)
        o.append("Definition %s%s : schema :=\n  %s." % (dn, ps, body))
        o.append("")
    for root, (coqname, dn, _) in roots.items():
        o.append("Definition %s (t : stw) : schema := %s (st_schema t)." % (coqname, dn))
    o.append("")
    names = {root: v[2] for root, v in roots.items()}
    info = {"versions": versions, "notes": tr.notes, "digest": tr.digest}
    return "\n".join(o), names, info


def main(argv):
    import argparse
    ap = argparse.ArgumentParser()
    ap.add_argument("--repo", default=os.environ.get("GV_REPO", "/repo"))
    ap.add_argument("--out", default=None, help="Schema_gen.v path")
    ap.add_argument("--names", default=None, help="field-name tree (JSON) path")
    a = ap.parse_args(argv)
    try:
        coq, names, info = translate(a.repo)
    except TranslationError as e:
        print("schema_of_rust: TRANSLATION FAILED: %s" % e, file=sys.stderr)
        return 2
    if a.out:
        old = open(a.out).read() if os.path.exists(a.out) else None
        if old != coq + "\n":
            with open(a.out, "w") as f:
                f.write(coq + "\n")
    else:
        print(coq)
    if a.names:
        os.makedirs(os.path.dirname(a.names), exist_ok=True)
        with open(a.names, "w") as f:
            json.dump({"names": names, "info": info}, f, indent=1)
    for n in info["notes"]:
        print("schema_of_rust: NOTE %s" % n, file=sys.stderr)
    return 0


if __name__ == "__main__":
    sys.exit(main(sys.argv[1:]))
