#!/bin/bash
# MANIFEST.setup_cmd — build the framework from files on disk only (offline).
set -uo pipefail
cd "$(dirname "$0")"
export CARGO_NET_OFFLINE=true
mkdir -p .work evidence replays
echo "[setup] coq"
( cd coq && ./mkproject.sh && timeout 3400 make -k -j16 2>&1 | grep -v '^COQ\|Closed under' | tail -20 )
echo "[setup] ocaml model runners"
for f in coq/extract/*.v; do
  p=$(basename "$f" .v | tr A-Z a-z)
  ./ocaml/build.sh "$p" || echo "[setup] WARNING: model runner $p failed to build"
done
echo "[setup] rust harness"
[ -f harness/Cargo.lock ] || cp /repo/Cargo.lock harness/Cargo.lock
for f in harness/src/bin/*.rs; do
  b=$(basename "$f" .rs)
  ( cd harness && RUSTFLAGS="--cfg grmtools_verif" CARGO_TARGET_DIR=../.work/target cargo build --offline --release --bin "$b" 2>&1 | tail -1 ) || echo "[setup] WARNING: harness binary $b failed to build"
done
( cd harness && RUSTFLAGS="--cfg grmtools_verif" CARGO_TARGET_DIR=../.work/target cargo build --offline --bin c20 2>&1 | tail -1 ) || true
echo "[setup] done"
