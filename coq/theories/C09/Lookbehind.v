(* C09 — the match table is the only way the text enters the lexer model.

   The scan loop of lexer.rs asks `r.re.find(&s[old_i..])` with re = `\A(?:written)`:
   the SLICE table.  What the written regex denotes at byte i of the text is what
   the regex engine answers for the whole text (`find_at(s, i)` restricted to
   matches starting at i): the WHOLE-TEXT table.  The two differ exactly for
   assertions that look at the text before the position (`^` under multi_line,
   `\A`, `\b`, `\B`, ...), which the slice turns into "start of text".

   All theorems of Proofs.v quantify over the oracle, hence hold for either
   table.  Here:
   * [lex_table_extensional]: the result of a run depends on the oracle only
     through the cells (rule, position) the run consults — the rules active in
     the current start state at each position the loop visits.  So the
     implementation and the denotation can only part where one of the two
     tables' consulted cells differ;
   * [lookbehind_tables_differ_refuted]: on the two tables the regex crate gives
     for `^a 'LINE_START_A'` / `b 'B'` / `a 'A'` on "ba" (as printed by
     harness/src/bin/c09.rs; ids 7, 9, 11) the model's lexemes differ: "the
     lexer is independent of which of the two tables it is run on" is false,
     i.e. the known finding is exactly "the implementation's table is not the
     denotation table". *)
From Coq Require Import List Arith Bool Lia.
From GV Require Import Common.Outcome C09.Model C09.Spec C09.Run.
Import ListNotations.

(* the run [res] consulted the oracle at (rule j, position p): rule j exists and
   - p is the position of a completed iteration and j is active in the state
     on top of the stack recorded for that iteration, or
   - p is where the run stopped with "no match" in state cur and j is active in cur, or
   - p is where the run stopped in one of the three arms outside the domain of
     parsed specifications (named rule without id, dangling target, pop on an
     empty stack): every rule counts (the ghost trace does not record the state) *)
Definition consulted (rules : list rule) (res : result) (j p : nat) : Prop :=
  exists r, nth_error rules j = Some r /\
    ((exists s c cur rest, In s (steps res) /\ st_pos s = p /\ st_stack s = (c, cur) :: rest /\
        state_matches cur (r_states r) = true)
     \/ (exists cur, stopped res = StopNoMatch p cur /\ state_matches cur (r_states r) = true)
     \/ (exists ridx l, stopped res = StopNoTokId p ridx l \/ stopped res = StopNoTarget p ridx l
                        \/ stopped res = StopPopEmpty p ridx l)).

Definition lex_table_extensional_stmt : Prop :=
  forall rules sts m1 m2 bd n res,
    lex rules sts m1 bd n = Done res ->
    (forall j p, consulted rules res j p -> m1 j p = m2 j p) ->
    lex rules sts m2 bd n = Done res.

(* two tables that differ in one row only (the row of the rule written `^a`),
   and the model's lexemes differ *)
Definition lookbehind_tables_differ_refuted_stmt : Prop :=
  exists rules sts tslice twhole bds n r1 r2,
    run_lex rules sts tslice bds n = Done r1 /\
    run_lex rules sts twhole bds n = Done r2 /\
    items r1 <> items r2 /\
    (forall j, j <> 0 -> nth_error tslice j = nth_error twhole j) /\
    (* both tables are legitimate oracles: matches end on char boundaries, inside the text *)
    oracle_on_boundaries (table_oracle tslice) (bd_of bds) /\ oracle_in_bounds (table_oracle tslice) n /\
    oracle_on_boundaries (table_oracle twhole) (bd_of bds) /\ oracle_in_bounds (table_oracle twhole) n /\
    wf_spec rules sts.

(* ---- proofs ---------------------------------------------------------------- *)

Lemma scan_rules_ext : forall m1 m2 bd cur i rs k lo lr,
  (forall j r, nth_error rs j = Some r -> state_matches cur (r_states r) = true ->
     m1 (k + j) i = m2 (k + j) i) ->
  scan_rules m1 bd cur i rs k lo lr = scan_rules m2 bd cur i rs k lo lr.
Proof.
  intros m1 m2 bd cur i rs. induction rs as [|r rs IH]; intros k lo lr H; simpl; [reflexivity|].
  assert (Ht : forall lo' lr', scan_rules m1 bd cur i rs (S k) lo' lr'
                             = scan_rules m2 bd cur i rs (S k) lo' lr').
  { intros lo' lr'. apply IH. intros j r0 Hn Ha.
    replace (S k + j) with (k + S j) by lia. apply (H (S j) r0); assumption. }
  destruct (state_matches cur (r_states r)) eqn:Ea; simpl; [|apply Ht].
  destruct (negb (bd i)); [reflexivity|].
  assert (Hm : m1 k i = m2 k i).
  { specialize (H 0 r eq_refl Ea). rewrite Nat.add_0_r in H. exact H. }
  rewrite <- Hm. destruct (m1 k i) as [len|]; [|apply Ht]. destruct (lo <? len); apply Ht.
Qed.

Lemma consulted_cons : forall rules em s res' j p,
  consulted rules res' j p ->
  consulted rules (mk (em ++ items res') (s :: steps res') (stopped res')) j p.
Proof.
  intros rules em s res' j p [r [Hn H]]. exists r. split; [exact Hn|].
  destruct H as [[s0 [c [cur [rest [Hin H]]]]]|[H|H]].
  - left. exists s0, c, cur, rest. split; [right; exact Hin|exact H].
  - right. left. exact H.
  - right. right. exact H.
Qed.

Lemma lex_loop_ext : forall rules sts m1 m2 bd n initial fuel i stk res,
  lex_loop rules sts m1 bd n initial fuel i stk = Done res ->
  (forall j p, consulted rules res j p -> m1 j p = m2 j p) ->
  lex_loop rules sts m2 bd n initial fuel i stk = Done res.
Proof.
  intros rules sts m1 m2 bd n initial.
  induction fuel as [|fuel IH]; intros i stk res H Hc.
  - simpl in H |- *. destruct (n <=? i); [exact H|discriminate].
  - simpl in H |- *. destruct (n <=? i) eqn:E; [exact H|].
    destruct stk as [|[c cur] rest]; [exact H|].
    assert (Hag : (forall j r, nth_error rules j = Some r ->
                      state_matches cur (r_states r) = true -> m1 j i = m2 j i) ->
                  scan_rules m2 bd cur i rules 0 0 0 = scan_rules m1 bd cur i rules 0 0 0).
    { intros Hx. symmetry. apply scan_rules_ext. intros j r Hn Ha. simpl. apply (Hx j r Hn Ha). }
    destruct (scan_rules m1 bd cur i rules 0 0 0) as [[L R]| |] eqn:Es; simpl in H; try discriminate.
    destruct (0 <? L) eqn:EL.
    2:{ inversion H; subst res. rewrite Hag; [simpl; rewrite EL; reflexivity|].
        intros j r Hn Ha. apply Hc. exists r. split; [exact Hn|].
        right. left. exists cur. split; [reflexivity|exact Ha]. }
    destruct (nth_checked rules R) as [r| |] eqn:En; simpl in H; try discriminate.
    destruct (emit r i L) as [em|] eqn:Ee.
    2:{ inversion H; subst res. rewrite Hag; [simpl; rewrite EL, En; simpl; rewrite Ee; reflexivity|].
        intros j r0 Hn Ha. apply Hc. exists r0. split; [exact Hn|].
        right. right. exists R, L. left. reflexivity. }
    (* a completed iteration: the head step witnesses the cells of this position *)
    assert (Hstep : forall stk' res',
      lex_loop rules sts m1 bd n initial fuel (i + L) stk' = Done res' ->
      res = mk (em ++ items res')
               ({| st_pos := i; st_stack := (c, cur) :: rest; st_rule := R; st_len := L |} :: steps res')
               (stopped res') ->
      scan_rules m2 bd cur i rules 0 0 0 = Done (L, R) /\
      lex_loop rules sts m2 bd n initial fuel (i + L) stk' = Done res').
    { intros stk' res' Hr Heq. split.
      - rewrite Hag; [reflexivity|]. intros j r0 Hn Ha. apply Hc. exists r0. split; [exact Hn|].
        left. exists {| st_pos := i; st_stack := (c, cur) :: rest; st_rule := R; st_len := L |}, c, cur, rest.
        subst res. simpl. split; [left; reflexivity|]. split; [reflexivity|]. split; [reflexivity|exact Ha].
      - apply (IH _ _ _ Hr). intros j p Hq. apply Hc. subst res. apply consulted_cons. exact Hq. }
    destruct (r_target r) as [[tid op]|] eqn:Et.
    + destruct (get_state sts tid) as [state|] eqn:Eg.
      2:{ inversion H; subst res. rewrite Hag; [simpl; rewrite EL, En; simpl; rewrite Ee, Et, Eg; reflexivity|].
          intros j r0 Hn Ha. apply Hc. exists r0. split; [exact Hn|].
          right. right. exists R, L. right. left. reflexivity. }
      destruct (apply_op_rle initial ((c, cur) :: rest) op state) as [stk'|] eqn:Eo.
      2:{ inversion H; subst res. rewrite Hag; [simpl; rewrite EL, En; simpl; rewrite Ee, Et, Eg, Eo; reflexivity|].
          intros j r0 Hn Ha. apply Hc. exists r0. split; [exact Hn|].
          right. right. exists R, L. right. right. reflexivity. }
      destruct (lex_loop rules sts m1 bd n initial fuel (i + L) stk') as [res'| |] eqn:Er;
        simpl in H; try discriminate.
      inversion H as [Heq]. symmetry in Heq. destruct (Hstep _ _ Er Heq) as [Hs Hl].
      rewrite Hs. simpl. rewrite EL, En. simpl. rewrite Ee, Et, Eg, Eo, Hl. reflexivity.
    + destruct (lex_loop rules sts m1 bd n initial fuel (i + L) ((c, cur) :: rest)) as [res'| |] eqn:Er;
        simpl in H; try discriminate.
      inversion H as [Heq]. symmetry in Heq. destruct (Hstep _ _ Er Heq) as [Hs Hl].
      rewrite Hs. simpl. rewrite EL, En. simpl. rewrite Ee, Et, Hl. reflexivity.
Qed.

Lemma lex_table_extensional : lex_table_extensional_stmt.
Proof.
  intros rules sts m1 m2 bd n res H Hc. unfold lex in *.
  destruct (get_state sts 0) as [initial|]; [|exact H].
  apply (lex_loop_ext _ _ m1 m2 _ _ _ _ _ _ _ H Hc).
Qed.

(* the same for tables, as the check uses it: two tables that agree on the
   consulted cells give the same run *)
Corollary run_lex_extensional : forall rules sts t1 t2 bds n res,
  run_lex rules sts t1 bds n = Done res ->
  (forall j p, consulted rules res j p -> table_oracle t1 j p = table_oracle t2 j p) ->
  run_lex rules sts t2 bds n = Done res.
Proof. intros rules sts t1 t2 bds n res. unfold run_lex. apply lex_table_extensional. Qed.

(* the hypotheses are satisfiable by two DIFFERENT oracles and a run that has
   a completed iteration: `a 'A'` on "a", oracles differing at the unvisited
   cell (0, 1) *)
Example lex_table_extensional_witness :
  exists rules sts m1 m2 bd n res,
    lex rules sts m1 bd n = Done res /\
    (forall j p, consulted rules res j p -> m1 j p = m2 j p) /\
    (exists j p, m1 j p <> m2 j p) /\ steps res <> [] /\
    lex rules sts m2 bd n = Done res.
Proof.
  exists [{| r_name := Some 0; r_tok := Some 7; r_states := []; r_target := None |}],
         [{| ss_id := 0; ss_excl := false |}],
         (fun _ p => if p =? 0 then Some 1 else None),
         (fun _ p => if p =? 0 then Some 1 else Some 5),
         (fun _ => true), 1.
  eexists. split; [vm_compute; reflexivity|]. split; [|split; [|split]].
  - intros j p [r [_ H]]. simpl in H.
    destruct H as [[s [c [cur [rest [[Hs|[]] [Hp _]]]]]]|[[cur [Hs _]]|[ridx [l [Hs|[Hs|Hs]]]]]];
      try discriminate.
    subst s. simpl in Hp. subst p. reflexivity.
  - exists 0, 1. simpl. discriminate.
  - simpl. discriminate.
  - vm_compute. reflexivity.
Qed.

(* `^a 'LINE_START_A'` (id 7) / `b 'B'` (id 9) / `a 'A'` (id 11), one inclusive
   state, on "ba": row 0 of the slice table has the match 1:1 (`^` sees the
   slice start), row 0 of the whole-text table is empty *)
Definition lb_rules : list rule :=
  [ {| r_name := Some 0; r_tok := Some 7; r_states := []; r_target := None |};
    {| r_name := Some 1; r_tok := Some 9; r_states := []; r_target := None |};
    {| r_name := Some 2; r_tok := Some 11; r_states := []; r_target := None |} ].
Definition lb_states : list sstate := [ {| ss_id := 0; ss_excl := false |} ].
Definition lb_slice : list (list (nat * nat)) := [ [(1, 1)]; [(0, 1)]; [(1, 1)] ].
Definition lb_whole : list (list (nat * nat)) := [ []; [(0, 1)]; [(1, 1)] ].
Definition lb_bds : list nat := [0; 1; 2].

Example lb_slice_run :
  option_map items (match run_lex lb_rules lb_states lb_slice lb_bds 2 with Done r => Some r | _ => None end)
  = Some [Lexeme 9 0 1; Lexeme 7 1 1].
Proof. vm_compute. reflexivity. Qed.
Example lb_whole_run :
  option_map items (match run_lex lb_rules lb_states lb_whole lb_bds 2 with Done r => Some r | _ => None end)
  = Some [Lexeme 9 0 1; Lexeme 11 1 1].
Proof. vm_compute. reflexivity. Qed.

Lemma lb_table_cases : forall (P : nat -> nat -> nat -> Prop) tbl,
  (forall r row, nth_error tbl r = Some row -> forall p l, In (p, l) row -> P r p l) ->
  forall r p l, table_oracle tbl r p = Some l -> P r p l.
Proof.
  intros P tbl H r p l. unfold table_oracle, map_get.
  destruct (nth_error tbl r) as [row|] eqn:En; [|discriminate].
  destruct (find (fun kv => fst kv =? p) row) as [[p' l']|] eqn:Ef; [|discriminate].
  intros Hl. inversion Hl; subst l'. destruct (find_some _ _ Ef) as [Hin Hp].
  simpl in Hp. apply Nat.eqb_eq in Hp. subst p'. apply (H r row En p l Hin).
Qed.

Lemma lookbehind_tables_differ_refuted : lookbehind_tables_differ_refuted_stmt.
Proof.
  exists lb_rules, lb_states, lb_slice, lb_whole, lb_bds, 2.
  eexists. eexists.
  split; [vm_compute; reflexivity|]. split; [vm_compute; reflexivity|].
  split; [simpl; discriminate|]. split.
  { intros [|[|[|j]]] Hj; try reflexivity. congruence. }
  assert (Hcells : forall tbl, tbl = lb_slice \/ tbl = lb_whole ->
            forall r p l, table_oracle tbl r p = Some l ->
              (p = 0 /\ l = 1) \/ (p = 1 /\ l = 1)).
  { intros tbl Ht. apply lb_table_cases. intros r row Hn p l Hin.
    destruct Ht; subst tbl;
      (destruct r as [|[|[|r]]]; simpl in Hn;
       [inversion Hn; subst row; simpl in Hin| inversion Hn; subst row; simpl in Hin
        | inversion Hn; subst row; simpl in Hin | destruct r; discriminate]);
      repeat (destruct Hin as [Hin|Hin]; [inversion Hin; auto|]); try contradiction. }
  assert (Hb : forall tbl, tbl = lb_slice \/ tbl = lb_whole ->
            oracle_on_boundaries (table_oracle tbl) (bd_of lb_bds) /\ oracle_in_bounds (table_oracle tbl) 2).
  { intros tbl Ht. split.
    - split; [reflexivity|]. intros r p l _ Hm.
      destruct (Hcells tbl Ht r p l Hm) as [[-> ->]|[-> ->]]; reflexivity.
    - intros r p l Hm. destruct (Hcells tbl Ht r p l Hm) as [[-> ->]|[-> ->]]; lia. }
  destruct (Hb lb_slice (or_introl eq_refl)) as [H1 H2].
  destruct (Hb lb_whole (or_intror eq_refl)) as [H3 H4].
  split; [exact H1|]. split; [exact H2|]. split; [exact H3|]. split; [exact H4|].
  split; [|split].
  - eexists. reflexivity.
  - intros r tid op Hin Ht. simpl in Hin.
    destruct Hin as [<-|[<-|[<-|[]]]]; discriminate.
  - intros r nm Hin Hnm. simpl in Hin.
    destruct Hin as [<-|[<-|[<-|[]]]]; eexists; reflexivity.
Qed.
