(* C09 — mirror of lrlex/src/lib/lexer.rs:
     LRNonStreamingLexerDef::lexer            (the scan loop, :557-661)
     LRNonStreamingLexerDef::state_matches    (:663)
     LRNonStreamingLexerDef::get_start_state_by_id (:671)
     LexerDef::set_rule_ids_spanned / set_rule_ids (:453-520)

   What is NOT modelled: regular-expression matching.  The scan loop asks
   `r.re.find(&s[old_i..])` for every rule active in the current start state;
   the answer (the `end()` of the match of `\A(?:re)` on the slice, i.e. the
   length of the anchored match, or no match) is a parameter
       m : rule index -> byte offset -> option length
   (the match oracle).  The input string itself is present only through its
   byte length [n] and its char-boundary predicate [bd] (the slice
   `&s[old_i..]` panics when [old_i] is not on a char boundary).

   Representation choices (all others are literal):
   * the state stack `Vec<(usize, &StartState)>` is a list whose HEAD is the
     Vec's LAST element (`last()` = head, `push` = cons, `pop` = tail,
     `clear` = []); the references are the start-state records themselves;
   * the Vec `lexemes` is returned as the list of its elements in push order;
     the loop below produces it front to back instead of accumulating;
   * next to the Vec the mirror returns a ghost trace: one [step] per
     completed iteration (position, stack before the iteration, chosen rule,
     match length) and the reason the loop stopped.  Nothing in the control
     flow depends on the ghost data.
   * rule names are interned as numbers (only `name().is_some()` matters to
     the scan loop; set_rule_ids compares names for equality only).

   Every Rust panic site is an explicit [Panic]: the slice `&s[old_i..]`,
   `get_rule(longest_ridx).unwrap()`, `self.rules[*i]`, `name().unwrap()`,
   the usize subtraction `rules_with_names - missing.len()`.

   Definitions only; statements in Spec.v, proofs in Proofs.v. *)
From Coq Require Import List Arith Bool Lia.
From GV Require Import Common.Outcome.
Import ListNotations.

(* enum StartStateOperation *)
Inductive ssop := ReplaceStack | Push | Pop.

(* struct StartState { id, name, name_span, exclusive } — name/span play no role *)
Record sstate := { ss_id : nat; ss_excl : bool }.

(* struct Rule { tok_id, name, name_span, re_str, re, start_states, target_state } *)
Record rule := {
  r_name : option nat;
  r_tok : option nat;
  r_states : list nat;
  r_target : option (nat * ssop) }.

Definition set_tok (r : rule) (t : option nat) : rule :=
  {| r_name := r_name r; r_tok := t; r_states := r_states r; r_target := r_target r |}.

(* Result<Lexeme, LRLexError>: Lexeme::new(tok_id, start, len) or
   LRLexError { span: (pos,pos), lexing_state } *)
Inductive item :=
| Lexeme (tok start len : nat)
| LexErr (pos : nat) (lexing_state : option nat).

Definition stack := list (nat * sstate).

(* get_start_state_by_id: self.start_states.iter().find(|state| state.id == id) *)
Definition get_state (sts : list sstate) (id : nat) : option sstate :=
  find (fun s => ss_id s =? id) sts.

(* state_matches *)
Definition state_matches (state : sstate) (rule_states : list nat) : bool :=
  match rule_states with
  | [] => negb (ss_excl state)
  | _ => existsb (fun x => x =? ss_id state) rule_states
  end.

(* the `match op { … }` of the scan loop (:625-649); [None] is the
   `None =>` arm of Pop (error pushed, break) *)
Definition apply_op_rle (initial : sstate) (st : stack) (op : ssop) (state : sstate)
  : option stack :=
  match op with
  | ReplaceStack => Some [(1, state)]
  | Push =>
      match st with
      | (count, s) :: rest =>
          if ss_id s =? ss_id state then Some ((count + 1, s) :: rest)
          else Some ((1, state) :: st)
      | [] => Some [(1, state)]
      end
  | Pop =>
      match st with
      | (count, s) :: rest =>
          if 1 <? count then Some ((count - 1, s) :: rest)
          else match rest with
               | [] => Some [(1, initial)]
               | _ :: _ => Some rest
               end
      | [] => None
      end
  end.

(* ghost: one completed iteration of the scan loop *)
Record step := { st_pos : nat; st_stack : stack; st_rule : nat; st_len : nat }.

(* ghost: why the loop stopped *)
Inductive stop :=
| StopEnd (pos : nat)                      (* `while i < s.len()` false *)
| StopNoMatch (pos : nat) (cur : sstate)   (* longest == 0 *)
| StopNoTokId (pos ridx len : nat)         (* named rule, tok_id None *)
| StopNoTarget (pos ridx len : nat)        (* target state id not in the table *)
| StopPopEmpty (pos ridx len : nat)        (* Pop with `head` None *)
| StopEmptyStack (pos : nat)               (* state_stack.last() None *)
| StopNoInitial.                           (* get_start_state_by_id(0) None *)

Record result := { items : list item; steps : list step; stopped : stop }.

Section Lexer.
  Variable rules : list rule.
  Variable sts : list sstate.
  Variable m : nat -> nat -> option nat.    (* match oracle *)
  Variable bd : nat -> bool.                (* s.is_char_boundary *)
  Variable n : nat.                         (* s.len() *)

  (* for (ridx, r) in self.iter_rules().enumerate() { … } with the two
     mutable locals longest / longest_ridx *)
  Fixpoint scan_rules (cur : sstate) (i : nat) (rs : list rule) (ridx longest longest_ridx : nat)
    : outcome (nat * nat) :=
    match rs with
    | [] => Done (longest, longest_ridx)
    | r :: rs' =>
        if negb (state_matches cur (r_states r))
        then scan_rules cur i rs' (S ridx) longest longest_ridx
        else if negb (bd i) then Panic                      (* &s[old_i..] *)
        else match m ridx i with
             | Some len =>
                 if longest <? len                          (* len > longest *)
                 then scan_rules cur i rs' (S ridx) len ridx
                 else scan_rules cur i rs' (S ridx) longest longest_ridx
             | None => scan_rules cur i rs' (S ridx) longest longest_ridx
             end
    end.

  (* what the iteration pushes for the chosen rule before looking at its
     target: Some [lexeme] / Some [] (unnamed) / None (named without id) *)
  Definition emit (r : rule) (pos len : nat) : option (list item) :=
    match r_name r with
    | Some _ => match r_tok r with
                | Some tok_id => Some [Lexeme tok_id pos len]
                | None => None
                end
    | None => Some []
    end.

  Definition mk (its : list item) (ss : list step) (s : stop) : result :=
    {| items := its; steps := ss; stopped := s |}.

  Fixpoint lex_loop (initial : sstate) (fuel : nat) (i : nat) (state_stack : stack)
    : outcome result :=
    if n <=? i then Done (mk [] [] (StopEnd i)) else
    match fuel with
    | 0 => OutOfFuel
    | S fuel' =>
        match state_stack with
        | [] => Done (mk [LexErr i None] [] (StopEmptyStack i))
        | (_, current_state) :: _ =>
            do lr <- scan_rules current_state i rules 0 0 0;
            let '(longest, longest_ridx) := lr in
            if 0 <? longest then
              do r <- nth_checked rules longest_ridx;       (* get_rule(..).unwrap() *)
              match emit r i longest with
              | None => Done (mk [LexErr i None] [] (StopNoTokId i longest_ridx longest))
              | Some em =>
                  let continue (stack' : stack) :=
                    do res <- lex_loop initial fuel' (i + longest) stack';
                    Done (mk (em ++ items res)
                             ({| st_pos := i; st_stack := state_stack;
                                 st_rule := longest_ridx; st_len := longest |} :: steps res)
                             (stopped res)) in
                  match r_target r with
                  | None => continue state_stack
                  | Some (target_state_id, op) =>
                      match get_state sts target_state_id with
                      | None => Done (mk (em ++ [LexErr i None]) []
                                         (StopNoTarget i longest_ridx longest))
                      | Some state =>
                          match apply_op_rle initial state_stack op state with
                          | None => Done (mk (em ++ [LexErr i None]) []
                                             (StopPopEmpty i longest_ridx longest))
                          | Some stack' => continue stack'
                          end
                      end
                  end
              end
            else
              Done (mk [LexErr i (Some (ss_id current_state))] []
                       (StopNoMatch i current_state))
        end
    end.

  (* fn lexer: fuel = input length + 1 (every completed iteration advances) *)
  Definition lex : outcome result :=
    match get_state sts 0 with
    | None => Done (mk [LexErr 0 None] [] StopNoInitial)
    | Some initial_state => lex_loop initial_state (n + 1) 0 [(1, initial_state)]
    end.
End Lexer.

(* ---- set_rule_ids_spanned ------------------------------------------------
   rule_ids_map : HashMap<&str, StorageT> is an association list (keys are
   pairwise distinct in a HashMap: hypothesis of the theorems); the returned
   HashSets are lists (membership is what the theorems speak about). *)
Definition map_get (mp : list (nat * nat)) (k : nat) : option nat :=
  match find (fun kv => fst kv =? k) mp with Some kv => Some (snd kv) | None => None end.

(* for (i, r) in self.rules.iter_mut().enumerate() { … }:
   (updated rules, missing_from_parser_idxs, rules_with_names) *)
Fixpoint set_ids_loop (mp : list (nat * nat)) (rs : list rule) (i : nat)
  : list rule * list nat * nat :=
  match rs with
  | [] => ([], [], 0)
  | r :: rs' =>
      let '(rs2, miss, cnt) := set_ids_loop mp rs' (S i) in
      match r_name r with
      | Some nm =>
          match map_get mp nm with
          | Some tok_id => (set_tok r (Some tok_id) :: rs2, miss, S cnt)
          | None => (set_tok r None :: rs2, i :: miss, S cnt)
          end
      | None => (r :: rs2, miss, cnt)
      end
  end.

(* self.rules[*i].name().unwrap() for every recorded index *)
Fixpoint names_at (rs : list rule) (idxs : list nat) : outcome (list nat) :=
  match idxs with
  | [] => Done []
  | i :: idxs' =>
      do r <- nth_checked rs i;                              (* self.rules[*i] *)
      match r_name r with
      | None => Panic                                        (* .unwrap() *)
      | Some nm => do rest <- names_at rs idxs'; Done (nm :: rest)
      end
  end.

Fixpoint rule_names (rs : list rule) : list nat :=
  match rs with
  | [] => []
  | r :: rs' => match r_name r with Some nm => nm :: rule_names rs' | None => rule_names rs' end
  end.

Definition mem (k : nat) (l : list nat) : bool := existsb (fun x => x =? k) l.

(* returns (rules after the update, missing_from_lexer, missing_from_parser)
   — the tuple order of the code: first the map keys no rule is named after,
   second the rule names the map does not contain *)
Definition set_rule_ids (mp : list (nat * nat)) (rs : list rule)
  : outcome (list rule * option (list nat) * option (list nat)) :=
  let '(rs2, miss, rules_with_names) := set_ids_loop mp rs 0 in
  do missing_from_parser <-
    match miss with
    | [] => Done None
    | _ :: _ => do l <- names_at rs2 miss; Done (Some l)
    end;
  if rules_with_names <? length miss then Panic else          (* usize subtraction *)
  let missing_from_lexer :=
    if rules_with_names - length miss =? length mp then None
    else Some (filter (fun k => negb (mem k (rule_names rs2))) (map fst mp)) in
  Done (rs2, missing_from_lexer, missing_from_parser).
