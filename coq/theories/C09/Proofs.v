(* C09 — proofs of the statements of Spec.v about the mirror of Model.v. *)
From Coq Require Import List Arith Bool Lia.
From GV Require Import Common.Outcome C09.Model C09.Spec.
Import ListNotations.

(* ---- inclusive / exclusive ---------------------------------------------- *)

Lemma inclusive_exclusive : inclusive_exclusive_stmt.
Proof.
  intros cur r. unfold state_matches, active.
  destruct (r_states r) as [|x l] eqn:E.
  - split.
    + intros H. left. split; [reflexivity|]. destruct (ss_excl cur); simpl in H; congruence.
    + intros [[_ H]|H]; [rewrite H; reflexivity | destruct H].
  - rewrite existsb_exists. split.
    + intros [y [Hin Hy]]. right. apply Nat.eqb_eq in Hy. subst y. exact Hin.
    + intros [[H _]|H]; [discriminate|]. exists (ss_id cur). split; [exact H|apply Nat.eqb_refl].
Qed.

(* ---- run-length encoded stack vs plain stack ---------------------------- *)

Lemma repeat_succ_r : forall (A : Type) (x : A) c, repeat x (c + 1) = x :: repeat x c.
Proof. intros A x c. rewrite Nat.add_1_r. reflexivity. Qed.

Lemma from_table_same_id : forall sts a b,
  from_table sts a -> from_table sts b -> ss_id a = ss_id b -> a = b.
Proof.
  unfold from_table. intros sts a b Ha Hb Hid. rewrite Hid in Ha. rewrite Ha in Hb.
  congruence.
Qed.

Lemma rle_stack_refines_stack : rle_stack_refines_stack_stmt.
Proof.
  intros sts initial st op state Hok Hft Hstate Hinit.
  destruct op.
  - (* ReplaceStack *)
    simpl. split; [reflexivity|]. split; [discriminate|].
    intros st' H. inversion H; subst st'. split; [|split].
    + constructor; [simpl; lia|constructor].
    + constructor; [exact Hstate|constructor].
    + discriminate.
  - (* Push *)
    destruct st as [|[count s] rest].
    + simpl. split; [reflexivity|]. split; [discriminate|].
      intros st' H. inversion H; subst st'. split; [|split].
      * constructor; [simpl; lia|constructor].
      * constructor; [exact Hstate|constructor].
      * discriminate.
    + simpl. inversion Hok as [|? ? Hc Hok']; subst. inversion Hft as [|? ? Hs Hft']; subst.
      simpl in Hc, Hs.
      destruct (ss_id s =? ss_id state) eqn:E.
      * apply Nat.eqb_eq in E. assert (s = state) by (eapply from_table_same_id; eauto). subst s.
        split; [simpl; rewrite repeat_succ_r; reflexivity|]. split; [discriminate|].
        intros st' H. inversion H; subst st'. split; [|split].
        -- constructor; [simpl; lia|exact Hok'].
        -- constructor; [exact Hs|exact Hft'].
        -- discriminate.
      * split; [reflexivity|]. split; [discriminate|].
        intros st' H. inversion H; subst st'. split; [|split].
        -- constructor; [simpl; lia|exact Hok].
        -- constructor; [exact Hstate|exact Hft].
        -- discriminate.
  - (* Pop *)
    destruct st as [|[count s] rest].
    + simpl. split; [reflexivity|]. split; [intros H; congruence|]. intros st' H. discriminate.
    + inversion Hok as [|? ? Hc Hok']; subst. inversion Hft as [|? ? Hs Hft']; subst.
      simpl in Hc, Hs. simpl apply_op_rle.
      destruct (1 <? count) eqn:E.
      * apply Nat.ltb_lt in E.
        split; [|split; [discriminate|]].
        -- simpl. destruct count as [|[|c]]; try lia. simpl. reflexivity.
        -- intros st' H. inversion H; subst st'. split; [|split].
           ++ constructor; [simpl; lia|exact Hok'].
           ++ constructor; [exact Hs|exact Hft'].
           ++ discriminate.
      * apply Nat.ltb_ge in E. assert (count = 1) by lia. subst count.
        destruct rest as [|[c2 s2] rest2].
        -- split; [reflexivity|]. split; [discriminate|].
           intros st' H. inversion H; subst st'. split; [|split].
           ++ constructor; [simpl; lia|constructor].
           ++ constructor; [exact Hinit|constructor].
           ++ discriminate.
        -- split; [|split; [discriminate|]].
           ++ inversion Hok' as [|? ? Hc2 _]; subst. simpl in Hc2.
              destruct c2 as [|c2]; [lia|]. reflexivity.
           ++ intros st' H. inversion H; subst st'. split; [|split].
              ** exact Hok'.
              ** exact Hft'.
              ** discriminate.
Qed.

(* ---- the rule loop ------------------------------------------------------ *)

Section RunProofs.
  Variable rules : list rule.
  Variable sts : list sstate.
  Variable m : nat -> nat -> option nat.
  Variable bd : nat -> bool.
  Variable n : nat.

  Definition act (cur : sstate) (r : rule) : bool := state_matches cur (r_states r).

  Lemma scan_spec : forall cur i rs k lo lr L R,
    scan_rules m bd cur i rs k lo lr = Done (L, R) ->
    lo <= L /\
    (forall j r l, nth_error rs j = Some r -> act cur r = true -> m (k + j) i = Some l -> l <= L) /\
    ((L = lo /\ R = lr) \/
     (lo < L /\ exists j r, nth_error rs j = Some r /\ act cur r = true /\
        m (k + j) i = Some L /\ R = k + j /\
        forall j' r' l', j' < j -> nth_error rs j' = Some r' -> act cur r' = true ->
          m (k + j') i = Some l' -> l' < L)).
  Proof.
    intros cur i rs. induction rs as [|r rs IH]; intros k lo lr L R H.
    - simpl in H. inversion H; subst. split; [lia|]. split.
      + intros j r l Hn. destruct j; discriminate.
      + left. split; reflexivity.
    - simpl in H. fold (act cur r) in H.
      (* what to do with the result of the recursive call on the tail *)
      assert (Hskip : forall lo' lr',
                scan_rules m bd cur i rs (S k) lo' lr' = Done (L, R) ->
                lo <= lo' ->
                (forall l, act cur r = true -> m k i = Some l -> l <= lo') ->
                ((lo' = lo /\ lr' = lr) \/
                 (lo < lo' /\ act cur r = true /\ m k i = Some lo' /\ lr' = k)) ->
                lo <= L /\
                (forall j r0 l, nth_error (r :: rs) j = Some r0 -> act cur r0 = true ->
                                m (k + j) i = Some l -> l <= L) /\
                ((L = lo /\ R = lr) \/
                 (lo < L /\ exists j r0, nth_error (r :: rs) j = Some r0 /\ act cur r0 = true /\
                    m (k + j) i = Some L /\ R = k + j /\
                    forall j' r' l', j' < j -> nth_error (r :: rs) j' = Some r' ->
                      act cur r' = true -> m (k + j') i = Some l' -> l' < L))).
      { intros lo' lr' Hrec Hlo Hhead Hacc.
        destruct (IH _ _ _ _ _ Hrec) as [Hle [Hall Hcase]].
        split; [lia|]. split.
        - intros j r0 l Hn Ha Hm. destruct j as [|j].
          + simpl in Hn. inversion Hn; subst r0. rewrite Nat.add_0_r in Hm.
            specialize (Hhead l Ha Hm). lia.
          + simpl in Hn. apply (Hall j r0 l Hn Ha). rewrite <- Hm. f_equal. lia.
        - destruct Hcase as [[HL HR]|[Hlt [j [r0 [Hn [Ha [Hm [HR Hearlier]]]]]]]].
          + subst L R. destruct Hacc as [[H1 H2]|[Hlt [Ha [Hm Hk]]]].
            * left. split; assumption.
            * right. split; [exact Hlt|]. exists 0, r. split; [reflexivity|].
              split; [exact Ha|]. rewrite Nat.add_0_r. split; [exact Hm|].
              split; [lia|]. intros j' r' l' Hj'. lia.
          + right. split; [lia|]. exists (S j), r0. split; [exact Hn|]. split; [exact Ha|].
            split; [rewrite <- Hm; f_equal; lia|]. split; [lia|].
            intros j' r' l' Hj' Hn' Ha' Hm'. destruct j' as [|j'].
            * simpl in Hn'. inversion Hn'; subst r'. rewrite Nat.add_0_r in Hm'.
              specialize (Hhead l' Ha' Hm'). lia.
            * simpl in Hn'. apply (Hearlier j' r' l'); [lia|exact Hn'|exact Ha'|].
              rewrite <- Hm'. f_equal. lia. }
      destruct (act cur r) eqn:Ea; simpl in H.
      + destruct (bd i); simpl in H; [|discriminate].
        destruct (m k i) as [len|] eqn:Em.
        * destruct (Nat.lt_ge_cases lo len) as [Hlt|Hge].
          -- rewrite (proj2 (Nat.ltb_lt _ _) Hlt) in H.
             apply (Hskip len k H); [lia| |].
             ++ intros l _ Hl. inversion Hl. lia.
             ++ right. split; [exact Hlt|]. split; [reflexivity|]. split; reflexivity.
          -- rewrite (proj2 (Nat.ltb_ge _ _) Hge) in H.
             apply (Hskip lo lr H); [lia| |].
             ++ intros l _ Hl. inversion Hl. lia.
             ++ left. split; reflexivity.
        * apply (Hskip lo lr H); [lia| |].
          -- intros l _ Hl. discriminate.
          -- left. split; reflexivity.
      + apply (Hskip lo lr H); [lia| |].
        * intros l Hf. discriminate.
        * left. split; reflexivity.
  Qed.

  Lemma act_active : forall cur r, act cur r = true <-> active cur r.
  Proof. intros cur r. apply inclusive_exclusive. Qed.

  (* the loop's answer, read declaratively *)
  Lemma scan_chosen : forall cur i L R,
    scan_rules m bd cur i rules 0 0 0 = Done (L, R) -> 0 < L -> chosen rules m cur i R L.
  Proof.
    intros cur i L R H HL.
    destruct (scan_spec _ _ _ _ _ _ _ _ H) as [_ [Hall [[H0 _]|[_ [j [r [Hn [Ha [Hm [HR Hearlier]]]]]]]]]].
    - lia.
    - simpl in HR. subst R. exists r. split; [exact Hn|]. split; [apply act_active; exact Ha|].
      split; [exact HL|]. split; [exact Hm|].
      intros j' r' l' Hn' Ha' Hm'. apply act_active in Ha'. split.
      + apply (Hall j' r' l' Hn' Ha' Hm').
      + intros Hlt. apply (Hearlier j' r' l' Hlt Hn' Ha' Hm').
  Qed.

  Lemma scan_no_match : forall cur i R,
    scan_rules m bd cur i rules 0 0 0 = Done (0, R) -> no_match rules m cur i.
  Proof.
    intros cur i R H j r l Hn Ha Hm. apply act_active in Ha.
    destruct (scan_spec _ _ _ _ _ _ _ _ H) as [_ [Hall _]].
    specialize (Hall j r l Hn Ha Hm). lia.
  Qed.

  Lemma chosen_not_no_match : forall cur i R L, chosen rules m cur i R L -> ~ no_match rules m cur i.
  Proof.
    intros cur i R L [r [Hn [Ha [HL [Hm _]]]]] Hno. specialize (Hno R r L Hn Ha Hm). lia.
  Qed.

  Lemma scan_not_fuel : forall cur i rs k lo lr, scan_rules m bd cur i rs k lo lr <> OutOfFuel.
  Proof.
    intros cur i rs. induction rs as [|r rs IH]; intros k lo lr; simpl; [discriminate|].
    destruct (negb (state_matches cur (r_states r))); [apply IH|].
    destruct (negb (bd i)); [discriminate|].
    destruct (m k i) as [len|]; [|apply IH]. destruct (lo <? len); apply IH.
  Qed.

  Lemma scan_done : forall cur i rs k lo lr, bd i = true ->
    exists L R, scan_rules m bd cur i rs k lo lr = Done (L, R).
  Proof.
    intros cur i rs. induction rs as [|r rs IH]; intros k lo lr Hb; simpl.
    - exists lo, lr. reflexivity.
    - destruct (negb (state_matches cur (r_states r))); [apply IH; exact Hb|].
      rewrite Hb. simpl.
      destruct (m k i) as [len|]; [|apply IH; exact Hb]. destruct (lo <? len); apply IH; exact Hb.
  Qed.

  (* ---- big-step reading of lex_loop ------------------------------------- *)

  Variable initial : sstate.

  (* the stack after a completed iteration with rule r *)
  Definition stack_after (r : rule) (stk stk' : stack) : Prop :=
    (r_target r = None /\ stk' = stk) \/
    (exists tid op state, r_target r = Some (tid, op) /\ get_state sts tid = Some state /\
       apply_op_rle initial stk op state = Some stk').

  Inductive run : nat -> stack -> result -> Prop :=
  | RunEnd : forall i stk (Hge : n <= i), run i stk (mk [] [] (StopEnd i))
  | RunEmpty : forall i (Hlt : i < n), run i [] (mk [LexErr i None] [] (StopEmptyStack i))
  | RunNoMatch : forall i c cur rest R (Hlt : i < n)
      (Hscan : scan_rules m bd cur i rules 0 0 0 = Done (0, R)),
      run i ((c, cur) :: rest) (mk [LexErr i (Some (ss_id cur))] [] (StopNoMatch i cur))
  | RunNoTok : forall i c cur rest L R r (Hlt : i < n)
      (Hscan : scan_rules m bd cur i rules 0 0 0 = Done (L, R)) (HL : 0 < L)
      (Hnth : nth_error rules R = Some r) (Hemit : emit r i L = None),
      run i ((c, cur) :: rest) (mk [LexErr i None] [] (StopNoTokId i R L))
  | RunNoTarget : forall i c cur rest L R r em tid op (Hlt : i < n)
      (Hscan : scan_rules m bd cur i rules 0 0 0 = Done (L, R)) (HL : 0 < L)
      (Hnth : nth_error rules R = Some r) (Hemit : emit r i L = Some em)
      (Htgt : r_target r = Some (tid, op)) (Hget : get_state sts tid = None),
      run i ((c, cur) :: rest) (mk (em ++ [LexErr i None]) [] (StopNoTarget i R L))
  | RunPopEmpty : forall i c cur rest L R r em tid op state (Hlt : i < n)
      (Hscan : scan_rules m bd cur i rules 0 0 0 = Done (L, R)) (HL : 0 < L)
      (Hnth : nth_error rules R = Some r) (Hemit : emit r i L = Some em)
      (Htgt : r_target r = Some (tid, op)) (Hget : get_state sts tid = Some state)
      (Hop : apply_op_rle initial ((c, cur) :: rest) op state = None),
      run i ((c, cur) :: rest) (mk (em ++ [LexErr i None]) [] (StopPopEmpty i R L))
  | RunStep : forall i c cur rest L R r em stk' res' (Hlt : i < n)
      (Hscan : scan_rules m bd cur i rules 0 0 0 = Done (L, R)) (HL : 0 < L)
      (Hnth : nth_error rules R = Some r) (Hemit : emit r i L = Some em)
      (Hafter : stack_after r ((c, cur) :: rest) stk')
      (Hrest : run (i + L) stk' res'),
      run i ((c, cur) :: rest)
          (mk (em ++ items res')
              ({| st_pos := i; st_stack := (c, cur) :: rest; st_rule := R; st_len := L |}
                 :: steps res')
              (stopped res')).

  Lemma nth_checked_done : forall (A : Type) (l : list A) i a,
    nth_checked l i = Done a -> nth_error l i = Some a.
  Proof. unfold nth_checked. intros A l i a. destruct (nth_error l i); intros H; inversion H; reflexivity. Qed.

  Lemma lex_loop_run : forall fuel i stk res,
    lex_loop rules sts m bd n initial fuel i stk = Done res -> run i stk res.
  Proof.
    induction fuel as [|fuel IH]; intros i stk res H.
    - simpl in H. destruct (n <=? i) eqn:E; [|discriminate].
      inversion H; subst. apply RunEnd. apply Nat.leb_le. exact E.
    - simpl in H. destruct (n <=? i) eqn:E.
      { inversion H; subst. apply RunEnd. apply Nat.leb_le. exact E. }
      apply Nat.leb_gt in E.
      destruct stk as [|[c cur] rest].
      { inversion H; subst. apply RunEmpty. exact E. }
      destruct (scan_rules m bd cur i rules 0 0 0) as [[L R]| |] eqn:Es; simpl in H; try discriminate.
      destruct (0 <? L) eqn:EL.
      2:{ apply Nat.ltb_ge in EL. assert (L = 0) by lia. subst L.
          inversion H; subst. eapply RunNoMatch; eauto. }
      apply Nat.ltb_lt in EL.
      destruct (nth_checked rules R) as [r| |] eqn:En; simpl in H; try discriminate.
      apply nth_checked_done in En.
      destruct (emit r i L) as [em|] eqn:Ee.
      2:{ inversion H; subst. eapply RunNoTok; eauto. }
      destruct (r_target r) as [[tid op]|] eqn:Et.
      + destruct (get_state sts tid) as [state|] eqn:Eg.
        2:{ inversion H; subst. eapply RunNoTarget; eauto. }
        destruct (apply_op_rle initial ((c, cur) :: rest) op state) as [stk'|] eqn:Eo.
        2:{ inversion H; subst. eapply RunPopEmpty; eauto. }
        destruct (lex_loop rules sts m bd n initial fuel (i + L) stk') as [res'| |] eqn:Er;
          simpl in H; try discriminate.
        inversion H; subst. eapply RunStep; eauto.
        right. exists tid, op, state. auto.
      + destruct (lex_loop rules sts m bd n initial fuel (i + L) ((c, cur) :: rest)) as [res'| |] eqn:Er;
          simpl in H; try discriminate.
        inversion H; subst. eapply RunStep; eauto.
        left. auto.
  Qed.

  (* ---- invariants of the stack ------------------------------------------ *)

  Definition inv (stk : stack) : Prop := rle_ok stk /\ stack_from_table sts stk /\ stk <> [].

  Hypothesis initial_from_table : from_table sts initial.

  Lemma get_state_from_table : forall tid s, get_state sts tid = Some s -> from_table sts s.
  Proof.
    unfold from_table, get_state. intros tid s H.
    destruct (find_some _ _ H) as [_ Hid]. apply Nat.eqb_eq in Hid. rewrite Hid. exact H.
  Qed.

  Lemma stack_after_inv : forall r stk stk', inv stk -> stack_after r stk stk' -> inv stk'.
  Proof.
    intros r stk stk' [Hok [Hft Hne]] [[_ Heq]|[tid [op [state [_ [Hg Ha]]]]]].
    - subst stk'. split; [|split]; assumption.
    - destruct (rle_stack_refines_stack sts initial stk op state Hok Hft
                  (get_state_from_table _ _ Hg) initial_from_table) as [_ [_ H]].
      destruct (H stk' Ha) as [H1 [H2 H3]]. split; [|split]; assumption.
  Qed.

  Lemma stack_after_next : forall r stk stk', inv stk -> stack_after r stk stk' ->
    next_stack sts initial stk r stk'.
  Proof.
    intros r stk stk' [Hok [Hft Hne]] [[Ht Heq]|[tid [op [state [Ht [Hg Ha]]]]]];
      unfold next_stack; rewrite Ht.
    - exact Heq.
    - exists state. split; [exact Hg|].
      destruct (rle_stack_refines_stack sts initial stk op state Hok Hft
                  (get_state_from_table _ _ Hg) initial_from_table) as [H _].
      rewrite Ha in H. simpl in H. symmetry. exact H.
  Qed.

  Lemma current_top : forall c cur rest, rle_ok ((c, cur) :: rest) ->
    current ((c, cur) :: rest) = Some cur.
  Proof.
    intros c cur rest H. inversion H as [|? ? Hc _]; subst. simpl in Hc.
    unfold current. simpl. destruct c as [|c]; [lia|]. reflexivity.
  Qed.

  Lemma emit_none : forall r i L, emit r i L = None -> exists nm, r_name r = Some nm /\ r_tok r = None.
  Proof.
    unfold emit. intros r i L H. destruct (r_name r) as [nm|]; [|discriminate].
    destruct (r_tok r); [discriminate|]. exists nm. split; reflexivity.
  Qed.

  Lemma emit_step_items : forall R r i L em, nth_error rules R = Some r -> emit r i L = Some em ->
    step_items rules R i L = em /\ (r_name r <> None -> r_tok r <> None).
  Proof.
    unfold emit, step_items. intros R r i L em Hn H. rewrite Hn.
    destruct (r_name r) as [nm|].
    - destruct (r_tok r) as [t|]; [|discriminate]. inversion H. split; [reflexivity|]. intros _. discriminate.
    - inversion H. split; [reflexivity|]. intros Hc. congruence.
  Qed.

  Definition wf_rules : Prop :=
    (forall r tid op, In r rules -> r_target r = Some (tid, op) ->
       exists s, get_state sts tid = Some s) /\
    (forall r nm, In r rules -> r_name r = Some nm -> exists t, r_tok r = Some t).

  (* ---- choice ------------------------------------------------------------ *)

  Lemma run_choice : forall i stk res, run i stk res -> inv stk ->
    (forall s, In s (steps res) ->
       exists cur, current (st_stack s) = Some cur /\
         chosen rules m cur (st_pos s) (st_rule s) (st_len s) /\ ~ no_match rules m cur (st_pos s)) /\
    (forall pos cur, stopped res = StopNoMatch pos cur -> no_match rules m cur pos) /\
    (wf_rules -> (exists pos, stopped res = StopEnd pos) \/
                 (exists pos cur, stopped res = StopNoMatch pos cur)) /\
    (forall pos, stopped res <> StopEmptyStack pos) /\
    (forall pos r l, stopped res <> StopPopEmpty pos r l).
  Proof.
    intros i stk res Hrun. induction Hrun; intros Hinv; simpl.
    - split; [intros s []|]. split; [discriminate|]. split; [intros _; left; eauto|].
      split; discriminate.
    - destruct Hinv as [_ [_ Hne]]. congruence.
    - split; [intros s []|]. split.
      { intros pos cur' Heq. inversion Heq; subst. eapply scan_no_match; eauto. }
      split; [intros _; right; eauto|]. split; discriminate.
    - split; [intros s []|]. split; [discriminate|]. split; [|split; discriminate].
      intros [_ Hw]. destruct (emit_none _ _ _ Hemit) as [nm [Hnm Ht]].
      destruct (Hw r nm (nth_error_In _ _ Hnth) Hnm) as [t Ht']. congruence.
    - split; [intros s []|]. split; [discriminate|]. split; [|split; discriminate].
      intros [Hw _]. destruct (Hw r tid op (nth_error_In _ _ Hnth) Htgt) as [s Hs]. congruence.
    - destruct Hinv as [Hok [Hft Hne]].
      destruct (rle_stack_refines_stack sts initial _ op state Hok Hft
                  (get_state_from_table _ _ Hget) initial_from_table) as [_ [Hsome _]].
      exfalso. apply (Hsome Hne). exact Hop.
    - destruct (IHHrun (stack_after_inv _ _ _ Hinv Hafter)) as [IH1 [IH2 [IH3 [IH4 IH5]]]].
      split; [|split; [|split; [|split]]]; try assumption.
      intros s [Hs|Hs]; [|apply IH1; exact Hs]. subst s. simpl.
      exists cur. split; [apply current_top; apply Hinv|].
      assert (Hc : chosen rules m cur i R L) by (eapply scan_chosen; eauto).
      split; [exact Hc|]. eapply chosen_not_no_match; eauto.
  Qed.

  (* ---- tiling ------------------------------------------------------------ *)

  Lemma run_tiles : forall i stk res, run i stk res ->
    contiguous i (steps res) (stop_pos (stopped res)) /\
    (forall s, In s (steps res) -> st_pos s < n) /\
    (forall pos, stopped res = StopEnd pos ->
       n <= pos /\ (oracle_in_bounds m n -> i <= n -> pos = n)) /\
    (forall pos cur, stopped res = StopNoMatch pos cur -> pos < n).
  Proof.
    intros i stk res Hrun. induction Hrun; simpl.
    - split; [reflexivity|]. split; [intros s []|]. split; [|discriminate].
      intros pos Heq. inversion Heq; subst. split; [assumption|]. intros _ Hle. lia.
    - split; [reflexivity|]. split; [intros s []|]. split; discriminate.
    - split; [reflexivity|]. split; [intros s []|]. split; [discriminate|].
      intros pos cur' Heq. inversion Heq; subst. assumption.
    - split; [reflexivity|]. split; [intros s []|]. split; discriminate.
    - split; [reflexivity|]. split; [intros s []|]. split; discriminate.
    - split; [reflexivity|]. split; [intros s []|]. split; discriminate.
    - destruct IHHrun as [IH1 [IH2 [IH3 IH4]]].
      split; [split; [reflexivity|split; [assumption|exact IH1]]|].
      split. { intros s [Hs|Hs]; [subst s; simpl; assumption|apply IH2; exact Hs]. }
      split; [|exact IH4].
      intros pos Heq. destruct (IH3 pos Heq) as [Hn Hb]. split; [exact Hn|].
      intros Hib _. apply Hb; [exact Hib|].
      destruct (scan_chosen _ _ _ _ Hscan HL) as [r0 [_ [_ [_ [Hm _]]]]].
      apply (Hib _ _ _ Hm).
  Qed.

  (* ---- emission ---------------------------------------------------------- *)

  Lemma run_emit : forall i stk res, run i stk res ->
    items res = flat_map (fun s => step_items rules (st_rule s) (st_pos s) (st_len s)) (steps res)
                ++ stop_items rules (stopped res) /\
    (forall s, In s (steps res) ->
       exists r, nth_error rules (st_rule s) = Some r /\ (r_name r <> None -> r_tok r <> None)).
  Proof.
    intros i stk res Hrun. induction Hrun; simpl.
    - split; [reflexivity|intros s []].
    - split; [reflexivity|intros s []].
    - split; [reflexivity|intros s []].
    - split; [reflexivity|intros s []].
    - destruct (emit_step_items _ _ _ _ _ Hnth Hemit) as [He _]. rewrite He.
      split; [reflexivity|intros s []].
    - destruct (emit_step_items _ _ _ _ _ Hnth Hemit) as [He _]. rewrite He.
      split; [reflexivity|intros s []].
    - destruct IHHrun as [IH1 IH2]. destruct (emit_step_items _ _ _ _ _ Hnth Hemit) as [He Hnt].
      split.
      + rewrite He, IH1, app_assoc. reflexivity.
      + intros s [Hs|Hs]; [|apply IH2; exact Hs]. subst s. simpl. exists r. split; assumption.
  Qed.

  (* ---- start-state stacks ------------------------------------------------ *)

  Lemma run_states : forall i stk res, run i stk res -> inv stk ->
    exists final,
      stacks_chain rules sts initial stk (steps res) final /\
      (forall s, In s (steps res) -> rle_ok (st_stack s) /\ st_stack s <> []) /\
      (forall pos cur, stopped res = StopNoMatch pos cur -> current final = Some cur).
  Proof.
    intros i stk res Hrun. induction Hrun; intros Hinv; simpl.
    - exists stk. split; [reflexivity|]. split; [intros s []|discriminate].
    - exists []. split; [reflexivity|]. split; [intros s []|discriminate].
    - exists ((c, cur) :: rest). split; [reflexivity|]. split; [intros s []|].
      intros pos cur' Heq. inversion Heq; subst. apply current_top. apply Hinv.
    - exists ((c, cur) :: rest). split; [reflexivity|]. split; [intros s []|discriminate].
    - exists ((c, cur) :: rest). split; [reflexivity|]. split; [intros s []|discriminate].
    - exists ((c, cur) :: rest). split; [reflexivity|]. split; [intros s []|discriminate].
    - destruct (IHHrun (stack_after_inv _ _ _ Hinv Hafter)) as [final [IH1 [IH2 IH3]]].
      exists final. split; [|split; [|exact IH3]].
      + split; [reflexivity|]. exists r, stk'. split; [assumption|].
        split; [apply stack_after_next; assumption|exact IH1].
      + intros s [Hs|Hs]; [|apply IH2; exact Hs]. subst s. simpl.
        destruct Hinv as [Hok [_ Hne]]. split; assumption.
  Qed.

  (* ---- totality ---------------------------------------------------------- *)

  Lemma lex_loop_not_fuel : forall fuel i stk, n < i + fuel ->
    lex_loop rules sts m bd n initial fuel i stk <> OutOfFuel.
  Proof.
    induction fuel as [|fuel IH]; intros i stk Hf; simpl.
    - destruct (n <=? i) eqn:E; [discriminate|]. apply Nat.leb_gt in E. lia.
    - destruct (n <=? i) eqn:E; [discriminate|]. apply Nat.leb_gt in E.
      destruct stk as [|[c cur] rest]; [discriminate|].
      destruct (scan_rules m bd cur i rules 0 0 0) as [[L R]| |] eqn:Es; simpl; try discriminate.
      { destruct (0 <? L) eqn:EL; [|discriminate]. apply Nat.ltb_lt in EL.
        destruct (nth_checked rules R) as [r| |] eqn:En; simpl; try discriminate.
        2:{ unfold nth_checked in En. destruct (nth_error rules R); discriminate. }
        destruct (emit r i L) as [em|]; [|discriminate].
        assert (Hrec : forall stk', (do res <- lex_loop rules sts m bd n initial fuel (i + L) stk';
                   Done (mk (em ++ items res)
                            ({| st_pos := i; st_stack := (c, cur) :: rest; st_rule := R; st_len := L |}
                               :: steps res) (stopped res))) <> OutOfFuel).
        { intros stk'. specialize (IH (i + L) stk').
          destruct (lex_loop rules sts m bd n initial fuel (i + L) stk'); simpl; try discriminate.
          intros _. apply IH; [lia|reflexivity]. }
        destruct (r_target r) as [[tid op]|]; [|apply Hrec].
        destruct (get_state sts tid) as [state|]; [|discriminate].
        destruct (apply_op_rle initial ((c, cur) :: rest) op state); [apply Hrec|discriminate]. }
      exfalso. eapply scan_not_fuel; eauto.
  Qed.

  Lemma lex_loop_done : forall fuel i stk,
    oracle_on_boundaries m bd -> bd i = true -> n < i + fuel ->
    exists res, lex_loop rules sts m bd n initial fuel i stk = Done res.
  Proof.
    intros fuel i stk Hob. revert i stk.
    induction fuel as [|fuel IH]; intros i stk Hb Hf; simpl.
    - destruct (n <=? i) eqn:E; [eauto|]. apply Nat.leb_gt in E. lia.
    - destruct (n <=? i) eqn:E; [eauto|]. apply Nat.leb_gt in E.
      destruct stk as [|[c cur] rest]; [eauto|].
      destruct (scan_done cur i rules 0 0 0 Hb) as [L [R Hs]]. rewrite Hs. simpl.
      destruct (0 <? L) eqn:EL; [|eauto]. apply Nat.ltb_lt in EL.
      destruct (scan_chosen _ _ _ _ Hs EL) as [r [Hn [_ [_ [Hm _]]]]].
      unfold nth_checked. rewrite Hn. simpl.
      destruct (emit r i L) as [em|]; [|eauto].
      assert (Hrec : forall stk', exists res,
                 (do res <- lex_loop rules sts m bd n initial fuel (i + L) stk';
                   Done (mk (em ++ items res)
                            ({| st_pos := i; st_stack := (c, cur) :: rest; st_rule := R; st_len := L |}
                               :: steps res) (stopped res))) = Done res).
      { intros stk'. destruct (IH (i + L) stk') as [res' Hr].
        - destruct Hob as [_ Hob]. eapply Hob; eauto.
        - lia.
        - rewrite Hr. simpl. eauto. }
      destruct (r_target r) as [[tid op]|]; [|apply Hrec].
      destruct (get_state sts tid) as [state|]; [|eauto].
      destruct (apply_op_rle initial ((c, cur) :: rest) op state); [apply Hrec|eauto].
  Qed.
End RunProofs.

(* ---- the statements ------------------------------------------------------ *)

Lemma initial_inv : forall sts initial, get_state sts 0 = Some initial ->
  from_table sts initial /\ inv sts [(1, initial)].
Proof.
  intros sts initial H. assert (Hf : from_table sts initial) by (eapply get_state_from_table; eauto).
  split; [exact Hf|]. split; [|split].
  - constructor; [simpl; lia|constructor].
  - constructor; [exact Hf|constructor].
  - discriminate.
Qed.

Lemma lex_total : lex_total_stmt.
Proof.
  intros rules sts m bd n. unfold lex_total_at, lex. split.
  - destruct (get_state sts 0) as [initial|]; [|discriminate].
    apply lex_loop_not_fuel. lia.
  - intros Hob. destruct (get_state sts 0) as [initial|]; [|eauto].
    apply lex_loop_done; [exact Hob|apply Hob|lia].
Qed.

Lemma lex_choice_spec : lex_choice_spec_stmt.
Proof.
  intros rules sts m bd n res H. unfold lex in H.
  destruct (get_state sts 0) as [initial|] eqn:E0.
  - destruct (initial_inv _ _ E0) as [Hf Hinv].
    apply lex_loop_run in H.
    destruct (run_choice rules sts m bd n initial Hf _ _ _ H Hinv) as [H1 [H2 [H3 [H4 H5]]]].
    split; [exact H1|]. split; [exact H2|]. split; [|split; assumption].
    intros [_ [Hw1 Hw2]]. apply H3. split; assumption.
  - inversion H; subst. simpl. split; [intros s []|]. split; [discriminate|].
    split; [|split; discriminate].
    intros [[s0 Hs0] _]. rewrite E0 in Hs0. discriminate.
Qed.

Lemma lex_tiles : lex_tiles_stmt.
Proof.
  intros rules sts m bd n res H. unfold lex in H.
  destruct (get_state sts 0) as [initial|] eqn:E0.
  - apply lex_loop_run in H.
    destruct (run_tiles rules sts m bd n initial _ _ _ H) as [H1 [H2 [H3 H4]]].
    split; [exact H1|]. split; [exact H2|]. split; [|exact H4].
    intros pos Hp. destruct (H3 pos Hp) as [Ha Hb]. split; [exact Ha|].
    intros Hib. apply Hb; [exact Hib|lia].
  - inversion H; subst. simpl. split; [reflexivity|]. split; [intros s []|].
    split; discriminate.
Qed.

Lemma named_emit_unnamed_skip : named_emit_unnamed_skip_stmt.
Proof.
  intros rules sts m bd n res H. unfold lex in H.
  destruct (get_state sts 0) as [initial|] eqn:E0.
  - apply lex_loop_run in H. apply (run_emit rules sts m bd n initial _ _ _ H).
  - inversion H; subst. simpl. split; [reflexivity|intros s []].
Qed.

Lemma lex_states : lex_states_stmt.
Proof.
  intros rules sts m bd n initial res E0 H. unfold lex in H. rewrite E0 in H.
  destruct (initial_inv _ _ E0) as [Hf Hinv].
  apply lex_loop_run in H.
  apply (run_states rules sts m bd n initial Hf _ _ _ H Hinv).
Qed.

(* the hypotheses of the conditional clauses are satisfiable, and the theorems
   speak about a run that exercises push, a repeated push, pops down to and
   past the bottom, a tie and a skip rule *)
Module Example.
  Definition INITIAL := {| ss_id := 0; ss_excl := false |}.
  Definition X := {| ss_id := 1; ss_excl := true |}.
  Definition ex_sts := [INITIAL; X].
  (* 0: "ab" 'KW'   1: [a-z]+ 'ID'   2: "(" <+X> ;   3: <X>"(" <+X> 'OPEN'
     4: <X,INITIAL>")" <-X> 'CLOSE'  5: <X>[a-z] 'CH' *)
  Definition ex_rules := [
    {| r_name := Some 0; r_tok := Some 10; r_states := []; r_target := None |};
    {| r_name := Some 1; r_tok := Some 11; r_states := []; r_target := None |};
    {| r_name := None; r_tok := Some 2; r_states := []; r_target := Some (1, Push) |};
    {| r_name := Some 3; r_tok := Some 13; r_states := [1]; r_target := Some (1, Push) |};
    {| r_name := Some 4; r_tok := Some 14; r_states := [1; 0]; r_target := Some (1, Pop) |};
    {| r_name := Some 5; r_tok := Some 15; r_states := [1]; r_target := None |} ].
  (* input: a b ( ( a ) ) ) a ?     (10 bytes) *)
  Definition ex_m (r p : nat) : option nat :=
    match r, p with
    | 0, 0 => Some 2 | 1, 0 => Some 2 | 1, 1 => Some 1
    | 2, 2 | 2, 3 | 3, 2 | 3, 3 => Some 1
    | 1, 4 | 5, 4 => Some 1
    | 4, 5 | 4, 6 | 4, 7 => Some 1
    | 1, 8 | 5, 8 => Some 1
    | _, _ => None
    end.
  Definition ex_bd (p : nat) := true.

  Example ex_wf : wf_spec ex_rules ex_sts.
  Proof.
    split; [exists INITIAL; reflexivity|]. split.
    - intros r tid op Hin Ht. simpl in Hin.
      repeat (destruct Hin as [Hin|Hin]; [subst r; simpl in Ht; try discriminate;
                                          inversion Ht; subst; eexists; reflexivity|]).
      destruct Hin.
    - intros r nm Hin Hn. simpl in Hin.
      repeat (destruct Hin as [Hin|Hin]; [subst r; simpl; eexists; reflexivity|]).
      destruct Hin.
  Qed.

  Example ex_oracle : oracle_on_boundaries ex_m ex_bd /\ oracle_in_bounds ex_m 10.
  Proof.
    split; [split; [reflexivity|intros; reflexivity]|].
    intros r p l H. unfold ex_m in H.
    do 6 (destruct r as [|r]; [do 9 (destruct p as [|p]; [inversion H; lia|]); try discriminate|]);
      try discriminate.
    all: destruct p; discriminate.
  Qed.

  Example ex_run :
    option_map (fun r => (items r, map st_stack (steps r), stopped r))
      (match lex ex_rules ex_sts ex_m ex_bd 10 with Done r => Some r | _ => None end) =
    Some ([Lexeme 10 0 2; Lexeme 13 3 1; Lexeme 15 4 1; Lexeme 14 5 1; Lexeme 14 6 1;
           Lexeme 14 7 1; Lexeme 11 8 1; LexErr 9 (Some 0)],
          [[(1, INITIAL)]; [(1, INITIAL)]; [(1, X); (1, INITIAL)]; [(2, X); (1, INITIAL)];
           [(2, X); (1, INITIAL)]; [(1, X); (1, INITIAL)]; [(1, INITIAL)]; [(1, INITIAL)]],
          StopNoMatch 9 INITIAL).
  Proof. vm_compute. reflexivity. Qed.
End Example.

(* ---- set_rule_ids -------------------------------------------------------- *)

Lemma mem_In : forall k l, mem k l = true <-> In k l.
Proof.
  intros k l. unfold mem. rewrite existsb_exists. split.
  - intros [x [Hin Hx]]. apply Nat.eqb_eq in Hx. subst x. exact Hin.
  - intros H. exists k. split; [exact H|apply Nat.eqb_refl].
Qed.

Lemma mem_false : forall k l, mem k l = false <-> ~ In k l.
Proof.
  intros k l. rewrite <- mem_In. destruct (mem k l); split; intros H; congruence.
Qed.

Lemma map_get_mem : forall mp k, (map_get mp k = None <-> mem k (map fst mp) = false).
Proof.
  intros mp k. unfold map_get. induction mp as [|[a b] mp IH]; simpl.
  - split; reflexivity.
  - destruct (a =? k) eqn:E; simpl.
    + split; discriminate.
    + exact IH.
Qed.

Definition in_map (mp : list (nat * nat)) (nm : nat) : bool := mem nm (map fst mp).

Lemma filter_partition_length : forall (A : Type) (f : A -> bool) l,
  length (filter f l) + length (filter (fun x => negb (f x)) l) = length l.
Proof.
  intros A f l. induction l as [|x l IH]; simpl; [reflexivity|].
  destruct (f x); simpl; lia.
Qed.

Lemma set_ids_loop_spec : forall mp rs (pre : list rule) rs2 miss cnt,
  set_ids_loop mp rs (length pre) = (rs2, miss, cnt) ->
  Forall2 (assigned mp) rs rs2 /\
  rule_names rs2 = rule_names rs /\
  cnt = length (rule_names rs) /\
  length miss = length (filter (fun nm => negb (in_map mp nm)) (rule_names rs)) /\
  (forall pre2 : list rule, length pre2 = length pre ->
     names_at (pre2 ++ rs2) miss = Done (filter (fun nm => negb (in_map mp nm)) (rule_names rs))).
Proof.
  intros mp rs. induction rs as [|r rs IH]; intros pre rs2 miss cnt H.
  - simpl in H. inversion H; subst. simpl. repeat split; try constructor.
  - simpl in H.
    destruct (set_ids_loop mp rs (S (length pre))) as [[rs2' miss'] cnt'] eqn:E.
    replace (S (length pre)) with (length (pre ++ [r])) in E by (rewrite app_length; simpl; lia).
    destruct (IH _ _ _ _ E) as [IH1 [IH2 [IH3 [IH4 IH5]]]].
    assert (Hshift : forall pre2 r', length pre2 = length pre ->
              names_at (pre2 ++ r' :: rs2') miss' =
              Done (filter (fun nm => negb (in_map mp nm)) (rule_names rs))).
    { intros pre2 r' Hl. specialize (IH5 (pre2 ++ [r'])).
      rewrite <- app_assoc in IH5. simpl in IH5. apply IH5.
      rewrite !app_length. simpl. lia. }
    destruct (r_name r) as [nm|] eqn:En.
    + destruct (map_get mp nm) as [t|] eqn:Eg.
      * inversion H; subst. simpl. rewrite En. simpl.
        assert (Hm : in_map mp nm = true).
        { unfold in_map. destruct (mem nm (map fst mp)) eqn:Em; [reflexivity|].
          apply map_get_mem in Em. congruence. }
        rewrite Hm. simpl.
        split; [constructor; [unfold assigned; rewrite En, Eg; reflexivity|exact IH1]|].
        split; [rewrite IH2; reflexivity|]. split; [reflexivity|]. split; [exact IH4|].
        intros pre2 Hl. apply Hshift. exact Hl.
      * inversion H; subst. simpl. rewrite En. simpl.
        assert (Hm : in_map mp nm = false) by (apply map_get_mem; exact Eg).
        rewrite Hm. simpl.
        split; [constructor; [unfold assigned; rewrite En, Eg; reflexivity|exact IH1]|].
        split; [rewrite IH2; reflexivity|]. split; [reflexivity|]. split; [rewrite IH4; reflexivity|].
        intros pre2 Hl. unfold nth_checked.
        rewrite nth_error_app2 by lia. rewrite Hl, Nat.sub_diag. simpl. rewrite En.
        rewrite (Hshift pre2 _ Hl). reflexivity.
    + inversion H; subst. simpl. rewrite En.
      split; [constructor; [unfold assigned; rewrite En; reflexivity|exact IH1]|].
      split; [exact IH2|]. split; [reflexivity|]. split; [exact IH4|].
      intros pre2 Hl. apply Hshift. exact Hl.
Qed.

Lemma NoDup_filter : forall (A : Type) (f : A -> bool) l, NoDup l -> NoDup (filter f l).
Proof.
  intros A f l H. induction H as [|x l Hx Hl IH]; simpl; [constructor|].
  destruct (f x); [|exact IH]. constructor; [|exact IH].
  intros Hin. apply filter_In in Hin. apply Hx. apply Hin.
Qed.

Lemma set_rule_ids_exact : set_rule_ids_exact_stmt.
Proof.
  intros mp rs Hkeys Hnames. unfold set_rule_ids.
  destruct (set_ids_loop mp rs 0) as [[rs2 miss] cnt] eqn:E.
  change 0 with (length (@nil rule)) in E.
  destruct (set_ids_loop_spec _ _ _ _ _ _ E) as [H1 [H2 [H3 [H4 H5]]]].
  specialize (H5 [] eq_refl). simpl in H5.
  set (notin := filter (fun nm => negb (in_map mp nm)) (rule_names rs)) in *.
  set (inm := filter (in_map mp) (rule_names rs)).
  assert (Hpart : length inm + length notin = length (rule_names rs))
    by apply filter_partition_length.
  assert (Hcnt : (cnt <? length miss) = false) by (apply Nat.ltb_ge; lia).
  assert (Hdiff : cnt - length miss = length inm) by lia.
  assert (Hinm_nodup : NoDup inm) by (apply NoDup_filter; exact Hnames).
  assert (Hinm_incl : incl inm (map fst mp)).
  { intros k Hk. apply filter_In in Hk. apply mem_In. apply Hk. }
  (* the second component *)
  assert (Hmfp : exists mfp,
            match miss with [] => Done None | _ :: _ => do l <- names_at rs2 miss; Done (Some l) end
            = Done mfp /\ oset mfp = notin /\ mfp <> Some []).
  { destruct miss as [|i0 miss'].
    - exists None. split; [reflexivity|]. split; [|discriminate].
      simpl in H4. destruct notin; [reflexivity|discriminate].
    - rewrite H5. simpl. exists (Some notin). split; [reflexivity|]. split; [reflexivity|].
      intros Hc. inversion Hc as [Hc']. rewrite Hc' in H4. discriminate. }
  destruct Hmfp as [mfp [Hmfp1 [Hmfp2 Hmfp3]]]. rewrite Hmfp1. simpl. rewrite Hcnt.
  eexists rs2, _, mfp. split; [reflexivity|]. split; [exact H1|].
  rewrite Hdiff, H2. split; [|split; [|split; [|exact Hmfp3]]].
  - intros k. destruct (length inm =? length mp) eqn:El.
    + simpl. split; [intros []|]. intros [Hk Hnk]. apply Nat.eqb_eq in El.
      assert (Hincl : incl (map fst mp) inm).
      { apply NoDup_length_incl; [exact Hinm_nodup| |exact Hinm_incl].
        rewrite map_length. lia. }
      apply Hnk. apply Hincl in Hk. apply filter_In in Hk. apply Hk.
    + simpl. rewrite filter_In. split.
      * intros [Hk Hn]. split; [exact Hk|]. apply mem_false. destruct (mem k (rule_names rs)); [discriminate|reflexivity].
      * intros [Hk Hn]. split; [exact Hk|]. apply mem_false in Hn. rewrite Hn. reflexivity.
  - intros k. rewrite Hmfp2. unfold notin. rewrite filter_In. unfold in_map. split.
    + intros [Hk Hn]. split; [exact Hk|]. apply mem_false. destruct (mem k (map fst mp)); [discriminate|reflexivity].
    + intros [Hk Hn]. split; [exact Hk|]. apply mem_false in Hn. rewrite Hn. reflexivity.
  - destruct (length inm =? length mp) eqn:El; [discriminate|].
    intros Hc. inversion Hc as [Hc']. apply Nat.eqb_neq in El. apply El.
    (* every key is a rule name, so the named rules found in the map are all keys *)
    assert (Hincl : incl (map fst mp) inm).
    { intros k Hk. apply filter_In. unfold in_map. split; [|apply mem_In; exact Hk].
      destruct (mem k (rule_names rs)) eqn:Em; [apply mem_In; exact Em|].
      assert (Hin : In k (filter (fun k0 => negb (mem k0 (rule_names rs))) (map fst mp)))
        by (apply filter_In; split; [exact Hk|rewrite Em; reflexivity]).
      rewrite Hc' in Hin. destruct Hin. }
    pose proof (NoDup_incl_length Hkeys Hincl) as Hle1.
    pose proof (NoDup_incl_length Hinm_nodup Hinm_incl) as Hle2.
    rewrite map_length in Hle1, Hle2. lia.
Qed.

Lemma set_rule_ids_dup_names_refuted : set_rule_ids_dup_names_refuted_stmt.
Proof.
  exists [(0, 0); (1, 1)].
  exists [ {| r_name := Some 0; r_tok := Some 0; r_states := []; r_target := None |};
           {| r_name := Some 0; r_tok := Some 1; r_states := [1]; r_target := None |} ].
  eexists. exists None. split.
  - constructor; [simpl; intros [H|[]]; discriminate|]. constructor; [intros []|constructor].
  - split; [vm_compute; reflexivity|]. exists 1. split; [simpl; auto|].
    simpl. intros [H|[H|[]]]; discriminate.
Qed.

(* set_rule_ids on the example rules with the map {0 -> 7, 4 -> 9, 8 -> 1}:
   name 8 is missing from the lexer, names 1, 3, 5 are missing from the map;
   the unnamed rule keeps its id *)
Example ex_ids :
  set_rule_ids [(0, 7); (4, 9); (8, 1)] Example.ex_rules =
  Done (map (fun rt => set_tok (fst rt) (snd rt))
          (combine Example.ex_rules [Some 7; None; Some 2; None; Some 9; None]),
        Some [8], Some [1; 3; 5]).
Proof. vm_compute. reflexivity. Qed.

