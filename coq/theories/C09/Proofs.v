(* C09 — proofs of the statements of Spec.v about the mirror of Model.v. *)
From Coq Require Import List Arith Bool Lia.
From GV Require Import Common.Outcome C09.Model C09.Spec.
Import ListNotations.

(* ---- inclusive / exclusive ---------------------------------------------- *)

Lemma inclusive_exclusive : inclusive_exclusive_stmt.
Proof.
  intros cur r. unfold state_matches, active.
  destruct (r_states r) as [|x l] eqn:E.
  - split.
    + intros H. left. split; [reflexivity|]. destruct (ss_excl cur); simpl in H; congruence.
    + intros [[_ H]|H]; [rewrite H; reflexivity | destruct H].
  - rewrite existsb_exists. split.
    + intros [y [Hin Hy]]. right. apply Nat.eqb_eq in Hy. subst y. exact Hin.
    + intros [[H _]|H]; [discriminate|]. exists (ss_id cur). split; [exact H|apply Nat.eqb_refl].
Qed.

(* ---- run-length encoded stack vs plain stack ---------------------------- *)

Lemma repeat_succ_r : forall (A : Type) (x : A) c, repeat x (c + 1) = x :: repeat x c.
Proof. intros A x c. rewrite Nat.add_1_r. reflexivity. Qed.

Lemma from_table_same_id : forall sts a b,
  from_table sts a -> from_table sts b -> ss_id a = ss_id b -> a = b.
Proof.
  unfold from_table. intros sts a b Ha Hb Hid. rewrite Hid in Ha. rewrite Ha in Hb.
  congruence.
Qed.

Lemma rle_stack_refines_stack : rle_stack_refines_stack_stmt.
Proof.
  intros sts initial st op state Hok Hft Hstate Hinit.
  destruct op.
  - (* ReplaceStack *)
    simpl. split; [reflexivity|]. split; [discriminate|].
    intros st' H. inversion H; subst st'. split; [|split].
    + constructor; [simpl; lia|constructor].
    + constructor; [exact Hstate|constructor].
    + discriminate.
  - (* Push *)
    destruct st as [|[count s] rest].
    + simpl. split; [reflexivity|]. split; [discriminate|].
      intros st' H. inversion H; subst st'. split; [|split].
      * constructor; [simpl; lia|constructor].
      * constructor; [exact Hstate|constructor].
      * discriminate.
    + simpl. inversion Hok as [|? ? Hc Hok']; subst. inversion Hft as [|? ? Hs Hft']; subst.
      simpl in Hc, Hs.
      destruct (ss_id s =? ss_id state) eqn:E.
      * apply Nat.eqb_eq in E. assert (s = state) by (eapply from_table_same_id; eauto). subst s.
        split; [simpl; rewrite repeat_succ_r; reflexivity|]. split; [discriminate|].
        intros st' H. inversion H; subst st'. split; [|split].
        -- constructor; [simpl; lia|exact Hok'].
        -- constructor; [exact Hs|exact Hft'].
        -- discriminate.
      * split; [reflexivity|]. split; [discriminate|].
        intros st' H. inversion H; subst st'. split; [|split].
        -- constructor; [simpl; lia|exact Hok].
        -- constructor; [exact Hstate|exact Hft].
        -- discriminate.
  - (* Pop *)
    destruct st as [|[count s] rest].
    + simpl. split; [reflexivity|]. split; [intros H; congruence|]. intros st' H. discriminate.
    + inversion Hok as [|? ? Hc Hok']; subst. inversion Hft as [|? ? Hs Hft']; subst.
      simpl in Hc, Hs. simpl apply_op_rle.
      destruct (1 <? count) eqn:E.
      * apply Nat.ltb_lt in E.
        split; [|split; [discriminate|]].
        -- simpl. destruct count as [|[|c]]; try lia. simpl. reflexivity.
        -- intros st' H. inversion H; subst st'. split; [|split].
           ++ constructor; [simpl; lia|exact Hok'].
           ++ constructor; [exact Hs|exact Hft'].
           ++ discriminate.
      * apply Nat.ltb_ge in E. assert (count = 1) by lia. subst count.
        destruct rest as [|[c2 s2] rest2].
        -- split; [reflexivity|]. split; [discriminate|].
           intros st' H. inversion H; subst st'. split; [|split].
           ++ constructor; [simpl; lia|constructor].
           ++ constructor; [exact Hinit|constructor].
           ++ discriminate.
        -- split; [|split; [discriminate|]].
           ++ inversion Hok' as [|? ? Hc2 _]; subst. simpl in Hc2.
              destruct c2 as [|c2]; [lia|]. reflexivity.
           ++ intros st' H. inversion H; subst st'. split; [|split].
              ** exact Hok'.
              ** exact Hft'.
              ** discriminate.
Qed.

(* ---- the rule loop ------------------------------------------------------ *)

Section RunProofs.
  Variable rules : list rule.
  Variable sts : list sstate.
  Variable m : nat -> nat -> option nat.
  Variable bd : nat -> bool.
  Variable n : nat.

  Definition act (cur : sstate) (r : rule) : bool := state_matches cur (r_states r).

  Lemma scan_spec : forall cur i rs k lo lr L R,
    scan_rules m bd cur i rs k lo lr = Done (L, R) ->
    lo <= L /\
    (forall j r l, nth_error rs j = Some r -> act cur r = true -> m (k + j) i = Some l -> l <= L) /\
    ((L = lo /\ R = lr) \/
     (lo < L /\ exists j r, nth_error rs j = Some r /\ act cur r = true /\
        m (k + j) i = Some L /\ R = k + j /\
        forall j' r' l', j' < j -> nth_error rs j' = Some r' -> act cur r' = true ->
          m (k + j') i = Some l' -> l' < L)).
  Proof.
    intros cur i rs. induction rs as [|r rs IH]; intros k lo lr L R H.
    - simpl in H. inversion H; subst. split; [lia|]. split.
      + intros j r l Hn. destruct j; discriminate.
      + left. split; reflexivity.
    - simpl in H. fold (act cur r) in H.
      (* what to do with the result of the recursive call on the tail *)
      assert (Hskip : forall lo' lr',
                scan_rules m bd cur i rs (S k) lo' lr' = Done (L, R) ->
                lo <= lo' ->
                (forall l, act cur r = true -> m k i = Some l -> l <= lo') ->
                ((lo' = lo /\ lr' = lr) \/
                 (lo < lo' /\ act cur r = true /\ m k i = Some lo' /\ lr' = k)) ->
                lo <= L /\
                (forall j r0 l, nth_error (r :: rs) j = Some r0 -> act cur r0 = true ->
                                m (k + j) i = Some l -> l <= L) /\
                ((L = lo /\ R = lr) \/
                 (lo < L /\ exists j r0, nth_error (r :: rs) j = Some r0 /\ act cur r0 = true /\
                    m (k + j) i = Some L /\ R = k + j /\
                    forall j' r' l', j' < j -> nth_error (r :: rs) j' = Some r' ->
                      act cur r' = true -> m (k + j') i = Some l' -> l' < L))).
      { intros lo' lr' Hrec Hlo Hhead Hacc.
        destruct (IH _ _ _ _ _ Hrec) as [Hle [Hall Hcase]].
        split; [lia|]. split.
        - intros j r0 l Hn Ha Hm. destruct j as [|j].
          + simpl in Hn. inversion Hn; subst r0. rewrite Nat.add_0_r in Hm.
            specialize (Hhead l Ha Hm). lia.
          + simpl in Hn. apply (Hall j r0 l Hn Ha). rewrite <- Hm. f_equal. lia.
        - destruct Hcase as [[HL HR]|[Hlt [j [r0 [Hn [Ha [Hm [HR Hearlier]]]]]]]].
          + subst L R. destruct Hacc as [[H1 H2]|[Hlt [Ha [Hm Hk]]]].
            * left. split; assumption.
            * right. split; [exact Hlt|]. exists 0, r. split; [reflexivity|].
              split; [exact Ha|]. rewrite Nat.add_0_r. split; [exact Hm|].
              split; [lia|]. intros j' r' l' Hj'. lia.
          + right. split; [lia|]. exists (S j), r0. split; [exact Hn|]. split; [exact Ha|].
            split; [rewrite <- Hm; f_equal; lia|]. split; [lia|].
            intros j' r' l' Hj' Hn' Ha' Hm'. destruct j' as [|j'].
            * simpl in Hn'. inversion Hn'; subst r'. rewrite Nat.add_0_r in Hm'.
              specialize (Hhead l' Ha' Hm'). lia.
            * simpl in Hn'. apply (Hearlier j' r' l'); [lia|exact Hn'|exact Ha'|].
              rewrite <- Hm'. f_equal. lia. }
      destruct (act cur r) eqn:Ea; simpl in H.
      + destruct (bd i); simpl in H; [|discriminate].
        destruct (m k i) as [len|] eqn:Em.
        * destruct (Nat.lt_ge_cases lo len) as [Hlt|Hge].
          -- rewrite (proj2 (Nat.ltb_lt _ _) Hlt) in H.
             apply (Hskip len k H); [lia| |].
             ++ intros l _ Hl. inversion Hl. lia.
             ++ right. split; [exact Hlt|]. split; [reflexivity|]. split; reflexivity.
          -- rewrite (proj2 (Nat.ltb_ge _ _) Hge) in H.
             apply (Hskip lo lr H); [lia| |].
             ++ intros l _ Hl. inversion Hl. lia.
             ++ left. split; reflexivity.
        * apply (Hskip lo lr H); [lia| |].
          -- intros l _ Hl. discriminate.
          -- left. split; reflexivity.
      + apply (Hskip lo lr H); [lia| |].
        * intros l Hf. discriminate.
        * left. split; reflexivity.
  Qed.

  Lemma act_active : forall cur r, act cur r = true <-> active cur r.
  Proof. intros cur r. apply inclusive_exclusive. Qed.

  (* the loop's answer, read declaratively *)
  Lemma scan_chosen : forall cur i L R,
    scan_rules m bd cur i rules 0 0 0 = Done (L, R) -> 0 < L -> chosen rules m cur i R L.
  Proof.
    intros cur i L R H HL.
    destruct (scan_spec _ _ _ _ _ _ _ _ H) as [_ [Hall [[H0 _]|[_ [j [r [Hn [Ha [Hm [HR Hearlier]]]]]]]]]].
    - lia.
    - simpl in HR. subst R. exists r. split; [exact Hn|]. split; [apply act_active; exact Ha|].
      split; [exact HL|]. split; [exact Hm|].
      intros j' r' l' Hn' Ha' Hm'. apply act_active in Ha'. split.
      + apply (Hall j' r' l' Hn' Ha' Hm').
      + intros Hlt. apply (Hearlier j' r' l' Hlt Hn' Ha' Hm').
  Qed.

  Lemma scan_no_match : forall cur i R,
    scan_rules m bd cur i rules 0 0 0 = Done (0, R) -> no_match rules m cur i.
  Proof.
    intros cur i R H j r l Hn Ha Hm. apply act_active in Ha.
    destruct (scan_spec _ _ _ _ _ _ _ _ H) as [_ [Hall _]].
    specialize (Hall j r l Hn Ha Hm). lia.
  Qed.

  Lemma chosen_not_no_match : forall cur i R L, chosen rules m cur i R L -> ~ no_match rules m cur i.
  Proof.
    intros cur i R L [r [Hn [Ha [HL [Hm _]]]]] Hno. specialize (Hno R r L Hn Ha Hm). lia.
  Qed.

  Lemma scan_not_fuel : forall cur i rs k lo lr, scan_rules m bd cur i rs k lo lr <> OutOfFuel.
  Proof.
    intros cur i rs. induction rs as [|r rs IH]; intros k lo lr; simpl; [discriminate|].
    destruct (negb (state_matches cur (r_states r))); [apply IH|].
    destruct (negb (bd i)); [discriminate|].
    destruct (m k i) as [len|]; [|apply IH]. destruct (lo <? len); apply IH.
  Qed.

  Lemma scan_done : forall cur i rs k lo lr, bd i = true ->
    exists L R, scan_rules m bd cur i rs k lo lr = Done (L, R).
  Proof.
    intros cur i rs. induction rs as [|r rs IH]; intros k lo lr Hb; simpl.
    - exists lo, lr. reflexivity.
    - destruct (negb (state_matches cur (r_states r))); [apply IH; exact Hb|].
      rewrite Hb. simpl.
      destruct (m k i) as [len|]; [|apply IH; exact Hb]. destruct (lo <? len); apply IH; exact Hb.
  Qed.

  (* ---- big-step reading of lex_loop ------------------------------------- *)

  Variable initial : sstate.

  (* the stack after a completed iteration with rule r *)
  Definition stack_after (r : rule) (stk stk' : stack) : Prop :=
    (r_target r = None /\ stk' = stk) \/
    (exists tid op state, r_target r = Some (tid, op) /\ get_state sts tid = Some state /\
       apply_op_rle initial stk op state = Some stk').

  Inductive run : nat -> stack -> result -> Prop :=
  | RunEnd : forall i stk, n <= i -> run i stk (mk [] [] (StopEnd i))
  | RunEmpty : forall i, i < n -> run i [] (mk [LexErr i None] [] (StopEmptyStack i))
  | RunNoMatch : forall i c cur rest R, i < n ->
      scan_rules m bd cur i rules 0 0 0 = Done (0, R) ->
      run i ((c, cur) :: rest) (mk [LexErr i (Some (ss_id cur))] [] (StopNoMatch i cur))
  | RunNoTok : forall i c cur rest L R r, i < n ->
      scan_rules m bd cur i rules 0 0 0 = Done (L, R) -> 0 < L ->
      nth_error rules R = Some r -> emit r i L = None ->
      run i ((c, cur) :: rest) (mk [LexErr i None] [] (StopNoTokId i R L))
  | RunNoTarget : forall i c cur rest L R r em tid op, i < n ->
      scan_rules m bd cur i rules 0 0 0 = Done (L, R) -> 0 < L ->
      nth_error rules R = Some r -> emit r i L = Some em ->
      r_target r = Some (tid, op) -> get_state sts tid = None ->
      run i ((c, cur) :: rest) (mk (em ++ [LexErr i None]) [] (StopNoTarget i R L))
  | RunPopEmpty : forall i c cur rest L R r em tid op state, i < n ->
      scan_rules m bd cur i rules 0 0 0 = Done (L, R) -> 0 < L ->
      nth_error rules R = Some r -> emit r i L = Some em ->
      r_target r = Some (tid, op) -> get_state sts tid = Some state ->
      apply_op_rle initial ((c, cur) :: rest) op state = None ->
      run i ((c, cur) :: rest) (mk (em ++ [LexErr i None]) [] (StopPopEmpty i R L))
  | RunStep : forall i c cur rest L R r em stk' res', i < n ->
      scan_rules m bd cur i rules 0 0 0 = Done (L, R) -> 0 < L ->
      nth_error rules R = Some r -> emit r i L = Some em ->
      stack_after r ((c, cur) :: rest) stk' ->
      run (i + L) stk' res' ->
      run i ((c, cur) :: rest)
          (mk (em ++ items res')
              ({| st_pos := i; st_stack := (c, cur) :: rest; st_rule := R; st_len := L |}
                 :: steps res')
              (stopped res')).

  Lemma nth_checked_done : forall (A : Type) (l : list A) i a,
    nth_checked l i = Done a -> nth_error l i = Some a.
  Proof. unfold nth_checked. intros A l i a. destruct (nth_error l i); intros H; inversion H; reflexivity. Qed.

  Lemma lex_loop_run : forall fuel i stk res,
    lex_loop rules sts m bd n initial fuel i stk = Done res -> run i stk res.
  Proof.
    induction fuel as [|fuel IH]; intros i stk res H.
    - simpl in H. destruct (n <=? i) eqn:E; [|discriminate].
      inversion H; subst. apply RunEnd. apply Nat.leb_le. exact E.
    - simpl in H. destruct (n <=? i) eqn:E.
      { inversion H; subst. apply RunEnd. apply Nat.leb_le. exact E. }
      apply Nat.leb_gt in E.
      destruct stk as [|[c cur] rest].
      { inversion H; subst. apply RunEmpty. exact E. }
      destruct (scan_rules m bd cur i rules 0 0 0) as [[L R]| |] eqn:Es; simpl in H; try discriminate.
      destruct (0 <? L) eqn:EL.
      2:{ apply Nat.ltb_ge in EL. assert (L = 0) by lia. subst L.
          inversion H; subst. eapply RunNoMatch; eauto. }
      apply Nat.ltb_lt in EL.
      destruct (nth_checked rules R) as [r| |] eqn:En; simpl in H; try discriminate.
      apply nth_checked_done in En.
      destruct (emit r i L) as [em|] eqn:Ee.
      2:{ inversion H; subst. eapply RunNoTok; eauto. }
      destruct (r_target r) as [[tid op]|] eqn:Et.
      + destruct (get_state sts tid) as [state|] eqn:Eg.
        2:{ inversion H; subst. eapply RunNoTarget; eauto. }
        destruct (apply_op_rle initial ((c, cur) :: rest) op state) as [stk'|] eqn:Eo.
        2:{ inversion H; subst. eapply RunPopEmpty; eauto. }
        destruct (lex_loop rules sts m bd n initial fuel (i + L) stk') as [res'| |] eqn:Er;
          simpl in H; try discriminate.
        inversion H; subst. eapply RunStep; eauto.
        right. exists tid, op, state. auto.
      + destruct (lex_loop rules sts m bd n initial fuel (i + L) ((c, cur) :: rest)) as [res'| |] eqn:Er;
          simpl in H; try discriminate.
        inversion H; subst. eapply RunStep; eauto.
        left. auto.
  Qed.
End RunProofs.
