(* C09 — what the correspondence check evaluates on the model side: the
   mirror of the scan loop with the match oracle given as the table the Rust
   harness (harness/src/bin/c09.rs) computed with the regex crate, and the
   mirror of set_rule_ids on the same map. *)
From Coq Require Import List Arith Bool.
From GV Require Import Common.Outcome C09.Model.
Import ListNotations.

(* tbl: per rule, the list of (byte offset, match length) of its matches *)
Definition table_oracle (tbl : list (list (nat * nat))) (r p : nat) : option nat :=
  match nth_error tbl r with
  | Some row => map_get row p
  | None => None
  end.

(* bds: the char boundaries of the input *)
Definition bd_of (bds : list nat) (p : nat) : bool := mem p bds.

Definition run_lex (rules : list rule) (sts : list sstate) (tbl : list (list (nat * nat)))
  (bds : list nat) (n : nat) : outcome result :=
  lex rules sts (table_oracle tbl) (bd_of bds) n.

Definition run_ids (mp : list (nat * nat)) (rs : list rule) := set_rule_ids mp rs.
