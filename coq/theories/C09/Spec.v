(* C09 — declarative specification of the lexer's scan loop and of
   set_rule_ids, written without reference to the loop's locals: rule
   activity per start state, the choice (longest non-empty match, earliest
   rule on ties), the start-state stack as a PLAIN list of states (the
   run-length encoding is an implementation detail related to it by
   [expand]), tiling of the input, emission of lexemes, the missing-name sets.

   Everything is relative to the match oracle [m] (regex semantics is the
   `regex` crate's). *)
From Coq Require Import List Arith Bool Lia.
From GV Require Import Common.Outcome C09.Model.
Import ListNotations.

(* ---- activity of a rule in a start state -------------------------------- *)

(* a rule without start states is active exactly in the inclusive states; a
   rule with start states exactly in those *)
Definition active (cur : sstate) (r : rule) : Prop :=
  (r_states r = [] /\ ss_excl cur = false) \/ In (ss_id cur) (r_states r).

Definition inclusive_exclusive_stmt : Prop :=
  forall cur r, state_matches cur (r_states r) = true <-> active cur r.

(* ---- the start-state stack as a plain list (head = current state) ------- *)

Fixpoint expand (st : stack) : list sstate :=
  match st with
  | [] => []
  | (c, s) :: rest => repeat s c ++ expand rest
  end.

(* push / pop / replace on the plain stack; popping the last element leaves
   INITIAL; [None] = popping an empty stack *)
Definition apply_op (initial : sstate) (l : list sstate) (op : ssop) (state : sstate)
  : option (list sstate) :=
  match op with
  | ReplaceStack => Some [state]
  | Push => Some (state :: l)
  | Pop => match l with
           | [] => None
           | [_] => Some [initial]
           | _ :: l' => Some l'
           end
  end.

(* representation invariant of the run-length encoding: every count >= 1 and
   every state on the stack is the table's entry for its id (so that equal
   ids mean equal states, which is what `s.id == state.id` relies on) *)
Definition rle_ok (st : stack) : Prop := Forall (fun cs => 1 <= fst cs) st.
Definition from_table (sts : list sstate) (s : sstate) : Prop := get_state sts (ss_id s) = Some s.
Definition stack_from_table (sts : list sstate) (st : stack) : Prop :=
  Forall (fun cs => from_table sts (snd cs)) st.

Definition rle_stack_refines_stack_stmt : Prop :=
  forall sts initial st op state,
    rle_ok st -> stack_from_table sts st -> from_table sts state -> from_table sts initial ->
    option_map expand (apply_op_rle initial st op state) = apply_op initial (expand st) op state
    /\ (st <> [] -> apply_op_rle initial st op state <> None)
    /\ (forall st', apply_op_rle initial st op state = Some st' ->
          rle_ok st' /\ stack_from_table sts st' /\ st' <> []).

Section Run.
  Variable rules : list rule.
  Variable sts : list sstate.
  Variable m : nat -> nat -> option nat.
  Variable bd : nat -> bool.
  Variable n : nat.

  (* the current start state of a stack *)
  Definition current (st : stack) : option sstate := hd_error (expand st).

  (* (ridx, len) is THE choice at [pos] in state [cur]: the rule is active,
     its match is non-empty, no active rule matches longer, and every earlier
     active rule matches strictly shorter *)
  Definition chosen (cur : sstate) (pos ridx len : nat) : Prop :=
    exists r, nth_error rules ridx = Some r /\ active cur r /\ 0 < len /\
      m ridx pos = Some len /\
      forall j r' l', nth_error rules j = Some r' -> active cur r' -> m j pos = Some l' ->
        l' <= len /\ (j < ridx -> l' < len).

  (* no active rule has a non-empty match at [pos] *)
  Definition no_match (cur : sstate) (pos : nat) : Prop :=
    forall j r' l', nth_error rules j = Some r' -> active cur r' -> m j pos = Some l' -> l' = 0.

  (* the domain: what LexParser guarantees of a parsed .l file whose named
     rules all received an id (from_str, or set_rule_ids with no name missing
     from the map) *)
  Definition wf_spec : Prop :=
    (exists s0, get_state sts 0 = Some s0) /\
    (forall r tid op, In r rules -> r_target r = Some (tid, op) ->
       exists s, get_state sts tid = Some s) /\
    (forall r nm, In r rules -> r_name r = Some nm -> exists t, r_tok r = Some t).

  (* what the `regex` crate guarantees of matches on a &str: they end on
     char boundaries and inside the haystack *)
  Definition oracle_on_boundaries : Prop :=
    bd 0 = true /\ forall r p l, bd p = true -> m r p = Some l -> bd (p + l) = true.
  Definition oracle_in_bounds : Prop := forall r p l, m r p = Some l -> p + l <= n.

  Definition stop_pos (s : stop) : nat :=
    match s with
    | StopEnd p | StopNoMatch p _ | StopNoTokId p _ _ | StopNoTarget p _ _
    | StopPopEmpty p _ _ | StopEmptyStack p => p
    | StopNoInitial => 0
    end.

  (* steps are contiguous from [pos] and end at [e] *)
  Fixpoint contiguous (pos : nat) (ss : list step) (e : nat) : Prop :=
    match ss with
    | [] => pos = e
    | s :: ss' => st_pos s = pos /\ 0 < st_len s /\ contiguous (pos + st_len s) ss' e
    end.

  (* what one step contributes to the lexeme list *)
  Definition step_items (ridx pos len : nat) : list item :=
    match nth_error rules ridx with
    | Some r => match r_name r with
                | Some _ => match r_tok r with
                            | Some t => [Lexeme t pos len]
                            | None => []
                            end
                | None => []
                end
    | None => []
    end.

  (* what the end of the run contributes: nothing, or the single error *)
  Definition stop_items (s : stop) : list item :=
    match s with
    | StopEnd _ => []
    | StopNoMatch p cur => [LexErr p (Some (ss_id cur))]
    | StopNoTokId p _ _ => [LexErr p None]
    | StopNoTarget p r l | StopPopEmpty p r l => step_items r p l ++ [LexErr p None]
    | StopEmptyStack p => [LexErr p None]
    | StopNoInitial => [LexErr 0 None]
    end.

  (* the plain-stack effect of having matched rule [r] *)
  Definition next_stack (initial : sstate) (stk : stack) (r : rule) (stk' : stack) : Prop :=
    match r_target r with
    | None => stk' = stk
    | Some (tid, op) =>
        exists state, get_state sts tid = Some state /\
          apply_op initial (expand stk) op state = Some (expand stk')
    end.

  (* the stacks recorded in the steps follow the plain-stack semantics *)
  Fixpoint stacks_chain (initial : sstate) (stk : stack) (ss : list step) (final : stack) : Prop :=
    match ss with
    | [] => stk = final
    | s :: ss' =>
        st_stack s = stk /\
        exists r stk', nth_error rules (st_rule s) = Some r /\
          next_stack initial stk r stk' /\ stacks_chain initial stk' ss' final
    end.

  (* ---- statements ------------------------------------------------------- *)

  (* the scan loop terminates within its fuel, and never panics when matches
     end on char boundaries *)
  Definition lex_total_at : Prop :=
    lex rules sts m bd n <> OutOfFuel /\
    (oracle_on_boundaries -> exists res, lex rules sts m bd n = Done res).

  (* longest non-empty match among the rules active in the current state,
     earliest rule on ties; the error is where (and only where) no active
     rule has a non-empty match *)
  Definition lex_choice_spec_at : Prop :=
    forall res, lex rules sts m bd n = Done res ->
      (forall s, In s (steps res) ->
         exists cur, current (st_stack s) = Some cur /\
           chosen cur (st_pos s) (st_rule s) (st_len s) /\ ~ no_match cur (st_pos s)) /\
      (forall pos cur, stopped res = StopNoMatch pos cur -> no_match cur pos) /\
      (wf_spec -> (exists pos, stopped res = StopEnd pos) \/
                  (exists pos cur, stopped res = StopNoMatch pos cur)) /\
      (* the two defensive arms on an empty stack are dead code *)
      (forall pos, stopped res <> StopEmptyStack pos) /\
      (forall pos r l, stopped res <> StopPopEmpty pos r l).

  (* matches are contiguous from 0, in order, and end at |input| or at the
     single final error *)
  Definition lex_tiles_at : Prop :=
    forall res, lex rules sts m bd n = Done res ->
      contiguous 0 (steps res) (stop_pos (stopped res)) /\
      (forall s, In s (steps res) -> st_pos s < n) /\
      (forall pos, stopped res = StopEnd pos -> n <= pos /\ (oracle_in_bounds -> pos = n)) /\
      (forall pos cur, stopped res = StopNoMatch pos cur -> pos < n).

  (* the lexeme list is the named steps in order, with the ids assigned to
     their names, followed by the single error if there is one *)
  Definition named_emit_unnamed_skip_at : Prop :=
    forall res, lex rules sts m bd n = Done res ->
      items res = flat_map (fun s => step_items (st_rule s) (st_pos s) (st_len s)) (steps res)
                  ++ stop_items (stopped res) /\
      (forall s, In s (steps res) ->
         exists r, nth_error rules (st_rule s) = Some r /\
           (r_name r <> None -> r_tok r <> None)).

  (* the recorded (run-length encoded) stacks start at [INITIAL] and follow
     push/pop/replace on the plain stack; they are never empty *)
  Definition lex_states_at : Prop :=
    forall initial res, get_state sts 0 = Some initial ->
      lex rules sts m bd n = Done res ->
      exists final,
        stacks_chain initial [(1, initial)] (steps res) final /\
        (forall s, In s (steps res) -> rle_ok (st_stack s) /\ st_stack s <> []) /\
        (forall pos cur, stopped res = StopNoMatch pos cur -> current final = Some cur).
End Run.

(* the statements, for every rule table, start-state table, oracle and input *)
Definition lex_total_stmt : Prop := forall rules sts m bd n, lex_total_at rules sts m bd n.
Definition lex_choice_spec_stmt : Prop := forall rules sts m bd n, lex_choice_spec_at rules sts m bd n.
Definition lex_tiles_stmt : Prop := forall rules sts m bd n, lex_tiles_at rules sts m bd n.
Definition named_emit_unnamed_skip_stmt : Prop :=
  forall rules sts m bd n, named_emit_unnamed_skip_at rules sts m bd n.
Definition lex_states_stmt : Prop := forall rules sts m bd n, lex_states_at rules sts m bd n.

(* ---- set_rule_ids -------------------------------------------------------- *)

Definition oset (o : option (list nat)) : list nat := match o with Some l => l | None => [] end.

(* the id every rule has afterwards *)
Definition assigned (mp : list (nat * nat)) (r r' : rule) : Prop :=
  r' = match r_name r with
       | Some nm => set_tok r (map_get mp nm)
       | None => r
       end.

Definition set_rule_ids_exact_stmt : Prop :=
  forall mp rs, NoDup (map fst mp) -> NoDup (rule_names rs) ->
    exists rs' mfl mfp, set_rule_ids mp rs = Done (rs', mfl, mfp) /\
      Forall2 (assigned mp) rs rs' /\
      (forall k, In k (oset mfl) <-> In k (map fst mp) /\ ~ In k (rule_names rs)) /\
      (forall k, In k (oset mfp) <-> In k (rule_names rs) /\ ~ In k (map fst mp)) /\
      (mfl <> Some []) /\ (mfp <> Some []).

(* without the hypothesis on rule names (which LexParser enforces with its
   DuplicateName error, but from_rules does not) the `None` shortcut for the
   first set is wrong: two rules named 0, map {0,1}: key 1 is reported by
   nobody *)
Definition set_rule_ids_dup_names_refuted_stmt : Prop :=
  exists mp rs rs' mfp, NoDup (map fst mp) /\
    set_rule_ids mp rs = Done (rs', None, mfp) /\
    exists k, In k (map fst mp) /\ ~ In k (rule_names rs).
