(* C05/C07 — statements about the repair semantics and the recovery driver
   mirror of Repair/Semantics.v.  Proved in Repair/Proofs.v.  All statements
   quantify over ALL grammars, tables, inputs, oracles and fuels; hypotheses
   are explicit. *)
From Coq Require Import List Arith NArith Bool Lia.
From GV Require Import Common.Outcome Base.Grammar LR.Automaton LR.Validator Repair.Semantics.
Import ListNotations.

(* the table never shifts the end-of-input token (validator condition S3 of
   LR/Validator.v; [dump_no_shift_eof] below decides it on a dump) *)
Definition no_shift_eof (g : grammar) (A : automaton) : Prop :=
  forall s s', action A s (eof g) <> Shift s'.

Definition is_shift (a : act) : bool := match a with Shift _ => true | _ => false end.
Definition dump_no_shift_eof (e : N) (d : dump) : bool :=
  forallb (fun sl => forallb (fun al => negb (N.eqb (fst al) e && is_shift (snd al))) (snd sl)) (d_actions d).
Definition dump_no_shift_eof_ok_stmt : Prop :=
  forall g d, dump_no_shift_eof (eof g) d = true -> no_shift_eof g (of_dump d).

(* every sequence the driver applied was a valid repair where it was applied
   (C05's per-sequence decision, recorded in the ghost field e_valid) *)
Definition all_valid (es : list err) : Prop :=
  Forall (fun e => e_repaired e = true -> e_valid e = true) es.

(* positions start at >= lo and are >= PN apart *)
Fixpoint chain (PN lo : nat) (ps : list nat) : Prop :=
  match ps with
  | [] => True
  | p :: ps' => (lo <= p)%nat /\ chain PN (p + PN) ps'
  end.

(* ---- C05 / C07: a valid repair makes the driver progress ------------------------- *)
(* applying a valid sequence at an error at lexeme p leaves the driver at p' >= p
   inside the input, from where plain parsing gets through PN more lexemes or to
   Accept, and whatever the driver reports later lies at lexeme >= p' + PN *)
Definition valid_repair_progress_stmt : Prop :=
  forall g A input ifuel PN stk p seq,
    no_shift_eof g A -> (1 <= PN)%nat -> (p <= length input)%nat ->
    valid_repair g A input ifuel PN stk p seq = true ->
    exists stk' p',
      apply_seq g A input ifuel seq 0 stk p None = Done (stk', p', None) /\
      (p <= p')%nat /\ (p' <= length input)%nat /\
      ahead_ok (parse_ahead g A input ifuel PN stk' p') = true /\
      forall ofuel oracle, all_valid (errs_of (run_recover g A input ifuel PN ofuel oracle stk' p')) ->
        chain PN (p' + PN) (map e_pos (errs_of (run_recover g A input ifuel PN ofuel oracle stk' p'))).

(* the search's success criterion justifies the reported (stripped) sequence: if
   seq followed by k Shifts replays with every step doing what it says, and
   k = PN or the configuration reached accepts, then seq is a valid repair *)
Definition success_stripped_valid_stmt : Prop :=
  forall g A input ifuel PN stk p seq k stk' p',
    apply_seq g A input ifuel (seq ++ repeat Shf k) 0 stk p None = Done (stk', p', None) ->
    (k = PN \/ ((k <= PN)%nat /\ exists stk'', lr_upto1 g A input ifuel None stk' p' = AAccept stk'')) ->
    valid_repair g A input ifuel PN stk p seq = true.

(* Delete then Insert and Insert then Delete reach the same parser state and
   input position (the trees differ only in the index of the inserted leaf) *)
Definition del_ins_commute_stmt : Prop :=
  forall g A input ifuel t stk p stk1 p1 f1 stk2 p2 f2,
    (p < length input)%nat ->
    apply_seq g A input ifuel [Del; Ins t] 0 stk p None = Done (stk1, p1, f1) ->
    apply_seq g A input ifuel [Ins t; Del] 0 stk p None = Done (stk2, p2, f2) ->
    map fst stk1 = map fst stk2 /\ p1 = p2 /\ (f1 = None <-> f2 = None).

(* ---- C07 ------------------------------------------------------------------------- *)
Definition errors_spaced_stmt : Prop :=
  forall g A input ifuel PN ofuel oracle,
    no_shift_eof g A -> (1 <= PN)%nat ->
    let r := run_recover g A input ifuel PN ofuel oracle [] 0 in
    all_valid (errs_of r) ->
    chain PN 0 (map e_pos (errs_of r)) /\ Forall (fun e => (e_pos e <= length input)%nat) (errs_of r).

Definition errors_strictly_increase_stmt : Prop :=
  forall g A input ifuel PN ofuel oracle,
    no_shift_eof g A -> (1 <= PN)%nat ->
    let es := errs_of (run_recover g A input ifuel PN ofuel oracle [] 0) in
    all_valid es ->
    forall i d, (S i < length es)%nat ->
      (e_pos (nth i es d) + PN <= e_pos (nth (S i) es d))%nat /\ (e_pos (nth i es d) < e_pos (nth (S i) es d))%nat.

Definition error_count_bounded_stmt : Prop :=
  forall g A input ifuel PN ofuel oracle,
    no_shift_eof g A -> (1 <= PN)%nat ->
    let es := errs_of (run_recover g A input ifuel PN ofuel oracle [] 0) in
    all_valid es ->
    (length es <= length input / PN + 1)%nat.

(* the loop ends: 2|input| + 3 segments suffice whatever the oracle, provided each
   run of reductions ends (otherwise the result is SInnerFuel, not SOuterFuel) *)
Definition driver_terminates_stmt : Prop :=
  forall g A input ifuel PN ofuel oracle es,
    no_shift_eof g A -> (1 <= PN)%nat -> (2 * length input + 3 <= ofuel)%nat ->
    run_recover g A input ifuel PN ofuel oracle [] 0 = DStuck SOuterFuel es ->
    all_valid es -> False.

Definition value_iff_all_repaired_stmt : Prop :=
  forall g A input ifuel PN ofuel oracle stk p v es,
    run_recover g A input ifuel PN ofuel oracle stk p = DDone v es ->
    (v <> None <-> Forall (fun e => e_repaired e = true) es).

Definition only_last_unrepaired_stmt : Prop :=
  forall g A input ifuel PN ofuel oracle stk p v es,
    run_recover g A input ifuel PN ofuel oracle stk p = DDone v es ->
    forall i d, (S i < length es)%nat -> e_repaired (nth i es d) = true.

(* a value and no error: the plain interpreter of LR/Automaton.v accepts the
   unchanged input with the same tree *)
Definition clean_accept_stmt : Prop :=
  forall g A input ifuel PN ofuel oracle v,
    run_recover g A input ifuel PN ofuel oracle [] 0 = DDone (Some v) [] ->
    exists fuel, run g A fuel input = RAccept (erase v).

(* the first reported error is the plain interpreter's rejection *)
Definition first_error_is_plain_reject_stmt : Prop :=
  forall g A input ifuel PN ofuel oracle e es,
    errs_of (run_recover g A input ifuel PN ofuel oracle [] 0) = e :: es ->
    exists fuel, run g A fuel input = RReject (e_pos e) (e_state e).

(* ---- C05: what a valid repair means for the repaired token string ----------------- *)
(* number of lexemes a sequence makes the parser shift *)
Fixpoint shifts_of (seq : list repair) : nat :=
  match seq with
  | [] => 0
  | Del :: s => shifts_of s
  | _ :: s => S (shifts_of s)
  end.

(* a valid repair at lexeme p: on the input with the sequence applied (deleted
   lexemes dropped, inserted tokens added, shifted ones kept), plain LR parsing
   from the configuration at the error gets, without error, through every
   inserted/shifted lexeme and PN more, or to Accept *)
Definition valid_repair_plain_parse_stmt : Prop :=
  forall g A input ifuel PN stk p seq,
    no_shift_eof g A -> (p <= length input)%nat ->
    valid_repair g A input ifuel PN stk p seq = true ->
    ahead_ok (parse_ahead g A (repaired input p seq) ifuel (shifts_of seq + PN) stk p) = true.

(* ---- C05: parsing continues as if the sequence had been applied --------------------- *)
(* the shape of a value: productions and leaf tokens (lexeme indices and faulty flags of
   the repaired input differ from those of the original by construction) *)
Fixpoint vshape (t : vtree) : tree :=
  match t with
  | VLeaf a _ _ => Leaf a 0
  | VNode p kids => Node p (map vshape kids)
  end.

(* errors correspond: positions up to the offset between the two inputs, same state,
   same repaired flag, same validity of the applied sequence *)
Definition erel (d1 d2 : nat) (e1 e2 : err) : Prop :=
  (e_pos e1 + d2 = e_pos e2 + d1)%nat /\ e_state e1 = e_state e2 /\
  e_repaired e1 = e_repaired e2 /\ e_valid e1 = e_valid e2.
Definition similar (d1 d2 : nat) (r1 r2 : dres) : Prop :=
  match r1, r2 with
  | DDone v1 es1, DDone v2 es2 => option_map vshape v1 = option_map vshape v2 /\ Forall2 (erel d1 d2) es1 es2
  | DStuck w1 es1, DStuck w2 es2 => w1 = w2 /\ Forall2 (erel d1 d2) es1 es2
  | _, _ => False
  end.

(* After a sequence whose every step did what it says was applied at an error at lexeme
   p, the driver goes on exactly as the driver run on the repaired token string from the
   same configuration: same value (shape), same later errors (same states, positions
   shifted by the length difference, same repairs applied), same outcome. *)
Definition continue_as_if_applied_stmt : Prop :=
  forall g A input ifuel PN seq stk p stk' p' ofuel oracle,
    no_shift_eof g A -> (p <= length input)%nat ->
    apply_seq g A input ifuel seq 0 stk p None = Done (stk', p', None) ->
    similar p' (p + shifts_of seq)
      (run_recover g A input ifuel PN ofuel oracle stk' p')
      (run_recover g A (repaired input p seq) ifuel PN (shifts_of seq + ofuel) oracle stk p).
