(* C05 — when does every success of the search replay as a valid repair?  The search
   continues from stacks that were reduced under a lookahead which then led to
   Error/Accept (its `shift` neighbour without progress); the replay starts from the
   unreduced stack.  If the table is REDUCE-CONFLUENT — from a stack reduced that way a
   token is shifted / Accept is reached only if the same happens from the unreduced
   stack, with the same resulting states — the two agree (search_sound_confluent).
   Search.search_sound_refuted shows the hypothesis cannot be dropped. *)
From Coq Require Import List Arith NArith Bool Lia.
From GV Require Import Common.Outcome Base.Grammar LR.Automaton LR.Validator LR.Sound
  Repair.Semantics Repair.Spec Repair.Proofs Repair.Search.
Import ListNotations.

Section Confluence.
Variable g : grammar.
Variable A : automaton.
Variable input : list N.
Variable ifuel : nat.

(* [Inv Sk Sr]: Sr is Sk (up to the values) after some batches of reductions, each made
   under a lookahead that ended in Error or Accept *)
Inductive Inv : vstack -> vstack -> Prop :=
| inv_eq Sk Sr : map fst Sk = map fst Sr -> Inv Sk Sr
| inv_red Sk X Y b leaf : Inv Sk X ->
    (advance g A ifuel X b leaf = AError Y \/ advance g A ifuel X b leaf = AAccept Y) -> Inv Sk Y.

Definition reduce_confluent : Prop :=
  (forall Sk Sr u l1 l2 sr, Inv Sk Sr -> advance g A ifuel Sr u l2 = AShift sr ->
     exists s, advance g A ifuel Sk u l1 = AShift s /\ map fst s = map fst sr) /\
  (forall Sk Sr u l, Inv Sk Sr -> action A (vtop A Sr) u = Accept ->
     exists x, advance g A ifuel Sk u l = AAccept x).

Hypothesis Hconf : reduce_confluent.
Hypothesis Hns : no_shift_eof g A.

Lemma search_sim : forall moves Sk Sr p rec Sr' p' rec',
  Inv Sk Sr -> (p <= length input)%nat ->
  search_apply g A input ifuel moves Sr p rec = Some (Sr', p', rec') ->
  exists delta, rec' = rec ++ delta /\
    forall i, exists Sk', apply_seq g A input ifuel delta i Sk p None = Done (Sk', p', None) /\
                         Inv Sk' Sr' /\ (p' <= length input)%nat.
Proof.
  destruct Hconf as (Hshift & _).
  induction moves as [|m moves IH]; intros Sk Sr p rec Sr' p' rec' HI Hp H.
  - cbn [search_apply] in H. injection H as <- <- <-. exists []. rewrite app_nil_r. split; [reflexivity|].
    intros i. exists Sk. cbn [apply_seq]. split; [reflexivity|]. split; assumption.
  - destruct m as [t| |]; cbn [search_apply] in H.
    + destruct (last_is_del rec || N.eqb t (eof g)); [discriminate|].
      unfold lr_cactus1 in H.
      destruct (advance g A ifuel Sr t (ins_leaf t p)) as [sr|sr|sr|sr| |] eqn:E; try discriminate.
      destruct (Hshift Sk Sr t (ins_leaf t p) (ins_leaf t p) sr HI E) as (s & Es & Hst).
      destruct (IH s sr p _ _ _ _ (inv_eq _ _ Hst) Hp H) as (delta & Hrec & Hrep).
      exists (Ins t :: delta). split; [rewrite Hrec, <- app_assoc; reflexivity|].
      intros i. cbn [apply_seq]. unfold lr_upto1.
      replace (length input <? p)%nat with false by (symmetry; apply Nat.ltb_ge; exact Hp).
      rewrite Es. apply Hrep.
    + destruct (Nat.eqb p (length input)) eqn:El; [discriminate|]. apply Nat.eqb_neq in El.
      destruct (IH Sk Sr (S p) _ _ _ _ HI ltac:(lia) H) as (delta & Hrec & Hrep).
      exists (Del :: delta). split; [rewrite Hrec, <- app_assoc; reflexivity|].
      intros i. cbn [apply_seq].
      replace (p <? length input)%nat with true by (symmetry; apply Nat.ltb_lt; lia). apply Hrep.
    + unfold lr_cactus1 in H.
      destruct (advance g A ifuel Sr (la g input p) (real_leaf g input p)) as [sr|sr|sr|sr| |] eqn:E;
        try discriminate.
      * destruct (Hshift Sk Sr _ (real_leaf g input p) (real_leaf g input p) sr HI E) as (s & Es & Hst).
        pose proof (shift_in_input g A input Hns _ _ _ _ _ Es) as Lp.
        destruct (IH s sr (S p) _ _ _ _ (inv_eq _ _ Hst) ltac:(lia) H) as (delta & Hrec & Hrep).
        exists (Shf :: delta). split; [rewrite Hrec, <- app_assoc; reflexivity|].
        intros i. cbn [apply_seq]. unfold lr_upto1.
        replace (length input <? p)%nat with false by (symmetry; apply Nat.ltb_ge; exact Hp).
        rewrite Es. apply Hrep.
      * destruct (listN_eqb (map fst Sr) (map fst sr)); [discriminate|].
        apply (IH Sk sr p _ _ _ _ (inv_red _ _ _ _ _ HI (or_intror E)) Hp H).
      * destruct (listN_eqb (map fst Sr) (map fst sr)); [discriminate|].
        apply (IH Sk sr p _ _ _ _ (inv_red _ _ _ _ _ HI (or_introl E)) Hp H).
Qed.

End Confluence.

(* ---- lists of repairs ending in shifts ---------------------------------------------- *)
Lemma drop_shf_spec : forall l, exists k, l = repeat Shf k ++ drop_shf l /\
  match drop_shf l with x :: _ => is_shf x = false | [] => True end.
Proof.
  induction l as [|x l IH].
  - exists 0%nat. cbn. split; [reflexivity|exact I].
  - destruct x as [t| |].
    + exists 0%nat. cbn. split; reflexivity.
    + exists 0%nat. cbn. split; reflexivity.
    + destruct IH as (k & H1 & H2). exists (S k). cbn [drop_shf repeat app]. split; [f_equal; exact H1|exact H2].
Qed.

Lemma rev_repeat {X} (x : X) : forall k, rev (repeat x k) = repeat x k.
Proof.
  induction k as [|k IH]; [reflexivity|]. cbn [repeat rev]. rewrite IH.
  clear IH. induction k as [|k IH]; [reflexivity|]. cbn [repeat app]. f_equal. exact IH.
Qed.

Lemma strip_spec rec : exists k, rec = strip rec ++ repeat Shf k /\
  ((k < length rec)%nat -> forall PN, (k < PN)%nat -> ends_with_shifts PN rec = false) /\
  ((k = length rec)%nat -> forall PN, (k < PN)%nat -> ends_with_shifts PN rec = false).
Proof.
  destruct (drop_shf_spec (rev rec)) as (k & H1 & H2). exists k.
  assert (Hrec : rec = strip rec ++ repeat Shf k).
  { unfold strip. rewrite <- (rev_involutive rec) at 1. rewrite H1 at 1.
    rewrite rev_app_distr, rev_repeat. reflexivity. }
  split; [exact Hrec|]. split.
  - intros Hk PN HPN. unfold ends_with_shifts.
    destruct (PN <=? length rec)%nat eqn:El; [|reflexivity]. apply Nat.leb_le in El. cbn [andb].
    rewrite H1, firstn_app, repeat_length, forallb_app.
    destruct (drop_shf (rev rec)) as [|x r] eqn:Ed.
    + exfalso. rewrite app_nil_r in H1. apply (f_equal (@length _)) in H1.
      rewrite rev_length, repeat_length in H1. lia.
    + replace (PN - k)%nat with (S (PN - k - 1)) by lia. cbn [firstn forallb]. rewrite H2.
      cbn [andb]. apply andb_false_r.
  - intros Hk PN HPN. unfold ends_with_shifts.
    replace (PN <=? length rec)%nat with false by (symmetry; apply Nat.leb_gt; lia). reflexivity.
Qed.

Lemma search_sound_confluent g A input ifuel PN stk p moves stk' p' rec :
  reduce_confluent g A ifuel -> no_shift_eof g A -> (p <= length input)%nat ->
  search_apply g A input ifuel moves stk p [] = Some (stk', p', rec) ->
  search_success g A input PN stk' p' rec = true ->
  valid_repair g A input ifuel PN stk p (strip rec) = true.
Proof.
  intros Hconf Hns Hp Hs Hsucc.
  destruct (search_sim g A input ifuel Hconf Hns moves stk stk p [] stk' p' rec (inv_eq g A ifuel stk stk eq_refl) Hp Hs)
    as (delta & Hd & Hrep).
  cbn [app] in Hd. subst delta. destruct (Hrep 0%nat) as (Sk' & Happ & HI & Hp').
  destruct (strip_spec rec) as (k & Hrec & Hlt & Heq).
  destruct (Nat.le_gt_cases PN k) as [Hle|Hgt].
  - (* the path ends in at least PN shifts *)
    rewrite Hrec in Happ.
    replace k with (PN + (k - PN))%nat in Happ by lia. rewrite repeat_app, app_assoc, apply_seq_app in Happ.
    destruct (apply_seq g A input ifuel (strip rec ++ repeat Shf PN) 0 stk p None) as [[[s1 p1] f1]| |] eqn:E1;
      try discriminate.
    pose proof (apply_seq_facts _ _ _ _ _ _ _ _ _ _ _ _ Happ) as (_ & Hf). specialize (Hf eq_refl). subst f1.
    eapply success_stripped_valid; [exact E1|left; reflexivity].
  - (* fewer: the success is an Accept *)
    assert (Hend : ends_with_shifts PN rec = false).
    { assert (Hk : (k <= length rec)%nat).
      { rewrite Hrec at 1. rewrite app_length, repeat_length. lia. }
      destruct (Nat.eq_dec k (length rec)) as [Ek|Nk]; [apply Heq; assumption|apply Hlt; [lia|assumption]]. }
    unfold search_success in Hsucc. rewrite Hend in Hsucc. cbn [orb] in Hsucc.
    destruct (action A (vtop A stk') (la g input p')) eqn:Eact; try discriminate.
    destruct Hconf as (_ & Hacc).
    destruct (Hacc Sk' stk' _ (real_leaf g input p') HI Eact) as (x & Hx).
    rewrite Hrec in Happ.
    eapply success_stripped_valid; [exact Happ|]. right. split; [lia|]. exists x.
    unfold lr_upto1. replace (length input <? p')%nat with false by (symmetry; apply Nat.ltb_ge; exact Hp').
    exact Hx.
Qed.

(* ---- a checkable sufficient condition: reductions do not depend on the lookahead ------ *)
(* (tables with LR(0)-style "default" reduce rows; LALR/Pager tables restrict reductions to
   their lookahead sets and are reduce-confluent only on viable stacks, which is not proved) *)
Definition row_uniform (A : automaton) : Prop :=
  forall s b p, action A s b = Reduce p -> forall u, action A s u = Reduce p.

Section Uniform.
Variable g : grammar.
Variable A : automaton.
Hypothesis Hu : row_uniform A.

Lemma advance_S f stk a leaf :
  advance g A (S f) stk a leaf =
  match action A (vtop A stk) a with
  | Shift s' => AShift ((s', leaf) :: stk)
  | Reduce p =>
      if (length stk <? length (rhs g p))%nat then APanic else
      match goto A (vtop A (skipn (length (rhs g p)) stk)) (lhs g p) with
      | Some s' => advance g A f ((s', VNode p (rev (map snd (firstn (length (rhs g p)) stk)))) ::
                                   skipn (length (rhs g p)) stk) a leaf
      | None => APanic
      end
  | Accept => AAccept stk
  | Err => AError stk
  end.
Proof. reflexivity. Qed.

Lemma no_reduce_one_step stk : (forall b p, action A (vtop A stk) b <> Reduce p) ->
  forall f f' u l, adv_proj (advance g A (S f) stk u l) = adv_proj (advance g A (S f') stk u l).
Proof.
  intros Hnr f f' u l. cbn [advance].
  destruct (action A (vtop A stk) u) as [s'|q| |] eqn:E; try reflexivity.
  exfalso. exact (Hnr _ _ E).
Qed.

(* a batch of reductions that ends in Error/Accept ends on a row without reductions, and
   from the unreduced stack every token behaves as from the reduced one *)
Lemma batch_nf : forall fuel X b leaf Y,
  (advance g A fuel X b leaf = AError Y \/ advance g A fuel X b leaf = AAccept Y) ->
  (forall c p, action A (vtop A Y) c <> Reduce p) /\
  forall u l l', adv_proj (advance g A fuel X u l) = adv_proj (advance g A fuel Y u l').
Proof.
  induction fuel as [|f IH]; intros X b leaf Y H; [destruct H; discriminate|].
  cbn [advance] in H.
  destruct (action A (vtop A X) b) as [s'|q| |] eqn:Eb.
  - destruct H; discriminate.
  - (* a reduction: the same under every token *)
    destruct (length X <? length (rhs g q))%nat eqn:El; [destruct H; discriminate|].
    destruct (goto A (vtop A (skipn (length (rhs g q)) X)) (lhs g q)) as [s1|] eqn:Eg; [|destruct H; discriminate].
    destruct (IH _ _ _ _ H) as (Hnr & Hall). split; [exact Hnr|].
    intros u l l'. rewrite (advance_S f X u l). rewrite (Hu _ _ _ Eb u), El, Eg.
    rewrite (Hall u l l').
    destruct f as [|f']; [destruct H; discriminate|].
    apply no_reduce_one_step. exact Hnr.
  - assert (HY : Y = X) by (destruct H as [H|H]; [discriminate|injection H as <-; reflexivity]). subst Y.
    split.
    + intros c p Hc. rewrite (Hu _ _ _ Hc b) in Eb. discriminate.
    + intros u l l'. apply advance_states. reflexivity.
  - assert (HY : Y = X) by (destruct H as [H|H]; [injection H as <-; reflexivity|discriminate]). subst Y.
    split.
    + intros c p Hc. rewrite (Hu _ _ _ Hc b) in Eb. discriminate.
    + intros u l l'. apply advance_states. reflexivity.
Qed.

Lemma inv_same ifuel Sk Sr : Inv g A ifuel Sk Sr ->
  forall u l l', adv_proj (advance g A ifuel Sk u l) = adv_proj (advance g A ifuel Sr u l').
Proof.
  intros HI. induction HI as [Sk Sr Heq|Sk X Y b leaf _ IH Hb]; intros u l l'.
  - apply advance_states. exact Heq.
  - rewrite (IH u l l). apply (proj2 (batch_nf _ _ _ _ _ Hb)).
Qed.

Lemma row_uniform_confluent ifuel : (1 <= ifuel)%nat -> reduce_confluent g A ifuel.
Proof.
  intros Hf. split.
  - intros Sk Sr u l1 l2 sr HI E. pose proof (inv_same ifuel Sk Sr HI u l1 l2) as P. rewrite E in P.
    destruct (advance g A ifuel Sk u l1) as [s|s|s|s| |]; cbn [adv_proj] in P; try discriminate.
    injection P as P. exists s. split; [reflexivity|exact P].
  - intros Sk Sr u l HI E. pose proof (inv_same ifuel Sk Sr HI u l l) as P.
    destruct ifuel as [|f]; [lia|]. rewrite (advance_S f Sr u l) in P. rewrite E in P.
    destruct (advance g A (S f) Sk u l) as [s|s|s|s| |]; cbn [adv_proj] in P; try discriminate.
    exists s. reflexivity.
Qed.

End Uniform.

(* ---- non-vacuity: an LR(0)-style table for  S: 'a' | '(' S ')'  ------------------------ *)
Local Open Scope N_scope.
(* tokens 0='a' 1='(' 2=')' eof=3; rules 0=^ 1=S; productions 0: S->a  1: S->( S )  2: ^->S.
   states 0 start, 1 after a (reduce 0), 2 after (, 3 after S at top (accept), 4 after ( S,
   5 after ( S ) (reduce 1) *)
Definition lr0_g : grammar := mkGrammar 4 2 [(1, [T 0]); (1, [T 1; R 1; T 2]); (0, [R 1])] 2 3.
Definition lr0_A : automaton :=
  mkAutomaton 6 0 (fun _ => []) (fun _ => []) (fun _ _ => None)
    (fun s a =>
       if N.eqb s 1 then Reduce 0 else if N.eqb s 5 then Reduce 1 else
       if (N.eqb s 0 || N.eqb s 2) && N.eqb a 0 then Shift 1 else
       if (N.eqb s 0 || N.eqb s 2) && N.eqb a 1 then Shift 2 else
       if N.eqb s 4 && N.eqb a 2 then Shift 5 else
       if N.eqb s 3 && N.eqb a 3 then Accept else Err)
    (fun s r => if N.eqb r 1 then (if N.eqb s 0 then Some 3 else if N.eqb s 2 then Some 4 else None) else None).

Example lr0_row_uniform : row_uniform lr0_A.
Proof.
  intros s b p H u. cbn [action lr0_A] in H |- *.
  destruct (N.eqb s 1); [exact H|]. destruct (N.eqb s 5); [exact H|].
  destruct ((N.eqb s 0 || N.eqb s 2) && N.eqb b 0); [discriminate|].
  destruct ((N.eqb s 0 || N.eqb s 2) && N.eqb b 1); [discriminate|].
  destruct (N.eqb s 4 && N.eqb b 2); [discriminate|].
  destruct (N.eqb s 3 && N.eqb b 3); discriminate.
Qed.

Example lr0_confluent : reduce_confluent lr0_g lr0_A 50.
Proof. apply row_uniform_confluent; [exact lr0_row_uniform|lia]. Qed.

Example lr0_no_shift_eof : no_shift_eof lr0_g lr0_A.
Proof.
  intros s s' H. cbn [action lr0_A eof lr0_g] in H.
  destruct (N.eqb s 1), (N.eqb s 5), (N.eqb s 0), (N.eqb s 2), (N.eqb s 4), (N.eqb s 3); cbn in H; discriminate.
Qed.

(* input  ( a a ) : error at lexeme 2; a search path  Delete, Shift, (reduce to Accept)  is a
   success, and the theorem gives the validity of the reported  [Delete] *)
Example lr0_search :
  match run_recover lr0_g lr0_A [1; 0; 0; 2] 50 3 20 [None] [] 0 with
  | DDone None [e] =>
      e_pos e = 2%nat /\
      match search_apply lr0_g lr0_A [1; 0; 0; 2] 50 [MDel; MShf; MShf] (e_stk e) 2 [] with
      | Some (stk', p', rec) =>
          search_success lr0_g lr0_A [1; 0; 0; 2] 3 stk' p' rec = true /\ strip rec = [Del] /\
          valid_repair lr0_g lr0_A [1; 0; 0; 2] 50 3 (e_stk e) 2 [Del] = true
      | None => False
      end
  | _ => False
  end.
Proof. vm_compute. repeat split. Qed.

(* statements as exported to Properties/C05.v *)
Definition search_sound_confluent_stmt : Prop :=
  forall g A input ifuel PN stk p moves stk' p' rec,
    reduce_confluent g A ifuel -> no_shift_eof g A -> (p <= length input)%nat ->
    search_apply g A input ifuel moves stk p [] = Some (stk', p', rec) ->
    search_success g A input PN stk' p' rec = true ->
    valid_repair g A input ifuel PN stk p (strip rec) = true.
Lemma search_sound_confluent' : search_sound_confluent_stmt.
Proof. intros g A input ifuel PN stk p moves stk' p' rec. apply search_sound_confluent. Qed.

Definition row_uniform_confluent_stmt : Prop :=
  forall g A ifuel, row_uniform A -> (1 <= ifuel)%nat -> reduce_confluent g A ifuel.
Lemma row_uniform_confluent' : row_uniform_confluent_stmt.
Proof. intros g A ifuel Hu Hf. apply row_uniform_confluent; assumption. Qed.
