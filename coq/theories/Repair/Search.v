(* C05 — the move semantics of the CPCT+ search (CPCTPlus::{insert,delete,shift} of
   cpctplus.rs, one path of the search tree, no buckets/merging) and its relation to
   the replay semantics (apply_seq).  The search parses on a cactus stack with
   lr_cactus; its `shift` also yields a neighbour when the stack merely CHANGED
   (reductions under the real lookahead, then Error/Accept) and then records nothing.
   Definitions, the statement "every search success replays as a valid repair", its
   refutation on a precedence-resolved table, and its proof for tables whose
   reductions do not depend on the lookahead that licensed them (reduce-confluence). *)
From Coq Require Import List Arith NArith Bool Lia.
From GV Require Import Common.Outcome Base.Grammar LR.Automaton LR.Validator LR.Sound
  Repair.Semantics Repair.Spec Repair.Proofs.
Import ListNotations.

Inductive smove := MIns (t : N) | MDel | MShf.

Fixpoint listN_eqb (a b : list N) : bool :=
  match a, b with
  | [], [] => true
  | x :: a', y :: b' => N.eqb x y && listN_eqb a' b'
  | _, _ => false
  end.

Definition is_shf (r : repair) : bool := match r with Shf => true | _ => false end.
Definition is_del (r : repair) : bool := match r with Del => true | _ => false end.
Fixpoint drop_shf (l : list repair) : list repair :=
  match l with Shf :: l' => drop_shf l' | _ => l end.
(* simplify_repairs: shifts are removed from the end *)
Definition strip (rec : list repair) : list repair := rev (drop_shf (rev rec)).
(* ends_with_parse_at_least_shifts (on the path's own repairs) *)
Definition ends_with_shifts (PN : nat) (rec : list repair) : bool :=
  (PN <=? length rec)%nat && forallb is_shf (firstn PN (rev rec)).
Definition last_is_del (rec : list repair) : bool :=
  match rev rec with r :: _ => is_del r | [] => false end.

Section Search.
Variable g : grammar.
Variable A : automaton.
Variable input : list N.
Variable ifuel : nat.

(* lr_cactus(lexeme_prefix, laidx, laidx + 1, pstack): no bound on laidx *)
Definition lr_cactus1 (ins : option N) (stk : vstack) (laidx : nat) : adv :=
  match ins with
  | Some t => advance g A ifuel stk t (ins_leaf t laidx)
  | None => advance g A ifuel stk (la g input laidx) (real_leaf g input laidx)
  end.

(* one path of neighbour generation from the start node; [rec] = the repairs recorded
   on the path.  None: some move is not a neighbour. *)
Fixpoint search_apply (moves : list smove) (stk : vstack) (laidx : nat) (rec : list repair)
  : option (vstack * nat * list repair) :=
  match moves with
  | [] => Some (stk, laidx, rec)
  | MIns t :: ms =>
      (* never after a Delete; never the end-of-input token; new_laidx > laidx *)
      if last_is_del rec || N.eqb t (eof g) then None else
      match lr_cactus1 (Some t) stk laidx with
      | AShift stk' => search_apply ms stk' laidx (rec ++ [Ins t])
      | _ => None
      end
  | MDel :: ms =>
      if Nat.eqb laidx (length input) then None else search_apply ms stk (S laidx) (rec ++ [Del])
  | MShf :: ms =>
      match lr_cactus1 None stk laidx with
      | AShift stk' => search_apply ms stk' (S laidx) (rec ++ [Shf])
      | AAccept stk' | AError stk' =>
          (* n.pstack != n_pstack: a neighbour without progress, nothing recorded *)
          if listN_eqb (map fst stk) (map fst stk') then None else search_apply ms stk' laidx rec
      | _ => None
      end
  end.

Definition search_success (PN : nat) (stk : vstack) (laidx : nat) (rec : list repair) : bool :=
  ends_with_shifts PN rec ||
  match action A (vtop A stk) (la g input laidx) with Accept => true | _ => false end.

End Search.

(* "every success node of the search replays as a valid repair" *)
Definition search_sound_stmt : Prop :=
  forall g A input ifuel PN stk p moves stk' p' rec,
    no_shift_eof g A -> (p <= length input)%nat ->
    search_apply g A input ifuel moves stk p [] = Some (stk', p', rec) ->
    search_success g A input PN stk' p' rec = true ->
    valid_repair g A input ifuel PN stk p (strip rec) = true.

(* ---- refutation: %nonassoc '*'  %nonassoc '<'   E: E '*' E | E '<' E | 'n';  input  * < * < ---- *)
Local Open Scope N_scope.
(* tokens 0='*' 1='<' 2='n' eof=3 *)
Definition na_g : grammar :=
  mkGrammar 4 2 [(1, [R 1; T 0; R 1]); (1, [R 1; T 1; R 1]); (1, [T 2]); (0, [R 1])] 3 3.
Definition na_d : dump := mkDump 7 0 [] [] []
  [(0, [(2, Shift 2)]);
   (1, [(0, Shift 3); (1, Shift 4); (3, Accept)]);
   (2, [(0, Reduce 2); (1, Reduce 2); (3, Reduce 2)]);
   (3, [(2, Shift 2)]);
   (4, [(2, Shift 2)]);
   (5, [(1, Shift 4); (3, Reduce 0)]);
   (6, [(0, Reduce 1); (3, Reduce 1)])]
  [(0, [(1, 1)]); (1, []); (2, []); (3, [(1, 5)]); (4, [(1, 6)]); (5, []); (6, [])].
Definition na_A : automaton := of_dump na_d.
Definition na_input : list N := [0; 1; 0; 1].
(* Insert n, Shift '*', Insert n, Shift '<', Insert n, (reduce under '*', then Error: no progress),
   Delete '*', Shift '<', Insert n, (reduce under end of input to Accept: no progress) *)
Definition na_moves : list smove :=
  [MIns 2; MShf; MIns 2; MShf; MIns 2; MShf; MDel; MShf; MIns 2; MShf].
(* what the implementation reports for this input (among others), every run *)
Definition na_reported : list repair := [Ins 2; Shf; Ins 2; Shf; Ins 2; Del; Shf; Ins 2].

Lemma search_sound_refuted : ~ search_sound_stmt.
Proof.
  intros H.
  assert (Hns : no_shift_eof na_g na_A) by (apply dump_no_shift_eof_ok; vm_compute; reflexivity).
  destruct (search_apply na_g na_A na_input 100 na_moves [] 0 []) as [[[stk' p'] rec]|] eqn:E.
  2:{ vm_compute in E. discriminate. }
  specialize (H na_g na_A na_input 100%nat 3%nat [] 0%nat na_moves stk' p' rec Hns (Nat.le_0_l _) E).
  vm_compute in E. injection E as <- <- <-.
  specialize (H eq_refl). vm_compute in H. discriminate.
Qed.

(* the same facts, spelled out *)
Example na_search_path :
  match search_apply na_g na_A na_input 100 na_moves [] 0 [] with
  | Some (stk', p', rec) =>
      rec = na_reported /\ strip rec = na_reported /\ p' = 4%nat /\
      search_success na_g na_A na_input 3 stk' p' rec = true /\
      valid_repair na_g na_A na_input 100 3 [] 0 na_reported = false /\
      (* replaying it: step 6 (the second Shift of '<') shifts nothing *)
      (exists stk2 p2, apply_seq na_g na_A na_input 100 na_reported 0 [] 0 None = Done (stk2, p2, Some 6%nat)) /\
      (* and the plain interpreter rejects the repaired token string  n * n < n < n  at lexeme 5 *)
      repaired na_input 0 na_reported = [2; 0; 2; 1; 2; 1; 2] /\
      (exists st, run na_g na_A 100 (repaired na_input 0 na_reported) = RReject 5 st)
  | None => False
  end.
Proof.
  vm_compute. repeat split; try reflexivity.
  - eexists. eexists. reflexivity.
  - eexists. reflexivity.
Qed.
