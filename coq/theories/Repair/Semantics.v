(* C05/C07 — semantics of CPCT+ repair sequences and the mirror of the recovery
   driver (the error branch of Parser::lr in lrpar/src/lib/parser.rs, and
   apply_repairs / lr_upto of cpctplus.rs / parser.rs).  Definitions only.

   Stacks are the zipped (state, value) stacks of LR/Automaton.v, top first,
   the start state at the bottom being implicit ([pstack_of] gives the explicit
   Vec<StIdx>).  Values are generic parse trees whose leaves carry the token,
   the index of the lexeme (for an inserted lexeme: of the NEXT real lexeme, it
   is zero-length and placed at that lexeme's start) and the faulty flag. *)
From Coq Require Import List Arith NArith Bool Lia.
From GV Require Import Common.Outcome Base.Grammar LR.Automaton.
Import ListNotations.

(* ParseRepair::{Insert(tidx), Delete(lexeme), Shift(lexeme)} *)
Inductive repair := Ins (t : N) | Del | Shf.

Inductive vtree := VLeaf (tok : N) (idx : nat) (faulty : bool) | VNode (p : N) (kids : list vtree).

Fixpoint erase (t : vtree) : tree :=
  match t with
  | VLeaf a i _ => Leaf a i
  | VNode p kids => Node p (map erase kids)
  end.

Definition vstack := list (N * vtree).
Definition vtop (A : automaton) (stk : vstack) : N :=
  match stk with [] => start A | (s, _) :: _ => s end.
Definition pstack_of (A : automaton) (stk : vstack) : list N := map fst stk ++ [start A].
Definition erase_stack (stk : vstack) : stack := map (fun e => (fst e, erase (snd e))) stk.

(* outcome of parsing under ONE lookahead token: reductions, then … *)
Inductive adv :=
| AShift (stk : vstack)      (* … the token was shifted *)
| AAccept (stk : vstack)     (* … Action::Accept (stack after the reductions) *)
| AError (stk : vstack)      (* … Action::Error  (stack after the reductions) *)
| APast (stk : vstack)       (* lr_upto: loop not entered because laidx > lexemes.len() *)
| APanic                     (* stack underflow / goto(..).unwrap() *)
| AFuel.                     (* the run of reductions did not end within the fuel *)

Record err := mkErr {
  e_pos : nat;               (* index of ParseError::lexeme (input length = the EOF lexeme) *)
  e_state : N;               (* ParseError::stidx *)
  e_repaired : bool;         (* !repairs.is_empty() *)
  e_valid : bool;            (* ghost: valid_repair of the applied sequence at this error *)
  e_stk : vstack             (* ghost: the stacks handed to the recoverer *)
}.

Inductive stuck := SPanic | SInnerFuel | SOuterFuel.
Inductive dres :=
| DDone (v : option vtree) (es : list err)
| DStuck (why : stuck) (es : list err).      (* es: the errors recorded so far *)

Definition push_err (e : err) (r : dres) : dres :=
  match r with DDone v es => DDone v (e :: es) | DStuck w es => DStuck w (e :: es) end.
Definition errs_of (r : dres) : list err :=
  match r with DDone _ es => es | DStuck _ es => es end.

Inductive ahead := HReached | HAccept | HError (pos : nat) (st : N) | HPast | HPanic | HFuel.
Definition ahead_ok (h : ahead) : bool := match h with HReached | HAccept => true | _ => false end.

Definition mark (fail : option nat) (i : nat) : option nat :=
  match fail with Some _ => fail | None => Some i end.

Section Sem.
Variable g : grammar.
Variable A : automaton.
Variable input : list N.          (* token ids of the real lexemes *)
Variable ifuel : nat.             (* bound on one run of reductions *)

(* lr_upto / lr_cactus / the loop of lr restricted to one lookahead token [a];
   [leaf] is what a shift pushes on the value stack *)
Fixpoint advance (fuel : nat) (stk : vstack) (a : N) (leaf : vtree) : adv :=
  match fuel with
  | O => AFuel
  | S f =>
      match action A (vtop A stk) a with
      | Shift s' => AShift ((s', leaf) :: stk)
      | Reduce p =>
          let n := length (rhs g p) in
          (* pstack.len() - prod.len(); pstack.last().unwrap() *)
          if (length stk <? n)%nat then APanic else
          let stk' := skipn n stk in
          match goto A (vtop A stk') (lhs g p) with
          | Some s' => advance f ((s', VNode p (rev (map snd (firstn n stk)))) :: stk') a leaf
          | None => APanic
          end
      | Accept => AAccept stk
      | Err => AError stk
      end
  end.

Definition real_leaf (laidx : nat) : vtree := VLeaf (la g input laidx) laidx false.
(* Lexeme::new_faulty(tidx, next_lexeme(laidx).span().start(), 0) *)
Definition ins_leaf (t : N) (laidx : nat) : vtree := VLeaf t laidx true.

(* lr_upto(lexeme_prefix, laidx, laidx + 1, …) *)
Definition lr_upto1 (ins : option N) (stk : vstack) (laidx : nat) : adv :=
  if (length input <? laidx)%nat then APast stk else
  match ins with
  | Some t => advance ifuel stk t (ins_leaf t laidx)
  | None => advance ifuel stk (la g input laidx) (real_leaf laidx)
  end.

(* apply_repairs on the real stacks.  [fail] (ghost) = index of the first step
   that did not do what it says: an Insert/Shift that shifted nothing, a Delete
   past the last real lexeme.  The implementation ignores such failures. *)
Fixpoint apply_seq (seq : list repair) (i : nat) (stk : vstack) (laidx : nat) (fail : option nat)
  : outcome (vstack * nat * option nat) :=
  match seq with
  | [] => Done (stk, laidx, fail)
  | Ins t :: seq' =>
      match lr_upto1 (Some t) stk laidx with
      | AShift stk' => apply_seq seq' (S i) stk' laidx fail          (* the returned laidx is dropped *)
      | AAccept stk' | AError stk' | APast stk' => apply_seq seq' (S i) stk' laidx (mark fail i)
      | APanic => Panic
      | AFuel => OutOfFuel
      end
  | Del :: seq' =>
      apply_seq seq' (S i) stk (S laidx) (if (laidx <? length input)%nat then fail else mark fail i)
  | Shf :: seq' =>
      match lr_upto1 None stk laidx with
      | AShift stk' => apply_seq seq' (S i) stk' (S laidx) fail
      | AAccept stk' | AError stk' | APast stk' => apply_seq seq' (S i) stk' laidx (mark fail i)
      | APanic => Panic
      | AFuel => OutOfFuel
      end
  end.

(* lr_upto(None, laidx, laidx + n, …): how plain parsing of the next n lexemes ends *)
Fixpoint parse_ahead (n : nat) (stk : vstack) (laidx : nat) : ahead :=
  match n with
  | O => HReached
  | S n' =>
      match lr_upto1 None stk laidx with
      | AShift stk' => parse_ahead n' stk' (S laidx)
      | AAccept _ => HAccept
      | AError stk' => HError laidx (vtop A stk')
      | APast _ => HPast
      | APanic => HPanic
      | AFuel => HFuel
      end
  end.

(* C05: the sequence repairs — every step does what it says and plain parsing
   then gets through the next PN lexemes or to Accept *)
Definition valid_repair (PN : nat) (stk : vstack) (laidx : nat) (seq : list repair) : bool :=
  match apply_seq seq 0 stk laidx None with
  | Done (stk', laidx', None) => ahead_ok (parse_ahead PN stk' laidx')
  | _ => false
  end.

(* The driver: Parser::lr with RecoveryKind::CPCTPlus.  [oracle] = per error, in
   order, the first repair sequence the recoverer reported (None: it reported
   none).  One unit of [ofuel] per lexeme shifted / error handled. *)
Fixpoint run_recover (PN : nat) (ofuel : nat) (oracle : list (option (list repair)))
    (stk : vstack) (laidx : nat) : dres :=
  match ofuel with
  | O => DStuck SOuterFuel []
  | S f =>
      match advance ifuel stk (la g input laidx) (real_leaf laidx) with
      | AShift stk' => run_recover PN f oracle stk' (S laidx)
      | AAccept stk' =>
          (* astack.drain(..).next().unwrap() must be an ActionType *)
          match rev stk' with
          | (_, VNode p k) :: _ => DDone (Some (VNode p k)) []
          | _ => DStuck SPanic []
          end
      | AError stk' =>
          let st := vtop A stk' in
          match oracle with
          | [] | None :: _ => DDone None [mkErr laidx st false false stk']
          | Some seq :: oracle' =>
              let e := mkErr laidx st true (valid_repair PN stk' laidx seq) stk' in
              match apply_seq seq 0 stk' laidx None with
              | Done (stk'', laidx', _) => push_err e (run_recover PN f oracle' stk'' laidx')
              | Panic => DStuck SPanic [e]
              | OutOfFuel => DStuck SInnerFuel [e]
              end
          end
      | APast _ => DStuck SPanic []
      | APanic => DStuck SPanic []
      | AFuel => DStuck SInnerFuel []
      end
  end.

End Sem.

(* the repaired remainder of the input: dropping deleted lexemes, adding inserted
   tokens, keeping shifted ones *)
Fixpoint edit (seq : list repair) (rest : list N) : list N :=
  match seq with
  | [] => rest
  | Ins t :: seq' => t :: edit seq' rest
  | Del :: seq' => edit seq' (tl rest)
  | Shf :: seq' => match rest with [] => edit seq' [] | x :: rest' => x :: edit seq' rest' end
  end.
Definition repaired (input : list N) (p : nat) (seq : list repair) : list N :=
  firstn p input ++ edit seq (skipn p input).

(* leaves of a value tree: (token, lexeme index, faulty) *)
Fixpoint vleaves (t : vtree) : list (N * nat * bool) :=
  match t with
  | VLeaf a i f => [(a, i, f)]
  | VNode _ kids => flat_map vleaves kids
  end.
