(* C05 — "parsing continues as if the sequence had been applied": the driver after
   a strictly applied sequence vs the driver on the repaired token string. *)
From Coq Require Import List Arith NArith Bool Lia.
From GV Require Import Common.Outcome Base.Grammar LR.Automaton LR.Sound
  Repair.Semantics Repair.Spec Repair.Proofs.
Import ListNotations.

Definition sstack (stk : vstack) : stack := map (fun e => (fst e, vshape (snd e))) stk.

Definition adv_sproj (r : adv) : nat * stack :=
  match r with
  | AShift s => (0, sstack s) | AAccept s => (1, sstack s) | AError s => (2, sstack s)
  | APast s => (3, sstack s) | APanic => (4, []) | AFuel => (5, [])
  end%nat.

Lemma sstack_states s1 s2 : sstack s1 = sstack s2 -> map fst s1 = map fst s2.
Proof.
  intros H. apply (f_equal (map fst)) in H. unfold sstack in H. rewrite !map_map in H.
  cbn [fst] in H. exact H.
Qed.

Lemma sstack_vtop A s1 s2 : sstack s1 = sstack s2 -> vtop A s1 = vtop A s2.
Proof. intros H. apply vtop_states, sstack_states, H. Qed.

Lemma sstack_skipn n s : sstack (skipn n s) = skipn n (sstack s).
Proof. unfold sstack. symmetry. apply skipn_map. Qed.

Lemma sstack_kids n s :
  map vshape (rev (map snd (firstn n s))) = rev (map snd (firstn n (sstack s))).
Proof. unfold sstack. rewrite firstn_map, map_map, map_rev, map_map. reflexivity. Qed.

Lemma sstack_cons s t r : sstack ((s, t) :: r) = (s, vshape t) :: sstack r.
Proof. reflexivity. Qed.

Lemma advance_shape g A : forall fuel s1 s2 a l1 l2,
  sstack s1 = sstack s2 -> vshape l1 = vshape l2 ->
  adv_sproj (advance g A fuel s1 a l1) = adv_sproj (advance g A fuel s2 a l2).
Proof.
  induction fuel as [|f IH]; intros s1 s2 a l1 l2 H Hl; cbn [advance]; [reflexivity|].
  rewrite (sstack_vtop A s1 s2 H).
  destruct (action A (vtop A s2) a) as [s'|q| |]; cbn [adv_sproj].
  - rewrite !sstack_cons, H, Hl. reflexivity.
  - assert (Hlen : length s1 = length s2).
    { rewrite <- (map_length fst s1), (sstack_states _ _ H). apply map_length. }
    rewrite Hlen. destruct (length s2 <? length (rhs g q))%nat; [reflexivity|].
    assert (Hs : sstack (skipn (length (rhs g q)) s1) = sstack (skipn (length (rhs g q)) s2))
      by (rewrite !sstack_skipn, H; reflexivity).
    rewrite (sstack_vtop A _ _ Hs).
    destruct (goto A (vtop A (skipn (length (rhs g q)) s2)) (lhs g q)) as [s1'|]; [|reflexivity].
    apply IH; [|exact Hl].
    rewrite !sstack_cons. cbn [vshape]. rewrite Hs, !sstack_kids, H. reflexivity.
  - exact (f_equal (pair 1%nat) H).
  - exact (f_equal (pair 2%nat) H).
Qed.

(* ---- two inputs with a common rest -------------------------------------------------- *)
Section Align.
Variable g : grammar.
Variable A : automaton.
Variable ifuel : nat.
Variable PN : nat.
Variables pre1 pre2 rest : list N.

Let n1 := length pre1.
Let n2 := length pre2.

Lemma la_align k : la g (pre1 ++ rest) (n1 + k) = la g (pre2 ++ rest) (n2 + k).
Proof. unfold la, n1, n2. rewrite !app_nth2_plus. reflexivity. Qed.

Lemma past_align k : (length (pre1 ++ rest) <? n1 + k)%nat = (length (pre2 ++ rest) <? n2 + k)%nat.
Proof.
  rewrite !app_length. fold n1 n2.
  destruct (Nat.ltb_spec (n1 + length rest) (n1 + k)); destruct (Nat.ltb_spec (n2 + length rest) (n2 + k));
    try reflexivity; lia.
Qed.

Lemma in_align k : (n1 + k <? length (pre1 ++ rest))%nat = (n2 + k <? length (pre2 ++ rest))%nat.
Proof.
  rewrite !app_length. fold n1 n2.
  destruct (Nat.ltb_spec (n1 + k) (n1 + length rest)); destruct (Nat.ltb_spec (n2 + k) (n2 + length rest));
    try reflexivity; lia.
Qed.

Lemma lr_upto1_align ins s1 s2 k : sstack s1 = sstack s2 ->
  adv_sproj (lr_upto1 g A (pre1 ++ rest) ifuel ins s1 (n1 + k)) =
  adv_sproj (lr_upto1 g A (pre2 ++ rest) ifuel ins s2 (n2 + k)).
Proof.
  intros H. unfold lr_upto1. rewrite past_align.
  destruct (length (pre2 ++ rest) <? n2 + k)%nat; [exact (f_equal (pair 3%nat) H)|].
  destruct ins as [t|].
  - apply advance_shape; [exact H|reflexivity].
  - rewrite la_align. apply advance_shape; [exact H|]. unfold real_leaf. cbn [vshape]. rewrite la_align. reflexivity.
Qed.

Lemma segment_align s1 s2 k : sstack s1 = sstack s2 ->
  adv_sproj (advance g A ifuel s1 (la g (pre1 ++ rest) (n1 + k)) (real_leaf g (pre1 ++ rest) (n1 + k))) =
  adv_sproj (advance g A ifuel s2 (la g (pre2 ++ rest) (n2 + k)) (real_leaf g (pre2 ++ rest) (n2 + k))).
Proof.
  intros H. rewrite (la_align k). apply advance_shape; [exact H|].
  unfold real_leaf. cbn [vshape]. rewrite la_align. reflexivity.
Qed.

Definition cfg_rel (s1 : vstack) (p1 : nat) (s2 : vstack) (p2 : nat) : Prop :=
  sstack s1 = sstack s2 /\ exists k, p1 = (n1 + k)%nat /\ p2 = (n2 + k)%nat.

Definition app_rel (r1 r2 : outcome (vstack * nat * option nat)) : Prop :=
  match r1, r2 with
  | Done (s1, p1, f1), Done (s2, p2, f2) => cfg_rel s1 p1 s2 p2 /\ f1 = f2
  | Panic, Panic => True
  | OutOfFuel, OutOfFuel => True
  | _, _ => False
  end.

Lemma apply_seq_align : forall seq i s1 s2 k fail, sstack s1 = sstack s2 ->
  app_rel (apply_seq g A (pre1 ++ rest) ifuel seq i s1 (n1 + k) fail)
          (apply_seq g A (pre2 ++ rest) ifuel seq i s2 (n2 + k) fail).
Proof.
  induction seq as [|r seq IH]; intros i s1 s2 k fail H.
  - cbn [apply_seq app_rel]. split; [|reflexivity]. split; [exact H|]. exists k. split; reflexivity.
  - destruct r as [t| |]; cbn [apply_seq].
    + pose proof (lr_upto1_align (Some t) s1 s2 k H) as E.
      destruct (lr_upto1 g A (pre1 ++ rest) ifuel (Some t) s1 (n1 + k)) as [a1|a1|a1|a1| |];
        destruct (lr_upto1 g A (pre2 ++ rest) ifuel (Some t) s2 (n2 + k)) as [a2|a2|a2|a2| |];
        cbn [adv_sproj] in E; try discriminate; try exact I; injection E as E; apply IH; exact E.
    + rewrite in_align. replace (S (n1 + k)) with (n1 + S k)%nat by lia.
      replace (S (n2 + k)) with (n2 + S k)%nat by lia. apply IH. exact H.
    + pose proof (lr_upto1_align None s1 s2 k H) as E.
      destruct (lr_upto1 g A (pre1 ++ rest) ifuel None s1 (n1 + k)) as [a1|a1|a1|a1| |];
        destruct (lr_upto1 g A (pre2 ++ rest) ifuel None s2 (n2 + k)) as [a2|a2|a2|a2| |];
        cbn [adv_sproj] in E; try discriminate; try exact I; injection E as E.
      * replace (S (n1 + k)) with (n1 + S k)%nat by lia.
        replace (S (n2 + k)) with (n2 + S k)%nat by lia. apply IH. exact E.
      * apply IH; exact E.
      * apply IH; exact E.
      * apply IH; exact E.
Qed.

Lemma parse_ahead_align : forall n s1 s2 k, sstack s1 = sstack s2 ->
  ahead_ok (parse_ahead g A (pre1 ++ rest) ifuel n s1 (n1 + k)) =
  ahead_ok (parse_ahead g A (pre2 ++ rest) ifuel n s2 (n2 + k)).
Proof.
  induction n as [|n IH]; intros s1 s2 k H; [reflexivity|]. cbn [parse_ahead].
  pose proof (lr_upto1_align None s1 s2 k H) as E.
  destruct (lr_upto1 g A (pre1 ++ rest) ifuel None s1 (n1 + k)) as [a1|a1|a1|a1| |];
    destruct (lr_upto1 g A (pre2 ++ rest) ifuel None s2 (n2 + k)) as [a2|a2|a2|a2| |];
    cbn [adv_sproj] in E; try discriminate; try reflexivity. injection E as E.
  replace (S (n1 + k)) with (n1 + S k)%nat by lia.
  replace (S (n2 + k)) with (n2 + S k)%nat by lia. apply IH. exact E.
Qed.

Lemma valid_repair_align s1 s2 k seq : sstack s1 = sstack s2 ->
  valid_repair g A (pre1 ++ rest) ifuel PN s1 (n1 + k) seq =
  valid_repair g A (pre2 ++ rest) ifuel PN s2 (n2 + k) seq.
Proof.
  intros H. unfold valid_repair.
  pose proof (apply_seq_align seq 0%nat s1 s2 k None H) as R.
  destruct (apply_seq g A (pre1 ++ rest) ifuel seq 0 s1 (n1 + k) None) as [[[a1 q1] f1]| |];
    destruct (apply_seq g A (pre2 ++ rest) ifuel seq 0 s2 (n2 + k) None) as [[[a2 q2] f2]| |];
    cbn [app_rel] in R; try contradiction; try reflexivity.
  destruct R as ((Hs & k' & -> & ->) & ->). destruct f2; [reflexivity|].
  apply parse_ahead_align. exact Hs.
Qed.

Lemma sstack_rev s : rev (sstack s) = sstack (rev s).
Proof. unfold sstack. symmetry. apply map_rev. Qed.

Lemma similar_push e1 e2 r1 r2 : erel n1 n2 e1 e2 -> similar n1 n2 r1 r2 ->
  similar n1 n2 (push_err e1 r1) (push_err e2 r2).
Proof.
  intros He H. destruct r1 as [v1 es1|w1 es1], r2 as [v2 es2|w2 es2]; cbn [similar push_err] in *;
    try contradiction; destruct H as (H1 & H2); (split; [exact H1|]); constructor; assumption.
Qed.

Lemma run_recover_align : forall ofuel oracle s1 s2 k, sstack s1 = sstack s2 ->
  similar n1 n2 (run_recover g A (pre1 ++ rest) ifuel PN ofuel oracle s1 (n1 + k))
                (run_recover g A (pre2 ++ rest) ifuel PN ofuel oracle s2 (n2 + k)).
Proof.
  induction ofuel as [|f IH]; intros oracle s1 s2 k H; cbn [run_recover].
  - cbn [similar]. split; [reflexivity|constructor].
  - pose proof (segment_align s1 s2 k H) as E.
    destruct (advance g A ifuel s1 (la g (pre1 ++ rest) (n1 + k)) (real_leaf g (pre1 ++ rest) (n1 + k))) as [a1|a1|a1|a1| |];
      destruct (advance g A ifuel s2 (la g (pre2 ++ rest) (n2 + k)) (real_leaf g (pre2 ++ rest) (n2 + k))) as [a2|a2|a2|a2| |];
      cbn [adv_sproj] in E; try discriminate; try (injection E as E).
    + replace (S (n1 + k)) with (n1 + S k)%nat by lia.
      replace (S (n2 + k)) with (n2 + S k)%nat by lia. apply IH. exact E.
    + apply (f_equal (@rev _)) in E. rewrite !sstack_rev in E.
      destruct (rev a1) as [|[x1 t1] r1]; destruct (rev a2) as [|[x2 t2] r2]; cbn [sstack map] in E; try discriminate.
      * cbn [similar]. split; [reflexivity|constructor].
      * injection E as _ Et _. cbn [fst snd] in Et.
        destruct t1 as [b1 i1 fl1|q1 k1]; destruct t2 as [b2 i2 fl2|q2 k2]; cbn [vshape] in Et; try discriminate.
        -- cbn [similar]. split; [reflexivity|constructor].
        -- cbn [similar option_map vshape]. split; [rewrite Et; reflexivity|constructor].
    + assert (Htop : vtop A a1 = vtop A a2) by (apply sstack_vtop; exact E).
      assert (Hpos : (n1 + k + n2 = n2 + k + n1)%nat) by lia.
      destruct oracle as [|[seq|] oracle'].
      * cbn [similar]. split; [reflexivity|]. constructor; [|constructor].
        unfold erel. cbn [e_pos e_state e_repaired e_valid]. repeat split; [exact Hpos|exact Htop].
      * rewrite Htop, (valid_repair_align a1 a2 k seq E).
        pose proof (apply_seq_align seq 0%nat a1 a2 k None E) as R.
        assert (He : forall stA stB, erel n1 n2
                  (mkErr (n1 + k) (vtop A a2) true (valid_repair g A (pre2 ++ rest) ifuel PN a2 (n2 + k) seq) stA)
                  (mkErr (n2 + k) (vtop A a2) true (valid_repair g A (pre2 ++ rest) ifuel PN a2 (n2 + k) seq) stB)).
        { intros stA stB. unfold erel. cbn [e_pos e_state e_repaired e_valid]. repeat split. exact Hpos. }
        destruct (apply_seq g A (pre1 ++ rest) ifuel seq 0 a1 (n1 + k) None) as [[[b1 q1] f1]| |];
          destruct (apply_seq g A (pre2 ++ rest) ifuel seq 0 a2 (n2 + k) None) as [[[b2 q2] f2]| |];
          cbn [app_rel] in R; try contradiction.
        -- destruct R as ((Hs & k' & -> & ->) & _). apply similar_push; [apply He|]. apply IH. exact Hs.
        -- cbn [similar]. split; [reflexivity|]. constructor; [apply He|constructor].
        -- cbn [similar]. split; [reflexivity|]. constructor; [apply He|constructor].
      * cbn [similar]. split; [reflexivity|]. constructor; [|constructor].
        unfold erel. cbn [e_pos e_state e_repaired e_valid]. repeat split; [exact Hpos|exact Htop].
    + cbn [similar]. split; [reflexivity|constructor].
    + cbn [similar]. split; [reflexivity|constructor].
    + cbn [similar]. split; [reflexivity|constructor].
Qed.

End Align.

(* ---- the repaired tokens are shifted one by one by the plain driver -------------------- *)
Section Path.
Variable g : grammar.
Variable A : automaton.
Variable ifuel : nat.
Variable PN : nat.
Hypothesis Hns : no_shift_eof g A.

Lemma apply_seq_path input input2 : forall seq i stk1 p stk2 q stk' p',
  apply_seq g A input ifuel seq i stk1 p None = Done (stk', p', None) ->
  sstack stk1 = sstack stk2 -> skipn q input2 = edit seq (skipn p input) ->
  (q <= length input2)%nat -> (p <= length input)%nat ->
  exists stk2',
    (forall f o, run_recover g A input2 ifuel PN (shifts_of seq + f) o stk2 q =
                 run_recover g A input2 ifuel PN f o stk2' (q + shifts_of seq)) /\
    sstack stk' = sstack stk2' /\ skipn (q + shifts_of seq) input2 = skipn p' input /\
    (q + shifts_of seq <= length input2)%nat /\ (p' <= length input)%nat.
Proof.
  induction seq as [|r seq IH]; intros i stk1 p stk2 q stk' p' Happ Hst Hsk Hq Hp.
  - cbn [apply_seq] in Happ. injection Happ as <- <-. cbn [edit] in Hsk. cbn [shifts_of]. rewrite Nat.add_0_r.
    exists stk2. split; [intros f o; reflexivity|]. split; [exact Hst|]. split; [exact Hsk|]. split; assumption.
  - destruct r as [t| |]; cbn [apply_seq] in Happ.
    + destruct (lr_upto1 g A input ifuel (Some t) stk1 p) as [s|s|s|s| |] eqn:E; try discriminate;
        try (exfalso; apply apply_seq_facts in Happ; destruct Happ as (_ & H2); specialize (H2 eq_refl);
             cbn [mark] in H2; discriminate).
      unfold lr_upto1 in E. destruct (length input <? p)%nat; [discriminate|].
      cbn [edit] in Hsk.
      pose proof (skipn_cons_lt _ _ _ _ Hsk) as Lq.
      assert (Hla : la g input2 q = t) by (rewrite la_skipn, Hsk; reflexivity).
      assert (Hlf : vshape (ins_leaf t p) = vshape (real_leaf g input2 q)).
      { unfold ins_leaf, real_leaf. cbn [vshape]. rewrite Hla. reflexivity. }
      pose proof (advance_shape g A ifuel stk1 stk2 t (ins_leaf t p) (real_leaf g input2 q) Hst Hlf) as Ep.
      rewrite E in Ep.
      destruct (advance g A ifuel stk2 t (real_leaf g input2 q)) as [a2|a2|a2|a2| |] eqn:E2;
        cbn [adv_sproj] in Ep; try discriminate. injection Ep as Ep.
      assert (Hsk' : skipn (S q) input2 = edit seq (skipn p input)) by (rewrite skipn_S_tl, Hsk; reflexivity).
      destruct (IH _ _ _ a2 (S q) _ _ Happ Ep Hsk' ltac:(lia) Hp) as (stk2' & Hpa & R).
      exists stk2'. cbn [shifts_of]. replace (q + S (shifts_of seq))%nat with (S q + shifts_of seq)%nat by lia.
      split; [|exact R].
      intros f o. cbn [Nat.add run_recover]. rewrite Hla, E2. apply Hpa.
    + destruct (p <? length input)%nat eqn:El.
      2:{ exfalso. apply apply_seq_facts in Happ. destruct Happ as (_ & H2). specialize (H2 eq_refl).
          cbn [mark] in H2. discriminate. }
      apply Nat.ltb_lt in El. cbn [edit] in Hsk. rewrite <- skipn_S_tl in Hsk.
      destruct (IH _ _ _ stk2 q _ _ Happ Hst Hsk Hq ltac:(lia)) as (stk2' & Hpa & R).
      exists stk2'. cbn [shifts_of]. split; [exact Hpa|exact R].
    + destruct (lr_upto1 g A input ifuel None stk1 p) as [s|s|s|s| |] eqn:E; try discriminate;
        try (exfalso; apply apply_seq_facts in Happ; destruct Happ as (_ & H2); specialize (H2 eq_refl);
             cbn [mark] in H2; discriminate).
      unfold lr_upto1 in E. destruct (length input <? p)%nat; [discriminate|].
      pose proof (shift_in_input g A input Hns _ _ _ _ _ E) as Lp.
      destruct (skipn p input) as [|x rest] eqn:Er.
      { exfalso. pose proof (skipn_length p input) as Hl. rewrite Er in Hl. cbn [length] in Hl. lia. }
      cbn [edit] in Hsk.
      pose proof (skipn_cons_lt _ _ _ _ Hsk) as Lq.
      assert (Hlap : la g input p = x) by (rewrite la_skipn, Er; reflexivity).
      assert (Hla : la g input2 q = x) by (rewrite la_skipn, Hsk; reflexivity).
      assert (Hlf : vshape (real_leaf g input p) = vshape (real_leaf g input2 q)).
      { unfold real_leaf. cbn [vshape]. rewrite Hla, Hlap. reflexivity. }
      pose proof (advance_shape g A ifuel stk1 stk2 x (real_leaf g input p) (real_leaf g input2 q) Hst Hlf) as Ep.
      rewrite Hlap in E. rewrite E in Ep.
      destruct (advance g A ifuel stk2 x (real_leaf g input2 q)) as [a2|a2|a2|a2| |] eqn:E2;
        cbn [adv_sproj] in Ep; try discriminate. injection Ep as Ep.
      assert (Hsk' : skipn (S q) input2 = edit seq (skipn (S p) input)).
      { rewrite !skipn_S_tl, Hsk, Er. reflexivity. }
      destruct (IH _ _ _ a2 (S q) _ _ Happ Ep Hsk' ltac:(lia) ltac:(lia)) as (stk2' & Hpa & R).
      exists stk2'. cbn [shifts_of]. replace (q + S (shifts_of seq))%nat with (S q + shifts_of seq)%nat by lia.
      split; [|exact R].
      intros f o. cbn [Nat.add run_recover]. rewrite Hla, E2. apply Hpa.
Qed.

End Path.

Lemma continue_as_if_applied : continue_as_if_applied_stmt.
Proof.
  intros g A input ifuel PN seq stk p stk' p' ofuel oracle Hns Hp Happ.
  set (input2 := repaired input p seq).
  assert (Hq : (p <= length input2)%nat).
  { unfold input2, repaired. rewrite app_length, firstn_length_le by exact Hp. lia. }
  destruct (apply_seq_path g A ifuel PN Hns input input2 seq 0%nat stk p stk p stk' p'
              Happ eq_refl (skipn_repaired input p seq Hp) Hq Hp)
    as (stk2' & Hpa & Hst & Hsk & Hq' & Hp').
  rewrite Hpa.
  pose proof (run_recover_align g A ifuel PN (firstn p' input) (firstn (p + shifts_of seq) input2)
                (skipn p' input) ofuel oracle stk' stk2' 0%nat Hst) as H.
  rewrite firstn_skipn in H. rewrite <- Hsk in H. rewrite firstn_skipn in H.
  rewrite !firstn_length_le in H by assumption. rewrite !Nat.add_0_r in H. exact H.
Qed.
