(* C05/C07 — proofs of the statements of Repair/Spec.v. *)
From Coq Require Import List Arith NArith Bool Lia.
From GV Require Import Common.Outcome Base.Grammar LR.Automaton LR.Validator LR.Spec LR.Sound
  Repair.Semantics Repair.Spec.
Import ListNotations.

(* ---- small facts ---------------------------------------------------------------- *)

Lemma assocN_In {X} (k : N) (l : list (N * X)) v : assocN k l = Some v -> In (k, v) l.
Proof.
  induction l as [|(k', v') l IH]; cbn [assocN]; [discriminate|].
  destruct (N.eqb k k') eqn:E.
  - intros H. injection H as ->. apply N.eqb_eq in E. subst k'. left. reflexivity.
  - intros H. right. apply IH. exact H.
Qed.

Lemma dump_no_shift_eof_ok : dump_no_shift_eof_ok_stmt.
Proof.
  intros g d H s s' Hact. unfold of_dump in Hact. cbn [action] in Hact.
  destruct (assocN s (d_actions d)) as [l|] eqn:El; [|discriminate].
  destruct (assocN (eof g) l) as [a|] eqn:Ea; cbn [odefault] in Hact; [|discriminate].
  subst a. apply assocN_In in El. apply assocN_In in Ea.
  unfold dump_no_shift_eof in H. rewrite forallb_forall in H.
  specialize (H _ El). cbn [snd] in H. rewrite forallb_forall in H.
  specialize (H _ Ea). cbn [fst snd is_shift] in H. rewrite N.eqb_refl in H. discriminate.
Qed.

Lemma chain_weaken PN : forall l lo lo', (lo' <= lo)%nat -> chain PN lo l -> chain PN lo' l.
Proof.
  intros [|p l] lo lo' Hle H; cbn [chain] in *; [exact I|].
  destruct H as (H1 & H2). split; [lia|exact H2].
Qed.

Lemma chain_nth PN : forall l lo i d, chain PN lo l -> (S i < length l)%nat ->
  (nth i l d + PN <= nth (S i) l d)%nat.
Proof.
  induction l as [|p l IH]; intros lo i d H Hi; cbn [length] in Hi; [lia|].
  destruct l as [|q l']; cbn [length] in Hi; [lia|].
  cbn [chain] in H. destruct H as (_ & Hq & Hrest).
  destruct i as [|i].
  - cbn [nth]. exact Hq.
  - change (nth (S i) (p :: q :: l') d) with (nth i (q :: l') d).
    change (nth (S (S i)) (p :: q :: l') d) with (nth (S i) (q :: l') d).
    apply (IH (p + PN)%nat). + cbn [chain]. split; [exact Hq|exact Hrest]. + cbn [length]. lia.
Qed.

Lemma chain_last_bound PN len : forall l lo, chain PN lo l -> Forall (fun p => (p <= len)%nat) l ->
  l <> [] -> (lo + (length l - 1) * PN <= len)%nat.
Proof.
  induction l as [|p l IH]; intros lo H HF Hne; [congruence|].
  cbn [chain] in H. destruct H as (Hlo & Hrest).
  inversion HF as [|? ? Hp HF']; subst.
  destruct l as [|q l'].
  - cbn [length]. lia.
  - assert (Hne' : q :: l' <> []) by discriminate.
    pose proof (IH (p + PN)%nat Hrest HF' Hne') as B.
    cbn [length] in B |- *. replace (S (S (length l')) - 1)%nat with (S (length l')) by lia.
    replace (S (length l') - 1)%nat with (length l') in B by lia. cbn [Nat.mul]. lia.
Qed.

(* ---- the machine under one lookahead ------------------------------------------------ *)
Section Machine.
Variable g : grammar.
Variable A : automaton.
Variable input : list N.
Variable ifuel : nat.

Lemma advance_shift_action : forall fuel stk a leaf stk',
  advance g A fuel stk a leaf = AShift stk' -> exists s s0, action A s a = Shift s0.
Proof.
  induction fuel as [|f IH]; intros stk a leaf stk' H; cbn [advance] in H; [discriminate|].
  destruct (action A (vtop A stk) a) as [s0|p| |] eqn:Ea; try discriminate.
  - exists (vtop A stk), s0. exact Ea.
  - destruct (length stk <? length (rhs g p))%nat; [discriminate|].
    destruct (goto A (vtop A (skipn (length (rhs g p)) stk)) (lhs g p)) as [s1|]; [|discriminate].
    eapply IH. exact H.
Qed.

Lemma shift_in_input : no_shift_eof g A -> forall fuel stk p leaf stk',
  advance g A fuel stk (la g input p) leaf = AShift stk' -> (p < length input)%nat.
Proof.
  intros Hns fuel stk p leaf stk' H.
  destruct (advance_shift_action _ _ _ _ _ H) as (s & s0 & Hs).
  destruct (Nat.lt_ge_cases p (length input)) as [Hlt|Hge]; [exact Hlt|].
  rewrite (la_past_end g input p Hge) in Hs. exfalso. exact (Hns _ _ Hs).
Qed.

(* ---- apply_seq ------------------------------------------------------------------------ *)
Lemma mark_some fail i : mark fail i <> None.
Proof. destruct fail; cbn [mark]; discriminate. Qed.

Lemma apply_seq_facts : forall seq i stk p fail stk' p' fail',
  apply_seq g A input ifuel seq i stk p fail = Done (stk', p', fail') ->
  (p <= p')%nat /\ (fail' = None -> fail = None).
Proof.
  induction seq as [|r seq IH]; intros i stk p fail stk' p' fail' H.
  - cbn [apply_seq] in H. injection H as <- <- <-. split; [lia|auto].
  - destruct r as [t| |]; cbn [apply_seq] in H.
    + destruct (lr_upto1 g A input ifuel (Some t) stk p) as [s|s|s|s| |]; try discriminate;
        apply IH in H; destruct H as (H1 & H2); (split; [lia|]); intros Hn; specialize (H2 Hn);
        try exact H2; exfalso; exact (mark_some _ _ H2).
    + apply IH in H. destruct H as (H1 & H2). split; [lia|]. intros Hn. specialize (H2 Hn).
      destruct (p <? length input)%nat; [exact H2|]. exfalso. exact (mark_some _ _ H2).
    + destruct (lr_upto1 g A input ifuel None stk p) as [s|s|s|s| |]; try discriminate;
        apply IH in H; destruct H as (H1 & H2); (split; [lia|]); intros Hn; specialize (H2 Hn);
        try exact H2; exfalso; exact (mark_some _ _ H2).
Qed.

Lemma apply_seq_strict_bound : no_shift_eof g A -> forall seq i stk p stk' p',
  (p <= length input)%nat ->
  apply_seq g A input ifuel seq i stk p None = Done (stk', p', None) -> (p' <= length input)%nat.
Proof.
  intros Hns. induction seq as [|r seq IH]; intros i stk p stk' p' Hp H.
  - cbn [apply_seq] in H. injection H as <- <-. exact Hp.
  - destruct r as [t| |]; cbn [apply_seq] in H.
    + destruct (lr_upto1 g A input ifuel (Some t) stk p) as [s|s|s|s| |] eqn:E; try discriminate;
        try (eapply IH; [exact Hp|exact H]);
        exfalso; apply apply_seq_facts in H; destruct H as (_ & H2); specialize (H2 eq_refl);
        cbn [mark] in H2; discriminate.
    + destruct (p <? length input)%nat eqn:E.
      * apply Nat.ltb_lt in E. eapply IH; [|exact H]. lia.
      * exfalso. apply apply_seq_facts in H. destruct H as (_ & H2). specialize (H2 eq_refl).
        cbn [mark] in H2. discriminate.
    + destruct (lr_upto1 g A input ifuel None stk p) as [s|s|s|s| |] eqn:E; try discriminate;
        try (exfalso; apply apply_seq_facts in H; destruct H as (_ & H2); specialize (H2 eq_refl);
             cbn [mark] in H2; discriminate).
      unfold lr_upto1 in E. destruct (length input <? p)%nat; [discriminate|].
      apply (shift_in_input Hns) in E. eapply IH; [|exact H]. lia.
Qed.

Lemma apply_seq_app : forall s1 s2 i stk p fail,
  apply_seq g A input ifuel (s1 ++ s2) i stk p fail =
  match apply_seq g A input ifuel s1 i stk p fail with
  | Done (stk1, p1, f1) => apply_seq g A input ifuel s2 (i + length s1) stk1 p1 f1
  | Panic => Panic
  | OutOfFuel => OutOfFuel
  end.
Proof.
  induction s1 as [|r s1 IH]; intros s2 i stk p fail.
  - cbn [app apply_seq length]. rewrite Nat.add_0_r. reflexivity.
  - cbn [app length]. replace (i + S (length s1))%nat with (S i + length s1)%nat by lia.
    destruct r as [t| |]; cbn [apply_seq].
    + destruct (lr_upto1 g A input ifuel (Some t) stk p); try reflexivity; apply IH.
    + apply IH.
    + destruct (lr_upto1 g A input ifuel None stk p); try reflexivity; apply IH.
Qed.

Lemma shifts_then_ahead : forall k i stk p stk' p',
  apply_seq g A input ifuel (repeat Shf k) i stk p None = Done (stk', p', None) ->
  forall n, parse_ahead g A input ifuel (k + n) stk p = parse_ahead g A input ifuel n stk' p'.
Proof.
  induction k as [|k IH]; intros i stk p stk' p' H n.
  - cbn [repeat apply_seq] in H. injection H as <- <-. reflexivity.
  - cbn [repeat apply_seq] in H. cbn [Nat.add parse_ahead].
    destruct (lr_upto1 g A input ifuel None stk p) as [s|s|s|s| |] eqn:E; try discriminate;
      try (exfalso; apply apply_seq_facts in H; destruct H as (_ & H2); specialize (H2 eq_refl);
           cbn [mark] in H2; discriminate).
    eapply IH. exact H.
Qed.

End Machine.

Lemma success_stripped_valid : success_stripped_valid_stmt.
Proof.
  intros g A input ifuel PN stk p seq k stk' p' Happ Hk.
  rewrite apply_seq_app in Happ.
  destruct (apply_seq g A input ifuel seq 0 stk p None) as [[[stk1 p1] f1]| |] eqn:E1; try discriminate.
  pose proof (apply_seq_facts _ _ _ _ _ _ _ _ _ _ _ _ Happ) as (_ & Hf). specialize (Hf eq_refl). subst f1.
  unfold valid_repair. rewrite E1.
  pose proof (shifts_then_ahead _ _ _ _ _ _ _ _ _ _ Happ) as Hsh.
  destruct Hk as [->|(Hle & stk'' & Hacc)].
  - specialize (Hsh 0%nat). rewrite Nat.add_0_r in Hsh. rewrite Hsh. reflexivity.
  - specialize (Hsh (PN - k)%nat). replace (k + (PN - k))%nat with PN in Hsh by lia. rewrite Hsh.
    destruct (PN - k)%nat; cbn [parse_ahead]; [reflexivity|]. rewrite Hacc. reflexivity.
Qed.

(* ---- the driver: progress, spacing, termination -------------------------------------- *)
Section Driver.
Variable g : grammar.
Variable A : automaton.
Variable input : list N.
Variable ifuel : nat.
Variable PN : nat.
Hypothesis Hns : no_shift_eof g A.
Hypothesis HPN : (1 <= PN)%nat.

Let len := length input.

Definition guard (k : nat) (stk : vstack) (p : nat) : Prop :=
  ahead_ok (parse_ahead g A input ifuel k stk p) = true.

Lemma errs_of_push e r : errs_of (push_err e r) = e :: errs_of r.
Proof. destruct r; reflexivity. Qed.

Lemma push_err_not_ofuel e r : (forall es, r <> DStuck SOuterFuel es) ->
  forall es, push_err e r <> DStuck SOuterFuel es.
Proof.
  intros H es. destruct r as [v es'|w es']; cbn [push_err]; [discriminate|].
  intros E. injection E as -> _. exact (H es' eq_refl).
Qed.

Lemma valid_repair_inv stk p seq :
  valid_repair g A input ifuel PN stk p seq = true ->
  exists stk' p', apply_seq g A input ifuel seq 0 stk p None = Done (stk', p', None) /\ guard PN stk' p'.
Proof.
  unfold valid_repair. intros H.
  destruct (apply_seq g A input ifuel seq 0 stk p None) as [[[stk' p'] [f|]]| |]; try discriminate.
  exists stk', p'. split; [reflexivity|exact H].
Qed.

Lemma driver_main : forall ofuel oracle stk p k,
  (p <= len)%nat -> guard k stk p ->
  let r := run_recover g A input ifuel PN ofuel oracle stk p in
  all_valid (errs_of r) ->
  chain PN (p + k) (map e_pos (errs_of r)) /\
  Forall (fun e => (e_pos e <= len)%nat) (errs_of r) /\
  ((len - p) + (len + 1 - (p + k)) + 1 <= ofuel -> forall es, r <> DStuck SOuterFuel es)%nat.
Proof.
  induction ofuel as [|f IH]; intros oracle stk p k Hp Hg r Hval.
  - subst r. cbn [run_recover errs_of map chain]. split; [exact I|]. split; [constructor|].
    intros Hle. exfalso. lia.
  - subst r. cbn [run_recover] in Hval |- *.
    destruct (advance g A ifuel stk (la g input p) (real_leaf g input p)) as [stk'|stk'|stk'|stk'| |] eqn:Hadv.
    + (* shift *)
      pose proof (shift_in_input g A input Hns _ _ _ _ _ Hadv) as Hlt. fold len in Hlt.
      assert (Hg' : guard (pred k) stk' (S p)).
      { destruct k as [|k']; [reflexivity|]. unfold guard in Hg |- *. cbn [parse_ahead pred] in Hg |- *.
        unfold lr_upto1 in Hg. replace (length input <? p)%nat with false in Hg
          by (symmetry; apply Nat.ltb_ge; exact Hp).
        rewrite Hadv in Hg. exact Hg. }
      assert (HSp : (S p <= len)%nat) by lia.
      destruct (IH oracle stk' (S p) (pred k) HSp Hg' Hval) as (Hc & HF & Hfu).
      split; [|split].
      * eapply chain_weaken; [|exact Hc]. destruct k; cbn [pred]; lia.
      * exact HF.
      * intros Hle. apply Hfu. destruct k; cbn [pred]; lia.
    + (* accept *)
      destruct (rev stk') as [|[s [a i fl|p0 k0]] rest]; cbn [errs_of map chain];
        (split; [exact I|]); (split; [constructor|]); intros _ es; discriminate.
    + (* error *)
      destruct k as [|k'].
      2:{ exfalso. unfold guard in Hg. cbn [parse_ahead] in Hg. unfold lr_upto1 in Hg.
          replace (length input <? p)%nat with false in Hg by (symmetry; apply Nat.ltb_ge; exact Hp).
          rewrite Hadv in Hg. cbn [ahead_ok] in Hg. discriminate. }
      rewrite Nat.add_0_r.
      destruct oracle as [|[seq|] oracle'].
      * cbn [errs_of map chain e_pos]. split; [split; [lia|exact I]|].
        split; [constructor; [cbn [e_pos]; exact Hp|constructor]|]. intros _ es. discriminate.
      * (* a sequence is applied *)
        set (e := mkErr p (vtop A stk') true (valid_repair g A input ifuel PN stk' p seq) stk') in *.
        assert (Hev : valid_repair g A input ifuel PN stk' p seq = true).
        { destruct (apply_seq g A input ifuel seq 0 stk' p None) as [[[s2 p2] f2]| |];
            [rewrite errs_of_push in Hval|cbn [errs_of] in Hval|cbn [errs_of] in Hval];
            inversion Hval as [|? ? He _]; subst; apply He; reflexivity. }
        destruct (valid_repair_inv _ _ _ Hev) as (stk2 & p2 & Happ & Hg2).
        rewrite Happ in Hval |- *. rewrite errs_of_push in Hval |- *.
        inversion Hval as [|? ? _ Hval']; subst.
        pose proof (apply_seq_facts _ _ _ _ _ _ _ _ _ _ _ _ Happ) as (Hpp & _).
        pose proof (apply_seq_strict_bound _ _ _ _ Hns _ _ _ _ _ _ Hp Happ) as Hp2. fold len in Hp2.
        destruct (IH oracle' stk2 p2 PN Hp2 Hg2 Hval') as (Hc & HF & Hfu).
        split; [|split].
        -- cbn [map chain]. split; [cbn [e_pos e]; lia|]. eapply chain_weaken; [|exact Hc]. cbn [e_pos e]. lia.
        -- constructor; [cbn [e_pos e]; exact Hp|exact HF].
        -- intros Hle. apply push_err_not_ofuel. apply Hfu. lia.
      * cbn [errs_of map chain e_pos]. split; [split; [lia|exact I]|].
        split; [constructor; [cbn [e_pos]; exact Hp|constructor]|]. intros _ es. discriminate.
    + cbn [errs_of map chain]. split; [exact I|]. split; [constructor|]. intros _ es. discriminate.
    + cbn [errs_of map chain]. split; [exact I|]. split; [constructor|]. intros _ es. discriminate.
    + cbn [errs_of map chain]. split; [exact I|]. split; [constructor|]. intros _ es. discriminate.
Qed.

End Driver.

Lemma valid_repair_progress : valid_repair_progress_stmt.
Proof.
  intros g A input ifuel PN stk p seq Hns HPN Hp Hv.
  destruct (valid_repair_inv _ _ _ _ _ _ _ _ Hv) as (stk' & p' & Happ & Hg).
  pose proof (apply_seq_facts _ _ _ _ _ _ _ _ _ _ _ _ Happ) as (Hpp & _).
  pose proof (apply_seq_strict_bound _ _ _ _ Hns _ _ _ _ _ _ Hp Happ) as Hp2.
  exists stk', p'. split; [exact Happ|]. split; [exact Hpp|]. split; [exact Hp2|]. split; [exact Hg|].
  intros ofuel oracle Hval.
  exact (proj1 (driver_main g A input ifuel PN Hns HPN ofuel oracle stk' p' PN Hp2 Hg Hval)).
Qed.

Lemma errors_spaced : errors_spaced_stmt.
Proof.
  intros g A input ifuel PN ofuel oracle Hns HPN r Hval. subst r.
  destruct (driver_main g A input ifuel PN Hns HPN ofuel oracle [] 0%nat 0%nat (Nat.le_0_l _) eq_refl Hval)
    as (Hc & HF & _).
  split; [exact Hc|exact HF].
Qed.

Lemma errors_strictly_increase : errors_strictly_increase_stmt.
Proof.
  intros g A input ifuel PN ofuel oracle Hns HPN es Hval i d Hi.
  destruct (errors_spaced g A input ifuel PN ofuel oracle Hns HPN Hval) as (Hc & _). fold es in Hc.
  assert (Hi' : (S i < length (map e_pos es))%nat) by (rewrite map_length; exact Hi).
  pose proof (chain_nth PN _ _ i (e_pos d) Hc Hi') as H.
  rewrite !map_nth in H. split; lia.
Qed.

Lemma error_count_bounded : error_count_bounded_stmt.
Proof.
  intros g A input ifuel PN ofuel oracle Hns HPN es Hval.
  destruct (errors_spaced g A input ifuel PN ofuel oracle Hns HPN Hval) as (Hc & HF). fold es in Hc, HF.
  destruct es as [|e es'] eqn:Ees; [cbn [length]; lia|]. rewrite <- Ees in *.
  assert (HF' : Forall (fun p => (p <= length input)%nat) (map e_pos es)).
  { rewrite Forall_map. exact HF. }
  assert (Hne : map e_pos es <> []) by (rewrite Ees; discriminate).
  pose proof (chain_last_bound PN (length input) _ _ Hc HF' Hne) as B.
  rewrite map_length in B. cbn [Nat.add] in B.
  assert (Hd : (length es - 1 <= length input / PN)%nat).
  { apply Nat.div_le_lower_bound; [lia|]. rewrite Nat.mul_comm. exact B. }
  lia.
Qed.

Lemma driver_terminates : driver_terminates_stmt.
Proof.
  intros g A input ifuel PN ofuel oracle es Hns HPN Hfu Hrun Hval.
  assert (Hval' : all_valid (errs_of (run_recover g A input ifuel PN ofuel oracle [] 0))).
  { rewrite Hrun. exact Hval. }
  destruct (driver_main g A input ifuel PN Hns HPN ofuel oracle [] 0%nat 0%nat (Nat.le_0_l _) eq_refl Hval')
    as (_ & _ & Hno).
  apply (Hno ltac:(lia) es). exact Hrun.
Qed.

(* ---- value iff every error carried a repair ------------------------------------------- *)
Lemma push_err_done e r v es : push_err e r = DDone v es ->
  exists es', r = DDone v es' /\ es = e :: es'.
Proof.
  destruct r as [v' es'|w es']; cbn [push_err]; [|discriminate].
  intros H. injection H as -> <-. exists es'. split; reflexivity.
Qed.

Lemma value_iff_all_repaired : value_iff_all_repaired_stmt.
Proof.
  intros g A input ifuel PN ofuel. induction ofuel as [|f IH]; intros oracle stk p v es H.
  - cbn [run_recover] in H. discriminate.
  - cbn [run_recover] in H.
    destruct (advance g A ifuel stk (la g input p) (real_leaf g input p)) as [stk'|stk'|stk'|stk'| |];
      try discriminate.
    + eapply IH. exact H.
    + destruct (rev stk') as [|[s [a i fl|p0 k0]] rest]; try discriminate.
      injection H as <- <-. split; [intros _; constructor|intros _; discriminate].
    + destruct oracle as [|[seq|] oracle'].
      * injection H as <- <-. split; [intros Hc; exfalso; apply Hc; reflexivity|].
        intros HF. inversion HF as [|? ? He _]; subst. cbn [e_repaired] in He. discriminate.
      * destruct (apply_seq g A input ifuel seq 0 stk' p None) as [[[s2 p2] f2]| |]; try discriminate.
        apply push_err_done in H. destruct H as (es' & Hr & ->).
        specialize (IH _ _ _ _ _ Hr). rewrite IH. split.
        -- intros HF. constructor; [reflexivity|exact HF].
        -- intros HF. inversion HF; subst. assumption.
      * injection H as <- <-. split; [intros Hc; exfalso; apply Hc; reflexivity|].
        intros HF. inversion HF as [|? ? He _]; subst. cbn [e_repaired] in He. discriminate.
Qed.

Lemma only_last_unrepaired : only_last_unrepaired_stmt.
Proof.
  intros g A input ifuel PN ofuel. induction ofuel as [|f IH]; intros oracle stk p v es H i d Hi.
  - cbn [run_recover] in H. discriminate.
  - cbn [run_recover] in H.
    destruct (advance g A ifuel stk (la g input p) (real_leaf g input p)) as [stk'|stk'|stk'|stk'| |];
      try discriminate.
    + eapply IH; [exact H|exact Hi].
    + destruct (rev stk') as [|[s [a i0 fl|p0 k0]] rest]; try discriminate.
      injection H as <- <-. cbn [length] in Hi. lia.
    + destruct oracle as [|[seq|] oracle'].
      * injection H as <- <-. cbn [length] in Hi. lia.
      * destruct (apply_seq g A input ifuel seq 0 stk' p None) as [[[s2 p2] f2]| |]; try discriminate.
        apply push_err_done in H. destruct H as (es' & Hr & ->).
        destruct i as [|i]; [reflexivity|].
        cbn [nth]. eapply IH; [exact Hr|]. cbn [length] in Hi. lia.
      * injection H as <- <-. cbn [length] in Hi. lia.
Qed.

(* ---- the driver without errors is the plain interpreter of LR/Automaton.v -------------- *)
Section Sim.
Variable g : grammar.
Variable A : automaton.
Variable input : list N.

Lemma top_erase stk : top A (erase_stack stk) = vtop A stk.
Proof. destruct stk as [|[s t] stk]; reflexivity. Qed.

Lemma erase_stack_length stk : length (erase_stack stk) = length stk.
Proof. unfold erase_stack. apply map_length. Qed.

Lemma erase_stack_skipn n stk : skipn n (erase_stack stk) = erase_stack (skipn n stk).
Proof. unfold erase_stack. apply skipn_map. Qed.

Lemma erase_kids n stk :
  rev (map snd (firstn n (erase_stack stk))) = map erase (rev (map snd (firstn n stk))).
Proof.
  unfold erase_stack. rewrite firstn_map, map_map, map_rev, map_map. reflexivity.
Qed.

(* one segment of the driver = some steps of the interpreter *)
Lemma advance_sim : forall fuel stk p,
  match advance g A fuel stk (la g input p) (real_leaf g input p) with
  | AShift stk' => steps g A input (erase_stack stk, p) (erase_stack stk', S p)
  | AAccept stk' => steps g A input (erase_stack stk, p) (erase_stack stk', p) /\
                    action A (vtop A stk') (la g input p) = Accept
  | AError stk' => steps g A input (erase_stack stk, p) (erase_stack stk', p) /\
                   action A (vtop A stk') (la g input p) = Err
  | _ => True
  end.
Proof.
  induction fuel as [|f IH]; intros stk p; cbn [advance]; [exact I|].
  destruct (action A (vtop A stk) (la g input p)) as [s'|q| |] eqn:Ea.
  - eapply st_step; [|apply st_refl]. cbn [step]. rewrite top_erase, Ea. reflexivity.
  - destruct (length stk <? length (rhs g q))%nat eqn:El; [exact I|].
    destruct (goto A (vtop A (skipn (length (rhs g q)) stk)) (lhs g q)) as [s1|] eqn:Eg; [|exact I].
    set (stk1 := (s1, VNode q (rev (map snd (firstn (length (rhs g q)) stk)))) :: skipn (length (rhs g q)) stk).
    assert (Hstep : step g A input (erase_stack stk, p) = inl (erase_stack stk1, p)).
    { cbn [step]. rewrite top_erase, Ea, erase_stack_length, El, erase_stack_skipn, top_erase, Eg.
      rewrite erase_kids. reflexivity. }
    specialize (IH stk1 p).
    destruct (advance g A f stk1 (la g input p) (real_leaf g input p)) as [s2|s2|s2|s2| |]; try exact I.
    + eapply st_step; [exact Hstep|exact IH].
    + destruct IH as (IH1 & IH2). split; [|exact IH2]. eapply st_step; [exact Hstep|exact IH1].
    + destruct IH as (IH1 & IH2). split; [|exact IH2]. eapply st_step; [exact Hstep|exact IH1].
  - split; [apply st_refl|exact Ea].
  - split; [apply st_refl|exact Ea].
Qed.

Lemma rev_erase_stack stk : rev (erase_stack stk) = erase_stack (rev stk).
Proof. unfold erase_stack. symmetry. apply map_rev. Qed.

Lemma clean_accept_from ifuel PN : forall ofuel oracle stk p v,
  run_recover g A input ifuel PN ofuel oracle stk p = DDone (Some v) [] ->
  exists fuel, run_from g A input fuel (erase_stack stk, p) = RAccept (erase v).
Proof.
  induction ofuel as [|f IH]; intros oracle stk p v H; cbn [run_recover] in H; [discriminate|].
  pose proof (advance_sim ifuel stk p) as Hsim.
  destruct (advance g A ifuel stk (la g input p) (real_leaf g input p)) as [stk'|stk'|stk'|stk'| |];
    try discriminate.
  - destruct (IH _ _ _ _ H) as (fuel & Hrun).
    eapply steps_run_from; [exact Hsim|exact Hrun|unfold finished; discriminate].
  - destruct Hsim as (Hst & Hacc).
    destruct (rev stk') as [|[s [a i fl|p0 k0]] rest] eqn:Er; try discriminate.
    injection H as <-.
    eapply steps_final_run_from; [exact Hst|].
    cbn [step]. rewrite top_erase, Hacc, rev_erase_stack, Er. reflexivity.
  - destruct oracle as [|[seq|] oracle']; try discriminate.
    destruct (apply_seq g A input ifuel seq 0 stk' p None) as [[[s2 p2] f2]| |]; try discriminate.
    apply push_err_done in H. destruct H as (es' & _ & Hes). discriminate.
Qed.

Lemma first_error_from ifuel PN : forall ofuel oracle stk p e es,
  errs_of (run_recover g A input ifuel PN ofuel oracle stk p) = e :: es ->
  exists fuel, run_from g A input fuel (erase_stack stk, p) = RReject (e_pos e) (e_state e).
Proof.
  induction ofuel as [|f IH]; intros oracle stk p e es H; cbn [run_recover] in H; [discriminate|].
  pose proof (advance_sim ifuel stk p) as Hsim.
  destruct (advance g A ifuel stk (la g input p) (real_leaf g input p)) as [stk'|stk'|stk'|stk'| |];
    try discriminate.
  - destruct (IH _ _ _ _ _ H) as (fuel & Hrun).
    eapply steps_run_from; [exact Hsim|exact Hrun|unfold finished; discriminate].
  - destruct (rev stk') as [|[s [a i fl|p0 k0]] rest]; discriminate.
  - destruct Hsim as (Hst & Herr).
    assert (He : e_pos e = p /\ e_state e = vtop A stk').
    { destruct oracle as [|[seq|] oracle'].
      - cbn [errs_of] in H. injection H as <- _. split; reflexivity.
      - destruct (apply_seq g A input ifuel seq 0 stk' p None) as [[[s2 p2] f2]| |];
          [rewrite errs_of_push in H|cbn [errs_of] in H|cbn [errs_of] in H];
          injection H as <- _; split; reflexivity.
      - cbn [errs_of] in H. injection H as <- _. split; reflexivity. }
    destruct He as (-> & ->).
    eapply steps_final_run_from; [exact Hst|].
    cbn [step]. rewrite top_erase, Herr. reflexivity.
Qed.

End Sim.

Lemma clean_accept : clean_accept_stmt.
Proof.
  intros g A input ifuel PN ofuel oracle v H.
  destruct (clean_accept_from g A input ifuel PN ofuel oracle [] 0%nat v H) as (fuel & Hr).
  exists fuel. exact Hr.
Qed.

Lemma first_error_is_plain_reject : first_error_is_plain_reject_stmt.
Proof.
  intros g A input ifuel PN ofuel oracle e es H.
  destruct (first_error_from g A input ifuel PN ofuel oracle [] 0%nat e es H) as (fuel & Hr).
  exists fuel. exact Hr.
Qed.

(* ---- the parser state does not depend on the values: Delete/Insert commute ------------ *)
Definition adv_proj (r : adv) : nat * list N :=
  match r with
  | AShift s => (0, map fst s) | AAccept s => (1, map fst s) | AError s => (2, map fst s)
  | APast s => (3, map fst s) | APanic => (4, []) | AFuel => (5, [])
  end%nat.

Lemma vtop_states A s1 s2 : map fst s1 = map fst s2 -> vtop A s1 = vtop A s2.
Proof.
  destruct s1 as [|[a x] s1], s2 as [|[b y] s2]; cbn [map fst vtop]; intros H;
    try discriminate; [reflexivity|]. injection H as -> _. reflexivity.
Qed.

Lemma advance_states g A : forall fuel s1 s2 a l1 l2, map fst s1 = map fst s2 ->
  adv_proj (advance g A fuel s1 a l1) = adv_proj (advance g A fuel s2 a l2).
Proof.
  induction fuel as [|f IH]; intros s1 s2 a l1 l2 H; cbn [advance]; [reflexivity|].
  rewrite (vtop_states A s1 s2 H).
  destruct (action A (vtop A s2) a) as [s'|q| |]; cbn [adv_proj map fst].
  - rewrite H. reflexivity.
  - assert (Hl : length s1 = length s2) by (rewrite <- (map_length fst s1), H; apply map_length).
    rewrite Hl. destruct (length s2 <? length (rhs g q))%nat; [reflexivity|].
    assert (Hs : map fst (skipn (length (rhs g q)) s1) = map fst (skipn (length (rhs g q)) s2))
      by (rewrite <- !skipn_map, H; reflexivity).
    rewrite (vtop_states A _ _ Hs).
    destruct (goto A (vtop A (skipn (length (rhs g q)) s2)) (lhs g q)) as [s1'|]; [|reflexivity].
    apply IH. cbn [map fst]. rewrite Hs. reflexivity.
  - exact (f_equal (pair 1%nat) H).
  - exact (f_equal (pair 2%nat) H).
Qed.

Lemma del_ins_commute : del_ins_commute_stmt.
Proof.
  intros g A input ifuel t stk p stk1 p1 f1 stk2 p2 f2 Hp H1 H2.
  cbn [apply_seq] in H1, H2. unfold lr_upto1 in H1, H2.
  replace (p <? length input)%nat with true in H1, H2 by (symmetry; apply Nat.ltb_lt; exact Hp).
  replace (length input <? S p)%nat with false in H1 by (symmetry; apply Nat.ltb_ge; lia).
  replace (length input <? p)%nat with false in H2 by (symmetry; apply Nat.ltb_ge; lia).
  pose proof (advance_states g A ifuel stk stk t (ins_leaf t (S p)) (ins_leaf t p) eq_refl) as E.
  destruct (advance g A ifuel stk t (ins_leaf t (S p))) as [a1|a1|a1|a1| |];
    destruct (advance g A ifuel stk t (ins_leaf t p)) as [a2|a2|a2|a2| |];
    cbn [adv_proj] in E; try discriminate; cbn [mark] in H1, H2;
    injection E as E; injection H1 as <- <- <-; injection H2 as <- <- <-;
    (split; [exact E|]); (split; [reflexivity|]); split; intros; try reflexivity; discriminate.
Qed.

(* ---- a valid repair = plain parsing of the repaired token string ---------------------- *)
Lemma nth_hd_skipn {X} (d : X) : forall p l, nth p l d = hd d (skipn p l).
Proof.
  induction p as [|p IH]; intros [|x l]; cbn [nth skipn hd]; try reflexivity. apply IH.
Qed.

Lemma skipn_S_tl {X} : forall p (l : list X), skipn (S p) l = tl (skipn p l).
Proof.
  induction p as [|p IH]; intros [|x l]; try reflexivity.
  change (skipn (S (S p)) (x :: l)) with (skipn (S p) l).
  change (skipn (S p) (x :: l)) with (skipn p l). apply IH.
Qed.

Lemma skipn_cons_lt {X} p (l : list X) x r : skipn p l = x :: r -> (p < length l)%nat.
Proof.
  intros H. destruct (Nat.lt_ge_cases p (length l)) as [Hlt|Hge]; [exact Hlt|].
  rewrite (skipn_all2 l Hge) in H. discriminate.
Qed.

Section Ext.
Variable g : grammar.
Variable A : automaton.
Variable ifuel : nat.
Hypothesis Hns : no_shift_eof g A.

Lemma la_skipn input p : la g input p = hd (eof g) (skipn p input).
Proof. unfold la. apply nth_hd_skipn. Qed.

(* plain parsing depends only on the states of the stack and on the rest of the input *)
Lemma parse_ahead_ext input1 input2 : forall n stk1 p1 stk2 p2,
  map fst stk1 = map fst stk2 -> skipn p1 input1 = skipn p2 input2 ->
  (p1 <= length input1)%nat -> (p2 <= length input2)%nat ->
  ahead_ok (parse_ahead g A input1 ifuel n stk1 p1) = ahead_ok (parse_ahead g A input2 ifuel n stk2 p2).
Proof.
  induction n as [|n IH]; intros stk1 p1 stk2 p2 Hst Hsk H1 H2; [reflexivity|].
  cbn [parse_ahead]. unfold lr_upto1.
  replace (length input1 <? p1)%nat with false by (symmetry; apply Nat.ltb_ge; exact H1).
  replace (length input2 <? p2)%nat with false by (symmetry; apply Nat.ltb_ge; exact H2).
  assert (Hla : la g input1 p1 = la g input2 p2) by (rewrite !la_skipn, Hsk; reflexivity).
  pose proof (advance_states g A ifuel stk1 stk2 (la g input1 p1) (real_leaf g input1 p1)
                (real_leaf g input2 p2) Hst) as E.
  rewrite Hla in E at 2.
  destruct (advance g A ifuel stk1 (la g input1 p1) (real_leaf g input1 p1)) as [a1|a1|a1|a1| |] eqn:E1;
    destruct (advance g A ifuel stk2 (la g input2 p2) (real_leaf g input2 p2)) as [a2|a2|a2|a2| |] eqn:E2;
    cbn [adv_proj] in E; try discriminate; try reflexivity.
  injection E as E.
  pose proof (shift_in_input g A input1 Hns _ _ _ _ _ E1) as L1.
  pose proof (shift_in_input g A input2 Hns _ _ _ _ _ E2) as L2.
  apply IH; [exact E| |lia|lia]. rewrite !skipn_S_tl, Hsk. reflexivity.
Qed.

Lemma apply_seq_plain input input2 : forall seq i stk1 p stk2 q stk' p',
  apply_seq g A input ifuel seq i stk1 p None = Done (stk', p', None) ->
  map fst stk1 = map fst stk2 -> skipn q input2 = edit seq (skipn p input) ->
  (q <= length input2)%nat -> (p <= length input)%nat ->
  exists stk2' q',
    (forall n, parse_ahead g A input2 ifuel (shifts_of seq + n) stk2 q = parse_ahead g A input2 ifuel n stk2' q') /\
    map fst stk' = map fst stk2' /\ skipn q' input2 = skipn p' input /\
    (q' <= length input2)%nat /\ (p' <= length input)%nat.
Proof.
  induction seq as [|r seq IH]; intros i stk1 p stk2 q stk' p' Happ Hst Hsk Hq Hp.
  - cbn [apply_seq] in Happ. injection Happ as <- <-. cbn [edit] in Hsk.
    exists stk2, q. split; [intros n; reflexivity|]. split; [exact Hst|]. split; [exact Hsk|]. split; assumption.
  - destruct r as [t| |]; cbn [apply_seq] in Happ.
    + (* Insert *)
      destruct (lr_upto1 g A input ifuel (Some t) stk1 p) as [s|s|s|s| |] eqn:E; try discriminate;
        try (exfalso; apply apply_seq_facts in Happ; destruct Happ as (_ & H2); specialize (H2 eq_refl);
             cbn [mark] in H2; discriminate).
      unfold lr_upto1 in E. destruct (length input <? p)%nat; [discriminate|].
      cbn [edit] in Hsk.
      pose proof (skipn_cons_lt _ _ _ _ Hsk) as Lq.
      assert (Hla : la g input2 q = t) by (rewrite la_skipn, Hsk; reflexivity).
      pose proof (advance_states g A ifuel stk1 stk2 t (ins_leaf t p) (real_leaf g input2 q) Hst) as Ep.
      rewrite E in Ep.
      destruct (advance g A ifuel stk2 t (real_leaf g input2 q)) as [a2|a2|a2|a2| |] eqn:E2;
        cbn [adv_proj] in Ep; try discriminate. injection Ep as Ep.
      assert (Hsk' : skipn (S q) input2 = edit seq (skipn p input)) by (rewrite skipn_S_tl, Hsk; reflexivity).
      destruct (IH _ _ _ a2 (S q) _ _ Happ Ep Hsk' ltac:(lia) Hp) as (stk2' & q' & Hpa & R).
      exists stk2', q'. split; [|exact R].
      intros n. cbn [shifts_of Nat.add parse_ahead]. unfold lr_upto1.
      replace (length input2 <? q)%nat with false by (symmetry; apply Nat.ltb_ge; lia).
      rewrite Hla, E2. apply Hpa.
    + (* Delete *)
      destruct (p <? length input)%nat eqn:El.
      2:{ exfalso. apply apply_seq_facts in Happ. destruct Happ as (_ & H2). specialize (H2 eq_refl).
          cbn [mark] in H2. discriminate. }
      apply Nat.ltb_lt in El. cbn [edit] in Hsk. rewrite <- skipn_S_tl in Hsk.
      destruct (IH _ _ _ stk2 q _ _ Happ Hst Hsk Hq ltac:(lia)) as (stk2' & q' & Hpa & R).
      exists stk2', q'. split; [|exact R]. intros n. cbn [shifts_of]. apply Hpa.
    + (* Shift *)
      destruct (lr_upto1 g A input ifuel None stk1 p) as [s|s|s|s| |] eqn:E; try discriminate;
        try (exfalso; apply apply_seq_facts in Happ; destruct Happ as (_ & H2); specialize (H2 eq_refl);
             cbn [mark] in H2; discriminate).
      unfold lr_upto1 in E. destruct (length input <? p)%nat; [discriminate|].
      pose proof (shift_in_input g A input Hns _ _ _ _ _ E) as Lp.
      destruct (skipn p input) as [|x rest] eqn:Er.
      { exfalso. pose proof (skipn_length p input) as Hl. rewrite Er in Hl. cbn [length] in Hl. lia. }
      cbn [edit] in Hsk.
      pose proof (skipn_cons_lt _ _ _ _ Hsk) as Lq.
      assert (Hlap : la g input p = x) by (rewrite la_skipn, Er; reflexivity).
      assert (Hla : la g input2 q = x) by (rewrite la_skipn, Hsk; reflexivity).
      pose proof (advance_states g A ifuel stk1 stk2 x (real_leaf g input p) (real_leaf g input2 q) Hst) as Ep.
      rewrite Hlap in E. rewrite E in Ep.
      destruct (advance g A ifuel stk2 x (real_leaf g input2 q)) as [a2|a2|a2|a2| |] eqn:E2;
        cbn [adv_proj] in Ep; try discriminate. injection Ep as Ep.
      assert (Hsk' : skipn (S q) input2 = edit seq (skipn (S p) input)).
      { rewrite !skipn_S_tl, Hsk, Er. reflexivity. }
      destruct (IH _ _ _ a2 (S q) _ _ Happ Ep Hsk' ltac:(lia) ltac:(lia)) as (stk2' & q' & Hpa & R).
      exists stk2', q'. split; [|exact R].
      intros n. cbn [shifts_of Nat.add parse_ahead]. unfold lr_upto1.
      replace (length input2 <? q)%nat with false by (symmetry; apply Nat.ltb_ge; lia).
      rewrite Hla, E2. apply Hpa.
Qed.

End Ext.

Lemma skipn_repaired input p seq : (p <= length input)%nat ->
  skipn p (repaired input p seq) = edit seq (skipn p input).
Proof.
  intros Hp. unfold repaired.
  assert (Hl : length (firstn p input) = p) by (apply firstn_length_le; exact Hp).
  rewrite skipn_app, Hl, Nat.sub_diag. cbn [skipn].
  rewrite <- Hl at 1. rewrite skipn_all. reflexivity.
Qed.

Lemma valid_repair_plain_parse : valid_repair_plain_parse_stmt.
Proof.
  intros g A input ifuel PN stk p seq Hns Hp Hv.
  destruct (valid_repair_inv _ _ _ _ _ _ _ _ Hv) as (stk' & p' & Happ & Hg).
  assert (Hq : (p <= length (repaired input p seq))%nat).
  { unfold repaired. rewrite app_length, firstn_length_le by exact Hp. lia. }
  destruct (apply_seq_plain g A ifuel Hns input (repaired input p seq) seq 0%nat stk p stk p stk' p'
              Happ eq_refl (skipn_repaired input p seq Hp) Hq Hp)
    as (stk2' & q' & Hpa & Hst & Hsk & Hq' & Hp').
  rewrite Hpa.
  rewrite (parse_ahead_ext g A ifuel Hns (repaired input p seq) input PN stk2' q' stk' p'
             (eq_sym Hst) Hsk Hq' Hp').
  exact Hg.
Qed.
