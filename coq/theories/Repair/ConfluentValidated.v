(* C05/C06 — validated tables are reduce-confluent (statements: Repair/ConfluentSpec.v).

   The argument.  Fix a stack whose states form a path  start = s0 -X1-> s1 … -Xn-> sn  of the
   state graph.  [J ss q d a] ("a is a lookahead of item (q,d) JUSTIFIED BY THIS STACK") is the
   canonical LR(1) item construction replayed along the path: the start item with end of
   input; closure items with the tokens of FIRST(rest . a'); items moved over the symbol of
   the next edge.  Then, for a validated table,
     A. [J_item]   (validC: C1, C2, C3)  a justified lookahead is in the lookahead set the
                   dumped state lists for that item — whether the sets are canonical or
                   Pager-merged supersets;
     E. [J_exists] (validS S0/S2, validE, productive)  every item of the top state has SOME
                   justified lookahead (the items of a state are LR(0)-valid for every path
                   that reaches it; a productive grammar leaves no FIRST set empty);
     B. [acts_J]   if the table, from this stack and under u, reduces some number of times
                   and then shifts u or accepts, then some justified item of the top state
                   has u in FIRST(what follows its dot . its lookahead) — by induction on the
                   number of reductions, the inductive step being
     C. [J_reduce] if the top row holds the complete item of p and the stack with p reduced
                   has such an item, then u is a justified lookahead of (p, |p|) on the
                   unreduced stack (walk the closure chain back to a kernel item, cross the
                   goto edge backwards — S2/E2 make its symbol unique —, close on lhs p, walk
                   the right-hand side up again).
   A + C + C4 (validC demands the Reduce cell for every listed lookahead):
     D. [reduce_step] the row reduces p under u as well.
   Batches of reductions, the invariant of the search and the replay follow by induction. *)
From Coq Require Import List Arith NArith Bool Lia.
From GV Require Import Common.Outcome Base.Grammar Base.GrammarFacts Base.Analyses Base.AnalysesProofs
  LR.Automaton LR.Validator LR.Spec LR.Sound LR.Complete LR.Prefix
  Repair.Semantics Repair.Spec Repair.Proofs Repair.Search Repair.Confluent Repair.ConfluentSpec
  C06.Model C06.Spec C06.Proofs C06.RefProofs C06.Mirror C06.SearchSpec C06.SearchProofs
  LR.Examples LR.TermExamples.
Import ListNotations.

(* ---- small facts ------------------------------------------------------------------------- *)

Lemma In_skipn_local {X} (x : X) : forall n l, In x (skipn n l) -> In x l.
Proof.
  intros n l H. rewrite <- (firstn_skipn n l). apply in_or_app. right. exact H.
Qed.

Lemma skipn_nth_cons {X} : forall (l : list X) d x, nth_error l d = Some x ->
  skipn d l = x :: skipn (S d) l.
Proof.
  induction l as [|y l IH]; intros [|d] x H; cbn [nth_error] in H; try discriminate.
  - injection H as ->. reflexivity.
  - cbn [skipn]. rewrite (IH d x H). reflexivity.
Qed.

Lemma vtop_stop A stk : vtop A stk = stop A (map fst stk).
Proof. destruct stk as [|[s v] r]; reflexivity. Qed.

Lemma advance_mono g A : forall f f' stk a leaf r,
  advance g A f stk a leaf = r -> r <> AFuel -> (f <= f')%nat -> advance g A f' stk a leaf = r.
Proof.
  induction f as [|f IH]; intros f' stk a leaf r H Hr Hle.
  - cbn [advance] in H. exfalso. apply Hr. symmetry. exact H.
  - destruct f' as [|f']; [lia|]. cbn [advance] in H |- *.
    destruct (action A (vtop A stk) a) as [s'|p| |]; try exact H.
    destruct (length stk <? length (rhs g p))%nat; [exact H|].
    destruct (goto A (vtop A (skipn (length (rhs g p)) stk)) (lhs g p)) as [s1|]; [|exact H].
    apply IH; [exact H|exact Hr|lia].
Qed.

Lemma firstseq_la_mono nl fs l a a' L :
  In a (firstseq_la nl fs l [a']) -> In a' L -> In a (firstseq_la nl fs l L).
Proof.
  unfold firstseq_la. destruct (nullable_seq nl l); [|intros H _; exact H].
  rewrite !In_unionN. intros [H|[H|[]]] Ha'; [left; exact H|]. subst a'. right. exact Ha'.
Qed.

Lemma firstseq_la_nil nl fs a L : In a L -> In a (firstseq_la nl fs [] L).
Proof. intros H. unfold firstseq_la. cbn. exact H. Qed.

Lemma firstseq_la_T nl fs u l L : In u (firstseq_la nl fs (T u :: l) L).
Proof. unfold firstseq_la. cbn. left. reflexivity. Qed.

(* ---- paths of the state graph (validS only) --------------------------------------------------- *)

Section Paths.
Variable g : grammar.
Variable A : automaton.
Hypothesis Hwf : wf_grammar g = true.
Hypothesis HS : validS g A = true.

Lemma linked_top_range : forall ss, linked g A ss -> (stop A ss < nstates A)%N.
Proof.
  induction ss as [|s rest IH]; intros Hl; cbn [stop].
  - exact (validS_S5_start g A HS).
  - destruct Hl as ((X & HX & He) & Hl).
    exact (proj2 (validS_S1 g A HS _ _ _ (IH Hl) (proj1 (sym_in_range_all_syms g X) HX) He)).
Qed.

Lemma linked_top_nonstart s ss : linked g A (s :: ss) -> s <> start A.
Proof.
  intros ((X & HX & He) & Hl).
  exact (proj1 (validS_S1 g A HS _ _ _ (linked_top_range ss Hl) (proj1 (sym_in_range_all_syms g X) HX) He)).
Qed.

Lemma linked_skipn : forall n ss, linked g A ss -> linked g A (skipn n ss).
Proof.
  induction n as [|n IH]; intros [|s rest] Hl; cbn [skipn]; try exact Hl.
  apply IH. exact (proj2 Hl).
Qed.

Lemma linked_vtop_range stk : graph_stack g A stk -> (vtop A stk < nstates A)%N.
Proof. intros H. rewrite vtop_stop. exact (linked_top_range _ H). Qed.

(* the stack after one reduction is a path again *)
Lemma reduce_linked stk a p s' : graph_stack g A stk -> (a < ntoks g)%N ->
  action A (vtop A stk) a = Reduce p ->
  goto A (vtop A (skipn (length (rhs g p)) stk)) (lhs g p) = Some s' ->
  forall v, graph_stack g A ((s', v) :: skipn (length (rhs g p)) stk).
Proof.
  intros Hl Ha Hact Hg v. unfold graph_stack in *. cbn [map fst]. rewrite <- skipn_map.
  destruct (validS_S3_reduce g A HS _ _ _ (linked_vtop_range stk Hl) Ha Hact) as (Hp & _ & _).
  pose proof (linked_skipn (length (rhs g p)) _ Hl) as Hl'.
  rewrite vtop_stop, <- skipn_map in Hg.
  pose proof (wf_lhs_range g p Hwf Hp) as Hlr.
  split; [|exact Hl']. exists (R (lhs g p)). split; [cbn [sym_in_range]; apply N.ltb_lt; exact Hlr|].
  exact (validS_S4_goto g A HS _ _ _ (linked_top_range _ Hl') Hlr Hg).
Qed.

Lemma advance_linked : forall f stk a leaf, graph_stack g A stk -> (a < ntoks g)%N ->
  match advance g A f stk a leaf with
  | AShift Y | AAccept Y | AError Y => graph_stack g A Y
  | _ => True
  end.
Proof.
  induction f as [|f IH]; intros stk a leaf Hl Ha; cbn [advance]; [exact I|].
  destruct (action A (vtop A stk) a) as [s'|p| |] eqn:Eact; try exact Hl.
  - unfold graph_stack. cbn [map fst]. split; [|exact Hl]. exists (T a).
    split; [cbn [sym_in_range]; apply N.ltb_lt; exact Ha|]. rewrite <- vtop_stop.
    exact (validS_S4_shift g A HS _ _ _ (linked_vtop_range stk Hl) Ha Eact).
  - destruct (length stk <? length (rhs g p))%nat; [exact I|].
    destruct (goto A (vtop A (skipn (length (rhs g p)) stk)) (lhs g p)) as [s'|] eqn:Eg; [|exact I].
    apply IH; [|exact Ha]. exact (reduce_linked stk a p s' Hl Ha Eact Eg _).
Qed.

End Paths.

(* ---- the stacks the driver hands to the recoverer are paths (validS only) --------------------- *)

Lemma advance_not_past g A : forall f stk a leaf Y, advance g A f stk a leaf <> APast Y.
Proof.
  induction f as [|f IH]; intros stk a leaf Y; cbn [advance]; [discriminate|].
  destruct (action A (vtop A stk) a) as [s'|p| |]; try discriminate.
  destruct (length stk <? length (rhs g p))%nat; [discriminate|].
  destruct (goto A (vtop A (skipn (length (rhs g p)) stk)) (lhs g p)) as [s1|]; [apply IH|discriminate].
Qed.

Lemma errs_of_push_local e r : errs_of (push_err e r) = e :: errs_of r.
Proof. destruct r; reflexivity. Qed.

Section DriverPaths.
Variable g : grammar.
Variable A : automaton.
Variable input : list N.
Hypothesis Hwf : wf_grammar g = true.
Hypothesis HS : validS g A = true.
Hypothesis Hrng : tokens_in_range g input.

Lemma lr_upto1_linked f ins stk p : graph_stack g A stk ->
  (forall t, ins = Some t -> (t < ntoks g)%N) ->
  match lr_upto1 g A input f ins stk p with
  | AShift Y | AAccept Y | AError Y | APast Y => graph_stack g A Y
  | _ => True
  end.
Proof.
  intros Hl Hins. unfold lr_upto1. destruct (length input <? p)%nat; [exact Hl|].
  destruct ins as [t|].
  - pose proof (advance_linked g A Hwf HS f stk t (ins_leaf t p) Hl (Hins t eq_refl)) as Q.
    pose proof (advance_not_past g A f stk t (ins_leaf t p)) as NP.
    destruct (advance g A f stk t (ins_leaf t p)) as [Y|Y|Y|Y| |]; try exact Q; try exact I.
    exfalso. exact (NP Y eq_refl).
  - pose proof (advance_linked g A Hwf HS f stk _ (real_leaf g input p) Hl (la_in_range g input p Hwf Hrng)) as Q.
    pose proof (advance_not_past g A f stk (la g input p) (real_leaf g input p)) as NP.
    destruct (advance g A f stk (la g input p) (real_leaf g input p)) as [Y|Y|Y|Y| |];
      try exact Q; try exact I.
    exfalso. exact (NP Y eq_refl).
Qed.

Lemma apply_seq_linked f : forall seq i stk p fail, graph_stack g A stk -> seq_in_range g seq ->
  match apply_seq g A input f seq i stk p fail with
  | Done (stk', _, _) => graph_stack g A stk'
  | _ => True
  end.
Proof.
  induction seq as [|m seq IH]; intros i stk p fail Hl Hir; [exact Hl|].
  assert (Hir' : seq_in_range g seq) by (intros t Ht; apply Hir; right; exact Ht).
  destruct m as [t| |]; cbn [apply_seq].
  - pose proof (lr_upto1_linked f (Some t) stk p Hl) as Q.
    assert (Ht : forall t0, Some t = Some t0 -> (t0 < ntoks g)%N).
    { intros t0 E. injection E as <-. apply Hir. left. reflexivity. }
    specialize (Q Ht).
    destruct (lr_upto1 g A input f (Some t) stk p) as [Y|Y|Y|Y| |]; try exact I; apply IH; assumption.
  - apply IH; assumption.
  - pose proof (lr_upto1_linked f None stk p Hl ltac:(discriminate)) as Q.
    destruct (lr_upto1 g A input f None stk p) as [Y|Y|Y|Y| |]; try exact I; apply IH; assumption.
Qed.

Lemma run_recover_linked ifuel PN : forall ofuel oracle stk p,
  graph_stack g A stk -> oracle_in_range g oracle ->
  Forall (fun e => graph_stack g A (e_stk e)) (errs_of (run_recover g A input ifuel PN ofuel oracle stk p)).
Proof.
  induction ofuel as [|ofuel IH]; intros oracle stk p Hl Hor; cbn [run_recover]; [constructor|].
  pose proof (advance_linked g A Hwf HS ifuel stk _ (real_leaf g input p) Hl (la_in_range g input p Hwf Hrng)) as Q.
  destruct (advance g A ifuel stk (la g input p) (real_leaf g input p)) as [Y|Y|Y|Y| |];
    try (cbn [errs_of]; constructor).
  - apply IH; assumption.
  - destruct (rev Y) as [|[s0 [a0 i0 f0|p0 k0]] l0]; cbn [errs_of]; constructor.
  - destruct oracle as [|[seq|] oracle'].
    + cbn [errs_of]. constructor; [exact Q|constructor].
    + assert (Hseq : seq_in_range g seq) by (apply Hor; left; reflexivity).
      assert (Hor' : oracle_in_range g oracle') by (intros sq Hsq; apply Hor; right; exact Hsq).
      pose proof (apply_seq_linked ifuel seq 0 Y p None Q Hseq) as Q2.
      destruct (apply_seq g A input ifuel seq 0 Y p None) as [[[Y2 p2] f2]| |].
      * rewrite errs_of_push_local. constructor; [exact Q|]. apply IH; assumption.
      * cbn [errs_of]. constructor; [exact Q|constructor].
      * cbn [errs_of]. constructor; [exact Q|constructor].
    + cbn [errs_of]. constructor; [exact Q|constructor].
Qed.

End DriverPaths.


(* ---- the section: one validated table ------------------------------------------------------ *)

Section Validated.
Variable g : grammar.
Variable A : automaton.
Variable nl : list N.
Variable fs : list pairN.
Hypothesis Hwf : wf_grammar g = true.
Hypothesis HS : validS g A = true.
Hypothesis HE : validE g A = true.
Hypothesis Hfr : first_ref g = Some (nl, fs).
Hypothesis HC1 : vC1 g A = true.
Hypothesis HC2 : vC2 g nl fs A = true.
Hypothesis HC3 : vC3 g A = true.
Hypothesis HC4 : vC4 g A = true.
Hypothesis Hprod : productive g.

Let HE1 : vE1 g A = true := proj1 (validE_parts g A HE).
Let HE2 : vE2 A = true := proj2 (validE_parts g A HE).

Let linked_top_range := linked_top_range g A HS.
Let linked_top_nonstart := linked_top_nonstart g A HS.
Let linked_skipn := linked_skipn g A.
Let linked_vtop_range := linked_vtop_range g A HS.
Let reduce_linked := reduce_linked g A Hwf HS.
Let advance_linked := advance_linked g A Hwf HS.

(* all edges into a state carry the same symbol *)
Lemma edge_symbol_unique s X Y s' : (s < nstates A)%N ->
  sym_in_range g X = true -> sym_in_range g Y = true ->
  edge A s X = Some s' -> edge A s Y = Some s' -> X = Y.
Proof.
  intros Hs HX HY EX EY.
  pose proof (proj1 (sym_in_range_all_syms g X) HX) as HX'.
  pose proof (proj1 (sym_in_range_all_syms g Y) HY) as HY'.
  destruct (validS_S1 g A HS _ _ _ Hs HX' EX) as (Hne & Hs').
  destruct (vE2_spec A s' HE2 Hs' Hne) as (i & Hi & Hd).
  destruct i as [[q d] L]. cbn [it_d fst snd] in Hd. destruct d as [|d]; [contradiction|].
  destruct (validS_S2 g A HS _ _ _ _ _ _ Hs HX' EX Hi) as (H1 & _).
  destruct (validS_S2 g A HS _ _ _ _ _ _ Hs HY' EY Hi) as (H2 & _).
  congruence.
Qed.

(* ---- FIRST(l . {a}) as the validator computes it -------------------------------------------- *)

Lemma nullable_prod p : is_prod g p -> nullable_seq nl (rhs g p) = true -> memN (lhs g p) nl = true.
Proof.
  intros Hp Hn. destruct (first_ref_closed g nl fs Hfr) as (Hc & _).
  unfold nullable_closed in Hc. rewrite forallb_forall in Hc.
  specialize (Hc _ (prod_in_prods g p Hp)). cbn [fst snd] in Hc. rewrite Hn in Hc. exact Hc.
Qed.

Lemma first_prod p u : is_prod g p -> In u (first_seq nl fs (rhs g p)) ->
  In u (first_of_rule fs (lhs g p)).
Proof.
  intros Hp Hu. destruct (first_ref_closed g nl fs Hfr) as (_ & Hc).
  unfold first_closed in Hc. rewrite forallb_forall in Hc.
  specialize (Hc _ (prod_in_prods g p Hp)). cbn [fst snd] in Hc. rewrite forallb_forall in Hc.
  apply first_of_rule_In. apply memP_In. exact (Hc u Hu).
Qed.

(* u starts (rhs p . a) and a starts (rest . a'): u starts (lhs p . rest . a') *)
Lemma firstseq_la_lift p u a a' rest : is_prod g p ->
  In u (firstseq_la nl fs (rhs g p) [a]) -> In a (firstseq_la nl fs rest [a']) ->
  In u (firstseq_la nl fs (R (lhs g p) :: rest) [a']).
Proof.
  intros Hp Hu Ha. unfold firstseq_la in *. rewrite nullable_seq_cons. cbn [nullable_sym first_seq].
  destruct (nullable_seq nl (rhs g p)) eqn:En.
  - rewrite (nullable_prod p Hp En). cbn [andb].
    apply In_unionN in Hu. destruct Hu as [Hu|[Hu|[]]].
    + pose proof (first_prod p u Hp Hu) as Hf.
      destruct (nullable_seq nl rest); rewrite ?In_unionN; tauto.
    + subst a. destruct (nullable_seq nl rest); rewrite ?In_unionN in *; tauto.
  - pose proof (first_prod p u Hp Hu) as Hf.
    destruct (memN (lhs g p) nl); cbn [andb];
      [destruct (nullable_seq nl rest)|]; rewrite ?In_unionN; tauto.
Qed.

(* a productive grammar leaves no FIRST(l . {a'}) empty *)
Lemma firstseq_la_nonempty l a' : Forall (fun x => sym_in_range g x = true) l ->
  exists a, In a (firstseq_la nl fs l [a']).
Proof.
  intros Hl. destruct (first_ref_exact' g nl fs Hfr) as (Hne & Hfe).
  destruct (productive_form g l Hprod Hl) as (w & Hw). destruct w as [|b w].
  - exists a'. unfold firstseq_la.
    rewrite (proj2 (nullable_seq_exact g nl l Hne) Hw). apply In_unionN. right. left. reflexivity.
  - exists b. assert (Hb : In b (first_seq nl fs l)).
    { apply (first_seq_exact g nl fs l b Hne Hfe). exists (tokens_of w). exact Hw. }
    unfold firstseq_la. destruct (nullable_seq nl l); [apply In_unionN; left|]; exact Hb.
Qed.

Lemma rhs_tail_in_range p d : is_prod g p ->
  Forall (fun x => sym_in_range g x = true) (skipn d (rhs g p)).
Proof.
  intros Hp. apply Forall_forall. intros x Hx.
  exact (wf_rhs_range g p x Hwf Hp (In_skipn_local x d _ Hx)).
Qed.

(* ---- lookaheads justified by the stack -------------------------------------------------------- *)

Inductive J : list N -> N -> nat -> N -> Prop :=
| J_start : J [] (start_prod g) 0 (eof g)
| J_close ss q d a' r q' a : J ss q d a' -> nth_error (rhs g q) d = Some (R r) ->
    is_prod g q' -> lhs g q' = r ->
    In a (firstseq_la nl fs (skipn (S d) (rhs g q)) [a']) -> J ss q' 0 a
| J_shift ss q d a X s : J ss q d a -> nth_error (rhs g q) d = Some X ->
    edge A (stop A ss) X = Some s -> J (s :: ss) q (S d) a.

(* A: a justified lookahead is listed *)
Lemma J_item ss q d a : linked g A ss -> J ss q d a ->
  exists L, In (q, d, L) (closed A (stop A ss)) /\ In a L.
Proof.
  intros Hl HJ. induction HJ as [|ss q d a' r q' a HJ IH Hn Hq Hlq Hin|ss q d a X s HJ IH Hn He].
  - cbn [stop]. exact (vC1_spec g A HC1).
  - destruct (IH Hl) as (L & HL & Ha').
    destruct (vC2_spec g nl fs A HC2 _ _ _ _ _ _ (linked_top_range ss Hl) HL Hn Hq Hlq) as (L' & HL' & Hincl).
    exists L'. split; [exact HL'|]. apply Hincl. exact (firstseq_la_mono _ _ _ _ _ _ Hin Ha').
  - destruct Hl as (_ & Hl). destruct (IH Hl) as (L & HL & Ha).
    destruct (vC3_spec g A HC3 _ _ _ _ _ (linked_top_range ss Hl) HL Hn) as (s' & He' & (L' & HL' & Hincl) & _).
    rewrite He in He'. injection He' as <-. cbn [stop]. exists L'. split; [exact HL'|]. apply Hincl. exact Ha.
Qed.

(* an item of a non-empty stack whose continuation starts with u comes, through closure steps,
   from a kernel item whose continuation starts with u *)
Lemma J_kernel ss0 q d a : J ss0 q d a -> ss0 <> [] ->
  forall u, In u (firstseq_la nl fs (skipn d (rhs g q)) [a]) ->
  exists q0 d0 a0, J ss0 q0 (S d0) a0 /\ In u (firstseq_la nl fs (skipn (S d0) (rhs g q0)) [a0]).
Proof.
  intros HJ. induction HJ as [|ss q d a' r q' a HJ IH Hn Hq Hlq Hin|ss q d a X s HJ IH Hn He];
    intros Hne u Hu.
  - contradiction.
  - apply (IH Hne u). rewrite (skipn_nth_cons _ _ _ Hn). subst r. cbn [skipn] in Hu.
    exact (firstseq_la_lift q' u a a' _ Hq Hu Hin).
  - exists q, d, a. split; [|exact Hu]. exact (J_shift ss q d a X s HJ Hn He).
Qed.

(* the right-hand side walked up from the state that holds the dot-0 item *)
Lemma J_walk : forall d ss p L a, linked g A ss -> In (p, d, L) (closed A (stop A ss)) ->
  J (skipn d ss) p 0 a -> J ss p d a /\ (d <= length ss)%nat.
Proof.
  induction d as [|d IH]; intros ss p L a Hl Hin HJ.
  - cbn [skipn] in HJ. split; [exact HJ|lia].
  - destruct ss as [|s rest].
    + cbn [stop] in Hin. pose proof (validS_S0 g A HS _ _ _ Hin). discriminate.
    + destruct Hl as ((X & HX & He) & Hl). cbn [stop] in Hin. cbn [skipn] in HJ.
      destruct (validS_S2 g A HS _ _ _ _ _ _ (linked_top_range rest Hl)
                  (proj1 (sym_in_range_all_syms g X) HX) He Hin) as (Hn & L' & Hin').
      destruct (IH rest p L' a Hl Hin' HJ) as (HJ' & Hle).
      split; [exact (J_shift rest p d a X s HJ' Hn He)|cbn [length]; lia].
Qed.

(* E: every item of the top state of a path has a justified lookahead *)
Lemma clos_J ss : linked g A ss ->
  (forall i, In i (kernel_of g A (stop A ss)) -> exists a, J ss (fst i) (snd i) a) ->
  forall i, clos g (kernel_of g A (stop A ss)) i -> exists a, J ss (fst i) (snd i) a.
Proof.
  intros Hl HK i Hc. induction Hc as [i Hi|p d r q Hc IH Hn Hq Hlq].
  - exact (HK i Hi).
  - cbn [fst snd] in *. destruct IH as (a' & HJ).
    destruct (firstseq_la_nonempty (skipn (S d) (rhs g p)) a'
                (rhs_tail_in_range p (S d) (nth_error_rhs_is_prod g p d _ Hn))) as (a & Ha).
    exists a. exact (J_close ss p d a' r q a HJ Hn Hq Hlq Ha).
Qed.

Lemma J_exists : forall ss, linked g A ss ->
  forall q d L, In (q, d, L) (closed A (stop A ss)) -> exists a, J ss q d a.
Proof.
  induction ss as [|s rest IH]; intros Hl.
  - (* the start state: dot-0 items only *)
    assert (HK : forall i, In i (kernel_of g A (stop A [])) -> exists a, J [] (fst i) (snd i) a).
    { intros i Hi. unfold kernel_of in Hi. cbn [stop] in Hi. rewrite N.eqb_refl in Hi.
      apply in_app_or in Hi. destruct Hi as [[<-|[]]|Hi].
      - exists (eof g). exact J_start.
      - apply in_map_iff in Hi. destruct Hi as (j & _ & Hj). apply filter_In in Hj.
        destruct Hj as (Hj & Hd). destruct j as [[q d] L].
        rewrite (validS_S0 g A HS _ _ _ Hj) in Hd. discriminate. }
    intros q d L Hin. pose proof (validS_S0 g A HS _ _ _ Hin) as ->.
    pose proof (vE1_spec g A _ (q, 0%nat, L) HE1 (linked_top_range [] Hl) Hin eq_refl) as Hc.
    exact (clos_J [] Hl HK _ Hc).
  - pose proof (proj2 Hl) as Hl'. destruct Hl as ((X & HX & He) & _).
    assert (Hk : forall q d L, In (q, S d, L) (closed A s) -> exists a, J (s :: rest) q (S d) a).
    { intros q d L Hin.
      destruct (validS_S2 g A HS _ _ _ _ _ _ (linked_top_range rest Hl')
                  (proj1 (sym_in_range_all_syms g X) HX) He Hin) as (Hn & L' & Hin').
      destruct (IH Hl' q d L' Hin') as (a & HJ).
      exists a. exact (J_shift rest q d a X s HJ Hn He). }
    assert (Hl : linked g A (s :: rest)) by (split; [exists X; split; assumption|exact Hl']).
    assert (HK : forall i, In i (kernel_of g A (stop A (s :: rest))) ->
                   exists a, J (s :: rest) (fst i) (snd i) a).
    { intros i Hi. unfold kernel_of in Hi. cbn [stop] in Hi.
      pose proof (linked_top_nonstart s rest Hl) as Hne. apply N.eqb_neq in Hne. rewrite Hne in Hi.
      cbn [app] in Hi. apply in_map_iff in Hi. destruct Hi as (j & <- & Hj). apply filter_In in Hj.
      destruct Hj as (Hj & Hd). destruct j as [[q d] L]. cbn [it_p it_d fst snd] in *.
      destruct d as [|d]; [discriminate|]. exact (Hk q d L Hj). }
    intros q d L Hin. cbn [stop] in Hin. destruct d as [|d]; [|exact (Hk q d L Hin)].
    pose proof (vE1_spec g A _ (q, 0%nat, L) HE1 (linked_top_range _ Hl) Hin eq_refl) as Hc.
    exact (clos_J (s :: rest) Hl HK _ Hc).
Qed.

(* C: the reduction crossed backwards *)
Lemma J_reduce ss p L s' q d a u : linked g A ss -> is_prod g p ->
  In (p, length (rhs g p), L) (closed A (stop A ss)) ->
  goto A (stop A (skipn (length (rhs g p)) ss)) (lhs g p) = Some s' ->
  J (s' :: skipn (length (rhs g p)) ss) q d a ->
  In u (firstseq_la nl fs (skipn d (rhs g q)) [a]) ->
  J ss p (length (rhs g p)) u /\ (length (rhs g p) <= length ss)%nat.
Proof.
  intros Hl Hp Hin Hg HJ Hu. set (n := length (rhs g p)) in *. set (ss' := skipn n ss) in *.
  pose proof (linked_skipn n ss Hl) as Hl'. fold ss' in Hl'.
  pose proof (linked_top_range ss' Hl') as Hr'.
  pose proof (wf_lhs_range g p Hwf Hp) as Hlr.
  pose proof (validS_S4_goto g A HS _ _ _ Hr' Hlr Hg) as He.
  destruct (J_kernel _ _ _ _ HJ ltac:(discriminate) u Hu) as (q0 & d0 & a0 & HJ0 & Hu0).
  inversion HJ0 as [| |ss1 q1 d1 a1 X s1 HJ1 Hn1 He1]; subst ss1 q1 d1 a1 s1.
  assert (HX : X = R (lhs g p)).
  { apply (edge_symbol_unique (stop A ss') X (R (lhs g p)) s' Hr'); try assumption.
    - exact (wf_rhs_range g q0 X Hwf (nth_error_rhs_is_prod g q0 d0 X Hn1) (nth_error_In _ _ Hn1)).
    - cbn [sym_in_range]. apply N.ltb_lt. exact Hlr. }
  subst X.
  pose proof (J_close ss' q0 d0 a0 (lhs g p) p u HJ1 Hn1 Hp eq_refl Hu0) as HJp.
  exact (J_walk n ss p L u Hl Hin HJp).
Qed.

(* ---- what the table does ------------------------------------------------------------------------ *)

(* B: a stack that acts on u has a justified item whose continuation starts with u *)
Lemma acts_J : forall f stk u leaf, graph_stack g A stk -> (u < ntoks g)%N ->
  acts (advance g A f stk u leaf) ->
  exists q d a, J (map fst stk) q d a /\ In u (firstseq_la nl fs (skipn d (rhs g q)) [a]).
Proof.
  induction f as [|f IH]; intros stk u leaf Hl Hu Hacts; cbn [advance] in Hacts; [contradiction|].
  pose proof (linked_vtop_range stk Hl) as Hr.
  destruct (action A (vtop A stk) u) as [s'|p| |] eqn:Eact.
  - (* Shift: the target has a kernel item; its predecessor has the token after the dot *)
    pose proof (validS_S4_shift g A HS _ _ _ Hr Hu Eact) as He.
    assert (HX : In (T u) (all_syms g)) by (apply In_all_syms_T; exact Hu).
    destruct (validS_S1 g A HS _ _ _ Hr HX He) as (Hne & Hr').
    destruct (vE2_spec A s' HE2 Hr' Hne) as (i & Hi & Hd).
    destruct i as [[q d] L]. cbn [it_d fst snd] in Hd. destruct d as [|d]; [contradiction|].
    destruct (validS_S2 g A HS _ _ _ _ _ _ Hr HX He Hi) as (Hn & L' & Hin').
    rewrite vtop_stop in Hin'. destruct (J_exists _ Hl q d L' Hin') as (a & HJ).
    exists q, d, a. split; [exact HJ|]. rewrite (skipn_nth_cons _ _ _ Hn). apply firstseq_la_T.
  - (* Reduce *)
    destruct (length stk <? length (rhs g p))%nat eqn:Elt; [contradiction|].
    destruct (goto A (vtop A (skipn (length (rhs g p)) stk)) (lhs g p)) as [s'|] eqn:Eg; [|contradiction].
    destruct (validS_S3_reduce g A HS _ _ _ Hr Hu Eact) as (Hp & _ & L & Hin).
    pose proof (reduce_linked stk u p s' Hl Hu Eact Eg
                  (VNode p (rev (map snd (firstn (length (rhs g p)) stk))))) as Hl1.
    destruct (IH _ u leaf Hl1 Hu Hacts) as (q & d & a & HJ & Hin1).
    cbn [map fst] in HJ. rewrite <- skipn_map in HJ.
    rewrite vtop_stop in Hin. rewrite vtop_stop, <- skipn_map in Eg.
    destruct (J_reduce _ p L s' q d a u Hl Hp Hin Eg HJ Hin1) as (HJp & _).
    exists p, (length (rhs g p)), u. split; [exact HJp|].
    rewrite skipn_all. apply firstseq_la_nil. left. reflexivity.
  - (* Accept: the advanced start item, justified by end of input only *)
    destruct (validS_S3_accept g A HS _ _ Hr Hu Eact) as (-> & L & Hin).
    rewrite vtop_stop in Hin. destruct (J_exists _ Hl _ _ _ Hin) as (a & HJ).
    assert (Ha : a = eof g).
    { inversion HJ as [| |ss1 q1 d1 a1 X s1 HJ1 Hn1 He1]; subst.
      inversion HJ1 as [|ss2 q2 d2 a2 r2 q2' a2' HJ2 Hn2 Hq2 Hl2 Hin2|]; subst; [reflexivity|].
      exfalso.
      destruct (wf_rhs_not_start_eof g q2 (R (lhs g (start_prod g))) Hwf
                  (nth_error_rhs_is_prod g q2 d2 _ Hn2) (nth_error_In _ _ Hn2)) as (Hno & _).
      apply Hno. reflexivity. }
    subst a. exists (start_prod g), 1%nat, (eof g). split; [exact HJ|].
    destruct (wf_user_start g Hwf) as (us & Hus). rewrite (user_start_rhs g us Hus).
    cbn [skipn]. apply firstseq_la_nil. left. reflexivity.
  - contradiction.
Qed.

(* D: the one-step core *)
Lemma reduce_step stk b u p s' f leaf :
  graph_stack g A stk -> (b < ntoks g)%N -> (u < ntoks g)%N ->
  action A (vtop A stk) b = Reduce p ->
  goto A (vtop A (skipn (length (rhs g p)) stk)) (lhs g p) = Some s' ->
  acts (advance g A f ((s', VNode p (rev (map snd (firstn (length (rhs g p)) stk)))) ::
                        skipn (length (rhs g p)) stk) u leaf) ->
  action A (vtop A stk) u = Reduce p /\ (length (rhs g p) <= length stk)%nat.
Proof.
  intros Hl Hb Hu Eact Eg Hacts.
  pose proof (linked_vtop_range stk Hl) as Hr.
  destruct (validS_S3_reduce g A HS _ _ _ Hr Hb Eact) as (Hp & Hne & L & Hin).
  pose proof (reduce_linked stk b p s' Hl Hb Eact Eg
                (VNode p (rev (map snd (firstn (length (rhs g p)) stk))))) as Hl1.
  destruct (acts_J f _ u leaf Hl1 Hu Hacts) as (q & d & a & HJ & Hin1).
  cbn [map fst] in HJ. rewrite <- skipn_map in HJ.
  rewrite vtop_stop in Hin. rewrite vtop_stop, <- skipn_map in Eg.
  destruct (J_reduce _ p L s' q d a u Hl Hp Hin Eg HJ Hin1) as (HJp & Hle).
  rewrite map_length in Hle. split; [|exact Hle].
  destruct (J_item _ _ _ _ Hl HJp) as (L' & HL' & HuL). rewrite <- vtop_stop in HL'.
  exact (vC4_spec_reduce g A HC4 _ _ _ _ Hr HL' Hne HuL).
Qed.

(* ---- batches of reductions ------------------------------------------------------------------------ *)

(* a batch of reductions made under b that ended in Error/Accept is made, step for step, under
   every u on which the reduced stack acts: the replay under u passes through the reduced stack *)
Lemma batch_replay u : (u < ntoks g)%N -> forall f X b leaf Y,
  graph_stack g A X -> (b < ntoks g)%N ->
  (advance g A f X b leaf = AError Y \/ advance g A f X b leaf = AAccept Y) ->
  forall f' l, acts (advance g A f' Y u l) ->
  exists m, advance g A (m + f') X u l = advance g A f' Y u l.
Proof.
  intros Hu. induction f as [|f IH]; intros X b leaf Y Hl Hb H f' l Hacts.
  - cbn [advance] in H. destruct H; discriminate.
  - cbn [advance] in H. destruct (action A (vtop A X) b) as [s'|p| |] eqn:Eact.
    + destruct H; discriminate.
    + destruct (length X <? length (rhs g p))%nat eqn:Elt; [destruct H; discriminate|].
      destruct (goto A (vtop A (skipn (length (rhs g p)) X)) (lhs g p)) as [s'|] eqn:Eg;
        [|destruct H; discriminate].
      pose proof (reduce_linked X b p s' Hl Hb Eact Eg
                    (VNode p (rev (map snd (firstn (length (rhs g p)) X))))) as Hl1.
      destruct (IH _ b leaf Y Hl1 Hb H f' l Hacts) as (m & Hm).
      assert (Hacts' : acts (advance g A (m + f')
                ((s', VNode p (rev (map snd (firstn (length (rhs g p)) X)))) ::
                 skipn (length (rhs g p)) X) u l)) by (rewrite Hm; exact Hacts).
      destruct (reduce_step X b u p s' (m + f')%nat l Hl Hb Hu Eact Eg Hacts') as (Eu & _).
      exists (S m). cbn [Nat.add advance]. rewrite Eu, Elt, Eg. exact Hm.
    + assert (HY : Y = X) by (destruct H as [H|H]; [discriminate|injection H as <-; reflexivity]).
      subst Y. exists 0%nat. reflexivity.
    + assert (HY : Y = X) by (destruct H as [H|H]; [injection H as <-; reflexivity|discriminate]).
      subst Y. exists 0%nat. reflexivity.
Qed.

Section Fuel.
Variable ifuel : nat.

Lemma invr_replay Sk Sr : graph_stack g A Sk -> InvR g A ifuel Sk Sr ->
  graph_stack g A Sr /\
  forall u, (u < ntoks g)%N -> forall f' l2, acts (advance g A f' Sr u l2) ->
    exists M, forall l1,
      adv_proj (advance g A (M + f') Sk u l1) = adv_proj (advance g A f' Sr u l2).
Proof.
  intros Hl HI. induction HI as [Sk Sr Heq|Sk X Y b leaf HI IH Hb Hred].
  - split; [unfold graph_stack in *; rewrite <- Heq; exact Hl|].
    intros u Hu f' l2 _. exists 0%nat. intros l1. cbn [Nat.add]. apply advance_states. exact Heq.
  - destruct (IH Hl) as (HlX & IHu). split.
    + pose proof (advance_linked ifuel X b leaf HlX Hb) as H.
      destruct Hred as [E|E]; rewrite E in H; exact H.
    + intros u Hu f' l2 Hacts.
      destruct (batch_replay u Hu ifuel X b leaf Y HlX Hb Hred f' l2 Hacts) as (m & Hm).
      assert (Hacts' : acts (advance g A (m + f') X u l2)) by (rewrite Hm; exact Hacts).
      destruct (IHu u Hu (m + f')%nat l2 Hacts') as (M & HM).
      exists (M + m)%nat. intros l1. rewrite <- Nat.add_assoc, HM, Hm. reflexivity.
Qed.

Lemma confluent_reachable : reduce_confluent_reachable g A ifuel.
Proof.
  split.
  - intros Sk Sr u l1 l2 sr Hl HI Hu E.
    destruct (invr_replay Sk Sr Hl HI) as (_ & H).
    assert (Hacts : acts (advance g A ifuel Sr u l2)) by (rewrite E; exact I).
    destruct (H u Hu ifuel l2 Hacts) as (M & HM). specialize (HM l1). rewrite E in HM.
    destruct (advance g A (M + ifuel) Sk u l1) as [s|s|s|s| |] eqn:Ek; cbn [adv_proj] in HM;
      try discriminate.
    injection HM as HM. exists (M + ifuel)%nat, s. split; [exact HM|].
    intros f Hf. apply (advance_mono g A (M + ifuel) f _ _ _ _ Ek); [discriminate|exact Hf].
  - intros Sk Sr u l Hl HI Hu Eact.
    destruct (invr_replay Sk Sr Hl HI) as (_ & H).
    assert (E : advance g A 1 Sr u l = AAccept Sr) by (cbn [advance]; rewrite Eact; reflexivity).
    assert (Hacts : acts (advance g A 1 Sr u l)) by (rewrite E; exact I).
    destruct (H u Hu 1%nat l Hacts) as (M & HM). specialize (HM l). rewrite E in HM.
    destruct (advance g A (M + 1) Sk u l) as [s|s|s|s| |] eqn:Ek; cbn [adv_proj] in HM;
      try discriminate.
    exists (M + 1)%nat, s. intros f Hf.
    apply (advance_mono g A (M + 1) f _ _ _ _ Ek); [discriminate|exact Hf].
Qed.

Lemma confluent_within_fuel : reduce_confluent_within_fuel g A ifuel.
Proof.
  destruct confluent_reachable as (Hshift & Hacc). split.
  - intros Sk Sr u l1 l2 sr Hl HI Hu E Hnf.
    destruct (Hshift Sk Sr u l1 l2 sr Hl HI Hu E) as (F & s & Hst & Hadv).
    exists s. split; [|exact Hst].
    rewrite <- (Hadv (Nat.max F ifuel) (Nat.le_max_l _ _)).
    symmetry. apply (advance_mono g A ifuel); [reflexivity|exact Hnf|apply Nat.le_max_r].
  - intros Sk Sr u l Hl HI Hu Eact Hnf.
    destruct (Hacc Sk Sr u l Hl HI Hu Eact) as (F & x & Hadv).
    exists x. rewrite <- (Hadv (Nat.max F ifuel) (Nat.le_max_l _ _)).
    symmetry. apply (advance_mono g A ifuel); [reflexivity|exact Hnf|apply Nat.le_max_r].
Qed.

(* ---- the search and the replay ---------------------------------------------------------------------- *)

Variable input : list N.
Hypothesis Hns : no_shift_eof g A.
Hypothesis Hrng : tokens_in_range g input.

Lemma search_apply_prefix : forall moves stk p rec stk' p' rec',
  search_apply g A input ifuel moves stk p rec = Some (stk', p', rec') ->
  exists delta, rec' = rec ++ delta.
Proof.
  induction moves as [|m moves IH]; intros stk p rec stk' p' rec' H.
  - cbn [search_apply] in H. injection H as <- <- <-. exists []. rewrite app_nil_r. reflexivity.
  - destruct m as [t| |]; cbn [search_apply] in H.
    + destruct (last_is_del rec || N.eqb t (eof g)); [discriminate|].
      destruct (lr_cactus1 g A input ifuel (Some t) stk p) as [sr|sr|sr|sr| |]; try discriminate.
      destruct (IH _ _ _ _ _ _ H) as (d & ->). exists ([Ins t] ++ d). rewrite app_assoc. reflexivity.
    + destruct (Nat.eqb p (length input)); [discriminate|].
      destruct (IH _ _ _ _ _ _ H) as (d & ->). exists ([Del] ++ d). rewrite app_assoc. reflexivity.
    + destruct (lr_cactus1 g A input ifuel None stk p) as [sr|sr|sr|sr| |]; try discriminate.
      * destruct (IH _ _ _ _ _ _ H) as (d & ->). exists ([Shf] ++ d). rewrite app_assoc. reflexivity.
      * destruct (listN_eqb (map fst stk) (map fst sr)); [discriminate|]. exact (IH _ _ _ _ _ _ H).
      * destruct (listN_eqb (map fst stk) (map fst sr)); [discriminate|]. exact (IH _ _ _ _ _ _ H).
Qed.

(* Confluent.search_sim for the variant: Sr is the search's stack, Sk the replay's *)
Lemma search_sim_validated : forall moves Sk Sr p rec Sr' p' rec',
  graph_stack g A Sk -> InvR g A ifuel Sk Sr -> (p <= length input)%nat -> seq_in_range g rec' ->
  search_apply g A input ifuel moves Sr p rec = Some (Sr', p', rec') ->
  exists delta, rec' = rec ++ delta /\
    exists F Sk', InvR g A ifuel Sk' Sr' /\ graph_stack g A Sk' /\ (p' <= length input)%nat /\
      forall f, (F <= f)%nat -> forall i,
        apply_seq g A input f delta i Sk p None = Done (Sk', p', None).
Proof.
  destruct confluent_reachable as (Hshift & _).
  induction moves as [|m moves IH]; intros Sk Sr p rec Sr' p' rec' Hl HI Hp Hir H.
  - cbn [search_apply] in H. injection H as <- <- <-. exists []. rewrite app_nil_r.
    split; [reflexivity|]. exists 0%nat, Sk. repeat split; try assumption.
  - destruct m as [t| |]; cbn [search_apply] in H.
    + destruct (last_is_del rec || N.eqb t (eof g)); [discriminate|].
      unfold lr_cactus1 in H.
      destruct (advance g A ifuel Sr t (ins_leaf t p)) as [sr|sr|sr|sr| |] eqn:E; try discriminate.
      assert (Ht : (t < ntoks g)%N).
      { destruct (search_apply_prefix _ _ _ _ _ _ _ H) as (d0 & Hd0). apply Hir. rewrite Hd0.
        apply in_or_app. left. apply in_or_app. right. left. reflexivity. }
      destruct (Hshift Sk Sr t (ins_leaf t p) (ins_leaf t p) sr Hl HI Ht E) as (F1 & s & Hst & Hadv).
      assert (Hls : graph_stack g A s).
      { pose proof (advance_linked F1 Sk t (ins_leaf t p) Hl Ht) as Q.
        rewrite (Hadv F1 (le_n _)) in Q. exact Q. }
      destruct (IH s sr p _ _ _ _ Hls (invr_eq g A ifuel s sr Hst) Hp Hir H)
        as (delta & Hrec & F2 & Sk' & HI' & Hl' & Hp' & Hrep).
      exists (Ins t :: delta). split; [rewrite Hrec, <- app_assoc; reflexivity|].
      exists (Nat.max F1 F2), Sk'. repeat split; try assumption.
      intros f Hf i. cbn [apply_seq]. unfold lr_upto1.
      replace (length input <? p)%nat with false by (symmetry; apply Nat.ltb_ge; exact Hp).
      rewrite (Hadv f ltac:(lia)). apply Hrep. lia.
    + destruct (Nat.eqb p (length input)) eqn:El; [discriminate|]. apply Nat.eqb_neq in El.
      destruct (IH Sk Sr (S p) _ _ _ _ Hl HI ltac:(lia) Hir H)
        as (delta & Hrec & F2 & Sk' & HI' & Hl' & Hp' & Hrep).
      exists (Del :: delta). split; [rewrite Hrec, <- app_assoc; reflexivity|].
      exists F2, Sk'. repeat split; try assumption.
      intros f Hf i. cbn [apply_seq].
      replace (p <? length input)%nat with true by (symmetry; apply Nat.ltb_lt; lia).
      apply Hrep. exact Hf.
    + unfold lr_cactus1 in H.
      pose proof (la_in_range g input p Hwf Hrng) as Hu.
      destruct (advance g A ifuel Sr (la g input p) (real_leaf g input p)) as [sr|sr|sr|sr| |] eqn:E;
        try discriminate.
      * destruct (Hshift Sk Sr _ (real_leaf g input p) (real_leaf g input p) sr Hl HI Hu E)
          as (F1 & s & Hst & Hadv).
        pose proof (shift_in_input g A input Hns _ _ _ _ _ E) as Lp.
        assert (Hls : graph_stack g A s).
        { pose proof (advance_linked F1 Sk _ (real_leaf g input p) Hl Hu) as Q.
          rewrite (Hadv F1 (le_n _)) in Q. exact Q. }
        destruct (IH s sr (S p) _ _ _ _ Hls (invr_eq g A ifuel s sr Hst) ltac:(lia) Hir H)
          as (delta & Hrec & F2 & Sk' & HI' & Hl' & Hp' & Hrep).
        exists (Shf :: delta). split; [rewrite Hrec, <- app_assoc; reflexivity|].
        exists (Nat.max F1 F2), Sk'. repeat split; try assumption.
        intros f Hf i. cbn [apply_seq]. unfold lr_upto1.
        replace (length input <? p)%nat with false by (symmetry; apply Nat.ltb_ge; exact Hp).
        rewrite (Hadv f ltac:(lia)). apply Hrep. lia.
      * destruct (listN_eqb (map fst Sr) (map fst sr)); [discriminate|].
        exact (IH Sk sr p _ _ _ _ Hl (invr_red g A ifuel _ _ _ _ _ HI Hu (or_intror E)) Hp Hir H).
      * destruct (listN_eqb (map fst Sr) (map fst sr)); [discriminate|].
        exact (IH Sk sr p _ _ _ _ Hl (invr_red g A ifuel _ _ _ _ _ HI Hu (or_introl E)) Hp Hir H).
Qed.

(* a success path of the search replays, at every sufficiently large fuel, to ONE configuration
   that passes the success test *)
Lemma search_path_replay PN stk p moves stk' p' rec :
  graph_stack g A stk -> seq_in_range g rec -> (p <= length input)%nat ->
  search_apply g A input ifuel moves stk p [] = Some (stk', p', rec) ->
  search_success g A input PN stk' p' rec = true ->
  exists F Sk', (p' <= length input)%nat /\ forall f, (F <= f)%nat ->
    apply_seq g A input f rec 0 stk p None = Done (Sk', p', None) /\
    (ends_with_shifts PN rec = true \/ exists x, lr_upto1 g A input f None Sk' p' = AAccept x).
Proof.
  intros Hl Hir Hp Hs Hsucc.
  destruct (search_sim_validated moves stk stk p [] stk' p' rec Hl (invr_eq g A ifuel stk stk eq_refl)
              Hp Hir Hs) as (delta & Hd & F1 & Sk' & HI' & Hl' & Hp' & Hrep).
  cbn [app] in Hd. subst delta.
  unfold search_success in Hsucc. apply orb_true_iff in Hsucc. destruct Hsucc as [He|Hacc].
  - exists F1, Sk'. split; [exact Hp'|]. intros f Hf. split; [apply Hrep; exact Hf|left; exact He].
  - destruct (action A (vtop A stk') (la g input p')) eqn:Eact; try discriminate.
    destruct confluent_reachable as (_ & Hc).
    destruct (Hc Sk' stk' _ (real_leaf g input p') Hl' HI' (la_in_range g input p' Hwf Hrng) Eact)
      as (F2 & x & Hx).
    exists (Nat.max F1 F2), Sk'. split; [exact Hp'|]. intros f Hf. split; [apply Hrep; lia|].
    right. exists x. unfold lr_upto1.
    replace (length input <? p')%nat with false by (symmetry; apply Nat.ltb_ge; exact Hp').
    apply Hx. lia.
Qed.

End Fuel.
End Validated.

(* ---- generic: a replay that passes the success test is a valid repair (any fuel, any table) ----- *)

Lemma replay_valid g A input f PN stk p rec Sk' p' :
  apply_seq g A input f rec 0 stk p None = Done (Sk', p', None) ->
  (ends_with_shifts PN rec = true \/ exists x, lr_upto1 g A input f None Sk' p' = AAccept x) ->
  valid_repair g A input f PN stk p (strip rec) = true.
Proof.
  intros Happ Hs.
  destruct (strip_spec rec) as (k & Hrec & Hlt & Heq).
  destruct (Nat.le_gt_cases PN k) as [Hle|Hgt].
  - rewrite Hrec in Happ.
    replace k with (PN + (k - PN))%nat in Happ by lia.
    rewrite repeat_app, app_assoc, apply_seq_app in Happ.
    destruct (apply_seq g A input f (strip rec ++ repeat Shf PN) 0 stk p None) as [[[s1 p1] f1]| |] eqn:E1;
      try discriminate.
    pose proof (apply_seq_facts _ _ _ _ _ _ _ _ _ _ _ _ Happ) as (_ & Hf). specialize (Hf eq_refl). subst f1.
    eapply success_stripped_valid; [exact E1|left; reflexivity].
  - assert (Hend : ends_with_shifts PN rec = false).
    { assert (Hk : (k <= length rec)%nat).
      { rewrite Hrec at 1. rewrite app_length, repeat_length. lia. }
      destruct (Nat.eq_dec k (length rec)) as [Ek|Nk]; [apply Heq; assumption|apply Hlt; [lia|assumption]]. }
    destruct Hs as [Hs|(x & Hx)]; [rewrite Hend in Hs; discriminate|].
    rewrite Hrec in Happ.
    eapply success_stripped_valid; [exact Happ|]. right. split; [lia|]. exists x. exact Hx.
Qed.

(* ---- fuel monotonicity of the replay --------------------------------------------------------------- *)

Lemma lr_upto1_mono g A input f f' ins stk p r :
  lr_upto1 g A input f ins stk p = r -> r <> AFuel -> (f <= f')%nat ->
  lr_upto1 g A input f' ins stk p = r.
Proof.
  unfold lr_upto1. intros H Hr Hle. destruct (length input <? p)%nat; [exact H|].
  destruct ins as [t|]; apply (advance_mono g A f f'); assumption.
Qed.

Lemma apply_seq_mono g A input f f' : (f <= f')%nat -> forall seq i stk p fail r,
  apply_seq g A input f seq i stk p fail = r -> r <> OutOfFuel ->
  apply_seq g A input f' seq i stk p fail = r.
Proof.
  intros Hle. induction seq as [|m seq IH]; intros i stk p fail r H Hr; [exact H|].
  destruct m as [t| |]; cbn [apply_seq] in H |- *.
  - destruct (lr_upto1 g A input f (Some t) stk p) as [s|s|s|s| |] eqn:E;
      try (rewrite (lr_upto1_mono g A input f f' _ _ _ _ E ltac:(discriminate) Hle); apply IH; assumption).
    + rewrite (lr_upto1_mono g A input f f' _ _ _ _ E ltac:(discriminate) Hle). exact H.
    + exfalso. apply Hr. symmetry. exact H.
  - apply IH; assumption.
  - destruct (lr_upto1 g A input f None stk p) as [s|s|s|s| |] eqn:E;
      try (rewrite (lr_upto1_mono g A input f f' _ _ _ _ E ltac:(discriminate) Hle); apply IH; assumption).
    + rewrite (lr_upto1_mono g A input f f' _ _ _ _ E ltac:(discriminate) Hle). exact H.
    + exfalso. apply Hr. symmetry. exact H.
Qed.

Lemma parse_ahead_mono g A input f f' : (f <= f')%nat -> forall n stk p h,
  parse_ahead g A input f n stk p = h -> h <> HFuel -> parse_ahead g A input f' n stk p = h.
Proof.
  intros Hle. induction n as [|n IH]; intros stk p h H Hh; [exact H|].
  cbn [parse_ahead] in H |- *.
  destruct (lr_upto1 g A input f None stk p) as [s|s|s|s| |] eqn:E;
    try (rewrite (lr_upto1_mono g A input f f' _ _ _ _ E ltac:(discriminate) Hle); try exact H;
         apply IH; assumption).
  exfalso. apply Hh. symmetry. exact H.
Qed.

(* validity at a larger fuel comes down to the search's fuel when the replay ends within it *)
Lemma valid_repair_within_fuel g A input f F PN stk p seq : (f <= F)%nat ->
  valid_repair g A input F PN stk p seq = true ->
  replay_within_fuel g A input f PN stk p seq ->
  valid_repair g A input f PN stk p seq = true.
Proof.
  intros Hle HV HW. unfold valid_repair in *. unfold replay_within_fuel in HW.
  destruct (apply_seq g A input f seq 0 stk p None) as [[[s1 p1] f1]| |] eqn:E; [| |contradiction].
  - rewrite (apply_seq_mono g A input f F Hle _ _ _ _ _ _ E ltac:(discriminate)) in HV.
    destruct f1; [discriminate|].
    destruct (parse_ahead g A input f PN s1 p1) as [| | | | |] eqn:Ea;
      try (rewrite (parse_ahead_mono g A input f F Hle _ _ _ _ Ea ltac:(discriminate)) in HV; exact HV).
    exfalso. apply HW. reflexivity.
  - rewrite (apply_seq_mono g A input f F Hle _ _ _ _ _ _ E ltac:(discriminate)) in HV. discriminate.
Qed.

(* ---- the statements -------------------------------------------------------------------------------- *)

Lemma validated_parts g A : validated g A ->
  wf_grammar g = true /\ validS g A = true /\ validE g A = true /\ productive g /\
  exists nl fs, first_ref g = Some (nl, fs) /\
    vC1 g A = true /\ vC2 g nl fs A = true /\ vC3 g A = true /\ vC4 g A = true.
Proof.
  intros (Hwf & HS & HC & HE & Hp). repeat split; try assumption. exact (validC_parts g A HC).
Qed.

Ltac use_validated H :=
  apply validated_parts in H;
  destruct H as (Hwf & HS & HE & Hprod & nl & fs & Hfr & HC1 & HC2 & HC3 & HC4).

Lemma validated_reduce_step : validated_reduce_step_stmt.
Proof.
  intros g A HV stk b u p s' f leaf Hl Hb Hu Eact Eg Hacts. use_validated HV.
  exact (proj1 (reduce_step g A nl fs Hwf HS HE Hfr HC1 HC2 HC3 HC4 Hprod stk b u p s' f leaf
                  Hl Hb Hu Eact Eg Hacts)).
Qed.

Lemma validated_reduce_confluent : validated_reduce_confluent_stmt.
Proof.
  intros g A ifuel Hwf0 HS0 HC0 HE0 Hp0.
  assert (HV : validated g A) by (repeat split; assumption). use_validated HV.
  exact (confluent_reachable g A nl fs Hwf HS HE Hfr HC1 HC2 HC3 HC4 Hprod ifuel).
Qed.

Lemma validated_reduce_confluent_within_fuel : validated_reduce_confluent_within_fuel_stmt.
Proof.
  intros g A ifuel HV. use_validated HV.
  exact (confluent_within_fuel g A nl fs Hwf HS HE Hfr HC1 HC2 HC3 HC4 Hprod ifuel).
Qed.

Lemma validated_search_sound : validated_search_sound_stmt.
Proof.
  intros g A input ifuel PN stk p moves stk' p' rec HV Hns Hrng Hl Hir Hp Hs Hsucc. use_validated HV.
  destruct (search_path_replay g A nl fs Hwf HS HE Hfr HC1 HC2 HC3 HC4 Hprod ifuel input Hns Hrng
              PN stk p moves stk' p' rec Hl Hir Hp Hs Hsucc) as (F & Sk' & _ & HF).
  exists F. intros f Hf. destruct (HF f Hf) as (Happ & Hend).
  exact (replay_valid g A input f PN stk p rec Sk' p' Happ Hend).
Qed.

Lemma validated_search_sound_within_fuel : validated_search_sound_within_fuel_stmt.
Proof.
  intros g A input ifuel PN stk p moves stk' p' rec HV Hns Hrng Hl Hir Hp Hs Hsucc HW.
  destruct (validated_search_sound g A input ifuel PN stk p moves stk' p' rec HV Hns Hrng Hl Hir Hp Hs Hsucc)
    as (F & HF).
  apply (valid_repair_within_fuel g A input ifuel (Nat.max F ifuel) PN stk p (strip rec));
    [apply Nat.le_max_r|apply HF; apply Nat.le_max_l|exact HW].
Qed.

Lemma recover_stacks_graph : recover_stacks_graph_stmt.
Proof.
  intros g A input ifuel PN ofuel oracle Hwf HS Hrng Hor.
  apply (run_recover_linked g A input Hwf HS Hrng); [exact I|exact Hor].
Qed.

(* ---- C06 level ---------------------------------------------------------------------------------------- *)

(* finitely many fuel bounds have a common one *)
Lemma uniform_fuel {X} (T : X -> nat -> Prop) :
  (forall x F F', (F <= F')%nat -> T x F -> T x F') ->
  forall l, (forall x, In x l -> exists F, T x F) -> exists F, forall x, In x l -> T x F.
Proof.
  intros Hmono. induction l as [|y l IH]; intros H.
  - exists 0%nat. intros x [].
  - destruct (H y (or_introl eq_refl)) as (F1 & H1).
    destruct (IH (fun x Hx => H x (or_intror Hx))) as (F2 & H2).
    exists (Nat.max F1 F2). intros x [<-|Hx].
    + exact (Hmono _ _ _ (Nat.le_max_l _ _) H1).
    + exact (Hmono _ _ _ (Nat.le_max_r _ _) (H2 x Hx)).
Qed.

Lemma validated_reported_are_reference_successes : validated_reported_are_reference_successes_stmt.
Proof.
  intros fixed g A input ifuel PN costs TRY avoid fuel stk p out HV Hns Hrng Hl Hp H. use_validated HV.
  destruct (reported_are_successes _ _ _ _ _ _ _ _ _ _ _ _ _ H) as (c & Hall). exists c.
  apply (uniform_fuel (fun rs F => exists s, rs = strip s /\ nf g s /\
           (forall f, (F <= f)%nat -> success g A input f PN stk p s) /\
           scost g input costs s p = c /\ scost g input costs rs p = c)).
  - intros rs F F' Hle (s & E & Hnf & Hs & Hc1 & Hc2). exists s. repeat split; try assumption.
    intros f Hf. apply Hs. lia.
  - intros rs Hin. destruct (Hall rs Hin) as (s & moves & stk' & p' & E & H1 & H2 & H3 & H4 & H5).
    destruct (nf_means g s H5) as (_ & _ & Hir).
    destruct (search_path_replay g A nl fs Hwf HS HE Hfr HC1 HC2 HC3 HC4 Hprod ifuel input Hns Hrng
                PN stk p moves stk' p' s Hl Hir Hp H1 H2) as (F & Sk' & Hp' & HF).
    exists F, s. repeat split; try assumption.
    intros f Hf. destruct (HF f Hf) as (Happ & Hend). exists Sk', p'. split.
    + apply (srun_is_apply_seq g A input f s 0%nat). exact Happ.
    + unfold succ_end. destruct Hend as [He|(x & Hx)]; [rewrite He; reflexivity|].
      rewrite Hx. cbn [is_acc]. apply orb_true_r.
Qed.

Lemma validated_reported_valid : validated_reported_valid_stmt.
Proof.
  intros fixed g A input ifuel PN costs TRY avoid fuel stk p out HV Hns Hrng Hl Hp H. use_validated HV.
  destruct (reported_are_successes _ _ _ _ _ _ _ _ _ _ _ _ _ H) as (c & Hall).
  destruct (uniform_fuel (fun rs F => forall f, (F <= f)%nat ->
              valid_repair g A input f PN stk p rs = true)) with (l := out) as (F & HF).
  - intros rs F F' Hle HT f Hf. apply HT. lia.
  - intros rs Hin. destruct (Hall rs Hin) as (s & moves & stk' & p' & -> & H1 & H2 & _ & _ & H5).
    destruct (nf_means g s H5) as (_ & _ & Hir).
    destruct (search_path_replay g A nl fs Hwf HS HE Hfr HC1 HC2 HC3 HC4 Hprod ifuel input Hns Hrng
                PN stk p moves stk' p' s Hl Hir Hp H1 H2) as (F & Sk' & _ & HF).
    exists F. intros f Hf. destruct (HF f Hf) as (Happ & Hend).
    exact (replay_valid g A input f PN stk p s Sk' p' Happ Hend).
  - exists F. intros f Hf rs Hin. exact (HF rs Hin f Hf).
Qed.

Lemma validated_reported_valid_within_fuel : validated_reported_valid_within_fuel_stmt.
Proof.
  intros fixed g A input ifuel PN costs TRY avoid fuel stk p out HV Hns Hrng Hl Hp H rs Hin HW.
  destruct (validated_reported_valid fixed g A input ifuel PN costs TRY avoid fuel stk p out
              HV Hns Hrng Hl Hp H) as (F & HF).
  apply (valid_repair_within_fuel g A input ifuel (Nat.max F ifuel) PN stk p rs);
    [apply Nat.le_max_r|apply HF; [apply Nat.le_max_l|exact Hin]|exact HW].
Qed.

Lemma validated_reported_cost_ge_reference : validated_reported_cost_ge_reference_stmt.
Proof.
  intros fixed g A input ifuel PN costs TRY avoid fuel stk p out Hc HPN HV Hns Hrng Hl Hp H.
  destruct (validated_reported_are_reference_successes fixed g A input ifuel PN costs TRY avoid fuel
              stk p out HV Hns Hrng Hl Hp H) as (c & F & Hall).
  exists F. intros f Hf sched cmin fmax ref Href rs Hin.
  destruct (Hall rs Hin) as (s & -> & Hnf & Hsucc & _).
  destruct (reference_complete g A input f PN costs TRY avoid sched stk p cmin fmax ref Hc HPN Href)
    as (_ & _ & Hmin & _).
  rewrite scost_strip. apply Hmin; [exact Hnf|apply Hsucc; exact Hf].
Qed.

(* ---- non-vacuity: the implementation's own table for the calculator grammar ------------------------- *)

Example calc_validated : validated calc_grammar calc_automaton.
Proof.
  destruct calc_table_valid as (HS & HC & HE & _).
  unfold validated. split; [exact calc_wf|]. split; [exact HS|]. split; [exact HC|]. split; [exact HE|].
  exact calc_productive.
Qed.

(* input  n + ) : error at lexeme 2 in state 7 (after '+').  A search path: Insert n; the `shift`
   neighbour WITHOUT progress (under ')' the stack  E + n  is reduced to  E, then Error: the stack
   changed, nothing is recorded); Delete ')'; the configuration accepts.  The reported sequence is
   [Insert n; Delete]; its replay starts from the UNREDUCED stack: this is the situation the
   confluence theorem is about, and the theorem gives the validity of the sequence. *)
Local Open Scope N_scope.
Definition calc_err_input : list N := [4; 0; 3].
Definition calc_moves : list smove := [MIns 4; MShf; MDel].

Example calc_search_path :
  match run_recover calc_grammar calc_automaton calc_err_input 50 3 20 [None] [] 0 with
  | DDone None [e] =>
      e_pos e = 2%nat /\ e_state e = 7 /\
      match search_apply calc_grammar calc_automaton calc_err_input 50 calc_moves (e_stk e) 2 [] with
      | Some (stk', p', rec) =>
          rec = [Ins 4; Del] /\ p' = 3%nat /\ map fst stk' = [3] /\ map fst (e_stk e) = [7; 3] /\
          search_success calc_grammar calc_automaton calc_err_input 3 stk' p' rec = true /\
          valid_repair calc_grammar calc_automaton calc_err_input 50 3 (e_stk e) 2 [Ins 4; Del] = true
      | None => False
      end
  | _ => False
  end.
Proof. vm_compute. repeat split. Qed.

Example calc_no_shift_eof : no_shift_eof calc_grammar calc_automaton.
Proof. apply dump_no_shift_eof_ok. vm_compute. reflexivity. Qed.

(* the same conclusion from the theorem (for every sufficiently large fuel), the graph-stack
   hypothesis coming from recover_stacks_graph *)
Example calc_search_sound_instance :
  forall e, run_recover calc_grammar calc_automaton calc_err_input 50 3 20 [None] [] 0 = DDone None [e] ->
  exists F, forall f, (F <= f)%nat ->
    valid_repair calc_grammar calc_automaton calc_err_input f 3 (e_stk e) 2 [Ins 4; Del] = true.
Proof.
  intros e He.
  assert (Hrng : tokens_in_range calc_grammar calc_err_input).
  { unfold tokens_in_range, calc_err_input. repeat constructor. }
  assert (Hg : graph_stack calc_grammar calc_automaton (e_stk e)).
  { pose proof (recover_stacks_graph calc_grammar calc_automaton calc_err_input 50%nat 3%nat 20%nat [None]
                  calc_wf (proj1 calc_table_valid) Hrng) as H.
    assert (Hor : oracle_in_range calc_grammar [None]) by (intros sq [E|[]]; discriminate).
    specialize (H Hor). rewrite He in H. cbn [errs_of] in H. inversion H; assumption. }
  revert Hg. vm_compute in He. injection He as <-. intros Hg.
  match goal with |- context [valid_repair _ _ _ _ _ ?S _ _] => set (stk0 := S) in * end.
  destruct (search_apply calc_grammar calc_automaton calc_err_input 50 calc_moves stk0 2 [])
    as [[[stk' p'] rec]|] eqn:E; [|vm_compute in E; discriminate].
  assert (E' := E). vm_compute in E'. injection E' as <- <- <-.
  assert (Hir : seq_in_range calc_grammar [Ins 4; Del]).
  { intros t [Et|[Et|[]]]; [injection Et as <-; reflexivity|discriminate]. }
  assert (Hp : (2 <= length calc_err_input)%nat) by (cbn; lia).
  match type of E with _ = Some (?S, ?P, ?R) =>
    assert (Hsucc : search_success calc_grammar calc_automaton calc_err_input 3 S P R = true)
      by (vm_compute; reflexivity);
    exact (validated_search_sound calc_grammar calc_automaton calc_err_input 50%nat 3%nat stk0 2%nat
             calc_moves S P R calc_validated calc_no_shift_eof Hrng Hg Hir Hp E Hsucc)
  end.
Qed.
