(* C05/C06 — reduce-confluence of VALIDATED tables: definitions and statements.
   Proved in Repair/ConfluentValidated.v, exported by Properties/C05confluent.v.

   Repair/Confluent.v proves "every success of the search replays as a valid repair" under
   the hypothesis [reduce_confluent g A ifuel], and Search.search_sound_refuted shows that the
   hypothesis fails on conflict-RESOLVED tables.  Here the hypothesis is discharged for every
   table that passes the validators (validS, validC — hence no multi-candidate cell —, validE)
   over a productive grammar.

   [reduce_confluent] exactly as defined in Confluent.v does not follow from the validators, for
   three reasons that have nothing to do with LR theory:
   (1) it quantifies over ARBITRARY lists of state numbers as stacks; the validators say
       nothing about a "stack" that is not a path of the state graph.  The search only ever
       holds such paths.  [graph_stack] below is that condition (weaker than "reached by the
       interpreter": any path of edges from the start state, whatever the values).
   (2) it quantifies over arbitrary token numbers; the validators enumerate the columns
       < ntoks g only (LR/Spec.v, tokens_in_range).
   (3) it demands that the replay from the UNREDUCED stack ends within the SAME reduction
       fuel as the continuation from the reduced one, although the former performs strictly
       more reductions.  The code has no such fuel (ifuel only stands for "the run of
       reductions ends"), so the faithful conclusion is: the replay ends, with the same
       states, for every sufficiently large fuel.
   [reduce_confluent_reachable] is [reduce_confluent] with exactly these three repairs;
   [search_sim]/[search_sound_confluent] of Confluent.v are re-proved for it
   (validated_search_sound_stmt), Confluent.v itself is untouched. *)
From Coq Require Import List Arith NArith Bool Lia.
From GV Require Import Common.Outcome Base.Grammar Base.Analyses LR.Automaton LR.Validator LR.Spec
  Repair.Semantics Repair.Spec Repair.Search Repair.Confluent
  C06.Model C06.Spec C06.Mirror C06.SearchSpec.
Import ListNotations.

(* ---- stacks that are paths of the state graph -------------------------------------------- *)

(* top of a list of states, top first, the start state at the bottom being implicit *)
Definition stop (A : automaton) (ss : list N) : N :=
  match ss with [] => start A | s :: _ => s end.

(* every state was entered along an edge (labelled with some symbol of the grammar) from the
   state below it *)
Fixpoint linked (g : grammar) (A : automaton) (ss : list N) : Prop :=
  match ss with
  | [] => True
  | s :: rest =>
      (exists X, sym_in_range g X = true /\ edge A (stop A rest) X = Some s) /\ linked g A rest
  end.

(* a condition on the STATES of a stack only *)
Definition graph_stack (g : grammar) (A : automaton) (stk : vstack) : Prop :=
  linked g A (map fst stk).

(* ---- the variant of reduce-confluence ------------------------------------------------------ *)

Section Variant.
Variable g : grammar.
Variable A : automaton.
Variable ifuel : nat.

(* Confluent.Inv with lookaheads that are tokens of the grammar *)
Inductive InvR : vstack -> vstack -> Prop :=
| invr_eq Sk Sr : map fst Sk = map fst Sr -> InvR Sk Sr
| invr_red Sk X Y b leaf : InvR Sk X -> (b < ntoks g)%N ->
    (advance g A ifuel X b leaf = AError Y \/ advance g A ifuel X b leaf = AAccept Y) -> InvR Sk Y.

Definition reduce_confluent_reachable : Prop :=
  (forall Sk Sr u l1 l2 sr, graph_stack g A Sk -> InvR Sk Sr -> (u < ntoks g)%N ->
     advance g A ifuel Sr u l2 = AShift sr ->
     exists F s, map fst s = map fst sr /\
       forall f, (F <= f)%nat -> advance g A f Sk u l1 = AShift s) /\
  (forall Sk Sr u l, graph_stack g A Sk -> InvR Sk Sr -> (u < ntoks g)%N ->
     action A (vtop A Sr) u = Accept ->
     exists F x, forall f, (F <= f)%nat -> advance g A f Sk u l = AAccept x).

(* the same read at ONE fuel: [reduce_confluent] of Confluent.v restricted to graph stacks and
   tokens of the grammar, for replays that do not exhaust the fuel *)
Definition reduce_confluent_within_fuel : Prop :=
  (forall Sk Sr u l1 l2 sr, graph_stack g A Sk -> InvR Sk Sr -> (u < ntoks g)%N ->
     advance g A ifuel Sr u l2 = AShift sr -> advance g A ifuel Sk u l1 <> AFuel ->
     exists s, advance g A ifuel Sk u l1 = AShift s /\ map fst s = map fst sr) /\
  (forall Sk Sr u l, graph_stack g A Sk -> InvR Sk Sr -> (u < ntoks g)%N ->
     action A (vtop A Sr) u = Accept -> advance g A ifuel Sk u l <> AFuel ->
     exists x, advance g A ifuel Sk u l = AAccept x).

End Variant.

(* the hypotheses: what every check evaluates on the dump of the implementation's table *)
Definition validated (g : grammar) (A : automaton) : Prop :=
  wf_grammar g = true /\ validS g A = true /\ validC g A = true /\ validE g A = true /\
  productive g.

(* ---- statements -------------------------------------------------------------------------- *)

(* the single-step core: on a graph stack whose top row reduces p under SOME token b, if the
   stack after that reduction can act on u (reductions, then Shift or Accept), the row reduces
   p under u as well *)
Definition acts (r : adv) : Prop :=
  match r with AShift _ | AAccept _ => True | _ => False end.

Definition validated_reduce_step_stmt : Prop :=
  forall g A, validated g A ->
  forall stk b u p s' f leaf,
    graph_stack g A stk -> (b < ntoks g)%N -> (u < ntoks g)%N ->
    action A (vtop A stk) b = Reduce p ->
    goto A (vtop A (skipn (length (rhs g p)) stk)) (lhs g p) = Some s' ->
    acts (advance g A f ((s', VNode p (rev (map snd (firstn (length (rhs g p)) stk)))) ::
                          skipn (length (rhs g p)) stk) u leaf) ->
    action A (vtop A stk) u = Reduce p.

(* (hypotheses spelled out; [validated g A] is their conjunction) *)
Definition validated_reduce_confluent_stmt : Prop :=
  forall g A ifuel,
    wf_grammar g = true -> validS g A = true -> validC g A = true -> validE g A = true ->
    productive g ->
    reduce_confluent_reachable g A ifuel.

Definition validated_reduce_confluent_within_fuel_stmt : Prop :=
  forall g A ifuel, validated g A -> reduce_confluent_within_fuel g A ifuel.

(* graph stacks are what the recovery driver hands to the recoverer: every error of a run of
   the driver mirror from the initial configuration carries one (the oracle = the sequences
   applied, inserting tokens of the grammar only) *)
Definition seq_in_range (g : grammar) (seq : list repair) : Prop :=
  forall t, In (Ins t) seq -> (t < ntoks g)%N.
Definition oracle_in_range (g : grammar) (oracle : list (option (list repair))) : Prop :=
  forall seq, In (Some seq) oracle -> seq_in_range g seq.

Definition recover_stacks_graph_stmt : Prop :=
  forall g A input ifuel PN ofuel oracle,
    wf_grammar g = true -> validS g A = true ->
    tokens_in_range g input -> oracle_in_range g oracle ->
    Forall (fun e => graph_stack g A (e_stk e))
           (errs_of (run_recover g A input ifuel PN ofuel oracle [] 0)).

(* search_sound_confluent with the confluence hypothesis discharged: every success of the
   search's move semantics (run at reduction fuel ifuel) replays as a valid repair at every
   sufficiently large reduction fuel *)
Definition validated_search_sound_stmt : Prop :=
  forall g A input ifuel PN stk p moves stk' p' rec,
    validated g A -> no_shift_eof g A -> tokens_in_range g input ->
    graph_stack g A stk -> seq_in_range g rec -> (p <= length input)%nat ->
    search_apply g A input ifuel moves stk p [] = Some (stk', p', rec) ->
    search_success g A input PN stk' p' rec = true ->
    exists F, forall f, (F <= f)%nat -> valid_repair g A input f PN stk p (strip rec) = true.

(* the replay of a sequence ends within the fuel *)
Definition replay_within_fuel (g : grammar) (A : automaton) (input : list N) (ifuel PN : nat)
    (stk : vstack) (p : nat) (seq : list repair) : Prop :=
  match apply_seq g A input ifuel seq 0 stk p None with
  | Done (stk', p', _) => parse_ahead g A input ifuel PN stk' p' <> HFuel
  | Panic => True
  | OutOfFuel => False
  end.

(* … hence at the search's own fuel whenever the replay ends within it (the exact shape of
   Confluent.search_sound_confluent_stmt) *)
Definition validated_search_sound_within_fuel_stmt : Prop :=
  forall g A input ifuel PN stk p moves stk' p' rec,
    validated g A -> no_shift_eof g A -> tokens_in_range g input ->
    graph_stack g A stk -> seq_in_range g rec -> (p <= length input)%nat ->
    search_apply g A input ifuel moves stk p [] = Some (stk', p', rec) ->
    search_success g A input PN stk' p' rec = true ->
    replay_within_fuel g A input ifuel PN stk p (strip rec) ->
    valid_repair g A input ifuel PN stk p (strip rec) = true.

(* ---- C06 level: the executable mirror of the bucketed search ------------------------------- *)

(* C06_reported_valid without the confluence hypothesis *)
Definition validated_reported_valid_stmt : Prop :=
  forall fixed g A input ifuel PN costs TRY avoid fuel stk p out,
    validated g A -> no_shift_eof g A -> tokens_in_range g input ->
    graph_stack g A stk -> (p <= length input)%nat ->
    search_mirror fixed g A input ifuel PN costs TRY avoid fuel stk p = Done out ->
    exists F, forall f, (F <= f)%nat ->
      forall rs, In rs out -> valid_repair g A input f PN stk p rs = true.

Definition validated_reported_valid_within_fuel_stmt : Prop :=
  forall fixed g A input ifuel PN costs TRY avoid fuel stk p out,
    validated g A -> no_shift_eof g A -> tokens_in_range g input ->
    graph_stack g A stk -> (p <= length input)%nat ->
    search_mirror fixed g A input ifuel PN costs TRY avoid fuel stk p = Done out ->
    forall rs, In rs out -> replay_within_fuel g A input ifuel PN stk p rs ->
      valid_repair g A input ifuel PN stk p rs = true.

(* C06_reported_are_reference_successes without it: each reported sequence is [strip] of a
   normal-form success of the reference semantics (at every sufficiently large fuel) of the
   common cost c* *)
Definition validated_reported_are_reference_successes_stmt : Prop :=
  forall fixed g A input ifuel PN costs TRY avoid fuel stk p out,
    validated g A -> no_shift_eof g A -> tokens_in_range g input ->
    graph_stack g A stk -> (p <= length input)%nat ->
    search_mirror fixed g A input ifuel PN costs TRY avoid fuel stk p = Done out ->
    exists cstar F, forall rs, In rs out ->
      exists s, rs = strip s /\ nf g s /\
                (forall f, (F <= f)%nat -> success g A input f PN stk p s) /\
                scost g input costs s p = cstar /\ scost g input costs rs p = cstar.

(* C06_reported_cost_ge_reference without it: no reported sequence is cheaper than the minimum
   the verified reference computes (reference run at any sufficiently large reduction fuel) *)
Definition validated_reported_cost_ge_reference_stmt : Prop :=
  forall fixed g A input ifuel PN costs TRY avoid fuel stk p out,
    costs_pos costs -> (1 <= PN)%nat ->
    validated g A -> no_shift_eof g A -> tokens_in_range g input ->
    graph_stack g A stk -> (p <= length input)%nat ->
    search_mirror fixed g A input ifuel PN costs TRY avoid fuel stk p = Done out ->
    exists F, forall f, (F <= f)%nat ->
      forall sched cmin fmax ref,
        all_min_repairs g A input f PN costs TRY avoid sched stk p = Some (cmin, fmax, ref) ->
        forall rs, In rs out -> (cmin <= scost g input costs rs p)%N.
