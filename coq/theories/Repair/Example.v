(* C05/C07 — the hypotheses of the theorems of Repair/Proofs.v are satisfiable:
   the calculator grammar's table as dumped from lrtable (harness `repair`),
   two erroneous inputs and the repair sequences the implementation reported. *)
From Coq Require Import List Arith NArith Bool Lia.
From GV Require Import Common.Outcome Base.Grammar LR.Automaton LR.Validator
  Repair.Semantics Repair.Spec Repair.Proofs.
Import ListNotations.
Local Open Scope N_scope.

(* E: E '+' T | T;  T: T '*' F | F;  F: '(' E ')' | 'n';
   tokens: 0='+', 1='*', 2='(', 3=')', 4='n', eof = 5; rules: 0=^ 1=E 2=T 3=F *)
Definition calc_g : grammar := mkGrammar 6 4
  [(1, [R 1; T 0; R 2]);
   (1, [R 2]);
   (2, [R 2; T 1; R 3]);
   (2, [R 3]);
   (3, [T 2; R 1; T 3]);
   (3, [T 4]);
   (0, [R 1])]
  6 5.
Definition calc_d : dump := mkDump 12 0 [] [] []
  [(0, [(2, Shift 2); (4, Shift 1)]);
   (1, [(0, Reduce 5); (1, Reduce 5); (3, Reduce 5); (5, Reduce 5)]);
   (2, [(2, Shift 2); (4, Shift 1)]);
   (3, [(0, Shift 7); (5, Accept)]);
   (4, [(0, Reduce 1); (1, Shift 8); (3, Reduce 1); (5, Reduce 1)]);
   (5, [(0, Reduce 3); (1, Reduce 3); (3, Reduce 3); (5, Reduce 3)]);
   (6, [(0, Shift 7); (3, Shift 9)]);
   (7, [(2, Shift 2); (4, Shift 1)]);
   (8, [(2, Shift 2); (4, Shift 1)]);
   (9, [(0, Reduce 4); (1, Reduce 4); (3, Reduce 4); (5, Reduce 4)]);
   (10, [(0, Reduce 0); (1, Shift 8); (3, Reduce 0); (5, Reduce 0)]);
   (11, [(0, Reduce 2); (1, Reduce 2); (3, Reduce 2); (5, Reduce 2)])]
  [(0, [(1, 3); (2, 4); (3, 5)]);
   (1, []);
   (2, [(1, 6); (2, 4); (3, 5)]);
   (3, []); (4, []); (5, []); (6, []);
   (7, [(2, 10); (3, 5)]);
   (8, [(3, 11)]);
   (9, []); (10, []); (11, [])].
Definition calc_A : automaton := of_dump calc_d.

Example calc_no_shift_eof : no_shift_eof calc_g calc_A.
Proof. apply dump_no_shift_eof_ok. vm_compute. reflexivity. Qed.

(* n + + n : the implementation reported, at lexeme 2 in state 7, [Delete] and [Insert n] *)
Definition in1 : list N := [4; 0; 0; 4].
Definition run1 (oracle : list (option (list repair))) : dres :=
  run_recover calc_g calc_A in1 100 3 20 oracle [] 0.

Example run1_insert :
  match run1 [Some [Ins 4]] with
  | DDone (Some v) [e] =>
      e_pos e = 2%nat /\ e_state e = 7 /\ e_valid e = true /\
      vleaves v = [(4, 0%nat, false); (0, 1%nat, false); (4, 2%nat, true); (0, 2%nat, false); (4, 3%nat, false)]
  | _ => False
  end.
Proof. vm_compute. repeat split. Qed.

Example run1_delete :
  match run1 [Some [Del]] with
  | DDone (Some v) [e] => e_valid e = true /\ map (fun x => fst (fst x)) (vleaves v) = [4; 0; 4]
  | _ => False
  end.
Proof. vm_compute. repeat split. Qed.

(* a sequence that does not repair: deleting two lexemes leaves "n + <eof>" *)
Example run1_invalid :
  match run1 [Some [Del; Del]; None] with
  | DDone None [e1; e2] => e_valid e1 = false /\ e_pos e2 = 4%nat /\ e_repaired e2 = false
  | _ => False
  end.
Proof. vm_compute. repeat split. Qed.

(* n n n ) ) + * n : two errors (lexemes 1 and 6), first sequences as reported *)
Definition in2 : list N := [4; 4; 4; 3; 3; 0; 1; 4].
Definition oracle2 : list (option (list repair)) := [Some [Ins 0; Ins 2; Ins 2; Del]; Some [Ins 4]].
Definition res2 : dres := run_recover calc_g calc_A in2 100 3 40 oracle2 [] 0.

Example res2_shape :
  match res2 with
  | DDone (Some _) [e1; e2] => (e_pos e1, e_state e1) = (1%nat, 1) /\ (e_pos e2, e_state e2) = (6%nat, 7)
  | _ => False
  end.
Proof. vm_compute. repeat split. Qed.

Example res2_all_valid : all_valid (errs_of res2).
Proof. vm_compute. repeat constructor. Qed.

(* the theorems apply (their hypotheses hold here) *)
Example res2_spaced :
  chain 3 0 (map e_pos (errs_of res2)) /\ Forall (fun e => (e_pos e <= length in2)%nat) (errs_of res2).
Proof.
  exact (errors_spaced calc_g calc_A in2 100%nat 3%nat 40%nat oracle2 calc_no_shift_eof
           (le_S _ _ (le_S _ _ (le_n 1))) res2_all_valid).
Qed.

Example res2_count : (length (errs_of res2) <= length in2 / 3 + 1)%nat.
Proof.
  exact (error_count_bounded calc_g calc_A in2 100%nat 3%nat 40%nat oracle2 calc_no_shift_eof
           (le_S _ _ (le_S _ _ (le_n 1))) res2_all_valid).
Qed.

(* the search's success node for the first error of in2 ended in three Shifts *)
Example stripped_valid :
  match res2 with
  | DDone _ (e1 :: _) =>
      valid_repair calc_g calc_A in2 100 3 (e_stk e1) (e_pos e1) [Ins 0; Ins 2; Ins 2; Del] = true /\
      (exists stk' p', apply_seq calc_g calc_A in2 100 ([Ins 0; Ins 2; Ins 2; Del] ++ repeat Shf 3) 0
                         (e_stk e1) (e_pos e1) None = Done (stk', p', None))
  | _ => False
  end.
Proof. vm_compute. split; [reflexivity|]. eexists. eexists. reflexivity. Qed.

(* a clean parse: n + n *)
Example clean :
  match run_recover calc_g calc_A [4; 0; 4] 100 3 20 [] [] 0 with
  | DDone (Some v) [] => run calc_g calc_A 100 [4; 0; 4] = RAccept (erase v)
  | _ => False
  end.
Proof. vm_compute. reflexivity. Qed.
