(* General facts about the grammars of Grammar.v: productions, derivations over
   sentential forms (transitivity, context closure, splitting over
   concatenation, left-step induction), and parse trees vs derivations. *)
From Coq Require Import List Arith NArith Bool Lia.
From GV Require Import Base.Grammar.
Import ListNotations.

(* ---- lists ----------------------------------------------------------------- *)

(* where a distinguished element of  b ++ x :: c  falls in a split  c1 ++ c2 *)
Lemma app_eq_app_mid {A} (b c c1 c2 : list A) (x : A) :
  b ++ x :: c = c1 ++ c2 ->
  (exists c1', c1 = b ++ x :: c1' /\ c = c1' ++ c2) \/
  (exists b', b = c1 ++ b' /\ c2 = b' ++ x :: c).
Proof.
  revert c1. induction b as [|y b IH]; intros c1 H.
  - destruct c1 as [|z c1]; simpl in H.
    + right. exists []. split; [reflexivity|]. simpl. symmetry; exact H.
    + left. injection H as Hx Hc. subst z c. exists c1. split; reflexivity.
  - destruct c1 as [|z c1]; simpl in H.
    + right. exists (y :: b). split; [reflexivity|]. symmetry; exact H.
    + injection H as Hy H. subst z.
      destruct (IH _ H) as [(c1' & Hc1 & Hc) | (b' & Hb & Hc2)].
      * left. exists c1'. subst c1 c. split; reflexivity.
      * right. exists b'. subst b c2. split; reflexivity.
Qed.

(* the three places a symbol of  b ++ m ++ c  can be *)
Lemma app3_eq_mid {A} (b m c b1 c1 : list A) (x : A) :
  b ++ m ++ c = b1 ++ x :: c1 ->
  (exists b', b = b1 ++ x :: b' /\ c1 = b' ++ m ++ c) \/
  (exists u v, m = u ++ x :: v /\ b1 = b ++ u /\ c1 = v ++ c) \/
  (exists c', c = c' ++ x :: c1 /\ b1 = b ++ m ++ c').
Proof.
  intros H. symmetry in H. apply app_eq_app_mid in H.
  destruct H as [(b' & Hb & Hc1) | (b1' & Hb1 & Hmc)].
  - left. exists b'. split; assumption.
  - symmetry in Hmc. apply app_eq_app_mid in Hmc.
    destruct Hmc as [(v & Hm & Hc1) | (c' & Hb1' & Hc)].
    + right; left. exists b1', v. repeat split; assumption.
    + right; right. exists c'. split; [exact Hc|]. subst b1 b1'. reflexivity.
Qed.

(* ---- productions ----------------------------------------------------------- *)

Lemma in_prods_prod g pr :
  In pr (prods g) -> exists p, is_prod g p /\ lhs g p = fst pr /\ rhs g p = snd pr.
Proof.
  intros Hin. destruct (In_nth_error _ _ Hin) as (n & Hn).
  exists (N.of_nat n). unfold is_prod, lhs, rhs, prod. rewrite Nat2N.id, Hn.
  split; [|destruct pr; split; reflexivity].
  apply nth_error_Some. rewrite Hn. discriminate.
Qed.

Lemma prod_in_prods g p : is_prod g p -> In (lhs g p, rhs g p) (prods g).
Proof.
  unfold is_prod, lhs, rhs, prod. intros Hp.
  destruct (nth_error (prods g) (N.to_nat p)) as [[l r]|] eqn:Hn.
  - eapply nth_error_In; exact Hn.
  - apply nth_error_None in Hn. lia.
Qed.

Lemma is_prodb_spec g p : is_prodb g p = true <-> is_prod g p.
Proof. unfold is_prodb, is_prod. apply Nat.ltb_lt. Qed.

Lemma sym_eqb_eq a b : sym_eqb a b = true <-> a = b.
Proof.
  destruct a as [x|x], b as [y|y]; simpl; try (split; intros H; discriminate H).
  - rewrite N.eqb_eq. split; intros H; [subst; reflexivity | injection H; auto].
  - rewrite N.eqb_eq. split; intros H; [subst; reflexivity | injection H; auto].
Qed.

Lemma In_ridxs g r : In r (ridxs g) <-> (r < nrules g)%N.
Proof.
  unfold ridxs. rewrite in_map_iff. split.
  - intros (n & Hn & Hin). apply in_seq in Hin. subst r. lia.
  - intros H. exists (N.to_nat r). split; [apply N2Nat.id|]. apply in_seq. lia.
Qed.

Lemma In_tidxs g a : In a (tidxs g) <-> (a < ntoks g)%N.
Proof.
  unfold tidxs. rewrite in_map_iff. split.
  - intros (n & Hn & Hin). apply in_seq in Hin. subst a. lia.
  - intros H. exists (N.to_nat a). split; [apply N2Nat.id|]. apply in_seq. lia.
Qed.

Lemma In_pidxs g p : In p (pidxs g) <-> is_prod g p.
Proof.
  unfold pidxs, is_prod. rewrite in_map_iff. split.
  - intros (n & Hn & Hin). apply in_seq in Hin. subst p. lia.
  - intros H. exists (N.to_nat p). split; [apply N2Nat.id|]. apply in_seq. lia.
Qed.

Lemma length_ridxs g : length (ridxs g) = N.to_nat (nrules g).
Proof. unfold ridxs. rewrite map_length, seq_length. reflexivity. Qed.

Lemma length_tidxs g : length (tidxs g) = N.to_nat (ntoks g).
Proof. unfold tidxs. rewrite map_length, seq_length. reflexivity. Qed.

(* what wf_grammar gives about index ranges *)
Lemma wf_prods_range g : wf_grammar g = true ->
  forall pr, In pr (prods g) ->
    (fst pr < nrules g)%N /\ forall x, In x (snd pr) -> sym_in_range g x = true.
Proof.
  unfold wf_grammar. intros Hwf pr Hin.
  repeat (apply andb_true_iff in Hwf; destruct Hwf as [Hwf ?]).
  match goal with H : forallb (fun pr => (fst pr <? nrules g)%N && _) _ = true |- _ =>
    rewrite forallb_forall in H; specialize (H pr Hin); apply andb_true_iff in H;
    destruct H as [Hl Hr] end.
  split; [apply N.ltb_lt; exact Hl|]. rewrite forallb_forall in Hr. exact Hr.
Qed.

Lemma wf_start_is_prod g : wf_grammar g = true -> is_prod g (start_prod g).
Proof.
  unfold wf_grammar. intros Hwf.
  repeat (apply andb_true_iff in Hwf; destruct Hwf as [Hwf ?]).
  apply is_prodb_spec. exact Hwf.
Qed.

Lemma wf_eof_range g : wf_grammar g = true -> (eof g < ntoks g)%N.
Proof.
  unfold wf_grammar. intros Hwf.
  repeat (apply andb_true_iff in Hwf; destruct Hwf as [Hwf ?]).
  apply N.ltb_lt. assumption.
Qed.

Lemma wf_lhs_range g p : wf_grammar g = true -> is_prod g p -> (lhs g p < nrules g)%N.
Proof.
  intros Hwf Hp. exact (proj1 (wf_prods_range g Hwf _ (prod_in_prods g p Hp))).
Qed.

Lemma wf_rhs_range g p x : wf_grammar g = true -> is_prod g p -> In x (rhs g p) ->
  sym_in_range g x = true.
Proof.
  intros Hwf Hp. exact (proj2 (wf_prods_range g Hwf _ (prod_in_prods g p Hp)) x).
Qed.

Lemma wf_start_rule_range g : wf_grammar g = true -> (start_rule g < nrules g)%N.
Proof. intros Hwf. apply wf_lhs_range; [exact Hwf | apply wf_start_is_prod; exact Hwf]. Qed.

Lemma wf_user_start g : wf_grammar g = true -> exists s, user_start g = Some s.
Proof.
  unfold wf_grammar. intros Hwf.
  repeat (apply andb_true_iff in Hwf; destruct Hwf as [Hwf ?]).
  destruct (user_start g) as [s|]; [exists s; reflexivity | discriminate].
Qed.

(* ---- derivations ----------------------------------------------------------- *)

Lemma derives_trans g a b c : derives g a b -> derives g b c -> derives g a c.
Proof.
  intros Hab Hbc. revert Hab. induction Hbc as [b | b x p y Hp Hd IH]; intros Hab.
  - exact Hab.
  - apply d_step; [exact Hp | apply IH; exact Hab].
Qed.

Lemma derives_prod g p : is_prod g p -> derives g [R (lhs g p)] (rhs g p).
Proof.
  intros Hp. pose proof (d_step g [R (lhs g p)] [] p [] Hp (d_refl g _)) as H.
  simpl in H. rewrite app_nil_r in H. exact H.
Qed.

Lemma derives_step1 g b p c : is_prod g p ->
  derives g (b ++ R (lhs g p) :: c) (b ++ rhs g p ++ c).
Proof. intros Hp. apply d_step; [exact Hp | apply d_refl]. Qed.

(* a step at the front of a derivation *)
Lemma derives_step_l g b p c d : is_prod g p ->
  derives g (b ++ rhs g p ++ c) d -> derives g (b ++ R (lhs g p) :: c) d.
Proof. intros Hp Hd. eapply derives_trans; [apply derives_step1; exact Hp | exact Hd]. Qed.

Lemma derives_ctx g a b x y : derives g a b -> derives g (x ++ a ++ y) (x ++ b ++ y).
Proof.
  intros H. induction H as [a | a b p c Hp Hd IH].
  - apply d_refl.
  - replace (x ++ (b ++ rhs g p ++ c) ++ y) with ((x ++ b) ++ rhs g p ++ (c ++ y))
      by (rewrite <- !app_assoc; reflexivity).
    apply d_step; [exact Hp|].
    replace ((x ++ b) ++ R (lhs g p) :: c ++ y) with (x ++ (b ++ R (lhs g p) :: c) ++ y)
      by (rewrite <- !app_assoc; reflexivity).
    exact IH.
Qed.

Lemma derives_ctx_l g a b x : derives g a b -> derives g (x ++ a) (x ++ b).
Proof.
  intros H. pose proof (derives_ctx g a b x [] H) as H'. rewrite !app_nil_r in H'. exact H'.
Qed.

Lemma derives_ctx_r g a b y : derives g a b -> derives g (a ++ y) (b ++ y).
Proof. intros H. exact (derives_ctx g a b [] y H). Qed.

Lemma derives_app g a b c d : derives g a b -> derives g c d -> derives g (a ++ c) (b ++ d).
Proof.
  intros Hab Hcd. eapply derives_trans.
  - apply derives_ctx_r. exact Hab.
  - apply derives_ctx_l. exact Hcd.
Qed.

Lemma derives_cons g x a b : derives g a b -> derives g (x :: a) (x :: b).
Proof. intros H. exact (derives_ctx_l g a b [x] H). Qed.

(* left-step presentation and the induction principle it yields *)
Inductive derivesL (g : grammar) : list sym -> list sym -> Prop :=
| dl_refl a : derivesL g a a
| dl_step b p c d : is_prod g p -> derivesL g (b ++ rhs g p ++ c) d ->
    derivesL g (b ++ R (lhs g p) :: c) d.

Lemma derivesL_trans g a b c : derivesL g a b -> derivesL g b c -> derivesL g a c.
Proof.
  intros Hab Hbc. induction Hab as [a | b p x d Hp Hd IH].
  - exact Hbc.
  - apply dl_step; [exact Hp | apply IH; exact Hbc].
Qed.

Lemma derives_derivesL g a b : derives g a b <-> derivesL g a b.
Proof.
  split; intros H.
  - induction H as [a | a b p c Hp Hd IH].
    + apply dl_refl.
    + eapply derivesL_trans; [exact IH|]. apply dl_step; [exact Hp | apply dl_refl].
  - induction H as [a | b p c d Hp Hd IH].
    + apply d_refl.
    + apply derives_step_l; assumption.
Qed.

Lemma derives_ind_l g (P : list sym -> list sym -> Prop) :
  (forall a, P a a) ->
  (forall b p c d, is_prod g p -> derives g (b ++ rhs g p ++ c) d ->
     P (b ++ rhs g p ++ c) d -> P (b ++ R (lhs g p) :: c) d) ->
  forall a d, derives g a d -> P a d.
Proof.
  intros Hr Hs a d H. apply derives_derivesL in H.
  induction H as [a | b p c d Hp Hd IH].
  - apply Hr.
  - apply Hs; [exact Hp | apply derives_derivesL; exact Hd | exact IH].
Qed.

(* a derivation from a concatenation splits *)
Lemma derives_split g a1 a2 c : derives g (a1 ++ a2) c ->
  exists c1 c2, c = c1 ++ c2 /\ derives g a1 c1 /\ derives g a2 c2.
Proof.
  intros H. remember (a1 ++ a2) as a eqn:Ha.
  induction H as [a | a b p c Hp Hd IH].
  - exists a1, a2. subst a. repeat split; apply d_refl.
  - destruct (IH Ha) as (c1 & c2 & Heq & H1 & H2).
    apply app_eq_app_mid in Heq.
    destruct Heq as [(c1' & Hc1 & Hc) | (b' & Hb & Hc2)].
    + exists (b ++ rhs g p ++ c1'), c2. subst c c1. split.
      * rewrite <- !app_assoc. reflexivity.
      * split; [apply d_step; assumption | exact H2].
    + exists c1, (b' ++ rhs g p ++ c). subst b c2. split.
      * rewrite <- !app_assoc. reflexivity.
      * split; [exact H1 | apply d_step; assumption].
Qed.

Lemma derives_cons_split g x l c : derives g (x :: l) c ->
  exists c1 c2, c = c1 ++ c2 /\ derives g [x] c1 /\ derives g l c2.
Proof. intros H. exact (derives_split g [x] l c H). Qed.

Lemma derives_nil_inv g c : derives g [] c -> c = [].
Proof.
  intros H. remember [] as a eqn:Ha in H. induction H as [a | a b p c Hp Hd IH].
  - exact Ha.
  - specialize (IH Ha). destruct b; discriminate IH.
Qed.

Lemma derives_T1_inv g t c : derives g [T t] c -> c = [T t].
Proof.
  intros H. remember [T t] as a eqn:Ha in H. induction H as [a | a b p c Hp Hd IH].
  - exact Ha.
  - specialize (IH Ha). destruct b as [|y b]; [discriminate IH|].
    simpl in IH. injection IH as _ IH. destruct b; discriminate IH.
Qed.

Lemma derives_T_inv g t l c : derives g (T t :: l) c ->
  exists c', c = T t :: c' /\ derives g l c'.
Proof.
  intros H. apply derives_cons_split in H. destruct H as (c1 & c2 & Hc & H1 & H2).
  apply derives_T1_inv in H1. subst c1 c. exists c2. split; [reflexivity | exact H2].
Qed.

Lemma derives_tokens_inv g w c : derives g (tokens_of w) c -> c = tokens_of w.
Proof.
  revert c. induction w as [|a w IH]; intros c H; simpl in *.
  - apply derives_nil_inv in H. exact H.
  - apply derives_T_inv in H. destruct H as (c' & Hc & H). subst c. f_equal. apply IH. exact H.
Qed.

Lemma tokens_of_app w1 w2 : tokens_of (w1 ++ w2) = tokens_of w1 ++ tokens_of w2.
Proof. apply map_app. Qed.

Lemma tokens_of_inj w1 w2 : tokens_of w1 = tokens_of w2 -> w1 = w2.
Proof.
  revert w2. induction w1 as [|a w1 IH]; intros [|b w2] H; simpl in H; try discriminate H.
  - reflexivity.
  - injection H as Hab H. subst b. f_equal. apply IH. exact H.
Qed.

Lemma tokens_of_eq_app w c1 c2 : tokens_of w = c1 ++ c2 ->
  exists w1 w2, w = w1 ++ w2 /\ c1 = tokens_of w1 /\ c2 = tokens_of w2.
Proof.
  intros H. apply map_eq_app in H. destruct H as (w1 & w2 & Hw & H1 & H2).
  exists w1, w2. repeat split; [exact Hw | symmetry; exact H1 | symmetry; exact H2].
Qed.

Lemma derives_split_tokens g a1 a2 w : derives g (a1 ++ a2) (tokens_of w) ->
  exists w1 w2, w = w1 ++ w2 /\ derives g a1 (tokens_of w1) /\ derives g a2 (tokens_of w2).
Proof.
  intros H. apply derives_split in H. destruct H as (c1 & c2 & Hc & H1 & H2).
  apply tokens_of_eq_app in Hc. destruct Hc as (w1 & w2 & Hw & Hc1 & Hc2). subst c1 c2.
  exists w1, w2. repeat split; assumption.
Qed.

Lemma derives_app_nil g a1 a2 : derives g (a1 ++ a2) [] <-> derives g a1 [] /\ derives g a2 [].
Proof.
  split.
  - intros H. apply derives_split in H. destruct H as (c1 & c2 & Hc & H1 & H2).
    symmetry in Hc. apply app_eq_nil in Hc. destruct Hc as [Hc1 Hc2]. subst c1 c2.
    split; assumption.
  - intros [H1 H2]. exact (derives_app g a1 [] a2 [] H1 H2).
Qed.

(* ---- trees and derivations ------------------------------------------------- *)

Lemma valid_tree_ind' g (P : tree -> Prop) :
  (forall a i, P (Leaf a i)) ->
  (forall p kids, is_prod g p -> Forall (valid_tree g) kids -> Forall P kids ->
     map (root g) kids = rhs g p -> P (Node p kids)) ->
  forall t, valid_tree g t -> P t.
Proof.
  intros HL HN. fix IH 2. intros t Hv. destruct Hv as [a i | p kids Hp Hk Hm].
  - apply HL.
  - apply HN; try assumption.
    revert Hk. generalize kids. fix IHk 2. intros ks Hk. destruct Hk as [| k ks' Hk1 Hk2].
    + constructor.
    + constructor; [apply IH; exact Hk1 | apply IHk; exact Hk2].
Qed.

Lemma yield_flat_map ts : flat_map yield ts = map fst (flat_map leaves ts).
Proof.
  induction ts as [|t ts IH]; simpl; [reflexivity|].
  rewrite map_app, IH. reflexivity.
Qed.

Lemma yield_node p kids : yield (Node p kids) = flat_map yield kids.
Proof. unfold yield at 1. simpl. symmetry. apply yield_flat_map. Qed.

Lemma yield_leaf a i : yield (Leaf a i) = [a].
Proof. reflexivity. Qed.

Lemma forest_derives_of g ts :
  Forall (fun t => derives g [root g t] (tokens_of (yield t))) ts ->
  derives g (map (root g) ts) (tokens_of (flat_map yield ts)).
Proof.
  intros H. induction H as [|t ts Ht Hts IH]; simpl.
  - apply d_refl.
  - rewrite tokens_of_app. exact (derives_app g [root g t] _ _ _ Ht IH).
Qed.

Lemma tree_derives g t : valid_tree g t -> derives g [root g t] (tokens_of (yield t)).
Proof.
  intros Hv. induction Hv as [a i | p kids Hp Hk IH Hm] using valid_tree_ind'.
  - apply d_refl.
  - rewrite yield_node. simpl. eapply derives_trans; [apply derives_prod; exact Hp|].
    rewrite <- Hm. apply forest_derives_of. exact IH.
Qed.

Lemma forest_derives g ts : Forall (valid_tree g) ts ->
  derives g (map (root g) ts) (tokens_of (flat_map yield ts)).
Proof.
  intros H. apply forest_derives_of. rewrite Forall_forall in *.
  intros t Ht. apply tree_derives. apply H. exact Ht.
Qed.

(* a forest for the target of a derivation lifts to a forest for its source
   with the same leaves *)
Lemma derives_forest_lift g a c : derives g a c ->
  forall ts, Forall (valid_tree g) ts -> map (root g) ts = c ->
  exists ts', Forall (valid_tree g) ts' /\ map (root g) ts' = a /\
              flat_map leaves ts' = flat_map leaves ts.
Proof.
  intros H. induction H as [a | a b p c Hp Hd IH]; intros ts Hv Hm.
  - exists ts. repeat split; assumption.
  - apply map_eq_app in Hm. destruct Hm as (tb & tmc & Hts & Hmb & Hm).
    apply map_eq_app in Hm. destruct Hm as (tm & tc & Htmc & Hmm & Hmc).
    subst ts tmc. apply Forall_app in Hv. destruct Hv as [Hvb Hv].
    apply Forall_app in Hv. destruct Hv as [Hvm Hvc].
    destruct (IH (tb ++ Node p tm :: tc)) as (ts' & Hv' & Hm' & Hl').
    + apply Forall_app. split; [exact Hvb|]. constructor; [|exact Hvc].
      constructor; assumption.
    + rewrite map_app. simpl. rewrite Hmb, Hmc. reflexivity.
    + exists ts'. split; [exact Hv'|]. split; [exact Hm'|]. rewrite Hl'.
      rewrite !flat_map_app. simpl. reflexivity.
Qed.

Definition leaf_of (x : N * nat) : tree := Leaf (fst x) (snd x).

Lemma leaves_leaf_forest lv : flat_map leaves (map leaf_of lv) = lv.
Proof.
  induction lv as [|[a i] lv IH]; simpl; [reflexivity|]. rewrite IH. reflexivity.
Qed.

Lemma roots_leaf_forest g lv : map (root g) (map leaf_of lv) = tokens_of (map fst lv).
Proof. unfold tokens_of. rewrite !map_map. reflexivity. Qed.

Lemma valid_leaf_forest g lv : Forall (valid_tree g) (map leaf_of lv).
Proof. apply Forall_forall. intros t Ht. apply in_map_iff in Ht. destruct Ht as (x & Hx & _). subst t. constructor. Qed.

(* forests for derivations to token strings, with prescribed leaves *)
Lemma derives_forest_leaves g a lv : derives g a (tokens_of (map fst lv)) ->
  exists ts, Forall (valid_tree g) ts /\ map (root g) ts = a /\ flat_map leaves ts = lv.
Proof.
  intros H.
  destruct (derives_forest_lift g a _ H (map leaf_of lv) (valid_leaf_forest g lv)
              (roots_leaf_forest g lv)) as (ts & Hv & Hm & Hl).
  exists ts. rewrite leaves_leaf_forest in Hl. repeat split; assumption.
Qed.

Lemma derives_forest g a w : derives g a (tokens_of w) ->
  exists ts, Forall (valid_tree g) ts /\ map (root g) ts = a /\ flat_map yield ts = w.
Proof.
  intros H. set (lv := map (fun x => (x, O)) w).
  assert (Hw : map fst lv = w).
  { unfold lv. rewrite map_map. simpl. apply map_id. }
  rewrite <- Hw in H. apply derives_forest_leaves in H. destruct H as (ts & Hv & Hm & Hl).
  exists ts. repeat split; try assumption. rewrite yield_flat_map, Hl. exact Hw.
Qed.

Lemma derives_tree_leaves g x lv : derives g [x] (tokens_of (map fst lv)) ->
  exists t, valid_tree g t /\ root g t = x /\ leaves t = lv.
Proof.
  intros H. apply derives_forest_leaves in H. destruct H as (ts & Hv & Hm & Hl).
  destruct ts as [|t ts]; [discriminate Hm|]. destruct ts as [|t' ts]; [|discriminate Hm].
  exists t. simpl in *. rewrite app_nil_r in Hl. inversion Hv as [|? ? Hvt _]; subst.
  injection Hm as Hm. repeat split; assumption.
Qed.

Lemma derives_tree g r w : derives g [R r] (tokens_of w) ->
  exists t, valid_tree g t /\ root g t = R r /\ yield t = w.
Proof.
  intros H. set (lv := map (fun x => (x, O)) w).
  assert (Hw : map fst lv = w).
  { unfold lv. rewrite map_map. simpl. apply map_id. }
  rewrite <- Hw in H. apply derives_tree_leaves in H. destruct H as (t & Hv & Hr & Hl).
  exists t. repeat split; try assumption. unfold yield. rewrite Hl. exact Hw.
Qed.

(* the tree of a sentence with its leaves numbered in order *)
Lemma derives_tree_in_order g r w : derives g [R r] (tokens_of w) ->
  exists t, valid_tree g t /\ root g t = R r /\ leaves_in_order t w.
Proof.
  intros H. set (lv := combine w (seq 0 (length w))).
  assert (Hw : map fst lv = w).
  { unfold lv. clear H. generalize 0. induction w as [|a w IH]; intros n; simpl; [reflexivity|].
    rewrite IH. reflexivity. }
  rewrite <- Hw in H. apply derives_tree_leaves in H. destruct H as (t & Hv & Hr & Hl).
  exists t. repeat split; assumption.
Qed.

Lemma tree_iff_derives g r w :
  (exists t, valid_tree g t /\ root g t = R r /\ yield t = w) <-> derives g [R r] (tokens_of w).
Proof.
  split.
  - intros (t & Hv & Hr & Hy). rewrite <- Hr, <- Hy. apply tree_derives. exact Hv.
  - apply derives_tree.
Qed.

(* ---- reachability ---------------------------------------------------------- *)

Lemma reaches_context g x y : reaches g x y ->
  forall b c, exists b' c', derives g (b ++ R x :: c) (b' ++ R y :: c').
Proof.
  intros H. induction H as [p x y Hp Hl Hin | x y z Hxy IHxy Hyz IHyz]; intros b c.
  - apply in_split in Hin. destruct Hin as (u & v & Huv).
    exists (b ++ u), (v ++ c). subst x.
    replace ((b ++ u) ++ R y :: v ++ c) with (b ++ rhs g p ++ c)
      by (rewrite Huv, <- !app_assoc; reflexivity).
    apply derives_step1. exact Hp.
  - destruct (IHxy b c) as (b1 & c1 & H1). destruct (IHyz b1 c1) as (b2 & c2 & H2).
    exists b2, c2. eapply derives_trans; eassumption.
Qed.
