(* Reference implementations of the grammar analyses (nullable, FIRST, FOLLOW,
   reachability): the simplest saturation one can write, *not* an imitation of
   the Rust loops.  Each reference iterates a monotone step a fixed number of
   times and then CHECKS that the result is closed under the step; it returns
   [None] when it is not (never observed; excluded by [*_ref_total]).  The
   exactness theorems (AnalysesProofs.v) are of the form
     [x_ref g = Some s -> forall …, In … s <-> x_spec g …]. *)
From Coq Require Import List Arith NArith Bool Lia.
From GV Require Import Base.Grammar.
Import ListNotations.

Definition memN (x : N) (l : list N) : bool := existsb (N.eqb x) l.
Definition addN (x : N) (l : list N) : list N := if memN x l then l else x :: l.
Definition unionN (a b : list N) : list N := fold_right addN b a.
Definition subsetN (a b : list N) : bool := forallb (fun x => memN x b) a.

Definition pairN := (N * N)%type.
Definition pair_eqb (x y : pairN) : bool := N.eqb (fst x) (fst y) && N.eqb (snd x) (snd y).
Definition memP (x : pairN) (l : list pairN) : bool := existsb (pair_eqb x) l.
Definition addP (x : pairN) (l : list pairN) : list pairN := if memP x l then l else x :: l.
Definition unionP (a b : list pairN) : list pairN := fold_right addP b a.
Definition subsetP (a b : list pairN) : bool := forallb (fun x => memP x b) a.

Fixpoint iter {A} (n : nat) (f : A -> A) (x : A) : A :=
  match n with O => x | S n' => iter n' f (f x) end.

(* ---- nullable ------------------------------------------------------------ *)

Definition nullable_sym (nl : list N) (x : sym) : bool :=
  match x with T _ => false | R r => memN r nl end.
Definition nullable_seq (nl : list N) (l : list sym) : bool := forallb (nullable_sym nl) l.

Definition nullable_step (g : grammar) (nl : list N) : list N :=
  fold_right (fun pr acc => if nullable_seq nl (snd pr) then addN (fst pr) acc else acc) nl (prods g).

Definition nullable_closed (g : grammar) (nl : list N) : bool :=
  forallb (fun pr => negb (nullable_seq nl (snd pr)) || memN (fst pr) nl) (prods g).

Definition nullable_ref (g : grammar) : option (list N) :=
  let s := iter (S (N.to_nat (nrules g))) (nullable_step g) [] in
  if nullable_closed g s then Some s else None.

(* ---- FIRST ---------------------------------------------------------------- *)

(* FIRST of a sequence of symbols, given the nullable set and FIRST of rules as
   a set of (rule, token) pairs *)
Definition first_of_rule (fs : list pairN) (r : N) : list N :=
  map snd (filter (fun pr => N.eqb (fst pr) r) fs).

Fixpoint first_seq (nl : list N) (fs : list pairN) (l : list sym) : list N :=
  match l with
  | [] => []
  | T a :: _ => [a]
  | R r :: l' => if memN r nl then unionN (first_of_rule fs r) (first_seq nl fs l')
                 else first_of_rule fs r
  end.

Definition first_step (g : grammar) (nl : list N) (fs : list pairN) : list pairN :=
  fold_right (fun pr acc => unionP (map (fun a => (fst pr, a)) (first_seq nl fs (snd pr))) acc) fs (prods g).

Definition first_closed (g : grammar) (nl : list N) (fs : list pairN) : bool :=
  forallb (fun pr => forallb (fun a => memP (fst pr, a) fs) (first_seq nl fs (snd pr))) (prods g).

Definition first_ref (g : grammar) : option (list N * list pairN) :=
  match nullable_ref g with
  | None => None
  | Some nl =>
      let fs := iter (S (N.to_nat (nrules g) * N.to_nat (ntoks g))) (first_step g nl) [] in
      if first_closed g nl fs then Some (nl, fs) else None
  end.

(* ---- reachability ---------------------------------------------------------- *)

Definition rules_of (l : list sym) : list N :=
  flat_map (fun x => match x with R r => [r] | T _ => [] end) l.

(* pairs (a, b): b occurs in a production of a, closed under composition *)
Definition reach_step (g : grammar) (rs : list pairN) : list pairN :=
  let direct := flat_map (fun pr => map (fun b => (fst pr, b)) (rules_of (snd pr))) (prods g) in
  let comp := flat_map (fun ab => map (fun bc => (fst ab, snd bc))
                                   (filter (fun bc => N.eqb (fst bc) (snd ab)) rs)) rs in
  unionP direct (unionP comp rs).

Definition reach_closed (g : grammar) (rs : list pairN) : bool := subsetP (reach_step g rs) rs.

Definition reach_ref (g : grammar) : option (list pairN) :=
  let n := N.to_nat (nrules g) in
  let rs := iter (S (n * n)) (reach_step g) [] in
  if reach_closed g rs then Some rs else None.

(* ---- FOLLOW ------------------------------------------------------------------ *)

(* contributions of one production  A : X1 … Xn  to FOLLOW, given the current
   set: for every Xi = R B, FIRST(Xi+1 … Xn), and FOLLOW(A) when that tail is
   nullable *)
Fixpoint follow_contrib (nl : list N) (fs : list pairN) (fo : list pairN) (a : N) (l : list sym)
  : list pairN :=
  match l with
  | [] => []
  | T _ :: l' => follow_contrib nl fs fo a l'
  | R b :: l' =>
      map (fun t => (b, t)) (first_seq nl fs l') ++
      (if nullable_seq nl l' then map (fun t => (b, t)) (first_of_rule fo a) else []) ++
      follow_contrib nl fs fo a l'
  end.

(* [use p] selects the productions that contribute: all of them (textbook) or
   those whose rule occurs in a sentential form of ^ (strict) *)
Definition follow_step (g : grammar) (use : N -> bool) (nl : list N) (fs fo : list pairN) : list pairN :=
  fold_right (fun pr acc => if use (fst pr) then unionP (follow_contrib nl fs fo (fst pr) (snd pr)) acc else acc)
             fo (prods g).

Definition follow_closed (g : grammar) (use : N -> bool) (nl : list N) (fs fo : list pairN) : bool :=
  memP (start_rule g, eof g) fo &&
  forallb (fun pr => negb (use (fst pr)) || subsetP (follow_contrib nl fs fo (fst pr) (snd pr)) fo) (prods g).

Definition follow_gen (g : grammar) (use : N -> bool) : option (list pairN) :=
  match first_ref g with
  | None => None
  | Some (nl, fs) =>
      let fo := iter (S (N.to_nat (nrules g) * N.to_nat (ntoks g))) (follow_step g use nl fs)
                     [(start_rule g, eof g)] in
      if follow_closed g use nl fs fo then Some fo else None
  end.

Definition follow_textbook_ref (g : grammar) : option (list pairN) := follow_gen g (fun _ => true).

Definition follow_strict_ref (g : grammar) : option (list pairN) :=
  match reach_ref g with
  | None => None
  | Some rs => follow_gen g (fun a => N.eqb a (start_rule g) || memP (start_rule g, a) rs)
  end.

(* ---- statements (proved in AnalysesProofs.v) ------------------------------- *)

Definition nullable_ref_exact_stmt : Prop :=
  forall g nl, wf_grammar g = true -> nullable_ref g = Some nl ->
    forall r, In r nl <-> nullable_spec g r.

Definition first_ref_exact_stmt : Prop :=
  forall g nl fs, wf_grammar g = true -> first_ref g = Some (nl, fs) ->
    (forall r, In r nl <-> nullable_spec g r) /\
    (forall r a, In (r, a) fs <-> first_spec g r a).

Definition reach_ref_exact_stmt : Prop :=
  forall g rs, wf_grammar g = true -> reach_ref g = Some rs ->
    forall a b, In (a, b) rs <-> reaches g a b.

Definition follow_strict_exact_stmt : Prop :=
  forall g fo, wf_grammar g = true -> follow_strict_ref g = Some fo ->
    forall r a, In (r, a) fo <-> follow_spec g r a.

Definition follow_textbook_exact_stmt : Prop :=
  forall g fo, wf_grammar g = true -> follow_textbook_ref g = Some fo ->
    forall r a, In (r, a) fo <-> follow_textbook_spec g r a.

(* the iteration counts above always suffice *)
Definition nullable_ref_total_stmt : Prop := forall g, wf_grammar g = true -> nullable_ref g <> None.
Definition first_ref_total_stmt : Prop := forall g, wf_grammar g = true -> first_ref g <> None.
Definition reach_ref_total_stmt : Prop := forall g, wf_grammar g = true -> reach_ref g <> None.
Definition follow_ref_total_stmt : Prop :=
  forall g, wf_grammar g = true -> follow_textbook_ref g <> None /\ follow_strict_ref g <> None.
