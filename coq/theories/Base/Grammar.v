(* Shared: context-free grammars as the harness dumps them from YaccGrammar
   (dense indices: tokens 0..ntoks-1 incl. the unnamed end-of-input token,
   rules 0..nrules-1 incl. the added start rule ^, productions by PIdx),
   parse trees, derivations, sentences.  Indices are binary [N]; [nat] is used
   only for list positions and fuel. *)
From Coq Require Import List Arith NArith Bool Lia.
Import ListNotations.

Inductive sym := T (t : N) | R (r : N).

Definition sym_eqb (a b : sym) : bool :=
  match a, b with
  | T x, T y => N.eqb x y
  | R x, R y => N.eqb x y
  | _, _ => false
  end.

Record grammar := mkGrammar {
  ntoks : N;                         (* tokens_len(), end-of-input included *)
  nrules : N;                        (* rules_len(), the start rule ^ included *)
  prods : list (N * list sym);       (* position = PIdx: (prod_to_rule, prod) *)
  start_prod : N;                    (* start_prod(): the production ^ : S *)
  eof : N                            (* eof_token_idx() *)
}.

Definition prod (g : grammar) (p : N) : option (N * list sym) := nth_error (prods g) (N.to_nat p).
Definition lhs (g : grammar) (p : N) : N := match prod g p with Some (l, _) => l | None => 0%N end.
Definition rhs (g : grammar) (p : N) : list sym := match prod g p with Some (_, r) => r | None => [] end.
Definition is_prod (g : grammar) (p : N) : Prop := (N.to_nat p < length (prods g))%nat.
Definition is_prodb (g : grammar) (p : N) : bool := (N.to_nat p <? length (prods g))%nat.
Definition nprods (g : grammar) : N := N.of_nat (length (prods g)).
Definition pidxs (g : grammar) : list N := map N.of_nat (seq 0 (length (prods g))).
Definition tidxs (g : grammar) : list N := map N.of_nat (seq 0 (N.to_nat (ntoks g))).
Definition ridxs (g : grammar) : list N := map N.of_nat (seq 0 (N.to_nat (nrules g))).

(* the rule ^ and the user's start rule S of  ^ : S *)
Definition start_rule (g : grammar) : N := lhs g (start_prod g).
Definition user_start (g : grammar) : option N :=
  match rhs g (start_prod g) with [R s] => Some s | _ => None end.

Definition sym_in_range (g : grammar) (x : sym) : bool :=
  match x with T t => (t <? ntoks g)%N | R r => (r <? nrules g)%N end.

(* well-formedness of a dumped grammar: indices in range; the start production
   is ^ : S; ^ has exactly that production and occurs on no right-hand side;
   the end-of-input token occurs on no right-hand side *)
Definition wf_grammar (g : grammar) : bool :=
  is_prodb g (start_prod g) &&
  (eof g <? ntoks g)%N &&
  match user_start g with Some _ => true | None => false end &&
  forallb (fun pr => (fst pr <? nrules g)%N && forallb (sym_in_range g) (snd pr)) (prods g) &&
  forallb (fun p => (N.eqb p (start_prod g)) || negb (N.eqb (lhs g p) (start_rule g))) (pidxs g) &&
  forallb (fun pr => forallb (fun x => negb (sym_eqb x (R (start_rule g))) && negb (sym_eqb x (T (eof g)))) (snd pr)) (prods g).

(* ---- parse trees ------------------------------------------------------- *)

(* a leaf records the token and the index of the input lexeme it is *)
Inductive tree := Leaf (tok : N) (idx : nat) | Node (p : N) (kids : list tree).

Definition root (g : grammar) (t : tree) : sym :=
  match t with Leaf a _ => T a | Node p _ => R (lhs g p) end.

Fixpoint leaves (t : tree) : list (N * nat) :=
  match t with
  | Leaf a i => [(a, i)]
  | Node _ kids => flat_map leaves kids
  end.
Definition yield (t : tree) : list N := map fst (leaves t).

(* each node's children spell one production of its rule *)
Inductive valid_tree (g : grammar) : tree -> Prop :=
| vt_leaf a i : valid_tree g (Leaf a i)
| vt_node p kids : is_prod g p -> Forall (valid_tree g) kids ->
    map (root g) kids = rhs g p -> valid_tree g (Node p kids).

(* the leaves are the lexemes [start, start + n) in order *)
Definition leaves_in_order (t : tree) (input : list N) : Prop :=
  leaves t = combine input (seq 0 (length input)).

Fixpoint tree_size (t : tree) : nat :=
  match t with
  | Leaf _ _ => 1
  | Node _ kids => S (fold_right (fun k n => tree_size k + n) 0 kids)
  end.

(* ---- derivations over sentential forms --------------------------------- *)

Inductive derives (g : grammar) : list sym -> list sym -> Prop :=
| d_refl a : derives g a a
| d_step a b p c : is_prod g p -> derives g a (b ++ R (lhs g p) :: c) ->
    derives g a (b ++ rhs g p ++ c).

Definition tokens_of (w : list N) : list sym := map T w.

(* w is a sentence of the user's grammar (derivable from the user's start rule) *)
Definition sentence (g : grammar) (w : list N) : Prop :=
  exists s, user_start g = Some s /\ derives g [R s] (tokens_of w).
Definition sentence_prefix (g : grammar) (u : list N) : Prop :=
  exists v, sentence g (u ++ v).

(* every rule derives some token string *)
Definition productive_rule (g : grammar) (r : N) : Prop := exists w, derives g [R r] (tokens_of w).
Definition productive (g : grammar) : Prop :=
  forall r, (r < nrules g)%N -> productive_rule g r.

(* declarative analyses (C17): over sentential forms *)
Definition nullable_spec (g : grammar) (r : N) : Prop := derives g [R r] [].
Definition first_spec (g : grammar) (r : N) (a : N) : Prop :=
  exists c, derives g [R r] (T a :: c).
(* FOLLOW over the sentential forms of  ^ $  (end of input = the eof token) *)
Definition follow_spec (g : grammar) (r : N) (a : N) : Prop :=
  exists b c, derives g [R (start_rule g); T (eof g)] (b ++ R r :: T a :: c).
(* textbook variant: every production contributes, reachable from ^ or not *)
Definition follow_textbook_spec (g : grammar) (r : N) (a : N) : Prop :=
  (exists b c, derives g [R (start_rule g); T (eof g)] (b ++ R r :: T a :: c)) \/
  (exists q b c, (q < nrules g)%N /\ derives g [R q] (b ++ R r :: T a :: c)).
(* has_path a b: b occurs in a production of a rule reachable from a in >= 0 steps *)
Inductive reaches (g : grammar) : N -> N -> Prop :=
| r_direct p a b : is_prod g p -> lhs g p = a -> In (R b) (rhs g p) -> reaches g a b
| r_trans a b c : reaches g a b -> reaches g b c -> reaches g a c.
