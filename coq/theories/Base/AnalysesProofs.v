(* Exactness and totality of the reference analyses of Analyses.v.

   Soundness (everything computed is justified by the declarative spec) is by
   induction over the iteration; completeness uses only that the returned set
   passed the boolean closure check, plus induction over derivations; totality
   is the pigeonhole argument: an inflationary step on duplicate-free subsets
   of a universe of n elements is stationary after n iterations. *)
From Coq Require Import List Arith NArith Bool Lia.
From GV Require Import Base.Grammar Base.Analyses Base.GrammarFacts.
Import ListNotations.

(* ---- finite sets as duplicate-free lists (generic in the element type) ------ *)

Section Sets.
Context {A : Type} (eqb : A -> A -> bool).
Hypothesis eqb_eq : forall x y, eqb x y = true <-> x = y.

Definition gmem (x : A) (l : list A) : bool := existsb (eqb x) l.
Definition gadd (x : A) (l : list A) : list A := if gmem x l then l else x :: l.
Definition gunion (a b : list A) : list A := fold_right gadd b a.
Definition gsubset (a b : list A) : bool := forallb (fun x => gmem x b) a.
(* the shape of all the saturation steps: for every selected item, add F item *)
Definition gstep {B : Type} (c : B -> bool) (F : B -> list A) (s : list A) (l : list B) : list A :=
  fold_right (fun pr acc => if c pr then gunion (F pr) acc else acc) s l.

Lemma gmem_In x l : gmem x l = true <-> In x l.
Proof.
  unfold gmem. rewrite existsb_exists. split.
  - intros (y & Hy & He). apply eqb_eq in He. subst y. exact Hy.
  - intros H. exists x. split; [exact H | apply eqb_eq; reflexivity].
Qed.

Lemma In_gadd x y l : In x (gadd y l) <-> x = y \/ In x l.
Proof.
  unfold gadd. destruct (gmem y l) eqn:Hm.
  - split; [intros H; right; exact H|]. intros [H | H]; [|exact H].
    subst x. apply gmem_In. exact Hm.
  - simpl. split; (intros [H | H]; [left; symmetry; exact H | right; exact H]).
Qed.

Lemma In_gunion x a b : In x (gunion a b) <-> In x a \/ In x b.
Proof.
  induction a as [|y a IH]; simpl.
  - split; [intros H; right; exact H | intros [[] | H]; exact H].
  - rewrite In_gadd, IH. split.
    + intros [H | [H | H]]; [left; left; symmetry; exact H | left; right; exact H | right; exact H].
    + intros [[H | H] | H]; [left; symmetry; exact H | right; left; exact H | right; right; exact H].
Qed.

Lemma gsubset_incl a b : gsubset a b = true <-> incl a b.
Proof.
  unfold gsubset, incl. rewrite forallb_forall. split; intros H x Hx.
  - apply gmem_In. apply H. exact Hx.
  - apply gmem_In. apply H. exact Hx.
Qed.

Lemma NoDup_gadd x l : NoDup l -> NoDup (gadd x l).
Proof.
  intros Hl. unfold gadd. destruct (gmem x l) eqn:Hm; [exact Hl|].
  constructor; [|exact Hl]. intros Hin. apply gmem_In in Hin. congruence.
Qed.

Lemma NoDup_gunion a b : NoDup b -> NoDup (gunion a b).
Proof. intros Hb. induction a as [|y a IH]; simpl; [exact Hb | apply NoDup_gadd; exact IH]. Qed.

Lemma gunion_incl_id a b : incl a b -> gunion a b = b.
Proof.
  induction a as [|y a IH]; intros Hi; simpl; [reflexivity|].
  rewrite IH by (intros z Hz; apply Hi; right; exact Hz).
  unfold gadd. replace (gmem y b) with true; [reflexivity|].
  symmetry. apply gmem_In. apply Hi. left. reflexivity.
Qed.

Lemma In_gstep {B} (c : B -> bool) F s l x :
  In x (gstep c F s l) <-> In x s \/ exists pr, In pr l /\ c pr = true /\ In x (F pr).
Proof.
  induction l as [|pr l IH]; simpl.
  - split; [intros H; left; exact H | intros [H | (pr & [] & _)]; exact H].
  - destruct (c pr) eqn:Hc.
    + rewrite In_gunion, IH. split.
      * intros [H | [H | (pr' & Hin & Hc' & Hx)]].
        -- right. exists pr. split; [left; reflexivity | split; assumption].
        -- left. exact H.
        -- right. exists pr'. split; [right; exact Hin | split; assumption].
      * intros [H | (pr' & [Heq | Hin] & Hc' & Hx)].
        -- right. left. exact H.
        -- subst pr'. left. exact Hx.
        -- right. right. exists pr'. repeat split; assumption.
    + rewrite IH. split.
      * intros [H | (pr' & Hin & Hc' & Hx)]; [left; exact H|].
        right. exists pr'. split; [right; exact Hin | split; assumption].
      * intros [H | (pr' & [Heq | Hin] & Hc' & Hx)]; [left; exact H | subst pr'; congruence |].
        right. exists pr'. repeat split; assumption.
Qed.

Lemma NoDup_gstep {B} (c : B -> bool) F s l : NoDup s -> NoDup (gstep c F s l).
Proof.
  intros Hs. induction l as [|pr l IH]; simpl; [exact Hs|].
  destruct (c pr); [apply NoDup_gunion; exact IH | exact IH].
Qed.

Lemma gstep_id {B} (c : B -> bool) F s l :
  (forall pr, In pr l -> c pr = true -> incl (F pr) s) -> gstep c F s l = s.
Proof.
  induction l as [|pr l IH]; intros H; simpl; [reflexivity|].
  rewrite IH by (intros pr' Hin; apply H; right; exact Hin).
  destruct (c pr) eqn:Hc; [|reflexivity].
  apply gunion_incl_id. apply H; [left; reflexivity | exact Hc].
Qed.

Lemma gstep_incl {B} (c : B -> bool) F s l : incl s (gstep c F s l).
Proof. intros x Hx. apply In_gstep. left. exact Hx. Qed.

End Sets.

(* instances for rule sets and pair sets *)
Lemma pair_eqb_eq (x y : pairN) : pair_eqb x y = true <-> x = y.
Proof.
  destruct x as [x1 x2], y as [y1 y2]. unfold pair_eqb. simpl.
  rewrite andb_true_iff, !N.eqb_eq. split.
  - intros [H1 H2]. subst. reflexivity.
  - intros H. injection H as H1 H2. split; assumption.
Qed.

Lemma memN_In x l : memN x l = true <-> In x l.
Proof. exact (gmem_In N.eqb N.eqb_eq x l). Qed.
Lemma In_addN x y l : In x (addN y l) <-> x = y \/ In x l.
Proof. exact (In_gadd N.eqb N.eqb_eq x y l). Qed.
Lemma In_unionN x a b : In x (unionN a b) <-> In x a \/ In x b.
Proof. exact (In_gunion N.eqb N.eqb_eq x a b). Qed.
Lemma subsetN_incl a b : subsetN a b = true <-> incl a b.
Proof. exact (gsubset_incl N.eqb N.eqb_eq a b). Qed.
Lemma NoDup_unionN a b : NoDup b -> NoDup (unionN a b).
Proof. exact (NoDup_gunion N.eqb N.eqb_eq a b). Qed.

Lemma memP_In x l : memP x l = true <-> In x l.
Proof. exact (gmem_In pair_eqb pair_eqb_eq x l). Qed.
Lemma In_addP x y l : In x (addP y l) <-> x = y \/ In x l.
Proof. exact (In_gadd pair_eqb pair_eqb_eq x y l). Qed.
Lemma In_unionP x a b : In x (unionP a b) <-> In x a \/ In x b.
Proof. exact (In_gunion pair_eqb pair_eqb_eq x a b). Qed.
Lemma subsetP_incl a b : subsetP a b = true <-> incl a b.
Proof. exact (gsubset_incl pair_eqb pair_eqb_eq a b). Qed.
Lemma NoDup_unionP a b : NoDup b -> NoDup (unionP a b).
Proof. exact (NoDup_gunion pair_eqb pair_eqb_eq a b). Qed.
Lemma unionP_incl_id a b : incl a b -> unionP a b = b.
Proof. exact (gunion_incl_id pair_eqb pair_eqb_eq a b). Qed.

(* ---- iteration --------------------------------------------------------------- *)

Lemma iter_invariant {A} (P : A -> Prop) (f : A -> A) n :
  (forall y, P y -> P (f y)) -> forall x, P x -> P (iter n f x).
Proof.
  intros Hf. induction n as [|n IH]; intros x Hx; simpl; [exact Hx|].
  apply IH. apply Hf. exact Hx.
Qed.

Lemma iter_fix {A} (f : A -> A) n x : f x = x -> iter n f x = x.
Proof. intros Hf. induction n as [|n IH]; simpl; [reflexivity|]. rewrite Hf. exact IH. Qed.

Section Converge.
Context {A : Type} (step : list A -> list A) (closed : list A -> bool).
Variable Inv : list A -> Prop.
Variable bound : nat.
Hypothesis Hinv : forall s, Inv s -> Inv (step s) /\ incl s (step s).
Hypothesis Hnd : forall s, Inv s -> NoDup s /\ length s <= bound.
Hypothesis Hfix : forall s, closed s = true -> step s = s.
Hypothesis Hcl : forall s, Inv s -> incl (step s) s -> closed s = true.

Lemma iter_converges k : forall s, Inv s -> bound < k + length s ->
  closed (iter k step s) = true.
Proof.
  induction k as [|k IH]; intros s Hs Hlen.
  - destruct (Hnd s Hs) as [_ Hle]. simpl in Hlen. lia.
  - simpl. destruct (closed s) eqn:Hc.
    + rewrite (Hfix s Hc). rewrite iter_fix by (apply Hfix; exact Hc). exact Hc.
    + destruct (Hinv s Hs) as (Hs' & Hsub).
      apply IH; [exact Hs'|].
      destruct (le_lt_dec (length (step s)) (length s)) as [Hle | Hlt]; [|lia].
      exfalso. destruct (Hnd s Hs) as [Hnds _].
      pose proof (NoDup_length_incl Hnds Hle Hsub) as Hback.
      rewrite (Hcl s Hs Hback) in Hc. discriminate Hc.
Qed.
End Converge.

(* the universes *)
Definition rule_universe (g : grammar) : list N := ridxs g.
Definition rt_universe (g : grammar) : list pairN := list_prod (ridxs g) (tidxs g).
Definition rr_universe (g : grammar) : list pairN := list_prod (ridxs g) (ridxs g).

Lemma In_rt_universe g r a : In (r, a) (rt_universe g) <-> (r < nrules g)%N /\ (a < ntoks g)%N.
Proof. unfold rt_universe. rewrite in_prod_iff, In_ridxs, In_tidxs. reflexivity. Qed.

Lemma In_rr_universe g r a : In (r, a) (rr_universe g) <-> (r < nrules g)%N /\ (a < nrules g)%N.
Proof. unfold rr_universe. rewrite in_prod_iff, !In_ridxs. reflexivity. Qed.

Lemma length_rt_universe g : length (rt_universe g) = N.to_nat (nrules g) * N.to_nat (ntoks g).
Proof. unfold rt_universe, pairN. rewrite prod_length, length_ridxs, length_tidxs. reflexivity. Qed.

Lemma length_rr_universe g : length (rr_universe g) = N.to_nat (nrules g) * N.to_nat (nrules g).
Proof. unfold rr_universe, pairN. rewrite prod_length, !length_ridxs. reflexivity. Qed.

(* ---- nullable ------------------------------------------------------------------ *)

Definition nullable_exact (g : grammar) (nl : list N) : Prop :=
  forall r, In r nl <-> nullable_spec g r.
Definition nullable_sound (g : grammar) (nl : list N) : Prop :=
  forall r, In r nl -> nullable_spec g r.
Definition nullable_closedP (g : grammar) (nl : list N) : Prop :=
  forall p, is_prod g p -> nullable_seq nl (rhs g p) = true -> In (lhs g p) nl.

Lemma nullable_seq_app nl a b : nullable_seq nl (a ++ b) = nullable_seq nl a && nullable_seq nl b.
Proof. apply forallb_app. Qed.

Lemma nullable_seq_cons nl x l : nullable_seq nl (x :: l) = nullable_sym nl x && nullable_seq nl l.
Proof. reflexivity. Qed.

Lemma nullable_step_gstep g nl :
  nullable_step g nl =
  gstep N.eqb (fun pr => nullable_seq nl (snd pr)) (fun pr => [fst pr]) nl (prods g).
Proof. reflexivity. Qed.

Lemma In_nullable_step g nl x :
  In x (nullable_step g nl) <->
  In x nl \/ exists pr, In pr (prods g) /\ nullable_seq nl (snd pr) = true /\ fst pr = x.
Proof.
  rewrite nullable_step_gstep, (In_gstep N.eqb N.eqb_eq). split.
  - intros [H | (pr & Hin & Hc & [Hx | []])]; [left; exact H|].
    right. exists pr. repeat split; assumption.
  - intros [H | (pr & Hin & Hc & Hx)]; [left; exact H|].
    right. exists pr. split; [exact Hin|]. split; [exact Hc | left; exact Hx].
Qed.

Lemma nullable_closed_P g nl : nullable_closed g nl = true -> nullable_closedP g nl.
Proof.
  unfold nullable_closed, nullable_closedP. rewrite forallb_forall. intros H p Hp Hn.
  specialize (H _ (prod_in_prods g p Hp)). simpl in H. rewrite Hn in H. simpl in H.
  apply memN_In. exact H.
Qed.

Lemma nullable_seq_sound g nl l : nullable_sound g nl -> nullable_seq nl l = true -> derives g l [].
Proof.
  intros Hs. induction l as [|x l IH]; intros Hn.
  - apply d_refl.
  - rewrite nullable_seq_cons in Hn. apply andb_true_iff in Hn. destruct Hn as [Hx Hl].
    destruct x as [t | r]; [discriminate Hx|]. simpl in Hx. apply memN_In in Hx.
    exact (derives_app g [R r] [] l [] (Hs r Hx) (IH Hl)).
Qed.

Lemma nullable_step_sound g nl : nullable_sound g nl -> nullable_sound g (nullable_step g nl).
Proof.
  intros Hs r Hr. apply In_nullable_step in Hr. destruct Hr as [Hr | (pr & Hin & Hn & Hx)].
  - apply Hs. exact Hr.
  - apply in_prods_prod in Hin. destruct Hin as (p & Hp & Hl & Hrhs). subst r.
    unfold nullable_spec. rewrite <- Hl. eapply derives_trans; [apply derives_prod; exact Hp|].
    rewrite Hrhs. apply nullable_seq_sound with (nl := nl); assumption.
Qed.

Lemma nullable_back g nl : nullable_closedP g nl ->
  forall a c, derives g a c -> nullable_seq nl c = true -> nullable_seq nl a = true.
Proof.
  intros Hcl a c H. induction H as [a | a b p c Hp Hd IH]; intros Hn; [exact Hn|].
  apply IH. rewrite !nullable_seq_app in Hn. rewrite nullable_seq_app, nullable_seq_cons.
  apply andb_true_iff in Hn. destruct Hn as [Hb Hn].
  apply andb_true_iff in Hn. destruct Hn as [Hr Hc].
  rewrite Hb, Hc. simpl. rewrite andb_true_r. apply memN_In. apply Hcl; assumption.
Qed.

Lemma nullable_sound_closed_exact g nl :
  nullable_sound g nl -> nullable_closedP g nl -> nullable_exact g nl.
Proof.
  intros Hs Hc r. split; [apply Hs|]. unfold nullable_spec. intros Hd.
  pose proof (nullable_back g nl Hc _ _ Hd eq_refl) as Hn.
  rewrite nullable_seq_cons in Hn. apply andb_true_iff in Hn. destruct Hn as [Hn _].
  apply memN_In. exact Hn.
Qed.

Lemma nullable_ref_inv g nl : nullable_ref g = Some nl ->
  nl = iter (S (N.to_nat (nrules g))) (nullable_step g) [] /\ nullable_closed g nl = true.
Proof.
  unfold nullable_ref. cbv zeta.
  destruct (nullable_closed g (iter (S (N.to_nat (nrules g))) (nullable_step g) [])) eqn:Hc;
    intros H; [|discriminate H].
  injection H as H. subst nl. split; [reflexivity | exact Hc].
Qed.

Lemma nullable_ref_exact' g nl : nullable_ref g = Some nl -> nullable_exact g nl.
Proof.
  intros H. apply nullable_ref_inv in H. destruct H as [Hnl Hc].
  apply nullable_sound_closed_exact; [|apply nullable_closed_P; exact Hc].
  subst nl. apply (iter_invariant (nullable_sound g)).
  - apply nullable_step_sound.
  - intros r [].
Qed.

Lemma nullable_ref_exact : nullable_ref_exact_stmt.
Proof. intros g nl _ H. exact (nullable_ref_exact' g nl H). Qed.

(* consequences of exactness on symbol sequences *)
Lemma nullable_exact_closedP g nl : nullable_exact g nl -> nullable_closedP g nl.
Proof.
  intros He p Hp Hn. apply He. unfold nullable_spec.
  eapply derives_trans; [apply derives_prod; exact Hp|].
  apply nullable_seq_sound with (nl := nl); [|exact Hn]. intros r Hr. apply He. exact Hr.
Qed.

Lemma nullable_seq_exact g nl l : nullable_exact g nl ->
  (nullable_seq nl l = true <-> derives g l []).
Proof.
  intros He. split.
  - apply nullable_seq_sound. intros r Hr. apply He. exact Hr.
  - intros Hd. exact (nullable_back g nl (nullable_exact_closedP g nl He) _ _ Hd eq_refl).
Qed.

(* ---- FIRST ----------------------------------------------------------------------- *)

Definition first_exact (g : grammar) (fs : list pairN) : Prop :=
  forall r a, In (r, a) fs <-> first_spec g r a.
Definition first_sound (g : grammar) (fs : list pairN) : Prop :=
  forall r a, In (r, a) fs -> first_spec g r a.
Definition first_closedP (g : grammar) (nl : list N) (fs : list pairN) : Prop :=
  forall p a, is_prod g p -> In a (first_seq nl fs (rhs g p)) -> In (lhs g p, a) fs.

Lemma In_first_of_rule fs r a : In a (first_of_rule fs r) <-> In (r, a) fs.
Proof.
  unfold first_of_rule. rewrite in_map_iff. split.
  - intros ([r' a'] & Ha & Hin). apply filter_In in Hin. destruct Hin as [Hin Heq].
    simpl in *. apply N.eqb_eq in Heq. subst. exact Hin.
  - intros Hin. exists (r, a). split; [reflexivity|]. apply filter_In.
    split; [exact Hin | apply N.eqb_eq; reflexivity].
Qed.

Lemma In_first_seq_R nl fs r l a :
  In a (first_seq nl fs (R r :: l)) <->
  In (r, a) fs \/ (memN r nl = true /\ In a (first_seq nl fs l)).
Proof.
  simpl. destruct (memN r nl).
  - rewrite In_unionN, In_first_of_rule. split.
    + intros [H | H]; [left; exact H | right; split; [reflexivity | exact H]].
    + intros [H | [_ H]]; [left; exact H | right; exact H].
  - rewrite In_first_of_rule. split; [intros H; left; exact H|].
    intros [H | [H _]]; [exact H | discriminate H].
Qed.

Lemma In_first_seq_T nl fs t l a : In a (first_seq nl fs (T t :: l)) <-> a = t.
Proof. simpl. split; [intros [H | []]; symmetry; exact H | intros H; left; symmetry; exact H]. Qed.

Lemma In_first_seq_app nl fs x y a :
  In a (first_seq nl fs (x ++ y)) <->
  In a (first_seq nl fs x) \/ (nullable_seq nl x = true /\ In a (first_seq nl fs y)).
Proof.
  induction x as [|s x IH].
  - simpl. split; [intros H; right; split; [reflexivity | exact H]|].
    intros [[] | [_ H]]; exact H.
  - destruct s as [t | r].
    + change ((T t :: x) ++ y) with (T t :: (x ++ y)). rewrite !In_first_seq_T.
      rewrite nullable_seq_cons. simpl. split; [intros H; left; exact H|].
      intros [H | [H _]]; [exact H | discriminate H].
    + change ((R r :: x) ++ y) with (R r :: (x ++ y)). rewrite !In_first_seq_R, IH.
      rewrite nullable_seq_cons. simpl. rewrite andb_true_iff. tauto.
Qed.

Lemma first_seq_sound g nl fs l a : nullable_sound g nl -> first_sound g fs ->
  In a (first_seq nl fs l) -> exists c, derives g l (T a :: c).
Proof.
  intros Hn Hf. induction l as [|x l IH]; intros Hin; [destruct Hin|].
  destruct x as [t | r].
  - apply In_first_seq_T in Hin. subst t. exists l. apply d_refl.
  - apply In_first_seq_R in Hin. destruct Hin as [Hin | [Hm Hin]].
    + destruct (Hf r a Hin) as (c & Hc). exists (c ++ l).
      exact (derives_ctx_r g [R r] (T a :: c) l Hc).
    + apply memN_In in Hm. destruct (IH Hin) as (c & Hc). exists c.
      exact (derives_app g [R r] [] l (T a :: c) (Hn r Hm) Hc).
Qed.

Lemma first_seq_step_back g nl fs b p c a :
  nullable_closedP g nl -> first_closedP g nl fs -> is_prod g p ->
  In a (first_seq nl fs (b ++ rhs g p ++ c)) -> In a (first_seq nl fs (b ++ R (lhs g p) :: c)).
Proof.
  intros Hn Hf Hp. rewrite !In_first_seq_app, In_first_seq_R.
  intros [H | [Hb [H | [Hr H]]]].
  - left. exact H.
  - right. split; [exact Hb|]. left. apply Hf; assumption.
  - right. split; [exact Hb|]. right. split; [|exact H]. apply memN_In. apply Hn; assumption.
Qed.

Lemma first_seq_back g nl fs : nullable_closedP g nl -> first_closedP g nl fs ->
  forall s c, derives g s c -> forall a, In a (first_seq nl fs c) -> In a (first_seq nl fs s).
Proof.
  intros Hn Hf s c H. induction H as [s | s b p c Hp Hd IH]; intros a Ha; [exact Ha|].
  apply IH. apply first_seq_step_back; assumption.
Qed.

Lemma first_step_gstep g nl fs :
  first_step g nl fs =
  gstep pair_eqb (fun _ => true)
        (fun pr => map (fun a => (fst pr, a)) (first_seq nl fs (snd pr))) fs (prods g).
Proof. reflexivity. Qed.

Lemma In_first_step g nl fs r a :
  In (r, a) (first_step g nl fs) <->
  In (r, a) fs \/ exists pr, In pr (prods g) /\ fst pr = r /\ In a (first_seq nl fs (snd pr)).
Proof.
  rewrite first_step_gstep, (In_gstep pair_eqb pair_eqb_eq). split.
  - intros [H | (pr & Hin & _ & Hx)]; [left; exact H|].
    apply in_map_iff in Hx. destruct Hx as (a' & Heq & Ha). injection Heq as Hr Haa. subst a'.
    right. exists pr. repeat split; assumption.
  - intros [H | (pr & Hin & Hr & Ha)]; [left; exact H|].
    right. exists pr. split; [exact Hin|]. split; [reflexivity|]. subst r.
    apply in_map. exact Ha.
Qed.

Lemma first_closed_P g nl fs : first_closed g nl fs = true -> first_closedP g nl fs.
Proof.
  unfold first_closed, first_closedP. rewrite forallb_forall. intros H p a Hp Ha.
  specialize (H _ (prod_in_prods g p Hp)). simpl in H. rewrite forallb_forall in H.
  apply memP_In. apply H. exact Ha.
Qed.

Lemma first_step_sound g nl fs : nullable_sound g nl -> first_sound g fs ->
  first_sound g (first_step g nl fs).
Proof.
  intros Hn Hf r a Hin. apply In_first_step in Hin. destruct Hin as [Hin | (pr & Hin & Hr & Ha)].
  - apply Hf. exact Hin.
  - apply in_prods_prod in Hin. destruct Hin as (p & Hp & Hl & Hrhs). subst r.
    rewrite <- Hrhs in Ha. destruct (first_seq_sound g nl fs _ a Hn Hf Ha) as (c & Hc).
    exists c. rewrite <- Hl. eapply derives_trans; [apply derives_prod; exact Hp | exact Hc].
Qed.

Lemma first_sound_closed_exact g nl fs :
  nullable_closedP g nl -> first_sound g fs -> first_closedP g nl fs -> first_exact g fs.
Proof.
  intros Hn Hs Hc r a. split; [apply Hs|]. intros (c & Hd).
  assert (Ha : In a (first_seq nl fs [R r])).
  { apply (first_seq_back g nl fs Hn Hc _ _ Hd). apply In_first_seq_T. reflexivity. }
  apply In_first_seq_R in Ha. destruct Ha as [Ha | [_ []]]. exact Ha.
Qed.

Lemma first_ref_inv g nl fs : first_ref g = Some (nl, fs) ->
  nullable_ref g = Some nl /\
  fs = iter (S (N.to_nat (nrules g) * N.to_nat (ntoks g))) (first_step g nl) [] /\
  first_closed g nl fs = true.
Proof.
  unfold first_ref. destruct (nullable_ref g) as [nl'|]; [|intros H; discriminate H].
  cbv zeta.
  destruct (first_closed g nl' (iter (S (N.to_nat (nrules g) * N.to_nat (ntoks g))) (first_step g nl') []))
    eqn:Hc; intros H; [|discriminate H].
  injection H as H1 H2. subst nl' fs. repeat split. exact Hc.
Qed.

Lemma first_ref_exact' g nl fs : first_ref g = Some (nl, fs) ->
  nullable_exact g nl /\ first_exact g fs.
Proof.
  intros H. apply first_ref_inv in H. destruct H as (Hn & Hfs & Hc).
  apply nullable_ref_exact' in Hn. split; [exact Hn|].
  assert (Hns : nullable_sound g nl) by (intros r Hr; apply Hn; exact Hr).
  apply first_sound_closed_exact with (nl := nl).
  - apply nullable_exact_closedP. exact Hn.
  - subst fs. apply (iter_invariant (first_sound g)).
    + intros fs Hf. apply first_step_sound; assumption.
    + intros r a [].
  - apply first_closed_P. exact Hc.
Qed.

Lemma first_ref_exact : first_ref_exact_stmt.
Proof. intros g nl fs _ H. exact (first_ref_exact' g nl fs H). Qed.

Lemma first_exact_closedP g nl fs : nullable_exact g nl -> first_exact g fs -> first_closedP g nl fs.
Proof.
  intros Hn Hf p a Hp Ha. apply Hf.
  assert (Hns : nullable_sound g nl) by (intros r Hr; apply Hn; exact Hr).
  assert (Hfs : first_sound g fs) by (intros r t Hr; apply Hf; exact Hr).
  destruct (first_seq_sound g nl fs (rhs g p) a Hns Hfs Ha) as (c & Hc).
  exists c. eapply derives_trans; [apply derives_prod; exact Hp | exact Hc].
Qed.

Lemma first_seq_exact g nl fs l a : nullable_exact g nl -> first_exact g fs ->
  (In a (first_seq nl fs l) <-> exists c, derives g l (T a :: c)).
Proof.
  intros Hn Hf. split.
  - apply first_seq_sound.
    + intros r Hr. apply Hn. exact Hr.
    + intros r t Hr. apply Hf. exact Hr.
  - intros (c & Hd).
    apply (first_seq_back g nl fs (nullable_exact_closedP g nl Hn)
             (first_exact_closedP g nl fs Hn Hf) _ _ Hd).
    apply In_first_seq_T. reflexivity.
Qed.

(* ---- reachability -------------------------------------------------------------------- *)

Lemma In_rules_of l r : In r (rules_of l) <-> In (R r) l.
Proof.
  unfold rules_of. rewrite in_flat_map. split.
  - intros ([t | r'] & Hin & Hx); [destruct Hx|]. destruct Hx as [Hx | []]. subst r'. exact Hin.
  - intros Hin. exists (R r). split; [exact Hin | left; reflexivity].
Qed.

Definition reach_direct (g : grammar) : list pairN :=
  flat_map (fun pr => map (fun b => (fst pr, b)) (rules_of (snd pr))) (prods g).
Definition reach_comp (rs : list pairN) : list pairN :=
  flat_map (fun ab => map (fun bc => (fst ab, snd bc))
                          (filter (fun bc => N.eqb (fst bc) (snd ab)) rs)) rs.

Lemma reach_step_eq g rs : reach_step g rs = unionP (reach_direct g) (unionP (reach_comp rs) rs).
Proof. reflexivity. Qed.

Lemma In_reach_direct g a b :
  In (a, b) (reach_direct g) <-> exists p, is_prod g p /\ lhs g p = a /\ In (R b) (rhs g p).
Proof.
  unfold reach_direct. rewrite in_flat_map. split.
  - intros (pr & Hin & Hx). apply in_map_iff in Hx. destruct Hx as (b' & Heq & Hb).
    injection Heq as Ha Hbb. subst b'. apply In_rules_of in Hb.
    apply in_prods_prod in Hin. destruct Hin as (p & Hp & Hl & Hr).
    exists p. rewrite Hl, Hr. repeat split; assumption.
  - intros (p & Hp & Hl & Hin). exists (lhs g p, rhs g p). split; [apply prod_in_prods; exact Hp|].
    simpl. rewrite Hl. apply in_map. apply In_rules_of. exact Hin.
Qed.

Lemma In_reach_comp rs a c :
  In (a, c) (reach_comp rs) <-> exists b, In (a, b) rs /\ In (b, c) rs.
Proof.
  unfold reach_comp. rewrite in_flat_map. split.
  - intros ([a' b] & Hab & Hx). apply in_map_iff in Hx. destruct Hx as ([b' c'] & Heq & Hbc).
    apply filter_In in Hbc. destruct Hbc as [Hbc Hb]. simpl in *. apply N.eqb_eq in Hb.
    injection Heq as Ha Hc. subst. exists b. split; assumption.
  - intros (b & Hab & Hbc). exists (a, b). split; [exact Hab|]. apply in_map_iff.
    exists (b, c). split; [reflexivity|]. apply filter_In. split; [exact Hbc|].
    simpl. apply N.eqb_eq. reflexivity.
Qed.

Lemma In_reach_step g rs x :
  In x (reach_step g rs) <-> In x (reach_direct g) \/ In x (reach_comp rs) \/ In x rs.
Proof. rewrite reach_step_eq, !In_unionP. reflexivity. Qed.

Definition reach_sound (g : grammar) (rs : list pairN) : Prop :=
  forall a b, In (a, b) rs -> reaches g a b.

Lemma reach_step_sound g rs : reach_sound g rs -> reach_sound g (reach_step g rs).
Proof.
  intros Hs a b Hin. apply In_reach_step in Hin. destruct Hin as [Hin | [Hin | Hin]].
  - apply In_reach_direct in Hin. destruct Hin as (p & Hp & Hl & Hin).
    exact (r_direct g p a b Hp Hl Hin).
  - apply In_reach_comp in Hin. destruct Hin as (m & Ham & Hmb).
    exact (r_trans g a m b (Hs _ _ Ham) (Hs _ _ Hmb)).
  - apply Hs. exact Hin.
Qed.

Lemma reach_ref_inv g rs : reach_ref g = Some rs ->
  rs = iter (S (N.to_nat (nrules g) * N.to_nat (nrules g))) (reach_step g) [] /\
  reach_closed g rs = true.
Proof.
  unfold reach_ref. cbv zeta.
  destruct (reach_closed g (iter (S (N.to_nat (nrules g) * N.to_nat (nrules g))) (reach_step g) []))
    eqn:Hc; intros H; [|discriminate H].
  injection H as H. subst rs. split; [reflexivity | exact Hc].
Qed.

Lemma reach_ref_exact' g rs : reach_ref g = Some rs -> forall a b, In (a, b) rs <-> reaches g a b.
Proof.
  intros H. apply reach_ref_inv in H. destruct H as [Hrs Hc]. intros a b. split.
  - revert a b. fold (reach_sound g rs). subst rs. apply (iter_invariant (reach_sound g)).
    + apply reach_step_sound.
    + intros a b [].
  - unfold reach_closed in Hc. apply subsetP_incl in Hc.
    intros Hr. induction Hr as [p a b Hp Hl Hin | a b c Hab IHab Hbc IHbc].
    + apply Hc. apply In_reach_step. left. apply In_reach_direct. exists p. repeat split; assumption.
    + apply Hc. apply In_reach_step. right. left. apply In_reach_comp. exists b. split; assumption.
Qed.

Lemma reach_ref_exact : reach_ref_exact_stmt.
Proof. intros g rs _ H. exact (reach_ref_exact' g rs H). Qed.

(* ---- FOLLOW ------------------------------------------------------------------------------ *)

Lemma In_follow_contrib nl fs fo a l b t :
  In (b, t) (follow_contrib nl fs fo a l) <->
  exists u v, l = u ++ R b :: v /\
    (In t (first_seq nl fs v) \/ (nullable_seq nl v = true /\ In (a, t) fo)).
Proof.
  induction l as [|x l IH].
  - simpl. split; [intros [] | intros (u & v & H & _); destruct u; discriminate H].
  - destruct x as [t' | b'].
    + simpl. rewrite IH. split.
      * intros (u & v & Hl & H). exists (T t' :: u), v. subst l. split; [reflexivity | exact H].
      * intros (u & v & Hl & H). destruct u as [|y u]; [discriminate Hl|].
        injection Hl as _ Hl. exists u, v. split; assumption.
    + simpl. rewrite !in_app_iff, IH. split.
      * intros [H | [H | H]].
        -- apply in_map_iff in H. destruct H as (t0 & Heq & Hin). injection Heq as Hb Ht.
           subst b' t0. exists [], l. split; [reflexivity | left; exact Hin].
        -- destruct (nullable_seq nl l) eqn:Hn; [|destruct H].
           apply in_map_iff in H. destruct H as (t0 & Heq & Hin). injection Heq as Hb Ht.
           subst b' t0. apply In_first_of_rule in Hin.
           exists [], l. split; [reflexivity | right; split; [exact Hn | exact Hin]].
        -- destruct H as (u & v & Hl & H). exists (R b' :: u), v. subst l.
           split; [reflexivity | exact H].
      * intros (u & v & Hl & H). destruct u as [|y u].
        -- injection Hl as Hb Hl. subst b' l. destruct H as [H | [Hn H]].
           ++ left. apply in_map. exact H.
           ++ right. left. rewrite Hn. apply in_map. apply In_first_of_rule. exact H.
        -- injection Hl as _ Hl. right. right. exists u, v. split; assumption.
Qed.

Lemma follow_step_gstep g use nl fs fo :
  follow_step g use nl fs fo =
  gstep pair_eqb (fun pr => use (fst pr))
        (fun pr => follow_contrib nl fs fo (fst pr) (snd pr)) fo (prods g).
Proof. reflexivity. Qed.

Lemma In_follow_step g use nl fs fo x :
  In x (follow_step g use nl fs fo) <->
  In x fo \/ exists p, is_prod g p /\ use (lhs g p) = true /\
                       In x (follow_contrib nl fs fo (lhs g p) (rhs g p)).
Proof.
  rewrite follow_step_gstep, (In_gstep pair_eqb pair_eqb_eq). split.
  - intros [H | (pr & Hin & Hu & Hx)]; [left; exact H|]. right.
    apply in_prods_prod in Hin. destruct Hin as (p & Hp & Hl & Hr).
    exists p. rewrite Hl, Hr. repeat split; assumption.
  - intros [H | (p & Hp & Hu & Hx)]; [left; exact H|]. right.
    exists (lhs g p, rhs g p). split; [apply prod_in_prods; exact Hp|]. split; assumption.
Qed.

Definition follow_closedP (g : grammar) (use : N -> bool) (nl : list N) (fs fo : list pairN) : Prop :=
  In (start_rule g, eof g) fo /\
  forall p, is_prod g p -> use (lhs g p) = true ->
    incl (follow_contrib nl fs fo (lhs g p) (rhs g p)) fo.

Lemma follow_closed_P g use nl fs fo :
  follow_closed g use nl fs fo = true -> follow_closedP g use nl fs fo.
Proof.
  unfold follow_closed, follow_closedP. rewrite andb_true_iff, forallb_forall.
  intros [H0 H]. split; [apply memP_In; exact H0|]. intros p Hp Hu.
  specialize (H _ (prod_in_prods g p Hp)). simpl in H. rewrite Hu in H. simpl in H.
  apply subsetP_incl. exact H.
Qed.

(* sentential-form FOLLOW from an arbitrary starting form *)
Definition follow_from (g : grammar) (s0 : list sym) (r a : N) : Prop :=
  exists b c, derives g s0 (b ++ R r :: T a :: c).
Definition occurs_from (g : grammar) (s0 : list sym) (r : N) : Prop :=
  exists b c, derives g s0 (b ++ R r :: c).

Lemma follow_from_first g s0 p u b v t c :
  occurs_from g s0 (lhs g p) -> is_prod g p -> rhs g p = u ++ R b :: v ->
  derives g v (T t :: c) -> follow_from g s0 b t.
Proof.
  intros (b0 & c0 & H0) Hp Hr Hv. exists (b0 ++ u), (c ++ c0).
  eapply derives_trans; [exact H0|]. eapply derives_trans; [apply derives_step1; exact Hp|].
  rewrite Hr.
  replace (b0 ++ (u ++ R b :: v) ++ c0) with ((b0 ++ u) ++ [R b] ++ v ++ c0)
    by (rewrite <- !app_assoc; reflexivity).
  replace ((b0 ++ u) ++ R b :: T t :: c ++ c0) with ((b0 ++ u) ++ [R b] ++ (T t :: c) ++ c0)
    by reflexivity.
  apply derives_ctx_l. apply derives_ctx_l. apply derives_ctx_r. exact Hv.
Qed.

Lemma follow_from_follow g s0 p u b v t :
  follow_from g s0 (lhs g p) t -> is_prod g p -> rhs g p = u ++ R b :: v ->
  derives g v [] -> follow_from g s0 b t.
Proof.
  intros (b0 & c0 & H0) Hp Hr Hv. exists (b0 ++ u), c0.
  eapply derives_trans; [exact H0|]. eapply derives_trans; [apply derives_step1; exact Hp|].
  rewrite Hr.
  replace (b0 ++ (u ++ R b :: v) ++ T t :: c0) with ((b0 ++ u) ++ [R b] ++ v ++ T t :: c0)
    by (rewrite <- !app_assoc; reflexivity).
  replace ((b0 ++ u) ++ R b :: T t :: c0) with ((b0 ++ u) ++ [R b] ++ [] ++ T t :: c0)
    by reflexivity.
  apply derives_ctx_l. apply derives_ctx_l. apply derives_ctx_r. exact Hv.
Qed.

Section FollowGen.
Variable g : grammar.
Variable use : N -> bool.
Variables (nl : list N) (fs : list pairN).
Hypothesis Hnl : nullable_exact g nl.
Hypothesis Hfs : first_exact g fs.

(* soundness, generic in the spec *)
Section Sound.
Variable Spec : N -> N -> Prop.
Hypothesis S1 : forall p u b v t c, is_prod g p -> use (lhs g p) = true ->
  rhs g p = u ++ R b :: v -> derives g v (T t :: c) -> Spec b t.
Hypothesis S2 : forall p u b v t, is_prod g p -> rhs g p = u ++ R b :: v ->
  derives g v [] -> Spec (lhs g p) t -> Spec b t.

Definition follow_sound (fo : list pairN) : Prop := forall r a, In (r, a) fo -> Spec r a.

Lemma follow_step_sound fo : follow_sound fo -> follow_sound (follow_step g use nl fs fo).
Proof.
  intros Hs r a Hin. apply In_follow_step in Hin.
  destruct Hin as [Hin | (p & Hp & Hu & Hin)]; [apply Hs; exact Hin|].
  apply In_follow_contrib in Hin. destruct Hin as (u & v & Hr & [Hf | [Hn Hf]]).
  - apply (first_seq_exact g nl fs v a Hnl Hfs) in Hf. destruct Hf as (c & Hc).
    exact (S1 p u r v a c Hp Hu Hr Hc).
  - apply (nullable_seq_exact g nl v Hnl) in Hn.
    exact (S2 p u r v a Hp Hr Hn (Hs _ _ Hf)).
Qed.

Lemma follow_iter_sound n fo0 : follow_sound fo0 ->
  follow_sound (iter n (follow_step g use nl fs) fo0).
Proof. apply iter_invariant. apply follow_step_sound. Qed.
End Sound.

(* completeness from closure *)
Section Complete.
Variable fo : list pairN.
Hypothesis Huse : forall p r, is_prod g p -> use (lhs g p) = true -> In (R r) (rhs g p) ->
  use r = true.
Hypothesis Hcl : forall p, is_prod g p -> use (lhs g p) = true ->
  incl (follow_contrib nl fs fo (lhs g p) (rhs g p)) fo.

Definition finv (s : list sym) : Prop :=
  (forall r, In (R r) s -> use r = true) /\
  (forall b r c a, s = b ++ R r :: c -> In a (first_seq nl fs c) -> In (r, a) fo).

Lemma finv_step b p c : is_prod g p -> finv (b ++ R (lhs g p) :: c) -> finv (b ++ rhs g p ++ c).
Proof.
  intros Hp [Hu Hf].
  assert (Hup : use (lhs g p) = true).
  { apply Hu. apply in_or_app. right. left. reflexivity. }
  split.
  - intros r Hin. apply in_app_or in Hin. destruct Hin as [Hin | Hin].
    + apply Hu. apply in_or_app. left. exact Hin.
    + apply in_app_or in Hin. destruct Hin as [Hin | Hin].
      * exact (Huse p r Hp Hup Hin).
      * apply Hu. apply in_or_app. right. right. exact Hin.
  - intros b1 r c1 a Heq Ha. apply app3_eq_mid in Heq.
    destruct Heq as [(b' & Hb & Hc1) | [(u & v & Hm & Hb1 & Hc1) | (c' & Hc & Hb1)]].
    + (* r in b *)
      subst b c1. apply (Hf b1 r (b' ++ R (lhs g p) :: c) a).
      * rewrite <- app_assoc. reflexivity.
      * apply first_seq_step_back; try assumption.
        -- apply nullable_exact_closedP. exact Hnl.
        -- apply first_exact_closedP; assumption.
    + (* r in the production *)
      subst c1. apply (Hcl p Hp Hup). apply In_follow_contrib. exists u, v. split; [exact Hm|].
      apply In_first_seq_app in Ha. destruct Ha as [Ha | [Hn Ha]].
      * left. exact Ha.
      * right. split; [exact Hn|]. exact (Hf b (lhs g p) c a eq_refl Ha).
    + (* r in c *)
      subst c. apply (Hf (b ++ R (lhs g p) :: c') r c1 a); [|exact Ha].
      rewrite <- app_assoc. reflexivity.
Qed.

Lemma finv_derives s0 s : derives g s0 s -> finv s0 -> finv s.
Proof.
  intros H. induction H as [s0 | s0 b p c Hp Hd IH]; intros H0; [exact H0|].
  apply finv_step; [exact Hp | apply IH; exact H0].
Qed.

Lemma finv_follow_from s0 r a : finv s0 -> follow_from g s0 r a -> In (r, a) fo.
Proof.
  intros H0 (b & c & Hd). destruct (finv_derives _ _ Hd H0) as [_ Hf].
  apply (Hf b r (T a :: c) a eq_refl). left. reflexivity.
Qed.
End Complete.
End FollowGen.

Lemma follow_gen_inv g use fo : follow_gen g use = Some fo ->
  exists nl fs, first_ref g = Some (nl, fs) /\
    fo = iter (S (N.to_nat (nrules g) * N.to_nat (ntoks g))) (follow_step g use nl fs)
              [(start_rule g, eof g)] /\
    follow_closed g use nl fs fo = true.
Proof.
  unfold follow_gen. destruct (first_ref g) as [[nl fs]|]; [|intros H; discriminate H].
  cbv zeta.
  destruct (follow_closed g use nl fs
              (iter (S (N.to_nat (nrules g) * N.to_nat (ntoks g))) (follow_step g use nl fs)
                    [(start_rule g, eof g)])) eqn:Hc; intros H; [|discriminate H].
  injection H as H. subst fo. exists nl, fs. repeat split. exact Hc.
Qed.

Lemma follow_from_start g : follow_from g [R (start_rule g); T (eof g)] (start_rule g) (eof g).
Proof. exists [], []. apply d_refl. Qed.

Lemma finv_start g use nl fs fo : use (start_rule g) = true -> In (start_rule g, eof g) fo ->
  finv use nl fs fo [R (start_rule g); T (eof g)].
Proof.
  intros Hu H0. split.
  - intros r [Hr | [Hr | []]]; [|discriminate Hr]. injection Hr as Hr. subst r. exact Hu.
  - intros b r c a Heq Ha. destruct b as [|x b].
    + injection Heq as Hr Hc. subst r c. apply In_first_seq_T in Ha. subst a. exact H0.
    + injection Heq as _ Heq. destruct b as [|y b]; [discriminate Heq|].
      injection Heq as _ Heq. destruct b; discriminate Heq.
Qed.

Lemma finv_single use nl fs fo q : use q = true -> finv use nl fs fo [R q].
Proof.
  intros Hu. split.
  - intros r [Hr | []]. injection Hr as Hr. subst r. exact Hu.
  - intros b r c a Heq Ha. destruct b as [|x b].
    + injection Heq as _ Hc. subst c. destruct Ha.
    + injection Heq as _ Heq. destruct b; discriminate Heq.
Qed.

(* strict FOLLOW *)
Lemma follow_strict_exact' g fo : follow_strict_ref g = Some fo ->
  forall r a, In (r, a) fo <-> follow_spec g r a.
Proof.
  unfold follow_strict_ref. destruct (reach_ref g) as [rs|] eqn:Hrs; [|intros H; discriminate H].
  pose proof (reach_ref_exact' g rs Hrs) as Hreach.
  set (use := fun a => N.eqb a (start_rule g) || memP (start_rule g, a) rs).
  intros H. apply follow_gen_inv in H. destruct H as (nl & fs & Hfirst & Hfo & Hc).
  apply first_ref_exact' in Hfirst. destruct Hfirst as [Hnl Hfs].
  apply follow_closed_P in Hc. destruct Hc as [H0 Hcl].
  set (s0 := [R (start_rule g); T (eof g)]).
  assert (Huse_spec : forall x, use x = true -> x = start_rule g \/ reaches g (start_rule g) x).
  { intros x Hx. unfold use in Hx. apply orb_true_iff in Hx. destruct Hx as [Hx | Hx].
    - left. apply N.eqb_eq. exact Hx.
    - right. apply Hreach. apply memP_In. exact Hx. }
  assert (Huse_occ : forall x, use x = true -> occurs_from g s0 x).
  { intros x Hx. destruct (Huse_spec x Hx) as [Hx' | Hx'].
    - subst x. exists [], [T (eof g)]. apply d_refl.
    - destruct (reaches_context g _ _ Hx' [] [T (eof g)]) as (b & c & Hd). exists b, c. exact Hd. }
  intros r a. split.
  - revert r a. fold (follow_sound (follow_from g s0) fo). rewrite Hfo.
    apply (follow_iter_sound g use nl fs Hnl Hfs).
    + intros p u b v t c Hp Hu Hr Hv.
      exact (follow_from_first g s0 p u b v t c (Huse_occ _ Hu) Hp Hr Hv).
    + intros p u b v t Hp Hr Hv Hf. exact (follow_from_follow g s0 p u b v t Hf Hp Hr Hv).
    + intros r a [Hin | []]. injection Hin as Hr Ha. subst r a. apply follow_from_start.
  - apply (finv_follow_from g use nl fs Hnl Hfs fo).
    + intros p x Hp Hu Hin. unfold use. apply orb_true_iff. right. apply memP_In. apply Hreach.
      destruct (Huse_spec _ Hu) as [Hl | Hl].
      * exact (r_direct g p _ x Hp Hl Hin).
      * exact (r_trans g _ _ x Hl (r_direct g p _ x Hp eq_refl Hin)).
    + exact Hcl.
    + apply finv_start; [|exact H0]. unfold use. rewrite N.eqb_refl. reflexivity.
Qed.

Lemma follow_strict_exact : follow_strict_exact_stmt.
Proof. intros g fo _ H. exact (follow_strict_exact' g fo H). Qed.

(* textbook FOLLOW *)
Lemma follow_textbook_spec_from g r a :
  follow_textbook_spec g r a <->
  follow_from g [R (start_rule g); T (eof g)] r a \/
  exists q, (q < nrules g)%N /\ follow_from g [R q] r a.
Proof.
  unfold follow_textbook_spec, follow_from. split.
  - intros [H | (q & b & c & Hq & H)]; [left; exact H | right; exists q; split; [exact Hq|]].
    exists b, c. exact H.
  - intros [H | (q & Hq & b & c & H)]; [left; exact H | right; exists q, b, c; split; assumption].
Qed.

Lemma follow_textbook_exact : follow_textbook_exact_stmt.
Proof.
  intros g fo Hwf H. unfold follow_textbook_ref in H.
  apply follow_gen_inv in H. destruct H as (nl & fs & Hfirst & Hfo & Hc).
  apply first_ref_exact' in Hfirst. destruct Hfirst as [Hnl Hfs].
  apply follow_closed_P in Hc. destruct Hc as [H0 Hcl].
  set (s0 := [R (start_rule g); T (eof g)]).
  intros r a. rewrite follow_textbook_spec_from. fold s0. split.
  - revert r a.
    fold (follow_sound (fun r a => follow_from g s0 r a \/
                                  exists q, (q < nrules g)%N /\ follow_from g [R q] r a) fo).
    rewrite Hfo. apply (follow_iter_sound g (fun _ => true) nl fs Hnl Hfs).
    + intros p u b v t c Hp _ Hr Hv. right. exists (lhs g p).
      split; [apply wf_lhs_range; assumption|].
      apply (follow_from_first g [R (lhs g p)] p u b v t c); try assumption.
      exists [], []. apply d_refl.
    + intros p u b v t Hp Hr Hv [Hf | (q & Hq & Hf)].
      * left. exact (follow_from_follow g s0 p u b v t Hf Hp Hr Hv).
      * right. exists q. split; [exact Hq|].
        exact (follow_from_follow g [R q] p u b v t Hf Hp Hr Hv).
    + intros r a [Hin | []]. injection Hin as Hr Ha. subst r a. left. apply follow_from_start.
  - intros [Hf | (q & _ & Hf)].
    + apply (finv_follow_from g (fun _ => true) nl fs Hnl Hfs fo) with (s0 := s0); try exact Hf.
      * intros; reflexivity.
      * exact Hcl.
      * apply finv_start; [reflexivity | exact H0].
    + apply (finv_follow_from g (fun _ => true) nl fs Hnl Hfs fo) with (s0 := [R q]); try exact Hf.
      * intros; reflexivity.
      * exact Hcl.
      * apply finv_single. reflexivity.
Qed.

(* ---- totality: the iteration counts suffice ------------------------------------------------ *)

Definition bounded_in {A} (U : list A) (s : list A) : Prop := NoDup s /\ incl s U.

Lemma bounded_in_length {A} (U s : list A) : bounded_in U s -> NoDup s /\ length s <= length U.
Proof. intros [Hnd Hin]. split; [exact Hnd | apply NoDup_incl_length; assumption]. Qed.

(* nullable *)
Lemma nullable_step_fix g nl : nullable_closed g nl = true -> nullable_step g nl = nl.
Proof.
  intros Hc. rewrite nullable_step_gstep. apply (gstep_id N.eqb N.eqb_eq).
  intros pr Hin Hn x [Hx | []]. subst x.
  unfold nullable_closed in Hc. rewrite forallb_forall in Hc. specialize (Hc pr Hin).
  simpl in Hc. rewrite Hn in Hc. simpl in Hc. apply memN_In. exact Hc.
Qed.

Lemma nullable_step_closed g nl : incl (nullable_step g nl) nl -> nullable_closed g nl = true.
Proof.
  intros Hi. unfold nullable_closed. apply forallb_forall. intros pr Hin.
  destruct (nullable_seq nl (snd pr)) eqn:Hn; [|reflexivity]. simpl.
  apply memN_In. apply Hi. apply In_nullable_step. right. exists pr. repeat split; assumption.
Qed.

Lemma nullable_step_bounded g nl : wf_grammar g = true ->
  bounded_in (ridxs g) nl -> bounded_in (ridxs g) (nullable_step g nl) /\ incl nl (nullable_step g nl).
Proof.
  intros Hwf [Hnd Hin]. split; [split|].
  - rewrite nullable_step_gstep. apply (NoDup_gstep N.eqb N.eqb_eq). exact Hnd.
  - intros x Hx. apply In_nullable_step in Hx. destruct Hx as [Hx | (pr & Hpr & _ & Hx)].
    + apply Hin. exact Hx.
    + subst x. apply In_ridxs. exact (proj1 (wf_prods_range g Hwf pr Hpr)).
  - intros x Hx. apply In_nullable_step. left. exact Hx.
Qed.

Lemma nullable_ref_total : nullable_ref_total_stmt.
Proof.
  intros g Hwf. unfold nullable_ref. cbv zeta.
  rewrite (iter_converges (nullable_step g) (nullable_closed g) (bounded_in (ridxs g))
             (length (ridxs g))).
  - discriminate.
  - intros s Hs. apply nullable_step_bounded; assumption.
  - intros s Hs. apply bounded_in_length. exact Hs.
  - apply nullable_step_fix.
  - intros s _. apply nullable_step_closed.
  - split; [constructor | intros x []].
  - rewrite length_ridxs. simpl. lia.
Qed.

(* FIRST *)
Lemma first_seq_range g nl fs l a :
  (forall r t, In (r, t) fs -> (t < ntoks g)%N) ->
  (forall x, In x l -> sym_in_range g x = true) ->
  In a (first_seq nl fs l) -> (a < ntoks g)%N.
Proof.
  intros Hfs. induction l as [|x l IH]; intros Hl Ha; [destruct Ha|].
  destruct x as [t | r].
  - apply In_first_seq_T in Ha. subst a. specialize (Hl (T t) (or_introl eq_refl)).
    unfold sym_in_range in Hl. apply N.ltb_lt. exact Hl.
  - apply In_first_seq_R in Ha. destruct Ha as [Ha | [_ Ha]].
    + eapply Hfs. exact Ha.
    + apply IH; [intros x Hx; apply Hl; right; exact Hx | exact Ha].
Qed.

Lemma first_step_fix g nl fs : first_closed g nl fs = true -> first_step g nl fs = fs.
Proof.
  intros Hc. rewrite first_step_gstep. apply (gstep_id pair_eqb pair_eqb_eq).
  intros pr Hin _ x Hx. apply in_map_iff in Hx. destruct Hx as (a & Hx & Ha). subst x.
  unfold first_closed in Hc. rewrite forallb_forall in Hc. specialize (Hc pr Hin).
  rewrite forallb_forall in Hc. apply memP_In. apply Hc. exact Ha.
Qed.

Lemma first_step_closed g nl fs : incl (first_step g nl fs) fs -> first_closed g nl fs = true.
Proof.
  intros Hi. unfold first_closed. apply forallb_forall. intros pr Hin.
  apply forallb_forall. intros a Ha. apply memP_In. apply Hi. apply In_first_step.
  right. exists pr. repeat split; assumption.
Qed.

Lemma first_step_bounded g nl fs : wf_grammar g = true ->
  bounded_in (rt_universe g) fs ->
  bounded_in (rt_universe g) (first_step g nl fs) /\ incl fs (first_step g nl fs).
Proof.
  intros Hwf [Hnd Hin]. split; [split|].
  - rewrite first_step_gstep. apply (NoDup_gstep pair_eqb pair_eqb_eq). exact Hnd.
  - intros [r a] Hx. apply In_first_step in Hx. destruct Hx as [Hx | (pr & Hpr & Hr & Ha)].
    + apply Hin. exact Hx.
    + subst r. destruct (wf_prods_range g Hwf pr Hpr) as [Hl Hrng].
      apply In_rt_universe. split; [exact Hl|].
      apply (first_seq_range g nl fs (snd pr) a); [|exact Hrng | exact Ha].
      intros r t Hrt. exact (proj2 (proj1 (In_rt_universe g r t) (Hin _ Hrt))).
  - intros [r a] Hx. apply In_first_step. left. exact Hx.
Qed.

Lemma first_ref_total : first_ref_total_stmt.
Proof.
  intros g Hwf. unfold first_ref.
  destruct (nullable_ref g) as [nl|] eqn:Hn; [|exfalso; exact (nullable_ref_total g Hwf Hn)].
  cbv zeta.
  rewrite (iter_converges (first_step g nl) (first_closed g nl) (bounded_in (rt_universe g))
             (length (rt_universe g))).
  - discriminate.
  - intros s Hs. apply first_step_bounded; assumption.
  - intros s Hs. apply bounded_in_length. exact Hs.
  - apply first_step_fix.
  - intros s _. apply first_step_closed.
  - split; [constructor | intros x []].
  - rewrite length_rt_universe. simpl. lia.
Qed.

Lemma first_ref_range g nl fs : wf_grammar g = true -> first_ref g = Some (nl, fs) ->
  bounded_in (rt_universe g) fs.
Proof.
  intros Hwf H. apply first_ref_inv in H. destruct H as (_ & Hfs & _). subst fs.
  apply (iter_invariant (bounded_in (rt_universe g))).
  - intros s Hs. apply first_step_bounded; assumption.
  - split; [constructor | intros x []].
Qed.

(* reachability *)
Lemma reach_step_fix g rs : reach_closed g rs = true -> reach_step g rs = rs.
Proof.
  unfold reach_closed. intros Hc. apply subsetP_incl in Hc. rewrite reach_step_eq.
  assert (Hcomp : unionP (reach_comp rs) rs = rs).
  { apply unionP_incl_id. intros x Hx. apply Hc. apply In_reach_step. right. left. exact Hx. }
  rewrite Hcomp. apply unionP_incl_id. intros x Hx. apply Hc. apply In_reach_step. left. exact Hx.
Qed.

Lemma reach_step_bounded g rs : wf_grammar g = true ->
  bounded_in (rr_universe g) rs ->
  bounded_in (rr_universe g) (reach_step g rs) /\ incl rs (reach_step g rs).
Proof.
  intros Hwf [Hnd Hin]. split; [split|].
  - rewrite reach_step_eq. apply NoDup_unionP. apply NoDup_unionP. exact Hnd.
  - intros [a b] Hx. apply In_reach_step in Hx. destruct Hx as [Hx | [Hx | Hx]].
    + apply In_reach_direct in Hx. destruct Hx as (p & Hp & Hl & Hb). subst a.
      apply In_rr_universe. split; [apply wf_lhs_range; assumption|].
      pose proof (wf_rhs_range g p (R b) Hwf Hp Hb) as Hr. unfold sym_in_range in Hr.
      apply N.ltb_lt. exact Hr.
    + apply In_reach_comp in Hx. destruct Hx as (m & Ham & Hmb).
      apply In_rr_universe. split.
      * exact (proj1 (proj1 (In_rr_universe g a m) (Hin _ Ham))).
      * exact (proj2 (proj1 (In_rr_universe g m b) (Hin _ Hmb))).
    + apply Hin. exact Hx.
  - intros x Hx. apply In_reach_step. right. right. exact Hx.
Qed.

Lemma reach_ref_total : reach_ref_total_stmt.
Proof.
  intros g Hwf. unfold reach_ref. cbv zeta.
  rewrite (iter_converges (reach_step g) (reach_closed g) (bounded_in (rr_universe g))
             (length (rr_universe g))).
  - discriminate.
  - intros s Hs. apply reach_step_bounded; assumption.
  - intros s Hs. apply bounded_in_length. exact Hs.
  - apply reach_step_fix.
  - intros s _ Hi. unfold reach_closed. apply subsetP_incl. exact Hi.
  - split; [constructor | intros x []].
  - rewrite length_rr_universe. simpl. lia.
Qed.

(* FOLLOW *)
Definition follow_inv (g : grammar) (fo : list pairN) : Prop :=
  bounded_in (rt_universe g) fo /\ In (start_rule g, eof g) fo.

Lemma follow_step_fix g use nl fs fo :
  follow_closed g use nl fs fo = true -> follow_step g use nl fs fo = fo.
Proof.
  intros Hc. rewrite follow_step_gstep. apply (gstep_id pair_eqb pair_eqb_eq).
  intros pr Hin Hu. unfold follow_closed in Hc. apply andb_true_iff in Hc. destruct Hc as [_ Hc].
  rewrite forallb_forall in Hc. specialize (Hc pr Hin). rewrite Hu in Hc. simpl in Hc.
  apply subsetP_incl. exact Hc.
Qed.

Lemma follow_step_closed g use nl fs fo : In (start_rule g, eof g) fo ->
  incl (follow_step g use nl fs fo) fo -> follow_closed g use nl fs fo = true.
Proof.
  intros H0 Hi. unfold follow_closed. apply andb_true_iff. split; [apply memP_In; exact H0|].
  apply forallb_forall. intros pr Hin. destruct (use (fst pr)) eqn:Hu; [|reflexivity]. simpl.
  apply subsetP_incl. intros x Hx. apply Hi. rewrite follow_step_gstep.
  apply (In_gstep pair_eqb pair_eqb_eq). right. exists pr. repeat split; assumption.
Qed.

Lemma follow_step_bounded g use nl fs fo : wf_grammar g = true ->
  bounded_in (rt_universe g) fs -> follow_inv g fo ->
  follow_inv g (follow_step g use nl fs fo) /\ incl fo (follow_step g use nl fs fo).
Proof.
  intros Hwf [_ Hfs] [[Hnd Hin] H0].
  assert (Hsub : incl fo (follow_step g use nl fs fo)).
  { intros x Hx. apply In_follow_step. left. exact Hx. }
  split; [split; [split|]|].
  - rewrite follow_step_gstep. apply (NoDup_gstep pair_eqb pair_eqb_eq). exact Hnd.
  - intros [b t] Hx. apply In_follow_step in Hx. destruct Hx as [Hx | (p & Hp & _ & Hx)].
    + apply Hin. exact Hx.
    + apply In_follow_contrib in Hx. destruct Hx as (u & v & Hr & Hx).
      apply In_rt_universe. split.
      * assert (Hb : In (R b) (rhs g p)).
        { rewrite Hr. apply in_or_app. right. left. reflexivity. }
        pose proof (wf_rhs_range g p (R b) Hwf Hp Hb) as Hrng. unfold sym_in_range in Hrng.
        apply N.ltb_lt. exact Hrng.
      * destruct Hx as [Hx | [_ Hx]].
        -- apply (first_seq_range g nl fs v t); [| |exact Hx].
           ++ intros r t' Hrt. exact (proj2 (proj1 (In_rt_universe g r t') (Hfs _ Hrt))).
           ++ intros x Hxv. apply (wf_rhs_range g p x Hwf Hp). rewrite Hr.
              apply in_or_app. right. right. exact Hxv.
        -- exact (proj2 (proj1 (In_rt_universe g _ t) (Hin _ Hx))).
  - apply Hsub. exact H0.
  - exact Hsub.
Qed.

Lemma follow_gen_total g use : wf_grammar g = true -> follow_gen g use <> None.
Proof.
  intros Hwf. unfold follow_gen.
  destruct (first_ref g) as [[nl fs]|] eqn:Hf; [|exfalso; exact (first_ref_total g Hwf Hf)].
  pose proof (first_ref_range g nl fs Hwf Hf) as Hfs.
  cbv zeta.
  rewrite (iter_converges (follow_step g use nl fs) (follow_closed g use nl fs) (follow_inv g)
             (length (rt_universe g))).
  - discriminate.
  - intros s Hs. apply follow_step_bounded; assumption.
  - intros s [Hs _]. apply bounded_in_length. exact Hs.
  - apply follow_step_fix.
  - intros s [_ H0]. apply follow_step_closed. exact H0.
  - split; [split|].
    + constructor; [intros [] | constructor].
    + intros x [Hx | []]. subst x. apply In_rt_universe.
      split; [apply wf_start_rule_range | apply wf_eof_range]; exact Hwf.
    + left. reflexivity.
  - rewrite length_rt_universe. simpl. lia.
Qed.

Lemma follow_ref_total : follow_ref_total_stmt.
Proof.
  intros g Hwf. split.
  - apply follow_gen_total. exact Hwf.
  - unfold follow_strict_ref.
    destruct (reach_ref g) as [rs|] eqn:Hr; [|exfalso; exact (reach_ref_total g Hwf Hr)].
    apply follow_gen_total. exact Hwf.
Qed.
