(* C20 — what the correspondence run evaluates for one configuration. *)
From Coq Require Import List NArith Bool.
From GV Require Import Common.Outcome C20.Model.
Import ListNotations.
Local Open Scope N_scope.

(* productions arrive run-length encoded: (count, (#rule symbols, #token symbols)) *)
Fixpoint expand_groups (gs : list (N * (N * N))) : list (N * N) :=
  match gs with
  | [] => []
  | (c, p) :: gs' => repeat p (N.to_nat c) ++ expand_groups gs'
  end.

Record result := {
  r_grammar : verdict;         (* grammar guards of the selected variant *)
  r_grammar_orig : verdict;    (* today's guards *)
  r_grammar_fixed : verdict;   (* proposed guards *)
  r_states : verdict;
  r_lex : verdict;
  r_true : list N;             (* rules_len tokens_len prods_len eof_idx start_prod max_prod_len states *)
  r_obs : list N;              (* the same as a w-bit build reports them *)
  r_nowrap_g : bool;
  r_nowrap_s : bool;
  r_nowrap_l : bool;
  r_lex_ids : list N
}.

(* largest prod_len() over the indices iter_pidxs() hands out: 0 .. narrow(prods_len) *)
Definition obs_max_prod_len (w : N) (s : src) : N :=
  list_max (map (narrow w) (firstn (N.to_nat (narrow w (prods_len s))) (final_prod_lens s))).

Definition run_case (fixed : bool) (w : N) (c : config) : result :=
  let s := c_src c in
  {| r_grammar := grammar_guards fixed w s;
     r_grammar_orig := grammar_guards false w s;
     r_grammar_fixed := grammar_guards true w s;
     r_states := state_guards w (c_pre_gc c) (c_post_gc c);
     r_lex := fst (lex_build w (c_lex_rules c));
     r_true := [rules_len s; tokens_len s; prods_len s; eof_idx s; start_prod s;
                list_max (final_prod_lens s); c_post_gc c];
     r_obs := [narrow w (rules_len s); narrow w (tokens_len s); narrow w (prods_len s);
               narrow w (eof_idx s); narrow w (start_prod s);
               obs_max_prod_len w s; narrow w (c_post_gc c)];
     r_nowrap_g := no_wrap_g w s;
     r_nowrap_s := no_wrap_s w (c_post_gc c);
     r_nowrap_l := no_wrap_l w (c_lex_rules c);
     r_lex_ids := snd (lex_build w (c_lex_rules c)) |}.
