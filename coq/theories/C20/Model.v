(* C20 — index storage width.  Mirror of the SIZE BOOKKEEPING of
     cfgrammar/src/lib/yacc/grammar.rs  new_from_ast_with_validity_info (:141-395)
     lrtable/src/lib/pager.rs (:259-261, :300-302), stategraph.rs (:26), statetable.rs (:208,
       action / goto cell encoding :284-287, :400-424, :490-500)
     lrlex/src/lib/parser.rs (:494-497)
   All sizes are [N] (Rust [usize] values; the [usize] width only matters for the cell
   encoding, where it is explicit).  [narrow w n] is the cast [n.as_()] from [usize] to a
   [w]-bit [StorageT].  Every panic site of the mirrored code is a [Refuse r] verdict naming
   the site.  Definitions only; statements in Spec.v, proofs in Proofs.v. *)
From Coq Require Import List NArith Bool.
From GV Require Import Common.Outcome.
Import ListNotations.
Local Open Scope N_scope.

(* usize -> StorageT  ([as_()], a truncating cast, never panics, also not in debug builds) *)
Definition narrow (w n : N) : N := n mod 2 ^ w.
(* num_traits::cast(StorageT::max_value()).unwrap() *)
Definition max_value (w : N) : N := 2 ^ w - 1.

Inductive yacckind := Original | Grmtools | Eco.

(* What the builder reads of the AST, as far as sizes go. *)
Record src := {
  s_kind : yacckind;
  s_rules : N;                 (* ast.rules.len() *)
  s_tokens : N;                (* ast.tokens.len()  (implicit tokens are among them) *)
  s_prods : list (N * N);      (* ast.prods, per production (#rule symbols, #token symbols) *)
  s_implicit : option N        (* ast.implicit_tokens.map(|m| m.len()) *)
}.

(* a whole configuration: grammar source sizes, number of states the Pager loop creates
   (before gc), number of states after gc, number of rules of a .l file *)
Record config := {
  c_src : src;
  c_pre_gc : N;
  c_post_gc : N;
  c_lex_rules : N
}.

Definition nprods (s : src) : N := N.of_nat (length (s_prods s)).

(* grammar.rs:181-205: only YaccKind::Eco looks at ast.implicit_tokens *)
Definition has_implicit (s : src) : bool :=
  match s_kind s with
  | Eco => match s_implicit s with Some _ => true | None => false end
  | _ => false
  end.
Definition n_implicit (s : src) : N :=
  match s_implicit s with Some n => n | None => 0 end.

(* rule_names: `^` (:177), `~` and `^~` (:192, :198), then the user's rules (:207-216) *)
Definition added_rules (s : src) : N := if has_implicit s then 3 else 1.
(* prods: `^: S` / `^: ^~` (:273); `~: T ~` per implicit token and `~: ` (:294-304); `^~: ~ S` (:283) *)
Definition added_prods (s : src) : N := if has_implicit s then 3 + n_implicit s else 1.

(* ---- true (usize) values -------------------------------------------------- *)
Definition rules_len (s : src) : N := s_rules s + added_rules s.     (* rule_names.len() :364 *)
Definition tokens_len (s : src) : N := s_tokens s + 1.               (* token_names.len() :366 *)
Definition eof_idx (s : src) : N := s_tokens s.                      (* token_names.len() at :234 *)
Definition prods_len (s : src) : N := nprods s + added_prods s.      (* prods.len() :371 *)
Definition start_prod (s : src) : N := nprods s.                     (* prods.len() at :260: `^` is rule 0 *)

(* :311-326: every token symbol is followed by a reference to `~` when there is one *)
Definition final_len (imp : bool) (p : N * N) : N :=
  fst p + snd p + (if imp then snd p else 0).
(* lengths of all productions of the built grammar, in PIdx order *)
Definition final_prod_lens (s : src) : list N :=
  map (final_len (has_implicit s)) (s_prods s) ++
  (if has_implicit s
   then [1] ++ repeat 2 (N.to_nat (n_implicit s)) ++ [0] ++ [2]
   else [1]).

(* ---- guards ---------------------------------------------------------------- *)
Inductive refusal :=
| RRules | RTokens | RProds | RSymbols          (* grammar.rs:150-165 "StorageT is not big enough …" *)
| RPager | RGc                                  (* pager.rs:259, :300   "… this stategraph" *)
| RStateGraph                                   (* stategraph.rs:26  `if len >= MAX { panic!("… this stategraph") }`
                                                   (a bare assert! before /repo 394c6e3) *)
| RStateTable                                   (* statetable.rs:208 `if len >= MAX - 1 { panic!("… this stategraph") }`
                                                   (a bare assert! before /repo 394c6e3) *)
| RLexRule.                                     (* lrlex parser.rs:495 try_from … panic *)
Inductive verdict := Pass | Refuse (r : refusal).

(* the panic text a refusal is raised with (the classes of checks/C20.py refusal_class):
   "StorageT is not big enough to store this grammar's rules / tokens / productions /
   the symbols of at least one of this grammar's productions", "… to store this
   stategraph." — ONE text for all four state-count sites —, and the lexer's try_from
   message *)
Inductive message := MRules | MTokens | MProds | MSymbols | MStategraph | MLexRule.
Definition message_of (r : refusal) : message :=
  match r with
  | RRules => MRules | RTokens => MTokens | RProds => MProds | RSymbols => MSymbols
  | RPager | RGc | RStateGraph | RStateTable => MStategraph
  | RLexRule => MLexRule
  end.
Definition refused_with (v : verdict) : option message :=
  match v with Pass => None | Refuse r => Some (message_of r) end.

Definition passes (v : verdict) : bool := match v with Pass => true | Refuse _ => false end.

(* grammar.rs:150-165.  [fixed = false]: the guards as they are in the tree (they test the
   SOURCE counts).  [fixed = true]: the proposed guards (they test the counts the grammar
   will finally have: + start rule(s), + EOF token, + added productions, + the `~` that
   follows every token symbol). *)
Definition grammar_guards (fixed : bool) (w : N) (s : src) : verdict :=
  let mx := max_value w in
  let imp := has_implicit s in
  if mx <? s_rules s + (if fixed then added_rules s else 0) then Refuse RRules else
  if mx <? s_tokens s + (if fixed then 1 else 0) then Refuse RTokens else
  if mx <? nprods s + (if fixed then added_prods s else 0) then Refuse RProds else
  if existsb (fun p => mx <? fst p + snd p + (if fixed && imp then snd p else 0)) (s_prods s)
  then Refuse RSymbols else Pass.

(* pager.rs:256-278: the loop adds states one at a time; before each addition
   `if core_states.len() >= max { panic }`.  [adds] additions starting from [len] states. *)
Fixpoint pager_add (w : N) (adds : nat) (len : N) : verdict * N :=
  match adds with
  | O => (Pass, len)
  | S k => if max_value w <=? len then (Refuse RPager, len) else pager_add w k (len + 1)
  end.

(* pager.rs:300 (`> MAX` after gc), stategraph.rs:26 (`>= MAX`), statetable.rs:208 (`>= MAX - 1`;
   it compares StorageT values: all_states_len() is already narrowed, and `max_value - one`
   is StorageT arithmetic).  The three limits differ by one and two; all print the same text. *)
Definition state_guards (w : N) (pre post : N) : verdict :=
  match pager_add w (N.to_nat (pre - 1)) 1 with
  | (Refuse r, _) => Refuse r
  | (Pass, _) =>
      if max_value w <? post then Refuse RGc else
      if negb (post <? max_value w) then Refuse RStateGraph else
      if negb (narrow w post <? max_value w - 1) then Refuse RStateTable else Pass
  end.

(* lrlex parser.rs:494-509: rule number [len] gets the id StorageT::try_from(len)
   ([rev_append acc []] = [rev acc], linear) *)
Fixpoint lex_go (w : N) (n : nat) (len : N) (acc : list N) : verdict * list N :=
  match n with
  | O => (Pass, rev_append acc [])
  | S k => if max_value w <? len then (Refuse RLexRule, rev_append acc [])
           else lex_go w k (len + 1) (narrow w len :: acc)
  end.
Definition lex_build (w : N) (n : N) : verdict * list N := lex_go w (N.to_nat n) 0 [].

Definition all_guards (fixed : bool) (w : N) (c : config) : verdict :=
  match grammar_guards fixed w (c_src c) with
  | Refuse r => Refuse r
  | Pass =>
      match state_guards w (c_pre_gc c) (c_post_gc c) with
      | Refuse r => Refuse r
      | Pass => fst (lex_build w (c_lex_rules c))
      end
  end.

(* ---- statetable cells (usize arithmetic, [uw] = width of usize) ----------------- *)
(* encode(Action::Shift(st)) = SHIFT | (usize::from(st) << 2), SHIFT = 1 *)
Definition encode_shift (uw st : N) : N := (1 + 4 * st) mod 2 ^ uw.
Definition encode_reduce (uw p : N) : N := (2 + 4 * p) mod 2 ^ uw.
(* decode: val = bits >> 2; StIdx(val.as_()) *)
Definition decode_val (w bits : N) : N := narrow w (bits / 4).
(* gotos[off] = usize::from(st) + 1;  goto(): StIdx((i - 1).as_()) *)
Definition encode_goto (uw st : N) : N := (st + 1) mod 2 ^ uw.
Definition decode_goto (w cell : N) : N := narrow w (cell - 1).

(* ---- what is reported ------------------------------------------------------------ *)
Inductive gquery :=
| QRulesLen | QTokensLen | QProdsLen | QEofIdx | QStartProd
| QRuleIdx (i : N)     (* RIdx(i.as_()) :221, 0 <= i < rule_names.len() *)
| QTokIdx (i : N)      (* TIdx(i.as_()) :241 *)
| QProdIdx (i : N)     (* PIdx(..as_()) :260-340 *)
| QProdLen (i : nat).  (* SIdx(prods[i].len().as_()) :420 *)
Inductive squery :=
| QStatesLen           (* all_states_len() stategraph.rs:75 *)
| QStateIdx (i : N).   (* StIdx(x.as_()) stategraph.rs:44, pager.rs:309 *)
Inductive lquery :=
| QLexId (i : N).      (* tok id of lexer rule i *)
Inductive query := QG (q : gquery) | QS (q : squery) | QL (q : lquery).

(* index queries are clamped to the valid range so that [true_value] is total *)
Definition clamp (i len : N) : N := N.min i (len - 1).

Definition true_g (s : src) (q : gquery) : N :=
  match q with
  | QRulesLen => rules_len s
  | QTokensLen => tokens_len s
  | QProdsLen => prods_len s
  | QEofIdx => eof_idx s
  | QStartProd => start_prod s
  | QRuleIdx i => clamp i (rules_len s)
  | QTokIdx i => clamp i (tokens_len s)
  | QProdIdx i => clamp i (prods_len s)
  | QProdLen i => nth i (final_prod_lens s) 0
  end.
Definition true_s (post : N) (q : squery) : N :=
  match q with
  | QStatesLen => post
  | QStateIdx i => clamp i post
  end.
Definition true_l (n : N) (q : lquery) : N :=
  match q with QLexId i => clamp i n end.

Definition true_value (c : config) (q : query) : N :=
  match q with
  | QG q => true_g (c_src c) q
  | QS q => true_s (c_post_gc c) q
  | QL q => true_l (c_lex_rules c) q
  end.

(* what a [w]-bit build reports *)
Definition observed (w : N) (c : config) (q : query) : N := narrow w (true_value c q).

(* the extremal true values: nothing wraps iff all of these fit *)
Definition list_max (l : list N) : N := fold_right N.max 0 l.
Definition extremal_g (s : src) : list N :=
  [rules_len s; tokens_len s; prods_len s; list_max (final_prod_lens s)].
Definition fits (w : N) (l : list N) : bool := forallb (fun v => v <=? max_value w) l.
Definition no_wrap_g (w : N) (s : src) : bool := fits w (extremal_g s).
Definition no_wrap_s (w : N) (post : N) : bool := post <=? max_value w.
Definition no_wrap_l (w : N) (n : N) : bool := n - 1 <=? max_value w.
Definition no_wrap (w : N) (c : config) : bool :=
  no_wrap_g w (c_src c) && no_wrap_s w (c_post_gc c) && no_wrap_l w (c_lex_rules c).
