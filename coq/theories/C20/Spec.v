(* C20 — statements.  "Nothing wraps" is: the w-bit value that is reported equals the true
   (usize) value, for every reported size and index ([query]). *)
From Coq Require Import List NArith Bool.
From GV Require Import Common.Outcome C20.Model.
Import ListNotations.
Local Open Scope N_scope.

(* accepted by every guard  ==>  no reported size or index has wrapped *)
Definition guards_imply_no_wrap_for (fixed : bool) : Prop :=
  forall w c, all_guards fixed w c = Pass ->
    forall q, narrow w (true_value c q) = true_value c q.

(* two widths that both accept report the same sizes and indices *)
Definition width_independent_for (fixed : bool) : Prop :=
  forall w1 w2 c, all_guards fixed w1 c = Pass -> all_guards fixed w2 c = Pass ->
    forall q, observed w1 c q = observed w2 c q.

(* ---- the guards as proposed (fixed = true) -------------------------------------- *)
Definition guards_imply_no_wrap_stmt : Prop := guards_imply_no_wrap_for true.
Definition width_independent_stmt : Prop := width_independent_for true.

(* the proposed grammar guards refuse exactly when something would wrap (so the fix is
   minimal: it refuses nothing that fits) *)
Definition fixed_grammar_guards_exact_stmt : Prop :=
  forall w s, grammar_guards true w s = Pass <->
    (forall q, narrow w (true_g s q) = true_g s q).

(* [no_wrap_g] (what the correspondence driver evaluates) decides "nothing wraps" *)
Definition no_wrap_g_spec_stmt : Prop :=
  forall w s, no_wrap_g w s = true <-> (forall q, narrow w (true_g s q) = true_g s q).

(* the proposed guards only refuse more than today's … *)
Definition fixed_refuses_more_stmt : Prop :=
  forall w s, grammar_guards true w s = Pass -> grammar_guards false w s = Pass.
(* … and whatever they refuse in addition is a grammar in which something wraps *)
Definition orig_extra_accepts_wrap_stmt : Prop :=
  forall w s, grammar_guards false w s = Pass -> grammar_guards true w s <> Pass ->
    exists q, narrow w (true_g s q) <> true_g s q.

(* ---- the guards of the tree (fixed = false) -------------------------------------- *)
(* u8, 255 source rules (each with one production `U: 'a'`): accepted, rules_len()
   and prods_len() report 0 instead of 256 *)
Definition witness_src : src :=
  {| s_kind := Grmtools; s_rules := 255; s_tokens := 1;
     s_prods := repeat (0, 1) 255; s_implicit := None |}.
Definition witness : config :=
  {| c_src := witness_src; c_pre_gc := 3; c_post_gc := 3; c_lex_rules := 1 |}.

Definition guards_imply_no_wrap_refuted_stmt : Prop :=
  all_guards false 8 witness = Pass /\
  true_value witness (QG QRulesLen) = 256 /\ observed 8 witness (QG QRulesLen) = 0 /\
  true_value witness (QG QProdsLen) = 256 /\ observed 8 witness (QG QProdsLen) = 0 /\
  ~ guards_imply_no_wrap_for false.

Definition width_independent_refuted_stmt : Prop :=
  all_guards false 8 witness = Pass /\ all_guards false 32 witness = Pass /\
  observed 8 witness (QG QRulesLen) <> observed 32 witness (QG QRulesLen) /\
  ~ width_independent_for false.

(* further boundary classes of today's guards: the EOF token; Eco's `~`, `^~` rules and
   productions; Eco's `~` after every token symbol *)
Definition witness_tokens : src :=
  {| s_kind := Grmtools; s_rules := 1; s_tokens := 255; s_prods := [(0, 1)]; s_implicit := None |}.
Definition witness_eco_rules : src :=
  {| s_kind := Eco; s_rules := 254; s_tokens := 2; s_prods := repeat (0, 1) 254; s_implicit := Some 1 |}.
Definition witness_eco_syms : src :=
  {| s_kind := Eco; s_rules := 2; s_tokens := 2; s_prods := [(0, 1); (0, 128)]; s_implicit := Some 1 |}.
Definition orig_boundary_classes_stmt : Prop :=
  (grammar_guards false 8 witness_tokens = Pass /\
     true_g witness_tokens QTokensLen = 256 /\ narrow 8 (true_g witness_tokens QTokensLen) = 0) /\
  (grammar_guards false 8 witness_eco_rules = Pass /\
     true_g witness_eco_rules (QRuleIdx 256) = 256 /\ narrow 8 (true_g witness_eco_rules (QRuleIdx 256)) = 0) /\
  (grammar_guards false 8 witness_eco_syms = Pass /\
     true_g witness_eco_syms (QProdLen 1) = 256 /\ narrow 8 (true_g witness_eco_syms (QProdLen 1)) = 0).

(* ---- state-count guards (same in both variants) ------------------------------------ *)
(* what pager.rs:259/:300 + stategraph.rs:26 + statetable.rs:208 accept, exactly *)
Definition state_guards_exact_stmt : Prop :=
  forall w pre post, state_guards w pre post = Pass <->
    (pre <= max_value w /\ post + 2 <= max_value w).
Definition state_guards_no_wrap_stmt : Prop :=
  forall w pre post, state_guards w pre post = Pass ->
    forall q, narrow w (true_s post q) = true_s post q.
(* they are conservative: 2^w - 2 and 2^w - 1 states would fit but are refused (by
   StateTable::new resp. StateGraph::new — bare assertions before /repo 394c6e3, the documented
   panic since) *)
Definition state_guards_conservative_stmt : Prop :=
  state_guards 8 254 254 = Refuse RStateTable /\ state_guards 8 255 255 = Refuse RStateGraph /\
  state_guards 8 256 256 = Refuse RPager /\ state_guards 8 253 253 = Pass /\
  no_wrap_s 8 254 = true /\ no_wrap_s 8 255 = true.
(* the composition of the four state-count sites refuses iff the state count is >= MAX - 1
   (first line: pre-gc = post-gc = n, e.g. no state was collected; second line: in general,
   also when the Pager loop itself ran out of indices), and WHICHEVER site fires the refusal
   carries the one documented text "StorageT is not big enough to store this stategraph."
   ([N] subtraction is truncated: for w = 0, MAX - 1 = 0 and everything is refused) *)
Definition state_count_refused_iff_stmt : Prop :=
  (forall w n, refused_with (state_guards w n n) = Some MStategraph <-> max_value w - 1 <= n) /\
  (forall w pre post, refused_with (state_guards w pre post) = Some MStategraph <->
     (max_value w < pre \/ max_value w - 1 <= post)) /\
  (forall w pre post, refused_with (state_guards w pre post) = None \/
     refused_with (state_guards w pre post) = Some MStategraph).
(* u8 at the boundary: 253 accepted; 254 (StateTable::new), 255 (StateGraph::new), 256 (Pager
   loop) and a graph that shrank from 256 to 255 states in gc are refused with the same text;
   u16 likewise at 65533 / 65534 *)
Definition state_count_boundary_stmt : Prop :=
  map (fun n => refused_with (state_guards 8 n n)) [253; 254; 255; 256] =
    [None; Some MStategraph; Some MStategraph; Some MStategraph] /\
  map (fun n => state_guards 8 n n) [254; 255; 256] =
    [Refuse RStateTable; Refuse RStateGraph; Refuse RPager] /\
  refused_with (state_guards 16 65533 65533) = None /\
  state_guards 16 65534 65534 = Refuse RStateTable /\
  refused_with (state_guards 16 65534 65534) = Some MStategraph.
(* action / goto cells live in usize: encoding then decoding a state or production index
   that fits StorageT gives it back when usize has two more bits than StorageT *)
Definition cell_roundtrip_stmt : Prop :=
  forall uw w v, w + 2 <= uw -> v <= max_value w ->
    decode_val w (encode_shift uw v) = v /\ decode_val w (encode_reduce uw v) = v /\
    decode_goto w (encode_goto uw v) = v.

(* ---- lexer rule ids ------------------------------------------------------------------ *)
Definition lex_guard_exact_stmt : Prop :=
  forall w n, fst (lex_build w n) = Pass <-> n <= 2 ^ w.
Definition lex_ids_stmt : Prop :=
  forall w n ids, lex_build w n = (Pass, ids) -> ids = map N.of_nat (seq 0 (N.to_nat n)).
Definition lex_guard_no_wrap_stmt : Prop :=
  forall w n, fst (lex_build w n) = Pass -> forall q, narrow w (true_l n q) = true_l n q.
