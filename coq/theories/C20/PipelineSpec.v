(* C20 — WIDTH INDEPENDENCE OF THE CONSTRUCTION AND OF PARSE RESULTS, as statements
   about C01's end-to-end mirror [from_yacc_mirror] (C01/Pipeline.v: the mirror of
   pager_stategraph + gc composed with the mirror of StateTable::new).

   In that model the index storage type StorageT occurs in exactly two ways:
     * the bound [max_st] = StorageT::max_value() of the size checks
       (pager.rs "StorageT is not big enough", the asserts of StateGraph::new and
       StateTable::new) — each an explicit [Panic];
     * the hash-order oracles [orders] (key order of the closed state being
       processed by the Pager loop) and [tos] (key orders of `state.items` and
       `sg.edges(stidx)` in StateTable::new): the keys are hashed (FNV) over
       their bytes, whose number is the width, so the iteration orders of an
       u8 / u16 / u32 build legitimately differ.
   Everything else is arithmetic on unbounded [N] / [nat]; that the stored values
   equal them (nothing wraps) is the guard part of C20 (Spec.v).

   Three clauses of the property text:
     (1) "the same numbering, table contents" — [construction_bound_monotone],
         [construction_bound_only_refuses], [construction_narrow_same_or_refused]:
         the bound occurs only in checks; given the SAME iteration orders a wider
         type builds the identical graph and table, a narrower one the identical
         graph and table or is refused.  (Per oracle; across the implementation's
         own hash orders the numbering may differ — the check compares the
         canonically renumbered tables by differential runs.)
     (2) "the same parse results" — [parse_results_width_independent]: for
         LR(1) grammars (more generally whenever both runs report no conflict,
         [parse_results_conflict_free_agree]) ANY two successful runs — any two
         bounds, any oracles — give parsers that return on EVERY input the same
         tree or an error at the same lexeme.  For arbitrary grammars (conflicts
         resolved) both parsers are sound ([parse_results_always_sound]).
     (3) "or the narrower width is refused at construction" —
         [refusal_is_storage_check]: a [Panic] of the construction is a StorageT
         size check, for every fuel.
   "no width yields sizes or indices that wrapped": [construction_sizes_fit] (the
   state count of a returned table is < max_st - 1, so every state index fits) +
   the guard theorems of Spec.v. *)
From Coq Require Import List Arith NArith Bool Lia.
From GV Require Import Common.Outcome Base.Grammar Base.Analyses LR.Automaton LR.Validator LR.Spec
  LR.TermSpec LR.CloseMirror C02.Model C02.PagerSpec C02.LoopModel C03.Model C03.Spec
  C01.Pipeline C01.PipelineSpec.
Import ListNotations.

(* ---- (1) the bound occurs only in checks ------------------------------------------------ *)

(* a run in which no StorageT check fired is reproduced, with the same oracles, by every
   wider bound: same graph (numbering, item sets, edges), same table (cells, gotos, conflict
   lists), or the same Err(AcceptReduceConflict) *)
Definition construction_bound_monotone_stmt : Prop :=
  forall g tp pp max_st max_st' fuel orders tos r, (max_st <= max_st')%N ->
    from_yacc_mirror g tp pp max_st fuel orders tos = Done r ->
    from_yacc_mirror g tp pp max_st' fuel orders tos = Done r.

(* the precise form: narrowing the bound changes the outcome of a run only into [Panic] *)
Definition construction_bound_only_refuses_stmt : Prop :=
  forall g tp pp max_st max_st' fuel orders tos, (max_st <= max_st')%N ->
    from_yacc_mirror g tp pp max_st fuel orders tos = Panic \/
    from_yacc_mirror g tp pp max_st fuel orders tos = from_yacc_mirror g tp pp max_st' fuel orders tos.

(* the dichotomy of the property text, per oracle: what the wide type builds, the narrow type
   builds identically or refuses by a StorageT size check *)
Definition construction_narrow_same_or_refused_stmt : Prop :=
  forall g tp pp max_st max_st' fuel orders tos r, wf_grammar g = true -> prec_consistent tp pp ->
    (max_st <= max_st')%N ->
    from_yacc_mirror g tp pp max_st' fuel orders tos = Done r ->
    from_yacc_mirror g tp pp max_st fuel orders tos = Done r \/
    (from_yacc_mirror g tp pp max_st fuel orders tos = Panic /\ storage_check_fired g max_st fuel orders).

(* the same for the pager alone (the StateGraph) *)
Definition pager_bound_only_refuses_stmt : Prop :=
  forall g nl fs max_st max_st' fuel orders, (max_st <= max_st')%N ->
    pager_mirror g nl fs max_st fuel orders = Panic \/
    pager_mirror g nl fs max_st fuel orders = pager_mirror g nl fs max_st' fuel orders.

(* ---- (3) a refusal is a StorageT size check ---------------------------------------------- *)

(* for EVERY fuel (C01's construction_total gives it for one) *)
Definition refusal_is_storage_check_stmt : Prop :=
  forall g tp pp max_st fuel orders tos, wf_grammar g = true -> prec_consistent tp pp ->
    from_yacc_mirror g tp pp max_st fuel orders tos = Panic ->
    storage_check_fired g max_st fuel orders.

(* ... and some fuel decides: a table, Err(AcceptReduceConflict), or that refusal *)
Definition construction_width_total_stmt : Prop :=
  forall g tp pp max_st orders tos, wf_grammar g = true -> prec_consistent tp pp ->
    exists fuel,
      (exists r, from_yacc_mirror g tp pp max_st fuel orders tos = Done r) \/
      (from_yacc_mirror g tp pp max_st fuel orders tos = Panic /\ storage_check_fired g max_st fuel orders).

(* a returned table has fewer than max_st - 1 states: every state index, shift and goto
   target fits the storage type with room for the two reserved values *)
Definition construction_sizes_fit_stmt : Prop :=
  forall g tp pp max_st fuel orders tos b, wf_grammar g = true -> prec_consistent tp pp ->
    from_yacc_mirror g tp pp max_st fuel orders tos = Done (Some b) ->
    (nstates (built_automaton b) < max_st - 1)%N /\
    (forall s, In s (states (built_automaton b)) -> (s < max_st - 1)%N).

(* the boundary, on the construction mirror: what a wide type builds with n states, a narrower
   type (same oracles) with n >= MAX - 1 refuses ([Panic]: the mirror has ONE refusal outcome for
   pager.rs, StateGraph::new and StateTable::new, as the code has one text since /repo 394c6e3),
   and a narrower type that does return returns the same thing with n < MAX - 1.  (The converse
   of the first part does not hold per se: the Pager loop may run out of indices on states that
   gc would have removed.) *)
Definition construction_state_count_refused_stmt : Prop :=
  forall g tp pp max_st max_st' fuel orders tos b, wf_grammar g = true -> prec_consistent tp pp ->
    (max_st <= max_st')%N ->
    from_yacc_mirror g tp pp max_st' fuel orders tos = Done (Some b) ->
    ((max_st - 1 <= nstates (built_automaton b))%N ->
       from_yacc_mirror g tp pp max_st fuel orders tos = Panic /\ storage_check_fired g max_st fuel orders) /\
    (from_yacc_mirror g tp pp max_st fuel orders tos <> Panic ->
       from_yacc_mirror g tp pp max_st fuel orders tos = Done (Some b) /\
       (nstates (built_automaton b) < max_st - 1)%N).

(* ---- (2) parse results --------------------------------------------------------------------- *)

(* a successful run on an LR(1) grammar reports no conflict and passes every validator —
   whatever bound, fuel and oracles (C01's construction_lr1_correct for a GIVEN run) *)
Definition lr1_run_validated_stmt : Prop :=
  forall g tp pp max_st fuel orders tos b, wf_grammar g = true -> prec_consistent tp pp -> lr1_grammar g ->
    from_yacc_mirror g tp pp max_st fuel orders tos = Done (Some b) ->
    conflict_free_report g tp pp b /\
    validS g (built_automaton b) = true /\ validC g (built_automaton b) = true /\
    validE g (built_automaton b) = true /\ single_candidate g (built_automaton b) = true.

(* two runs that report no conflict: arbitrary bounds, arbitrary oracles *)
Definition parse_results_conflict_free_agree_stmt : Prop :=
  forall g tp pp, wf_grammar g = true -> prec_consistent tp pp -> productive g ->
  forall m1 fuel1 orders1 tos1 b1 m2 fuel2 orders2 tos2 b2,
    from_yacc_mirror g tp pp m1 fuel1 orders1 tos1 = Done (Some b1) ->
    from_yacc_mirror g tp pp m2 fuel2 orders2 tos2 = Done (Some b2) ->
    conflict_free_report g tp pp b1 -> conflict_free_report g tp pp b2 ->
  forall input f1 f2, tokens_in_range g input -> no_eof g input ->
    finished (run g (built_automaton b1) f1 input) -> finished (run g (built_automaton b2) f2 input) ->
    same_verdict (run g (built_automaton b1) f1 input) (run g (built_automaton b2) f2 input).

(* LR(1) grammars: any two widths (bounds m1, m2) with their own hash orders *)
Definition parse_results_width_independent_stmt : Prop :=
  forall g tp pp, wf_grammar g = true -> prec_consistent tp pp -> productive g -> lr1_grammar g ->
  forall m1 fuel1 orders1 tos1 b1 m2 fuel2 orders2 tos2 b2,
    from_yacc_mirror g tp pp m1 fuel1 orders1 tos1 = Done (Some b1) ->
    from_yacc_mirror g tp pp m2 fuel2 orders2 tos2 = Done (Some b2) ->
  forall input f1 f2, tokens_in_range g input -> no_eof g input ->
    finished (run g (built_automaton b1) f1 input) -> finished (run g (built_automaton b2) f2 input) ->
    same_verdict (run g (built_automaton b1) f1 input) (run g (built_automaton b2) f2 input).

(* without fuel in the statement: on an acyclic grammar both parsers return within
   [lr_fuel] on every input, with the same tree or the same first-error position *)
Definition parse_results_width_independent_total_stmt : Prop :=
  forall g tp pp, wf_grammar g = true -> prec_consistent tp pp -> productive g -> acyclic g -> lr1_grammar g ->
  forall m1 fuel1 orders1 tos1 b1 m2 fuel2 orders2 tos2 b2,
    from_yacc_mirror g tp pp m1 fuel1 orders1 tos1 = Done (Some b1) ->
    from_yacc_mirror g tp pp m2 fuel2 orders2 tos2 = Done (Some b2) ->
  forall input, tokens_in_range g input -> no_eof g input ->
    same_verdict (run g (built_automaton b1) (lr_fuel g input) input)
                 (run g (built_automaton b2) (lr_fuel g input) input).

(* the always-true half: ANY grammar, conflicts resolved by precedence or default.  Both
   parsers are sound (what either accepts is a sentence, with a valid tree of exactly the
   input) and neither panics.  Nothing more is claimed:

   REMARK (why equality is not claimed here).  With conflicts the two runs may build
   different automata: which states the Pager loop merges depends on the order in which
   kernels reach the candidate lists (weak compatibility is not transitive), i.e. on the
   oracle; Pager's theorem makes the merges harmless only when the canonical continuations
   are conflict-free.  A merge can add lookaheads to a completed item of a state that also
   shifts, creating a conflict cell that one run resolves and the other run never had.
   The two resolved tables then need not accept the same language.  For the SAME oracles
   the tables are identical whatever the bound ([construction_bound_monotone]); across the
   implementation's hash orders of different widths the check compares them by
   differential runs. *)
Definition parse_results_always_sound_stmt : Prop :=
  forall g tp pp, wf_grammar g = true -> prec_consistent tp pp ->
  forall m1 fuel1 orders1 tos1 b1 m2 fuel2 orders2 tos2 b2,
    from_yacc_mirror g tp pp m1 fuel1 orders1 tos1 = Done (Some b1) ->
    from_yacc_mirror g tp pp m2 fuel2 orders2 tos2 = Done (Some b2) ->
  forall input, tokens_in_range g input -> no_eof g input ->
    (forall f t, run g (built_automaton b1) f input = RAccept t \/ run g (built_automaton b2) f input = RAccept t ->
       sentence g input /\
       exists s, user_start g = Some s /\ root g t = R s /\ valid_tree g t /\ leaves_in_order t input) /\
    (forall f, run g (built_automaton b1) f input <> RPanic /\ run g (built_automaton b2) f input <> RPanic).

(* same oracles, two bounds, ANY grammar: the very same parser *)
Definition parse_results_same_oracles_stmt : Prop :=
  forall g tp pp m1 m2 fuel orders tos b1 b2,
    from_yacc_mirror g tp pp m1 fuel orders tos = Done (Some b1) ->
    from_yacc_mirror g tp pp m2 fuel orders tos = Done (Some b2) ->
    b1 = b2.
