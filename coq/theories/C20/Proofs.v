From Coq Require Import List NArith Bool Lia Arith.
From GV Require Import Common.Outcome C20.Model C20.Spec.
Import ListNotations.
Local Open Scope N_scope.

(* ---- arithmetic of narrow / max_value ---------------------------------------- *)
Lemma pow2_pos : forall w, 0 < 2 ^ w.
Proof.
  intro w. apply N.neq_0_lt_0. apply N.pow_nonzero. discriminate.
Qed.

Lemma le_max_iff : forall w n, n <= max_value w <-> n < 2 ^ w.
Proof.
  intros w n. unfold max_value. pose proof (pow2_pos w) as Hp. lia.
Qed.

Lemma narrow_id_iff : forall w n, narrow w n = n <-> n < 2 ^ w.
Proof.
  intros w n. unfold narrow. split.
  - intro H. rewrite <- H. apply N.mod_upper_bound. apply N.pow_nonzero. discriminate.
  - intro H. apply N.mod_small. exact H.
Qed.

Lemma narrow_id_le : forall w n, n <= max_value w -> narrow w n = n.
Proof.
  intros w n H. apply narrow_id_iff. apply le_max_iff. exact H.
Qed.

Lemma narrow_id_max : forall w n, narrow w n = n -> n <= max_value w.
Proof.
  intros w n H. apply le_max_iff. apply narrow_id_iff. exact H.
Qed.

Lemma clamp_le : forall i len m, len <= m -> clamp i len <= m.
Proof.
  intros i len m H. unfold clamp. pose proof (N.le_min_r i (len - 1)) as Hm. lia.
Qed.

(* ---- lists --------------------------------------------------------------------- *)
Lemma list_max_le : forall l m, list_max l <= m <-> Forall (fun v => v <= m) l.
Proof.
  induction l as [|a l IH]; intro m; simpl.
  - split; intro H; [constructor | lia].
  - rewrite N.max_lub_iff. rewrite IH. split.
    + intros [Ha Hl]. constructor; assumption.
    + intro H. inversion H as [|x xs Hx Hxs]; subst. split; assumption.
Qed.

Lemma nth_le_list_max : forall l i, nth i l 0 <= list_max l.
Proof.
  induction l as [|a l IH]; intro i; simpl.
  - destruct i; lia.
  - destruct i as [|i].
    + apply N.le_max_l.
    + pose proof (IH i) as H. pose proof (N.le_max_r a (list_max l)) as H2. lia.
Qed.

Lemma list_max_nth : forall l, exists i, nth i l 0 = list_max l.
Proof.
  induction l as [|a l IH]; simpl.
  - exists O. reflexivity.
  - destruct IH as [i Hi]. destruct (N.max_spec a (list_max l)) as [[Hlt He]|[Hle He]]; rewrite He.
    + exists (S i). exact Hi.
    + exists O. reflexivity.
Qed.

Lemma existsb_false_Forall : forall (A : Type) (f : A -> bool) l,
  existsb f l = false <-> Forall (fun x => f x = false) l.
Proof.
  intros A f. induction l as [|a l IH]; simpl.
  - split; intro H; [constructor | reflexivity].
  - rewrite orb_false_iff. rewrite IH. split.
    + intros [Ha Hl]. constructor; assumption.
    + intro H. inversion H as [|x xs Hx Hxs]; subst. split; assumption.
Qed.

Lemma Forall_repeat : forall (A : Type) (P : A -> Prop) a n, P a -> Forall P (repeat a n).
Proof.
  intros A P a n H. induction n as [|n IH]; simpl; constructor; assumption.
Qed.

(* ---- grammar guards -------------------------------------------------------------- *)
Lemma added_rules_ge : forall s, 1 <= added_rules s /\ (has_implicit s = true -> added_rules s = 3).
Proof.
  intro s. unfold added_rules. destruct (has_implicit s); split; try lia; intro H; try reflexivity; discriminate.
Qed.

Lemma final_lens_bound : forall s m,
  (has_implicit s = true -> 2 <= m) -> 1 <= m ->
  (Forall (fun v => v <= m) (final_prod_lens s) <->
   Forall (fun p => final_len (has_implicit s) p <= m) (s_prods s)).
Proof.
  intros s m Himp H1. unfold final_prod_lens. rewrite Forall_app. rewrite Forall_map.
  split.
  - intros [Ha _]. exact Ha.
  - intro Ha. split; [exact Ha|].
    destruct (has_implicit s) eqn:E.
    + specialize (Himp eq_refl). simpl.
      constructor; [lia|]. apply Forall_app. split.
      * apply Forall_repeat. exact Himp.
      * constructor; [lia|]. constructor; [lia|]. constructor.
    + constructor; [lia|constructor].
Qed.

Lemma fixed_guards_iff_no_wrap_g : forall w s,
  grammar_guards true w s = Pass <-> no_wrap_g w s = true.
Proof.
  intros w s. unfold grammar_guards, no_wrap_g, fits, extremal_g. simpl forallb.
  rewrite !andb_true_iff. rewrite !N.leb_le.
  unfold rules_len, tokens_len, prods_len.
  set (mx := max_value w).
  pose proof (added_rules_ge s) as [Har Har3].
  destruct (mx <? s_rules s + added_rules s) eqn:E1.
  { apply N.ltb_lt in E1. split; [discriminate|]. intros [H _]. lia. }
  apply N.ltb_ge in E1.
  destruct (mx <? s_tokens s + 1) eqn:E2.
  { apply N.ltb_lt in E2. split; [discriminate|]. intros [_ [H _]]. lia. }
  apply N.ltb_ge in E2.
  destruct (mx <? nprods s + added_prods s) eqn:E3.
  { apply N.ltb_lt in E3. split; [discriminate|]. intros [_ [_ [H _]]]. lia. }
  apply N.ltb_ge in E3.
  assert (Hb : Forall (fun v => v <= mx) (final_prod_lens s) <->
               Forall (fun p => final_len (has_implicit s) p <= mx) (s_prods s)).
  { apply final_lens_bound; [|lia]. intro Hi. specialize (Har3 Hi). lia. }
  destruct (existsb (fun p => mx <? fst p + snd p + (if true && has_implicit s then snd p else 0)) (s_prods s)) eqn:E4.
  - split; [discriminate|]. intros [_ [_ [_ [H _]]]]. exfalso.
    apply list_max_le in H. apply Hb in H.
    apply existsb_exists in E4. destruct E4 as [p [Hin Hp]].
    rewrite Forall_forall in H. specialize (H p Hin). apply N.ltb_lt in Hp.
    unfold final_len in H. simpl in Hp. lia.
  - split; [|reflexivity]. intros _.
    repeat split; try assumption.
    apply list_max_le. apply Hb. apply existsb_false_Forall in E4.
    rewrite Forall_forall in E4 |- *. intros p Hin. specialize (E4 p Hin).
    apply N.ltb_ge in E4. unfold final_len. simpl in E4. exact E4.
Qed.

Lemma no_wrap_g_spec : no_wrap_g_spec_stmt.
Proof.
  intros w s. unfold no_wrap_g, fits, extremal_g. simpl forallb.
  rewrite !andb_true_iff. rewrite !N.leb_le. split.
  - intros [Hr [Ht [Hp [Hl _]]]] q. apply narrow_id_le.
    destruct q as [ | | | | |i|i|i|i]; simpl.
    + exact Hr.
    + exact Ht.
    + exact Hp.
    + unfold eof_idx. unfold tokens_len in Ht. lia.
    + unfold start_prod. unfold prods_len in Hp. lia.
    + apply clamp_le. exact Hr.
    + apply clamp_le. exact Ht.
    + apply clamp_le. exact Hp.
    + pose proof (nth_le_list_max (final_prod_lens s) i) as H. lia.
  - intro H. repeat split.
    + apply narrow_id_max. exact (H QRulesLen).
    + apply narrow_id_max. exact (H QTokensLen).
    + apply narrow_id_max. exact (H QProdsLen).
    + destruct (list_max_nth (final_prod_lens s)) as [i Hi]. rewrite <- Hi.
      apply narrow_id_max. exact (H (QProdLen i)).
Qed.

Lemma fixed_grammar_guards_exact : fixed_grammar_guards_exact_stmt.
Proof.
  intros w s. rewrite fixed_guards_iff_no_wrap_g. apply no_wrap_g_spec.
Qed.

Lemma fixed_refuses_more : fixed_refuses_more_stmt.
Proof.
  intros w s. unfold grammar_guards. set (mx := max_value w).
  pose proof (added_rules_ge s) as [Har _].
  destruct (mx <? s_rules s + added_rules s) eqn:E1; [discriminate|]. apply N.ltb_ge in E1.
  destruct (mx <? s_tokens s + 1) eqn:E2; [discriminate|]. apply N.ltb_ge in E2.
  destruct (mx <? nprods s + added_prods s) eqn:E3; [discriminate|]. apply N.ltb_ge in E3.
  destruct (existsb (fun p => mx <? fst p + snd p + (if true && has_implicit s then snd p else 0)) (s_prods s)) eqn:E4; [discriminate|].
  intros _.
  assert (F1 : mx <? s_rules s + 0 = false) by (apply N.ltb_ge; lia). rewrite F1.
  assert (F2 : mx <? s_tokens s + 0 = false) by (apply N.ltb_ge; lia). rewrite F2.
  assert (F3 : mx <? nprods s + 0 = false) by (apply N.ltb_ge; lia). rewrite F3.
  assert (F4 : existsb (fun p => mx <? fst p + snd p + (if false && has_implicit s then snd p else 0)) (s_prods s) = false).
  { apply existsb_false_Forall. apply existsb_false_Forall in E4.
    rewrite Forall_forall in E4 |- *. intros p Hin. specialize (E4 p Hin).
    apply N.ltb_ge in E4. apply N.ltb_ge. simpl in E4 |- *.
    destruct (has_implicit s); lia. }
  rewrite F4. reflexivity.
Qed.

Lemma orig_extra_accepts_wrap : orig_extra_accepts_wrap_stmt.
Proof.
  intros w s _ Hf.
  assert (Hn : no_wrap_g w s = false).
  { destruct (no_wrap_g w s) eqn:E; [|reflexivity]. exfalso. apply Hf.
    apply fixed_guards_iff_no_wrap_g. exact E. }
  unfold no_wrap_g, fits, extremal_g in Hn. simpl forallb in Hn.
  rewrite !andb_false_iff in Hn. rewrite !N.leb_gt in Hn.
  assert (Hw : forall v, max_value w < v -> narrow w v <> v).
  { intros v Hv Heq. apply narrow_id_max in Heq. lia. }
  destruct Hn as [H|[H|[H|[H|H]]]].
  - exists QRulesLen. apply Hw. exact H.
  - exists QTokensLen. apply Hw. exact H.
  - exists QProdsLen. apply Hw. exact H.
  - destruct (list_max_nth (final_prod_lens s)) as [i Hi].
    exists (QProdLen i). simpl. rewrite Hi. apply Hw. exact H.
  - discriminate.
Qed.

(* ---- state guards ------------------------------------------------------------------ *)
Lemma pager_add_pass : forall w adds len,
  fst (pager_add w adds len) = Pass <-> (adds = O \/ len + N.of_nat adds <= max_value w).
Proof.
  intros w. induction adds as [|k IH]; intro len; simpl pager_add.
  - simpl. split; [intros _; left; reflexivity | reflexivity].
  - destruct (max_value w <=? len) eqn:E.
    + apply N.leb_le in E. cbn [fst]. split; [discriminate|].
      intros [H|H]; [discriminate|]. rewrite Nat2N.inj_succ in H. lia.
    + apply N.leb_gt in E. rewrite IH. rewrite Nat2N.inj_succ. split.
      * intros [Hk|Hk]; right; [subst k; cbn [N.of_nat]; lia | lia].
      * intros [Hk|Hk]; [discriminate|]. right. lia.
Qed.

Lemma state_guards_exact : state_guards_exact_stmt.
Proof.
  intros w pre post. unfold state_guards.
  pose proof (pager_add_pass w (N.to_nat (pre - 1)) 1) as Hp.
  destruct (pager_add w (N.to_nat (pre - 1)) 1) as [v l]. simpl in Hp.
  rewrite N2Nat.id in Hp.
  set (mx := max_value w) in *.
  destruct v as [|r].
  - assert (Hpre : N.to_nat (pre - 1) = O \/ 1 + (pre - 1) <= mx) by (apply Hp; reflexivity).
    destruct (mx <? post) eqn:E1.
    { apply N.ltb_lt in E1. split; [discriminate|]. intros [_ H]. lia. }
    apply N.ltb_ge in E1.
    destruct (post <? mx) eqn:E2; simpl.
    2:{ apply N.ltb_ge in E2. split; [discriminate|]. intros [_ H]. lia. }
    apply N.ltb_lt in E2.
    assert (Hnar : narrow w post = post) by (apply narrow_id_le; fold mx; lia).
    rewrite Hnar.
    destruct (post <? mx - 1) eqn:E3; simpl.
    + apply N.ltb_lt in E3. split; [|reflexivity]. intros _. split; [|lia].
      destruct Hpre as [H0|H1]; [|lia].
      assert (pre - 1 = 0) by lia. lia.
    + apply N.ltb_ge in E3. split; [discriminate|]. intros [_ H]. lia.
  - split; [discriminate|]. intros [H1 H2]. exfalso.
    assert (Hq : N.to_nat (pre - 1) = O \/ 1 + (pre - 1) <= mx) by (right; lia).
    apply Hp in Hq. discriminate.
Qed.

Lemma state_guards_no_wrap : state_guards_no_wrap_stmt.
Proof.
  intros w pre post H q. apply state_guards_exact in H. destruct H as [_ H].
  apply narrow_id_le. destruct q as [|i]; simpl.
  - lia.
  - apply clamp_le. lia.
Qed.

Lemma state_guards_conservative : state_guards_conservative_stmt.
Proof. vm_compute. repeat split; reflexivity. Qed.

(* every site of the state-count composition raises the same documented text *)
Lemma pager_add_refuse : forall w adds len r l, pager_add w adds len = (Refuse r, l) -> r = RPager.
Proof.
  intros w. induction adds as [|k IH]; intros len r l H; simpl in H.
  - discriminate.
  - destruct (max_value w <=? len).
    + injection H as H _. symmetry. exact H.
    + exact (IH _ _ _ H).
Qed.

Lemma state_guards_message : forall w pre post r,
  state_guards w pre post = Refuse r -> message_of r = MStategraph.
Proof.
  intros w pre post r. unfold state_guards.
  destruct (pager_add w (N.to_nat (pre - 1)) 1) as [v l] eqn:Ep.
  destruct v as [|r0].
  - destruct (max_value w <? post); [intros H; injection H as <-; reflexivity|].
    destruct (negb (post <? max_value w)); [intros H; injection H as <-; reflexivity|].
    destruct (negb (narrow w post <? max_value w - 1)); [intros H; injection H as <-; reflexivity|].
    discriminate.
  - intros H. injection H as <-. rewrite (pager_add_refuse _ _ _ _ _ Ep). reflexivity.
Qed.

Lemma state_guards_refused_general : forall w pre post,
  refused_with (state_guards w pre post) = Some MStategraph <->
  (max_value w < pre \/ max_value w - 1 <= post).
Proof.
  intros w pre post. pose proof (state_guards_exact w pre post) as Hx.
  destruct (state_guards w pre post) as [|r] eqn:E; simpl.
  - split; [discriminate|]. intros H. exfalso.
    assert (Hp : pre <= max_value w /\ post + 2 <= max_value w) by (apply Hx; reflexivity). lia.
  - rewrite (state_guards_message _ _ _ _ E). split; [|reflexivity]. intros _.
    destruct (N.lt_ge_cases (max_value w) pre) as [H|H]; [left; exact H|].
    destruct (N.le_gt_cases (max_value w - 1) post) as [H'|H']; [right; exact H'|].
    exfalso. assert (Hp : Refuse r = Pass) by (apply Hx; split; lia). discriminate.
Qed.

Lemma state_count_refused_iff : state_count_refused_iff_stmt.
Proof.
  split; [|split].
  - intros w n. rewrite state_guards_refused_general. lia.
  - exact state_guards_refused_general.
  - intros w pre post. destruct (state_guards w pre post) as [|r] eqn:E; simpl.
    + left. reflexivity.
    + right. rewrite (state_guards_message _ _ _ _ E). reflexivity.
Qed.

Lemma state_count_boundary : state_count_boundary_stmt.
Proof. vm_compute. repeat split; reflexivity. Qed.

Lemma pow2_le_mono : forall a b, a <= b -> 2 ^ a <= 2 ^ b.
Proof. intros a b H. apply N.pow_le_mono_r; [discriminate|exact H]. Qed.

Lemma cell_roundtrip : cell_roundtrip_stmt.
Proof.
  intros uw w v Huw Hv.
  assert (Hlt : v < 2 ^ w) by (apply le_max_iff; exact Hv).
  assert (H4 : 4 * 2 ^ w <= 2 ^ uw).
  { pose proof (pow2_le_mono (w + 2) uw Huw) as H. rewrite N.pow_add_r in H.
    change (2 ^ 2) with 4 in H. lia. }
  unfold decode_val, encode_shift, encode_reduce, decode_goto, encode_goto.
  repeat split.
  - rewrite N.mod_small by lia.
    assert (Hd : (1 + 4 * v) / 4 = v).
    { symmetry. apply (N.div_unique (1 + 4 * v) 4 v 1); lia. }
    rewrite Hd. apply narrow_id_iff. exact Hlt.
  - rewrite N.mod_small by lia.
    assert (Hd : (2 + 4 * v) / 4 = v).
    { symmetry. apply (N.div_unique (2 + 4 * v) 4 v 2); lia. }
    rewrite Hd. apply narrow_id_iff. exact Hlt.
  - rewrite N.mod_small by lia.
    replace (v + 1 - 1) with v by lia. apply narrow_id_iff. exact Hlt.
Qed.

(* ---- lexer rule ids ------------------------------------------------------------------ *)
Lemma lex_go_spec : forall w n len acc,
  (fst (lex_go w n len acc) = Pass <-> (n = O \/ len + N.of_nat n <= 2 ^ w)) /\
  (fst (lex_go w n len acc) = Pass ->
   snd (lex_go w n len acc) = rev acc ++ map (fun k => len + N.of_nat k) (seq 0 n)).
Proof.
  intros w. induction n as [|k IH]; intros len acc; simpl lex_go.
  - simpl. split.
    + split; [intros _; left; reflexivity | reflexivity].
    + intros _. rewrite app_nil_r. symmetry. apply rev_alt.
  - destruct (max_value w <? len) eqn:E.
    + apply N.ltb_lt in E. cbn [fst]. split; [|discriminate]. split; [discriminate|].
      intros [H|H]; [discriminate|]. rewrite Nat2N.inj_succ in H.
      pose proof (proj2 (le_max_iff w len)) as Hm. lia.
    + apply N.ltb_ge in E. destruct (IH (len + 1) (narrow w len :: acc)) as [IH1 IH2].
      pose proof (proj1 (le_max_iff w len) E) as Hlt.
      split.
      * rewrite IH1. rewrite Nat2N.inj_succ. split.
        -- intros [Hk|Hk]; right; [subst k; cbn [N.of_nat]; lia | lia].
        -- intros [Hk|Hk]; [discriminate|]. right. lia.
      * intro Hp. rewrite (IH2 Hp). simpl rev. rewrite <- app_assoc. simpl.
        f_equal. f_equal.
        -- rewrite (proj2 (narrow_id_iff w len) Hlt). simpl. lia.
        -- rewrite <- seq_shift. rewrite map_map. apply map_ext. intro a.
           rewrite Nat2N.inj_succ. lia.
Qed.

Lemma lex_guard_exact : lex_guard_exact_stmt.
Proof.
  intros w n. unfold lex_build. rewrite (proj1 (lex_go_spec w (N.to_nat n) 0 [])).
  rewrite N2Nat.id. pose proof (pow2_pos w) as Hp. split.
  - intros [H|H]; [|lia]. assert (n = 0) by lia. lia.
  - intro H. right. lia.
Qed.

Lemma lex_ids : lex_ids_stmt.
Proof.
  intros w n ids H. unfold lex_build in H.
  pose proof (proj2 (lex_go_spec w (N.to_nat n) 0 [])) as Hs.
  rewrite H in Hs. simpl in Hs. rewrite (Hs eq_refl). apply map_ext. intro a. lia.
Qed.

Lemma lex_guard_no_wrap : lex_guard_no_wrap_stmt.
Proof.
  intros w n H q. apply lex_guard_exact in H. destruct q as [i]. simpl.
  apply narrow_id_le. unfold clamp. pose proof (N.le_min_r i (n - 1)) as Hm.
  pose proof (pow2_pos w) as Hp. unfold max_value. lia.
Qed.

(* ---- all guards ------------------------------------------------------------------------ *)
Lemma guards_imply_no_wrap : guards_imply_no_wrap_stmt.
Proof.
  intros w c H q. unfold all_guards in H.
  destruct (grammar_guards true w (c_src c)) eqn:Eg; [|discriminate].
  destruct (state_guards w (c_pre_gc c) (c_post_gc c)) eqn:Es; [|discriminate].
  destruct q as [q|q|q]; simpl.
  - apply (proj1 (fixed_grammar_guards_exact w (c_src c)) Eg).
  - apply (state_guards_no_wrap w _ _ Es).
  - apply (lex_guard_no_wrap w _ H).
Qed.

Lemma width_independent : width_independent_stmt.
Proof.
  intros w1 w2 c H1 H2 q. unfold observed.
  rewrite (guards_imply_no_wrap w1 c H1 q). rewrite (guards_imply_no_wrap w2 c H2 q). reflexivity.
Qed.

(* the hypotheses are satisfiable: a grammar of 254 rules is accepted by u8, u16, u32 *)
Example fixed_guards_satisfiable :
  let c := {| c_src := {| s_kind := Grmtools; s_rules := 254; s_tokens := 254;
                          s_prods := repeat (127, 128) 254; s_implicit := None |};
              c_pre_gc := 253; c_post_gc := 253; c_lex_rules := 256 |} in
  all_guards true 8 c = Pass /\ all_guards true 16 c = Pass /\ all_guards true 32 c = Pass.
Proof. vm_compute. repeat split; reflexivity. Qed.

Lemma guards_imply_no_wrap_refuted : guards_imply_no_wrap_refuted_stmt.
Proof.
  assert (Hp : all_guards false 8 witness = Pass) by (vm_compute; reflexivity).
  assert (Ht : true_value witness (QG QRulesLen) = 256) by (vm_compute; reflexivity).
  assert (Ho : observed 8 witness (QG QRulesLen) = 0) by (vm_compute; reflexivity).
  repeat split; try assumption; try (vm_compute; reflexivity).
  intro H. specialize (H 8 witness Hp (QG QRulesLen)). unfold observed in Ho.
  rewrite Ho in H. rewrite Ht in H. discriminate.
Qed.

Lemma width_independent_refuted : width_independent_refuted_stmt.
Proof.
  assert (H8 : all_guards false 8 witness = Pass) by (vm_compute; reflexivity).
  assert (H32 : all_guards false 32 witness = Pass) by (vm_compute; reflexivity).
  assert (Hd : observed 8 witness (QG QRulesLen) <> observed 32 witness (QG QRulesLen))
    by (vm_compute; discriminate).
  repeat split; try assumption.
  intro H. apply Hd. apply (H 8 32 witness H8 H32).
Qed.

Lemma orig_boundary_classes : orig_boundary_classes_stmt.
Proof. vm_compute. repeat split; reflexivity. Qed.
