(* C20 (pipeline) — non-vacuity: the LR(1)-but-not-LALR(1) grammar g0 (C02/PagerProofsMisc.v)
       S : a A d | b B d | a B e | b A e ;  A : c ;  B : c
   run through [from_yacc_mirror] inside Coq with TWO bounds (255 = u8, 2^32-1 = u32) and TWO
   hash-order oracles (list order; every key list and edge list reversed).  The two oracles
   give different state numberings (and different reject states), the same trees and error
   positions; the theorems of PipelineSpec.v say so for every input. *)
From Coq Require Import List Arith NArith Bool Lia.
From GV Require Import Common.Outcome Base.Grammar Base.GrammarFacts Base.Analyses
  LR.Automaton LR.Validator LR.Spec LR.TermSpec LR.TermGraph LR.CloseMirror
  C02.Model C02.LoopModel C02.InducedModel C02.PagerSpec C02.PagerProofsMisc C02.Examples
  C03.Model C03.Spec
  C01.Pipeline C01.PipelineSpec C01.PipelineMain C01.PipelineExamples
  C20.PipelineSpec C20.PipelineProofs.
Import ListNotations.
Open Scope N_scope.

Definition u8max : N := 255.

(* the second oracle: every (production, dot) key in DEcreasing order, every symbol in
   decreasing order — for every iteration of the Pager loop and every state of the table loops *)
Definition rkeys : list key :=
  rev (flat_map (fun p => map (fun d => (p, d)) (seq 0 4)) [0; 1; 2; 3; 4; 5; 6]).
Definition rsyms : list sym := rev (map T [0; 1; 2; 3; 4; 5] ++ map R [0; 1; 2; 3]).
Definition orders_rev : list (list key) := repeat rkeys 100.
Definition tos_rev : list torder := repeat (rkeys, rsyms) 100.

(* notations, not definitions: the statements below must be syntactically the instances of the
   theorems (conversion must never start to evaluate a run) *)
Notation run_u8 := (from_yacc_mirror g0 noprec noprec u8max 100 [] []).
Notation run_u32 := (from_yacc_mirror g0 noprec noprec u32max 100 [] []).
Notation run_u32_rev := (from_yacc_mirror g0 noprec noprec u32max 100 orders_rev tos_rev).

(* the kernels in state order, and the edges: what "numbering" means *)
Definition numbering (b : built) : list (list (N * nat)) * list (list (sym * nat)) :=
  (map (fun st => map (fun i => (it_p i, it_d i)) (fst st)) (pg_states (b_graph b)), pg_edges (b_graph b)).

Example g0_wf : wf_grammar g0 = true.
Proof. vm_compute. reflexivity. Qed.

Example g0_acyclic : acyclic g0.
Proof. apply acyclic_b_sound. vm_compute. reflexivity. Qed.

Example g0_productive : productive g0.
Proof.
  assert (Hp : forall p, (p < 7)%N -> is_prod g0 p).
  { intros p Hp. unfold is_prod. simpl. lia. }
  assert (H1 : derives g0 [R 1] (tokens_of [2])) by exact (derives_prod g0 4 (Hp 4 eq_refl)).
  assert (H2 : derives g0 [R 2] (tokens_of [2])) by exact (derives_prod g0 5 (Hp 5 eq_refl)).
  assert (H0 : derives g0 [R 0] (tokens_of [0; 2; 3])).
  { exact (d_step g0 [R 0] [T 0] 4 [T 3] (Hp 4 eq_refl) (derives_prod g0 0 (Hp 0 eq_refl))). }
  assert (H3 : derives g0 [R 3] (tokens_of [0; 2; 3])).
  { eapply derives_trans; [exact (derives_prod g0 6 (Hp 6 eq_refl)) | exact H0]. }
  intros r Hr. change (nrules g0) with 4 in Hr.
  assert (Hc : r = 0 \/ r = 1 \/ r = 2 \/ r = 3) by lia.
  destruct Hc as [-> | [-> | [-> | ->]]]; [exists [0; 2; 3]|exists [2]|exists [2]|exists [0; 2; 3]]; assumption.
Qed.

(* ---- same oracles, two widths: the identical graph and table -------------------------------------- *)

Example g0_u8_builds : is_done run_u8 = true.
Proof. vm_compute. reflexivity. Qed.

Lemma done_ex {A : Type} (o : outcome A) : is_done o = true -> exists r, o = Done r.
Proof. destruct o as [r| |]; intros H; try discriminate H. exists r. reflexivity. Qed.

(* by the theorem (no computation of the u32 run) ... *)
Example g0_u8_u32_same : run_u32 = run_u8.
Proof.
  destruct (done_ex run_u8 g0_u8_builds) as (r & E). rewrite E.
  assert (Hle : (u8max <= u32max)%N) by discriminate.
  exact (construction_bound_monotone g0 noprec noprec u8max u32max 100%nat [] [] r Hle E).
Qed.

(* ... and by computation *)
Example g0_u8_u32_same_computed : run_u32 = run_u8.
Proof. vm_compute. reflexivity. Qed.

(* 14 states: a StorageT with max_value 16 accepts, 15 is refused — by a storage check *)
Example g0_bound_16_15 :
  (is_done (from_yacc_mirror g0 noprec noprec 16 100 [] []), from_yacc_mirror g0 noprec noprec 15 100 [] [])
  = (true, Panic).
Proof. vm_compute. reflexivity. Qed.

Example g0_refused_by_storage_check : storage_check_fired g0 15 100 [].
Proof.
  apply (refusal_is_storage_check g0 noprec noprec 15 100%nat [] [] g0_wf (pm_noprec_consistent noprec)).
  exact (f_equal snd g0_bound_16_15).
Qed.

(* the boundary by the theorem: g0 has 14 states; MAX = 16 builds it, MAX = 15 (14 >= MAX - 1) must refuse *)
Example g0_14_states :
  match from_yacc_mirror g0 noprec noprec 16 100 [] [] with
  | Done (Some b) => nstates (built_automaton b) = 14%N
  | _ => False
  end.
Proof. vm_compute. reflexivity. Qed.

Example g0_state_count_refused :
  from_yacc_mirror g0 noprec noprec 15 100 [] [] = Panic /\ storage_check_fired g0 15 100 [].
Proof.
  pose proof g0_14_states as H.
  destruct (from_yacc_mirror g0 noprec noprec 16 100 [] []) as [[b|]| |] eqn:E; try contradiction.
  assert (Hle : (15 <= 16)%N) by discriminate.
  apply (proj1 (construction_state_count_refused g0 noprec noprec 15 16 100%nat [] [] b g0_wf
                  (pm_noprec_consistent noprec) Hle E)).
  rewrite H. discriminate.
Qed.

(* ---- two oracles: different numbering, same parse results ------------------------------------------- *)

Definition two_runs_fact (b1 b2 : built) : Prop :=
  numbering b1 <> numbering b2 /\
  (run g0 (built_automaton b1) 100 [0; 2; 4], run g0 (built_automaton b2) 100 [0; 2; 4]) =
    (RAccept (Node 2 [Leaf 0 0; Node 5 [Leaf 2 1]; Leaf 4 2]),
     RAccept (Node 2 [Leaf 0 0; Node 5 [Leaf 2 1]; Leaf 4 2])) /\
  (* the same error position, in differently numbered states *)
  (run g0 (built_automaton b1) 100 [1; 2; 2], run g0 (built_automaton b2) 100 [1; 2; 2]) =
    (RReject 2 9, RReject 2 4).

Example g0_two_runs :
  match run_u8, run_u32_rev with
  | Done (Some b1), Done (Some b2) => two_runs_fact b1 b2
  | _, _ => False
  end.
Proof. vm_compute. split; [discriminate|]. split; reflexivity. Qed.

Lemma built_ex2 (o1 o2 : outcome (option built)) (P : built -> built -> Prop) :
  match o1, o2 with Done (Some b1), Done (Some b2) => P b1 b2 | _, _ => False end ->
  exists b1 b2, o1 = Done (Some b1) /\ o2 = Done (Some b2) /\ P b1 b2.
Proof.
  destruct o1 as [[b1|]| |]; try contradiction; destruct o2 as [[b2|]| |]; try contradiction.
  intros H. exists b1, b2. split; [reflexivity|]. split; [reflexivity|exact H].
Qed.

(* the hypotheses of parse_results_width_independent(_total) are satisfiable, and the theorem
   extends the two computed comparisons to EVERY input *)
Example g0_width_independent :
  exists b1 b2, run_u8 = Done (Some b1) /\ run_u32_rev = Done (Some b2) /\
    numbering b1 <> numbering b2 /\
    forall input, tokens_in_range g0 input -> no_eof g0 input ->
      same_verdict (run g0 (built_automaton b1) (lr_fuel g0 input) input)
                   (run g0 (built_automaton b2) (lr_fuel g0 input) input).
Proof.
  destruct (built_ex2 run_u8 run_u32_rev two_runs_fact g0_two_runs) as (b1 & b2 & E1 & E2 & H).
  exists b1, b2. split; [exact E1|]. split; [exact E2|]. split; [exact (proj1 H)|].
  exact (parse_results_width_independent_total g0 noprec noprec g0_wf (pm_noprec_consistent noprec)
           g0_productive g0_acyclic g0_lr1 u8max 100%nat [] [] b1 u32max 100%nat orders_rev tos_rev b2 E1 E2).
Qed.
