(* C20 — proofs of PipelineSpec.v: the StorageT bound of [from_yacc_mirror] occurs only in
   checks; a refusal is a StorageT size check; parse results do not depend on the bound or
   on the hash orders (LR(1) grammars / conflict-free reports). *)
From Coq Require Import List Arith NArith Bool Lia Permutation.
From GV Require Import Common.Outcome Base.Grammar Base.GrammarFacts Base.Analyses Base.AnalysesProofs
  LR.Automaton LR.Validator LR.Spec LR.Agree LR.TermSpec LR.TermValidated LR.CloseMirror LR.CloseSpec
  C02.Model C02.Spec C02.PagerSpec C02.PagerProofsBridge C02.PagerProofsMisc
  C02.Lr1Model C02.LoopModel C02.LoopSpec C02.LoopEdgeProofs C02.LoopFactsProofs C02.LoopPanicProofs
  C02.LoopTotalProofs
  C02.InducedModel C02.InducedSpec C02.InducedSProofs C02.InducedCProofs C02.InducedMainProofs
  C03.Model C03.Spec C03.Small
  C01.Pipeline C01.PipelineEdges C01.PipelineTable C01.PipelineSpec C01.PipelineProofs C01.PipelineProofsC
  C01.PipelineMain
  C20.PipelineSpec.
From GV Require LR.Sound LR.Complete LR.Prefix.
Import ListNotations.

(* ---- (1) the bound occurs only in checks ------------------------------------------------------ *)

Lemma wp_obind_or {A B : Type} (x x' : outcome A) (f f' : A -> outcome B) :
  x = Panic \/ x = x' -> (forall a, f a = Panic \/ f a = f' a) ->
  obind x f = Panic \/ obind x f = obind x' f'.
Proof.
  intros [E|E] H; subst x; [left; reflexivity|].
  destruct x' as [a| |]; cbn [obind]; [apply H|right; reflexivity|right; reflexivity].
Qed.

Lemma wp_place m m' i st X ns : (m <= m')%N ->
  place m i st X ns = Panic \/ place m i st X ns = place m' i st X ns.
Proof.
  intros Hle. unfold place.
  destruct (cnd_of st X) as [cnds| |]; cbn [obind]; try (right; reflexivity).
  destruct (find_same (core_sts st) ns cnds) as [[c|]| |]; cbn [obind]; try (right; reflexivity).
  destruct (find_weak (core_sts st) ns cnds) as [[k|]| |]; cbn [obind]; try (right; reflexivity).
  destruct (m <=? N.of_nat (length (core_sts st)))%N eqn:E1; [left; reflexivity|].
  apply N.leb_gt in E1.
  replace (m' <=? N.of_nat (length (core_sts st)))%N with false by (symmetry; apply N.leb_gt; lia).
  right; reflexivity.
Qed.

Lemma wp_place_all m m' i news : (m <= m')%N -> forall st,
  place_all m i st news = Panic \/ place_all m i st news = place_all m' i st news.
Proof.
  intros Hle. induction news as [|[X ns] news IH]; intros st; cbn [place_all]; [right; reflexivity|].
  apply wp_obind_or; [apply wp_place; exact Hle|exact IH].
Qed.

Lemma wp_iteration g nl fs m m' ko st : (m <= m')%N ->
  iteration g nl fs m ko st = Panic \/ iteration g nl fs m ko st = iteration g nl fs m' ko st.
Proof.
  intros Hle. unfold iteration.
  apply wp_obind_or; [right; reflexivity|]. intros state_i.
  destruct (Nat.eqb (todo st) 0); [right; reflexivity|].
  apply wp_obind_or; [right; reflexivity|]. intros core_i.
  apply wp_obind_or; [right; reflexivity|]. intros cl.
  apply wp_obind_or; [right; reflexivity|]. intros news.
  apply wp_place_all. exact Hle.
Qed.

Lemma wp_main_loop g nl fs m m' : (m <= m')%N -> forall fuel orders st,
  main_loop g nl fs m fuel orders st = Panic \/
  main_loop g nl fs m fuel orders st = main_loop g nl fs m' fuel orders st.
Proof.
  intros Hle. induction fuel as [|f IH]; intros orders st; cbn [main_loop]; [right; reflexivity|].
  destruct (Nat.eqb (todo st) 0); [right; reflexivity|].
  destruct orders as [|ko orders'].
  - apply wp_obind_or; [apply wp_iteration; exact Hle|]. intros st'. apply IH.
  - apply wp_obind_or; [apply wp_iteration; exact Hle|]. intros st'. apply IH.
Qed.

Lemma pager_bound_only_refuses : pager_bound_only_refuses_stmt.
Proof.
  intros g nl fs m m' fuel orders Hle. unfold pager_mirror.
  apply wp_obind_or; [apply wp_main_loop; exact Hle|]. intros st.
  apply wp_obind_or; [right; reflexivity|]. intros closed.
  apply wp_obind_or; [right; reflexivity|]. intros pg.
  destruct (m <? N.of_nat (length (pg_states pg)))%N eqn:E1; [left; reflexivity|].
  destruct (m <=? N.of_nat (length (pg_states pg)))%N eqn:E2; [left; reflexivity|].
  apply N.ltb_ge in E1. apply N.leb_gt in E2.
  replace (m' <? N.of_nat (length (pg_states pg)))%N with false by (symmetry; apply N.ltb_ge; lia).
  replace (m' <=? N.of_nat (length (pg_states pg)))%N with false by (symmetry; apply N.leb_gt; lia).
  right; reflexivity.
Qed.

Lemma construction_bound_only_refuses : construction_bound_only_refuses_stmt.
Proof.
  intros g tp pp m m' fuel orders tos Hle. unfold from_yacc_mirror.
  destruct (first_ref g) as [[nl fs]|]; [|right; reflexivity].
  apply wp_obind_or; [apply pager_bound_only_refuses; exact Hle|]. intros pg.
  destruct (N.of_nat (length (pg_states pg)) <? m - 1)%N eqn:E; cbn [negb]; [|left; reflexivity].
  apply N.ltb_lt in E.
  replace (N.of_nat (length (pg_states pg)) <? m' - 1)%N with true by (symmetry; apply N.ltb_lt; lia).
  right; reflexivity.
Qed.

Lemma construction_bound_monotone : construction_bound_monotone_stmt.
Proof.
  intros g tp pp m m' fuel orders tos r Hle H.
  destruct (construction_bound_only_refuses g tp pp m m' fuel orders tos Hle) as [E|E].
  - rewrite E in H. discriminate H.
  - rewrite <- E. exact H.
Qed.

Lemma parse_results_same_oracles : parse_results_same_oracles_stmt.
Proof.
  intros g tp pp m1 m2 fuel orders tos b1 b2 H1 H2.
  destruct (N.le_ge_cases m1 m2) as [Hle|Hle].
  - pose proof (construction_bound_monotone g tp pp m1 m2 fuel orders tos _ Hle H1) as E.
    rewrite E in H2. injection H2 as H2. exact H2.
  - pose proof (construction_bound_monotone g tp pp m2 m1 fuel orders tos _ Hle H2) as E.
    rewrite E in H1. injection H1 as H1. symmetry. exact H1.
Qed.

(* ---- (3) a refusal is a StorageT size check ------------------------------------------------------ *)

Lemma refusal_is_storage_check : refusal_is_storage_check_stmt.
Proof.
  intros g tp pp max_st fuel orders tos Hwf Hcons H. unfold from_yacc_mirror in H.
  destruct (first_ref g) as [[nl fs]|] eqn:Efr; [|discriminate H].
  pose proof (pp_first_ref_pre g nl fs Hwf Efr) as Hpre.
  exists nl, fs. split; [exact Efr|].
  destruct (pager_mirror g nl fs max_st fuel orders) as [pg| |] eqn:Epg; cbn [obind] in H.
  - right. exists pg. split; [reflexivity|].
    destruct (N.of_nat (length (pg_states pg)) <? max_st - 1)%N eqn:Esz; cbn [negb] in H.
    + exfalso.
      pose proof (pager_mirror_graph_facts g nl fs max_st fuel orders pg Hpre Epg) as GF.
      pose proof (pager_mirror_edges_nodup g nl fs max_st fuel orders pg Epg) as HE.
      pose proof (pager_mirror_all_reachable g nl fs max_st fuel orders pg Hpre Epg) as HR.
      pose proof (pt_table_mirror_outcome g tp pp pg tos GF HE HR Hcons) as HT.
      destruct (table_mirror g tp pp (table_input g (pg_states pg) (pg_edges pg) tos)) as [[t|]| |];
        cbn [obind option_map] in H; try discriminate H; contradiction.
    + apply N.ltb_ge. exact Esz.
  - left. split; [reflexivity|].
    destruct (N.le_gt_cases max_st (N.of_nat (S (S (fuel * length (all_syms g)))))) as [Hle|Hgt]; [exact Hle|].
    exfalso. exact (pager_mirror_never_panics g nl fs max_st fuel orders Hpre Hgt Epg).
  - discriminate H.
Qed.

Lemma construction_narrow_same_or_refused : construction_narrow_same_or_refused_stmt.
Proof.
  intros g tp pp m m' fuel orders tos r Hwf Hcons Hle H.
  destruct (construction_bound_only_refuses g tp pp m m' fuel orders tos Hle) as [E|E].
  - right. split; [exact E|]. exact (refusal_is_storage_check g tp pp m fuel orders tos Hwf Hcons E).
  - left. rewrite E. exact H.
Qed.

Lemma construction_width_total : construction_width_total_stmt.
Proof.
  intros g tp pp max_st orders tos Hwf Hcons.
  destruct (construction_total g tp pp max_st orders tos Hwf Hcons) as (fuel & [(b & Hb)|[Hn|[Hp Hs]]]);
    exists fuel.
  - left. exists (Some b). exact Hb.
  - left. exists None. exact Hn.
  - right. split; assumption.
Qed.

Lemma construction_sizes_fit : construction_sizes_fit_stmt.
Proof.
  intros g tp pp max_st fuel orders tos b Hwf Hcons H.
  destruct (pp_unpack g tp pp max_st fuel orders tos b Hwf Hcons H) as [[_ _ _ _ Hsz] _].
  assert (Hn : (nstates (built_automaton b) < max_st - 1)%N) by exact Hsz.
  split; [exact Hn|]. intros s Hs. apply LR.Sound.In_states in Hs. lia.
Qed.

Lemma construction_state_count_refused : construction_state_count_refused_stmt.
Proof.
  intros g tp pp m m' fuel orders tos b Hwf Hcons Hle H'.
  destruct (construction_narrow_same_or_refused g tp pp m m' fuel orders tos (Some b) Hwf Hcons Hle H') as [E|[E Hs]].
  - pose proof (construction_sizes_fit g tp pp m fuel orders tos b Hwf Hcons E) as [Hn _].
    split.
    + intros Hge. exfalso. lia.
    + intros _. split; [exact E|exact Hn].
  - split.
    + intros _. split; [exact E|exact Hs].
    + intros Hne. exfalso. exact (Hne E).
Qed.

(* ---- (2) parse results ------------------------------------------------------------------------------ *)

Lemma lr1_run_validated : lr1_run_validated_stmt.
Proof.
  intros g tp pp max_st fuel orders tos b Hwf Hcons Hlr1 Hb.
  destruct (pp_unpack g tp pp max_st fuel orders tos b Hwf Hcons Hb) as [[GF HE _ TF _] _].
  pose proof (graph_facts_conflict_free g (b_graph b) GF Hlr1) as CF.
  remember (b_graph b) as pg eqn:Egb.
  assert (Hrep : reports_no_conflict b = true).
  { unfold reports_no_conflict.
    destruct (tb_rr (b_table b)) as [|r rr] eqn:Err.
    - destruct (tb_sr (b_table b)) as [|e sr] eqn:Esr; [reflexivity|]. exfalso.
      destruct (tf_sr_sub g tp pp pg _ TF e) as (s & core & cl & es & Hs & Hes & Hin).
      { rewrite Esr. left. reflexivity. }
      unfold sr_spec in Hin. apply in_flat_map in Hin. destruct Hin as ([X tgt] & HinE & Hin).
      cbn [fst snd] in Hin. destruct X as [a|r0]; [|destruct Hin].
      destruct (winner g cl a) as [p|] eqn:Ew; [|destruct Hin].
      unfold st_edges in HinE. apply in_map_iff in HinE. destruct HinE as ([X0 n0] & E0 & HinE).
      cbn [fst snd] in E0. injection E0 as EX _. subst X0.
      assert (Ha : assoc_sym (T a) es = Some n0).
      { apply pe_assoc_of_in; [|exact HinE]. exact (proj1 (Forall_forall _ _) HE es (nth_error_In _ _ Hes)). }
      exact (pc_no_shift_reduce g pg GF CF s core cl es a n0 p Hs Hes Ha (pp_winner_in g cl a p Ew)).
    - exfalso. destruct (tf_rr_sub g tp pp pg _ TF r) as (s & core & cl & Hs & Hlen).
      { rewrite Err. left. reflexivity. }
      pose proof (pm_red_cands_le g pg s core cl (rr_tok r) GF CF Hs). lia. }
  assert (Hun : prec_unsettled g tp pp b).
  { rewrite (pp_built_eta b), <- Egb. exact (pc_unsettled g tp pp pg _ GF CF). }
  split; [split; assumption|].
  rewrite (pp_built_eta b), <- Egb.
  split; [exact (pp_validS g tp pp pg _ GF HE TF)|].
  split; [exact (pc_validC g tp pp pg _ GF TF CF)|].
  split; [exact (pp_validE g pg _ GF)|exact (pc_single g pg _ GF CF)].
Qed.

Lemma parse_results_conflict_free_agree : parse_results_conflict_free_agree_stmt.
Proof.
  intros g tp pp Hwf Hcons Hprod m1 fuel1 orders1 tos1 b1 m2 fuel2 orders2 tos2 b2 H1 H2 Hcf1 Hcf2
    input f1 f2 Hin Hne Hf1 Hf2.
  destruct (construction_validated g tp pp m1 fuel1 orders1 tos1 b1 Hwf Hcons H1) as [HS1 HE1].
  destruct (construction_validated g tp pp m2 fuel2 orders2 tos2 b2 Hwf Hcons H2) as [HS2 HE2].
  destruct (construction_conflict_free g tp pp m1 fuel1 orders1 tos1 b1 Hwf Hcons H1 Hcf1) as [HC1 _].
  destruct (construction_conflict_free g tp pp m2 fuel2 orders2 tos2 b2 Hwf Hcons H2 Hcf2) as [HC2 _].
  exact (validated_automata_agree g (built_automaton b1) (built_automaton b2) Hwf Hprod
           HS1 HC1 HE1 HS2 HC2 HE2 input f1 f2 Hin Hne Hf1 Hf2).
Qed.

Lemma parse_results_width_independent : parse_results_width_independent_stmt.
Proof.
  intros g tp pp Hwf Hcons Hprod Hlr1 m1 fuel1 orders1 tos1 b1 m2 fuel2 orders2 tos2 b2 H1 H2.
  destruct (lr1_run_validated g tp pp m1 fuel1 orders1 tos1 b1 Hwf Hcons Hlr1 H1) as [Hcf1 _].
  destruct (lr1_run_validated g tp pp m2 fuel2 orders2 tos2 b2 Hwf Hcons Hlr1 H2) as [Hcf2 _].
  exact (parse_results_conflict_free_agree g tp pp Hwf Hcons Hprod
           m1 fuel1 orders1 tos1 b1 m2 fuel2 orders2 tos2 b2 H1 H2 Hcf1 Hcf2).
Qed.

Lemma parse_results_width_independent_total : parse_results_width_independent_total_stmt.
Proof.
  intros g tp pp Hwf Hcons Hprod Hacyc Hlr1 m1 fuel1 orders1 tos1 b1 m2 fuel2 orders2 tos2 b2 H1 H2
    input Hin Hne.
  destruct (lr1_run_validated g tp pp m1 fuel1 orders1 tos1 b1 Hwf Hcons Hlr1 H1) as (_ & HS1 & HC1 & HE1 & _).
  destruct (lr1_run_validated g tp pp m2 fuel2 orders2 tos2 b2 Hwf Hcons Hlr1 H2) as (_ & HS2 & HC2 & HE2 & _).
  destruct (lr_terminates_validated g (built_automaton b1) Hwf HS1 HC1 HE1 Hprod Hacyc input Hin Hne) as [_ T1].
  destruct (lr_terminates_validated g (built_automaton b2) Hwf HS2 HC2 HE2 Hprod Hacyc input Hin Hne) as [_ T2].
  exact (validated_automata_agree g (built_automaton b1) (built_automaton b2) Hwf Hprod
           HS1 HC1 HE1 HS2 HC2 HE2 input _ _ Hin Hne T1 T2).
Qed.

Lemma wp_accept_sentence g A input f t : wf_grammar g = true -> validS g A = true ->
  tokens_in_range g input -> no_eof g input -> run g A f input = RAccept t ->
  sentence g input /\
  exists s, user_start g = Some s /\ root g t = R s /\ valid_tree g t /\ leaves_in_order t input.
Proof.
  intros Hwf HS Hin Hne Hrun.
  destruct (LR.Sound.lr_sound g A Hwf HS input f t Hin Hne Hrun) as (s & Hus & Hroot & Hvt & Hord).
  split.
  - exists s. split; [exact Hus|].
    rewrite <- (LR.Complete.leaves_in_order_yield t input Hord), <- Hroot. apply tree_derives. exact Hvt.
  - exists s. repeat split; assumption.
Qed.

Lemma parse_results_always_sound : parse_results_always_sound_stmt.
Proof.
  intros g tp pp Hwf Hcons m1 fuel1 orders1 tos1 b1 m2 fuel2 orders2 tos2 b2 H1 H2 input Hin Hne.
  destruct (construction_validated g tp pp m1 fuel1 orders1 tos1 b1 Hwf Hcons H1) as [HS1 _].
  destruct (construction_validated g tp pp m2 fuel2 orders2 tos2 b2 Hwf Hcons H2) as [HS2 _].
  split.
  - intros f t [Hrun|Hrun].
    + exact (wp_accept_sentence g _ input f t Hwf HS1 Hin Hne Hrun).
    + exact (wp_accept_sentence g _ input f t Hwf HS2 Hin Hne Hrun).
  - intros f. split.
    + exact (LR.Sound.lr_never_panics g _ Hwf HS1 input f Hin Hne).
    + exact (LR.Sound.lr_never_panics g _ Hwf HS2 input f Hin Hne).
Qed.
