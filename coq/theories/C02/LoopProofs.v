(* C02 — proofs of the statements of LoopSpec.v about the mirror of
   pager_stategraph (LoopModel.v).

   Invariant of the main loop ([Inv]): every core_states[i] is pager_reachable,
   and whenever closed_states[i] = Some C, C holds exactly the closure of the
   CURRENT core_states[i] (closed_states[i] is reset to None when a merge
   changes core_states[i]; when the merge changes nothing the kernel is the
   same set of items, so the closure is unchanged). *)
From Coq Require Import List Arith NArith Bool Lia.
From GV Require Import Common.Outcome Base.Grammar Base.Analyses Base.AnalysesProofs LR.Automaton
  LR.Validator LR.CloseMirror LR.CloseSpec LR.CloseProofs C02.Model C02.Spec C02.Proofs
  C02.PagerSpec C02.PagerProofsBridge C02.PagerProofsMisc C02.PagerProofsMain
  C02.Lr1Model C02.Lr1Spec C02.Lr1Proofs C02.LoopModel C02.LoopSpec.
Import ListNotations.

(* one step through [do x <- e; k] in hypothesis H *)
Tactic Notation "ostep" hyp(H) "as" ident(x) ident(E) :=
  match type of H with
  | obind ?e _ = Done _ =>
      destruct e as [x| |] eqn:E; cbn [obind] in H; [|discriminate H|discriminate H]
  end.

(* ---- lists ---------------------------------------------------------------------------- *)

Lemma lp_set_nth_length {A : Type} (v : A) (l : list A) : forall i, length (set_nth i v l) = length l.
Proof.
  induction l as [|x l IH]; intros [|i]; simpl; try reflexivity.
  rewrite IH. reflexivity.
Qed.

Lemma lp_nth_error_set_nth {A : Type} (v : A) (l : list A) : forall i j,
  nth_error (set_nth i v l) j =
  if Nat.eqb i j then match nth_error l j with Some _ => Some v | None => None end
  else nth_error l j.
Proof.
  induction l as [|x l IH]; intros [|i] [|j]; simpl; try reflexivity.
  - destruct (Nat.eqb i j); reflexivity.
  - apply IH.
Qed.

Lemma lp_in_combine_nth {A B : Type} (a : A) (b : B) : forall (l1 : list A) (l2 : list B),
  In (a, b) (combine l1 l2) ->
  exists i, nth_error l1 i = Some a /\ nth_error l2 i = Some b.
Proof.
  induction l1 as [|x l1 IH]; intros [|y l2] Hin; simpl in Hin; try contradiction.
  destruct Hin as [Heq|Hin].
  - injection Heq as Hx Hy. subst x y. exists 0%nat. split; reflexivity.
  - destruct (IH l2 Hin) as (i & H1 & H2). exists (S i). split; assumption.
Qed.

Lemma lp_in_keep {A : Type} (seen : list nat) (x : A) : forall (l : list A) i,
  In x (keep seen i l) -> In x l.
Proof.
  induction l as [|y l IH]; intros i Hin; simpl in Hin.
  - contradiction.
  - destruct (memn i seen).
    + destruct Hin as [Heq|Hin]; [left; exact Heq | right; exact (IH (S i) Hin)].
    + right. exact (IH (S i) Hin).
Qed.

Lemma lp_unwrap_all : forall (l0 : list (option itemset)) (l : list itemset),
  fold_right (fun o acc => do l <- acc; match o with Some c => Done (c :: l) | None => Panic end)
             (Done []) l0 = Done l ->
  l0 = map Some l.
Proof.
  induction l0 as [|o l0 IH]; intros l H.
  - cbn [fold_right] in H. injection H as H. subst l. reflexivity.
  - cbn [fold_right] in H. ostep H as l' E.
    destruct o as [c|]; [|discriminate H]. injection H as H. subst l.
    cbn [map]. rewrite (IH l' eq_refl). reflexivity.
Qed.

Lemma lp_gc_model_in states edges pg x : gc_model states edges = Done pg ->
  In x (pg_states pg) -> In x states.
Proof.
  unfold gc_model. intros H Hin.
  match type of H with (if ?c then _ else _) = _ => destruct c end; [discriminate H|].
  destruct (Nat.eqb (length states) (length (reachable edges 0))).
  - injection H as H. subst pg. exact Hin.
  - match type of H with (if ?c then _ else _) = _ => destruct c end; [|discriminate H].
    injection H as H. subst pg. cbn [pg_states] in Hin. exact (lp_in_keep _ _ _ _ Hin).
Qed.

(* ---- close / goto: the specific results of the mirrors ------------------------------- *)

Lemma lp_close_specific g nl fs K C fuel : loop_pre g nl fs -> items_ok g K = true ->
  close_mirror g nl fs (keys_of K) K fuel = Done C ->
  items_ok g C = true /\ closed_repr g K C.
Proof.
  intros (Hwf & Hnl & Hfs) HK HC.
  assert (Hpre : close_pre g nl fs (keys_of K) K).
  { unfold close_pre. split; [exact Hwf|]. split; [exact Hnl|]. split; [exact Hfs|].
    split; [exact HK|]. intros k. split; intros Hk; exact Hk. }
  pose proof (close_mirror_sound g nl fs (keys_of K) K fuel C Hpre HC) as Hs.
  pose proof (close_mirror_complete g nl fs (keys_of K) K fuel C Hpre HC) as [Hc0 Hc1].
  pose proof (close_mirror_result_ok g nl fs (keys_of K) K fuel C Hpre HC) as Hok.
  split; [exact Hok|]. split; [exact (items_ok_is_map g C Hok)|]. split.
  - intros p d. split.
    + intros H. destruct (proj1 (has_core_pd C p d) H) as [la Hin]. exact (proj1 (Hs p d la Hin)).
    + intros H. apply (proj2 (has_core_pd C p d)). exact (Hc0 p d H).
  - intros p d a. split.
    + intros H. destruct (proj1 (has_la_pd C p d a) H) as [la [Hin Ha]].
      exact (proj2 (Hs p d la Hin) a Ha).
    + intros H. apply (proj2 (has_la_pd C p d a)). exact (Hc1 p d a H).
Qed.

Lemma lp_goto_specific g K C X G : closed_repr g K C -> items_ok g C = true ->
  goto_mirror g C X = Done G -> is_goto g K X G /\ items_ok g G = true.
Proof.
  intros (_ & HC0' & HC1') HCok HGeq.
  assert (HC0 : forall p d, (exists la, In (p, d, la) C) <-> lr0_closure_rel g K p d).
  { intros p d. split; intros H.
    - apply (proj1 (HC0' p d)). apply (proj2 (has_core_pd C p d)). exact H.
    - apply (proj1 (has_core_pd C p d)). apply (proj2 (HC0' p d)). exact H. }
  assert (HC1 : forall p d a, (exists la, In (p, d, la) C /\ In a la) <-> lr1_closure_rel g K p d a).
  { intros p d a. split; intros H.
    - apply (proj1 (HC1' p d a)). apply (proj2 (has_la_pd C p d a)). exact H.
    - apply (proj1 (has_la_pd C p d a)). apply (proj2 (HC1' p d a)). exact H. }
  destruct (goto_mirror_spec g C X HCok) as (G' & HG' & HGnd & HG).
  rewrite HGeq in HG'. injection HG' as HG'. subst G'.
  split.
  - unfold is_goto, has_core, has_la. split.
    + intros p d'. simpl. split.
      * intros [la Hin]. apply HG in Hin. destruct Hin as (d & Hd & HinC & Hn).
        exists d. split; [exact Hd|]. split; [|exact Hn].
        apply HC0. exists la. exact HinC.
      * intros (d & Hd & Hcl & Hn). apply HC0 in Hcl. destruct Hcl as [la HinC].
        exists la. apply HG. exists d. repeat split; assumption.
    + intros p d' a. simpl. split.
      * intros [la [Hin Ha]]. apply HG in Hin. destruct Hin as (d & Hd & HinC & Hn).
        exists d. split; [exact Hd|]. split; [|exact Hn].
        apply HC1. exists la. split; assumption.
      * intros (d & Hd & Hcl & Hn). apply HC1 in Hcl. destruct Hcl as [la [HinC Ha]].
        exists la. split; [|exact Ha]. apply HG. exists d. repeat split; assumption.
  - apply items_ok_spec. split; [exact HGnd|].
    intros p d' la Hin. apply HG in Hin. destruct Hin as (d & Hd & HinC & Hn).
    destruct (proj1 (items_ok_spec g C) HCok) as [_ HCr].
    destruct (HCr p d la HinC) as (Hp & _ & Hla).
    split; [exact Hp|]. split; [|exact Hla].
    assert (Hlt : d < length (rhs g p)).
    { apply nth_error_Some. rewrite Hn. discriminate. }
    subst d'. lia.
Qed.

(* every successor generated from the closed state of kernel K is goto(closure(K), X) *)
Lemma lp_gen_new_spec g K cl : closed_repr g K cl -> items_ok g cl = true ->
  forall ko seen acc news,
  (forall X ns, In (X, ns) acc -> is_goto g K X ns /\ items_ok g ns = true) ->
  gen_new g cl ko seen acc = Done news ->
  forall X ns, In (X, ns) news -> is_goto g K X ns /\ items_ok g ns = true.
Proof.
  intros Hrepr Hok. induction ko as [|[p d] ko IH]; intros seen acc news Hacc H X ns Hin.
  - cbn [gen_new] in H. injection H as H. subst news.
    apply Hacc. apply (proj2 (in_rev acc (X, ns))). exact Hin.
  - cbn [gen_new] in H. cbv zeta in H.
    destruct (negb (is_prodb g p)); [discriminate H|].
    destruct (Nat.eqb d (length (rhs g p))); [exact (IH seen acc news Hacc H X ns Hin)|].
    destruct (nth_error (rhs g p) d) as [Y|]; [|discriminate H].
    destruct (negb (sym_in_range g Y)); [discriminate H|].
    destruct (existsb (sym_eqb Y) seen); [exact (IH seen acc news Hacc H X ns Hin)|].
    ostep H as G EG.
    apply (IH (Y :: seen) ((Y, G) :: acc) news); [|exact H|exact Hin].
    intros X' ns' [Heq|Hin'].
    + injection Heq as HX HG. subst X' ns'. exact (lp_goto_specific g K cl Y G Hrepr Hok EG).
    + exact (Hacc X' ns' Hin').
Qed.

(* ---- the invariant ---------------------------------------------------------------------- *)

Definition Inv2 (g : grammar) (cores : list itemset) (closed : list (option itemset)) : Prop :=
  length closed = length cores /\
  (forall i core, nth_error cores i = Some core -> pager_reachable g core) /\
  (forall i core C, nth_error cores i = Some core -> nth_error closed i = Some (Some C) ->
     closed_repr g core C).

Definition Inv (g : grammar) (st : pst) : Prop := Inv2 g (core_sts st) (closed_sts st).

Lemma lp_Inv2_set_core g cores closed k m :
  Inv2 g cores closed -> pager_reachable g m ->
  (forall ck C, nth_error cores k = Some ck -> nth_error closed k = Some (Some C) ->
     closed_repr g m C) ->
  Inv2 g (set_nth k m cores) closed.
Proof.
  intros (Hlen & Hr & Hc) Hm Hk. split; [|split].
  - rewrite lp_set_nth_length. exact Hlen.
  - intros i core Hi. rewrite lp_nth_error_set_nth in Hi. destruct (Nat.eqb k i) eqn:E.
    + destruct (nth_error cores i); [|discriminate Hi]. injection Hi as Hi. subst core. exact Hm.
    + exact (Hr i core Hi).
  - intros i core C Hi HC. rewrite lp_nth_error_set_nth in Hi. destruct (Nat.eqb k i) eqn:E.
    + apply Nat.eqb_eq in E. subst i.
      destruct (nth_error cores k) as [ck|] eqn:Eck; [|discriminate Hi].
      injection Hi as Hi. subst core. exact (Hk ck C eq_refl HC).
    + exact (Hc i core C Hi HC).
Qed.

Lemma lp_Inv2_set_closed g cores closed k o :
  Inv2 g cores closed ->
  (forall core C, o = Some C -> nth_error cores k = Some core -> closed_repr g core C) ->
  Inv2 g cores (set_nth k o closed).
Proof.
  intros (Hlen & Hr & Hc) Ho. split; [|split].
  - rewrite lp_set_nth_length. exact Hlen.
  - exact Hr.
  - intros i core C Hi HC. rewrite lp_nth_error_set_nth in HC. destruct (Nat.eqb k i) eqn:E.
    + apply Nat.eqb_eq in E. subst i.
      destruct (nth_error closed k); [|discriminate HC].
      injection HC as HC. exact (Ho core C HC Hi).
    + exact (Hc i core C Hi HC).
Qed.

Lemma lp_Inv2_app g cores closed ns :
  Inv2 g cores closed -> pager_reachable g ns -> Inv2 g (cores ++ [ns]) (closed ++ [None]).
Proof.
  intros (Hlen & Hr & Hc) Hns. split; [|split].
  - rewrite !app_length. simpl. lia.
  - intros i core Hi. destruct (lt_dec i (length cores)) as [Hlt|Hge].
    + rewrite nth_error_app1 in Hi by exact Hlt. exact (Hr i core Hi).
    + rewrite nth_error_app2 in Hi by lia.
      destruct (i - length cores)%nat as [|n]; simpl in Hi.
      * injection Hi as Hi. subst core. exact Hns.
      * destruct n; discriminate Hi.
  - intros i core C Hi HC. destruct (lt_dec i (length cores)) as [Hlt|Hge].
    + rewrite nth_error_app1 in Hi by exact Hlt.
      rewrite nth_error_app1 in HC by lia. exact (Hc i core C Hi HC).
    + rewrite nth_error_app2 in HC by lia.
      destruct (i - length closed)%nat as [|n]; simpl in HC.
      * discriminate HC.
      * destruct n; discriminate HC.
Qed.

Lemma lp_init_inv g : Inv g (init_pst g).
Proof.
  unfold Inv, init_pst. cbn [core_sts closed_sts]. split; [reflexivity|]. split.
  - intros i core Hi. destruct i as [|i]; simpl in Hi.
    + injection Hi as Hi. subst core. exact (pr_start g).
    + destruct i; discriminate Hi.
  - intros i core C _ HC. destruct i as [|i]; simpl in HC.
    + discriminate HC.
    + destruct i; discriminate HC.
Qed.

(* ---- the operations of [place] ------------------------------------------------------------ *)

Lemma lp_insert_edge_same st i X t st' : insert_edge st i X t = Done st' ->
  core_sts st' = core_sts st /\ closed_sts st' = closed_sts st.
Proof.
  unfold insert_edge. intros H. ostep H as es E.
  injection H as H. subst st'. split; reflexivity.
Qed.

Lemma lp_cnd_push_same st X k :
  core_sts (cnd_push st X k) = core_sts st /\ closed_sts (cnd_push st X k) = closed_sts st.
Proof. destruct X; split; reflexivity. Qed.

Lemma lp_find_weak_spec cores ns : forall cnds k, find_weak cores ns cnds = Done (Some k) ->
  exists ck, nth_error cores k = Some ck /\
             weakly_compatible_mirror (keys_of ck) ck ns = Done true.
Proof.
  induction cnds as [|c cs IH]; intros k H.
  - cbn [find_weak] in H. discriminate H.
  - cbn [find_weak] in H. ostep H as ck Eck. ostep H as b Eb.
    destruct b.
    + injection H as H. subst c. exists ck. split; [|exact Eb].
      unfold nth_checked in Eck. destruct (nth_error cores k) as [x|]; [|discriminate Eck].
      injection Eck as Eck. subst x. reflexivity.
    + exact (IH k H).
Qed.

(* the closure depends on the set of (core, lookahead) pairs only *)
Lemma lp_closed_repr_same g (A B C : itemset) :
  same_itemset A B -> closed_repr g B C -> closed_repr g A C.
Proof.
  intros [Hs0 Hs1] (HmC & H0 & H1).
  assert (HcAB : forall p d, has_core A (p, d) -> has_core B (p, d)).
  { intros p d H. exact (proj1 (Hs0 p d) H). }
  assert (HcBA : forall p d, has_core B (p, d) -> has_core A (p, d)).
  { intros p d H. exact (proj2 (Hs0 p d) H). }
  assert (HlAB : forall p d a, has_la A (p, d) a -> has_la B (p, d) a).
  { intros p d a H. exact (proj1 (Hs1 p d a) H). }
  assert (HlBA : forall p d a, has_la B (p, d) a -> has_la A (p, d) a).
  { intros p d a H. exact (proj2 (Hs1 p d a) H). }
  split; [exact HmC|]. split.
  - intros p d. split; intros H.
    + apply (lr0_closure_mono g B A HcBA). apply (proj1 (H0 p d)). exact H.
    + apply (proj2 (H0 p d)). apply (lr0_closure_mono g A B HcAB). exact H.
  - intros p d a. split; intros H.
    + apply (lr1_closure_mono g B A HcBA HlBA). apply (proj1 (H1 p d a)). exact H.
    + apply (proj2 (H1 p d a)). apply (lr1_closure_mono g A B HcAB HlAB). exact H.
Qed.

(* a positive weakly_compatible followed by weakly_merge *)
Lemma lp_merge_facts g ck ns mr : wf_grammar g = true ->
  pager_reachable g ck -> pager_reachable g ns ->
  weakly_compatible_mirror (keys_of ck) ck ns = Done true ->
  weakly_merge_mirror ck ns = Done mr ->
  pager_reachable g (fst mr) /\
  (snd mr = false -> forall C, closed_repr g ck C -> closed_repr g (fst mr) C).
Proof.
  intros Hwf Hck Hns Hwc Hmr.
  pose proof (pager_reachable_items_ok g ck Hwf Hck) as Hokck.
  pose proof (pager_reachable_items_ok g ns Hwf Hns) as Hokns.
  pose proof (items_ok_is_map g ck Hokck) as Hmck.
  pose proof (items_ok_is_map g ns Hokns) as Hmns.
  assert (Hne : ck <> []).
  { intros Hnil. subst ck. unfold weakly_compatible_mirror in Hwc.
    destruct ns; simpl in Hwc; discriminate Hwc. }
  assert (Hperm : keys_perm ck (keys_of ck)).
  { split; [exact Hmck|]. intros k. split; intros Hk; exact Hk. }
  destruct (weakly_compatible_mirror_spec (keys_of ck) ck ns Hmck Hmns Hperm Hne) as (b & Hb & Hbs).
  rewrite Hwc in Hb. injection Hb as Hb.
  assert (Hspec : weakly_compatible_spec ck ns).
  { apply (proj1 Hbs). symmetry. exact Hb. }
  destruct (weakly_merge_is_union ck ns Hmck Hmns Hspec) as (m & ch & Hm & Hmm & Hu).
  rewrite Hmr in Hm. injection Hm as Hm. subst mr. cbn [fst snd].
  split.
  - apply (pr_merge g ck ns m Hck Hns Hspec Hu).
    exact (union_items_ok g ck ns m Hokck Hokns Hmm Hu).
  - intros Hch C HC. subst ch.
    destruct (weakly_merge_mirror_spec ck ns Hmck Hmns) as (m' & ch' & Hm' & _ & _ & _ & Hsame).
    { intros k Hk. apply (proj1 (proj1 Hspec k)). exact Hk. }
    rewrite Hmr in Hm'. injection Hm' as Hm1 Hm2. subst m' ch'.
    apply (lp_closed_repr_same g m ck C); [|exact HC].
    apply (proj1 Hsame). reflexivity.
Qed.

Lemma lp_place_inv g max_st state_i st X ns st' : wf_grammar g = true ->
  Inv g st -> pager_reachable g ns ->
  place max_st state_i st X ns = Done st' -> Inv g st'.
Proof.
  intros Hwf HI Hns H. unfold place in H.
  ostep H as cnds Ecnd.
  ostep H as same Esame.
  destruct same as [c|].
  - destruct (lp_insert_edge_same _ _ _ _ _ H) as [E1 E2]. unfold Inv. rewrite E1, E2. exact HI.
  - ostep H as m Eweak. destruct m as [k|].
    + ostep H as st1 Eins.
      destruct (lp_insert_edge_same _ _ _ _ _ Eins) as [E1 E2].
      rewrite E1, E2 in H.
      destruct (lp_find_weak_spec _ _ _ _ Eweak) as (ck & Hck & Hwc).
      assert (Eck : nth_checked (core_sts st) k = Done ck).
      { unfold nth_checked. rewrite Hck. reflexivity. }
      rewrite Eck in H. cbn [obind] in H.
      ostep H as mr Emr. cbv zeta in H.
      pose proof HI as (Hlen & Hr & Hc).
      destruct (lp_merge_facts g ck ns mr Hwf (Hr k ck Hck) Hns Hwc Emr) as [Hreach Htrans].
      destruct (snd mr) eqn:Esnd.
      * ostep H as cl Ecl.
        destruct cl as [c0|]; injection H as H; subst st'; unfold Inv; cbn [core_sts closed_sts].
        -- apply lp_Inv2_set_core; [|exact Hreach|].
           ++ apply lp_Inv2_set_closed; [exact HI|]. intros core C HN _. discriminate HN.
           ++ intros ck' C _ HC. rewrite lp_nth_error_set_nth, Nat.eqb_refl in HC.
              destruct (nth_error (closed_sts st) k); discriminate HC.
        -- apply lp_Inv2_set_core; [exact HI|exact Hreach|].
           intros ck' C _ HC. unfold nth_checked in Ecl. rewrite HC in Ecl. discriminate Ecl.
      * injection H as H. subst st'. unfold Inv. cbn [core_sts closed_sts].
        apply lp_Inv2_set_core; [exact HI|exact Hreach|].
        intros ck' C Hck' HC. rewrite Hck in Hck'. injection Hck' as Hck'. subst ck'.
        apply (Htrans eq_refl). exact (Hc k ck C Hck HC).
    + destruct (max_st <=? N.of_nat (length (core_sts st)))%N; [discriminate H|].
      cbn [obind] in H. cbv zeta in H.
      ostep H as st2 Eins.
      destruct (lp_insert_edge_same _ _ _ _ _ Eins) as [E1 E2].
      destruct (lp_cnd_push_same st X (length (core_sts st))) as [E3 E4].
      injection H as H. subst st'. unfold Inv. cbn [core_sts closed_sts].
      rewrite E1, E2, E3, E4. apply lp_Inv2_app; [exact HI|exact Hns].
Qed.

Lemma lp_place_all_inv g max_st state_i : wf_grammar g = true ->
  forall news st st', Inv g st ->
  (forall X ns, In (X, ns) news -> pager_reachable g ns) ->
  place_all max_st state_i st news = Done st' -> Inv g st'.
Proof.
  intros Hwf. induction news as [|[X ns] news IH]; intros st st' HI Hnews H.
  - cbn [place_all] in H. injection H as H. subst st'. exact HI.
  - cbn [place_all] in H. ostep H as st1 E1.
    apply (IH st1 st'); [|intros X' ns' Hin; apply (Hnews X' ns'); right; exact Hin|exact H].
    apply (lp_place_inv g max_st state_i st X ns st1 Hwf HI); [|exact E1].
    apply (Hnews X ns). left. reflexivity.
Qed.

Lemma lp_iteration_inv g nl fs max_st ko st st' : loop_pre g nl fs -> Inv g st ->
  iteration g nl fs max_st ko st = Done st' -> Inv g st'.
Proof.
  intros Hpre HI H. pose proof Hpre as (Hwf & _ & _). unfold iteration in H.
  ostep H as state_i Enext.
  destruct (Nat.eqb (todo st) 0); [discriminate H|].
  ostep H as core_i Ecore.
  ostep H as cl Ecl.
  cbv zeta in H.
  ostep H as news Enews.
  unfold nth_checked in Ecore.
  destruct (nth_error (core_sts st) state_i) as [c|] eqn:Ec; [|discriminate Ecore].
  injection Ecore as Ecore. subst c.
  pose proof HI as (Hlen & Hr & Hc).
  pose proof (Hr state_i core_i Ec) as Hreach.
  pose proof (pager_reachable_items_ok g core_i Hwf Hreach) as Hok.
  destruct (lp_close_specific g nl fs core_i cl _ Hpre Hok Ecl) as [Hclok Hclrepr].
  refine (lp_place_all_inv g max_st state_i Hwf news _ st' _ _ H).
  - unfold Inv. cbn [core_sts closed_sts]. apply lp_Inv2_set_closed; [exact HI|].
    intros core C HC Hcore. injection HC as HC. subst C.
    rewrite Ec in Hcore. injection Hcore as Hcore. subst core. exact Hclrepr.
  - intros X ns Hin.
    assert (Hnil : forall X0 ns0, In (X0, ns0) (@nil (sym * itemset)) ->
                     is_goto g core_i X0 ns0 /\ items_ok g ns0 = true).
    { intros X0 ns0 F. destruct F. }
    destruct (lp_gen_new_spec g core_i cl Hclrepr Hclok _ [] [] news Hnil Enews X ns Hin)
      as [Hg Hnsok].
    exact (pr_goto g core_i X ns Hreach Hg Hnsok).
Qed.

Lemma lp_main_loop_inv g nl fs max_st : loop_pre g nl fs ->
  forall fuel orders st st', Inv g st ->
  main_loop g nl fs max_st fuel orders st = Done st' -> Inv g st'.
Proof.
  intros Hpre. induction fuel as [|f IH]; intros orders st st' HI H.
  - cbn [main_loop] in H. discriminate H.
  - cbn [main_loop] in H. destruct (Nat.eqb (todo st) 0).
    + injection H as H. subst st'. exact HI.
    + destruct orders as [|ko orders'].
      * ostep H as st1 E1.
        exact (IH [] st1 st' (lp_iteration_inv g nl fs max_st None st st1 Hpre HI E1) H).
      * ostep H as st1 E1.
        exact (IH orders' st1 st' (lp_iteration_inv g nl fs max_st (Some ko) st st1 Hpre HI E1) H).
Qed.

(* ---- the statements ------------------------------------------------------------------------ *)

Lemma pager_mirror_reachable : pager_mirror_reachable_stmt.
Proof.
  intros g nl fs max_st fuel orders pg Hpre H core closed Hin.
  unfold pager_mirror in H.
  ostep H as st Eml. ostep H as cl Ecl. ostep H as pg' Egc.
  destruct (max_st <? N.of_nat (length (pg_states pg')))%N; [discriminate H|].
  destruct (max_st <=? N.of_nat (length (pg_states pg')))%N; [discriminate H|].
  injection H as H. subst pg'.
  pose proof (lp_main_loop_inv g nl fs max_st Hpre fuel orders (init_pst g) st (lp_init_inv g) Eml)
    as (Hlen & Hr & Hc).
  pose proof (lp_gc_model_in _ _ _ (core, closed) Egc Hin) as Hin'.
  destruct (lp_in_combine_nth core closed _ _ Hin') as (i & Hi1 & Hi2).
  split; [exact (Hr i core Hi1)|]. apply (Hc i core closed Hi1).
  rewrite (lp_unwrap_all _ _ Ecl). apply map_nth_error. exact Hi2.
Qed.

Lemma pager_mirror_conflict_free : pager_mirror_conflict_free_stmt.
Proof.
  intros g nl fs max_st fuel orders pg Hpre Hlr1 H core closed Hin.
  destruct (pager_mirror_reachable g nl fs max_st fuel orders pg Hpre H core closed Hin) as [Hr Hc].
  pose proof Hpre as (Hwf & _ & _).
  destruct (pager_reachable_conflict_free g Hwf Hlr1 core Hr) as [_ Hnc].
  split; [exact Hnc|]. intros a shift Hs.
  exact (conflict_free_cell g core closed a shift Hc Hnc Hs).
Qed.

Lemma pager_mirror_certified : pager_mirror_certified_stmt.
Proof.
  intros g A nl fs max_st fuel orders pg Hf HA H core closed Hin.
  destruct (first_ref_exact' g nl fs Hf) as [Hnl Hfs].
  destruct (lr1_check_sound g A HA) as [Hwf Hlr1].
  assert (Hpre : loop_pre g nl fs).
  { split; [exact Hwf|]. split; [exact Hnl|exact Hfs]. }
  destruct (pager_mirror_reachable g nl fs max_st fuel orders pg Hpre H core closed Hin) as [Hr Hc].
  destruct (pager_mirror_conflict_free g nl fs max_st fuel orders pg Hpre Hlr1 H core closed Hin)
    as [Hnc Hcell].
  split; [exact Hr|]. split; [exact Hc|]. split; [exact Hnc|exact Hcell].
Qed.
