(* C02, stage 2 — the path-indexed relations [core_at] / [la_at]: linearity in
   the contexts, the origin of a lookahead, and Pager's merge-safety theorem
   (path form). *)
From Coq Require Import List Arith NArith Bool Lia.
From GV Require Import Common.Outcome Base.Grammar Base.Analyses LR.Automaton LR.CloseMirror
  LR.CloseSpec C02.Model C02.Spec C02.PagerSpec.
Import ListNotations.

(* ---- has_core / has_la on explicit pairs -------------------------------------------- *)

Lemma has_core_pair K p d : has_core K (p, d) <-> exists la, In (p, d, la) K.
Proof. unfold has_core. simpl. tauto. Qed.

Lemma has_la_pair K p d a : has_la K (p, d) a <-> exists la, In (p, d, la) K /\ In a la.
Proof. unfold has_la. simpl. tauto. Qed.

Lemma has_la_core K k a : has_la K k a -> has_core K k.
Proof. intros (la & Hin & _). exists la. exact Hin. Qed.

Lemma same_cores_sym K K' : same_cores K K' -> same_cores K' K.
Proof. intros H k. symmetry. apply H. Qed.

Lemma same_cores_trans K K' K'' : same_cores K K' -> same_cores K' K'' -> same_cores K K''.
Proof. intros H1 H2 k. rewrite (H1 k). apply H2. Qed.

Lemma key_eq_dec (i j : key) : {i = j} + {i <> j}.
Proof.
  destruct i as [p d], j as [q e].
  destruct (N.eq_dec p q) as [Hp|Hp]; [|right; intros H; apply Hp; congruence].
  destruct (Nat.eq_dec d e) as [Hd|Hd]; [|right; intros H; apply Hd; congruence].
  left. congruence.
Qed.

(* ---- the LR(0) part depends on the cores only ------------------------------------------ *)

Lemma core_at_cores g K K' : same_cores K K' ->
  forall alpha p d, core_at g K alpha p d -> core_at g K' alpha p d.
Proof.
  intros Hc alpha p d H.
  induction H as [p d la Hin | alpha p d r q _ IH Hn Hq Hl | alpha X p d _ IH Hn].
  - assert (Hk : has_core K (p, d)) by (apply has_core_pair; exists la; exact Hin).
    apply (proj1 (Hc (p, d))) in Hk. apply has_core_pair in Hk. destruct Hk as (la' & Hin').
    exact (ca_base g K' p d la' Hin').
  - exact (ca_close g K' alpha p d r q IH Hn Hq Hl).
  - exact (ca_goto g K' alpha X p d IH Hn).
Qed.

Lemma la_at_core g K alpha p d a : la_at g K alpha p d a -> core_at g K alpha p d.
Proof.
  intros H.
  induction H as [p d la a Hin _ | alpha p d r q b Hc Hn Hq Hl _ | alpha p d a r q _ IH Hn Hq Hl _
                 | alpha X p d a _ IH Hn].
  - exact (ca_base g K p d la Hin).
  - exact (ca_close g K alpha p d r q Hc Hn Hq Hl).
  - exact (ca_close g K alpha p d r q IH Hn Hq Hl).
  - exact (ca_goto g K alpha X p d IH Hn).
Qed.

(* ---- monotonicity and splitting over a union ---------------------------------------------- *)

Lemma la_at_mono g K K' : same_cores K K' -> (forall k a, has_la K k a -> has_la K' k a) ->
  forall alpha p d a, la_at g K alpha p d a -> la_at g K' alpha p d a.
Proof.
  intros Hc Hl alpha p d a H.
  induction H as [p d la a Hin Ha | alpha p d r q b Hco Hn Hq Hlh Hf | alpha p d a r q _ IH Hn Hq Hlh Hnu
                 | alpha X p d a _ IH Hn].
  - assert (Hk : has_la K (p, d) a) by (apply has_la_pair; exists la; split; assumption).
    apply Hl in Hk. apply has_la_pair in Hk. destruct Hk as (la' & Hin' & Ha').
    exact (la_base g K' p d la' a Hin' Ha').
  - exact (la_first g K' alpha p d r q b (core_at_cores g K K' Hc alpha p d Hco) Hn Hq Hlh Hf).
  - exact (la_null g K' alpha p d a r q IH Hn Hq Hlh Hnu).
  - exact (la_goto g K' alpha X p d a IH Hn).
Qed.

Lemma la_at_split g K1 K2 K12 : same_cores K1 K2 -> is_union K1 K2 K12 ->
  forall alpha p d a, la_at g K12 alpha p d a -> la_at g K1 alpha p d a \/ la_at g K2 alpha p d a.
Proof.
  intros Hc [Hc1 Hu] alpha p d a H.
  assert (Hc12_1 : same_cores K12 K1) by (apply same_cores_sym; exact Hc1).
  assert (Hc12_2 : same_cores K12 K2) by (apply same_cores_trans with K1; assumption).
  induction H as [p d la a Hin Ha | alpha p d r q b Hco Hn Hq Hlh Hf | alpha p d a r q _ IH Hn Hq Hlh Hnu
                 | alpha X p d a _ IH Hn].
  - assert (Hk : has_la K12 (p, d) a) by (apply has_la_pair; exists la; split; assumption).
    apply (proj1 (Hu (p, d) a)) in Hk. destruct Hk as [Hk|Hk]; apply has_la_pair in Hk;
      destruct Hk as (la' & Hin' & Ha'); [left|right]; exact (la_base g _ p d la' a Hin' Ha').
  - left. exact (la_first g K1 alpha p d r q b (core_at_cores g K12 K1 Hc12_1 alpha p d Hco) Hn Hq Hlh Hf).
  - destruct IH as [IH|IH]; [left|right]; exact (la_null g _ alpha p d a r q IH Hn Hq Hlh Hnu).
  - destruct IH as [IH|IH]; [left|right]; exact (la_goto g _ alpha X p d a IH Hn).
Qed.

Lemma path_linear : path_linear_stmt.
Proof.
  intros g K1 K2 K12 alpha Hc Hu. pose proof Hu as [Hc1 Hl].
  assert (Hc2 : same_cores K2 K12) by (apply same_cores_trans with K1; [apply same_cores_sym|]; assumption).
  split.
  - intros p d. split; apply core_at_cores; [apply same_cores_sym|]; exact Hc1.
  - intros p d a. split.
    + apply la_at_split; assumption.
    + intros [H|H].
      * apply (la_at_mono g K1 K12 Hc1); [|exact H]. intros k b Hb. apply Hl. left. exact Hb.
      * apply (la_at_mono g K2 K12 Hc2); [|exact H]. intros k b Hb. apply Hl. right. exact Hb.
Qed.

(* ---- where a lookahead comes from ------------------------------------------------------------ *)

Lemma la_origin : la_origin_stmt.
Proof.
  intros g K alpha q e a H.
  induction H as [p d la a Hin Ha | alpha p d r q b Hco Hn Hq Hlh Hf | alpha p d a r q _ IH Hn Hq Hlh Hnu
                 | alpha X p d a _ IH Hn].
  - right. exists (p, d). split.
    + apply has_la_pair. exists la. split; assumption.
    + intros K' b _ Hb. apply has_la_pair in Hb. destruct Hb as (la' & Hin' & Hb').
      exact (la_base g K' p d la' b Hin' Hb').
  - left. intros K' Hc.
    exact (la_first g K' alpha p d r q b (core_at_cores g K K' Hc alpha p d Hco) Hn Hq Hlh Hf).
  - destruct IH as [IH | (k & Hk & IH)].
    + left. intros K' Hc. exact (la_null g K' alpha p d a r q (IH K' Hc) Hn Hq Hlh Hnu).
    + right. exists k. split; [exact Hk|]. intros K' b Hc Hb.
      exact (la_null g K' alpha p d b r q (IH K' b Hc Hb) Hn Hq Hlh Hnu).
  - destruct IH as [IH | (k & Hk & IH)].
    + left. intros K' Hc. exact (la_goto g K' alpha X p d a (IH K' Hc) Hn).
    + right. exists k. split; [exact Hk|]. intros K' b Hc Hb.
      exact (la_goto g K' alpha X p d b (IH K' b Hc Hb) Hn).
Qed.

(* ---- Pager's theorem, path form ------------------------------------------------------------------ *)

Lemma weak_merge_conflict_origin : weak_merge_conflict_origin_stmt.
Proof.
  intros g K1 K2 K12 alpha [Hc Hw] Hu Hconf. pose proof Hu as [Hc1 Hl].
  assert (Hc12_1 : same_cores K12 K1) by (apply same_cores_sym; exact Hc1).
  assert (Hc12_2 : same_cores K12 K2) by (apply same_cores_trans with K1; assumption).
  destruct Hconf as [(a & p & d & q & Hco & Hn & Hla) | (a & q1 & q2 & Hne & Hla1 & Hla2)].
  - (* shift/reduce: the shift does not depend on the contexts *)
    destruct (la_at_split g K1 K2 K12 Hc Hu alpha _ _ _ Hla) as [H|H]; [left|right]; left;
      exists a, p, d, q; (split; [|split; [exact Hn|exact H]]).
    + exact (core_at_cores g K12 K1 Hc12_1 alpha p d Hco).
    + exact (core_at_cores g K12 K2 Hc12_2 alpha p d Hco).
  - (* reduce/reduce *)
    set (e1 := length (rhs g q1)) in *. set (e2 := length (rhs g q2)) in *.
    assert (RR : forall K, la_at g K alpha q1 e1 a -> la_at g K alpha q2 e2 a -> conflict_at g K alpha).
    { intros K H1 H2. right. exists a, q1, q2. split; [exact Hne|]. split; assumption. }
    assert (RRb : forall K b, la_at g K alpha q1 e1 b -> la_at g K alpha q2 e2 b -> conflict_at g K alpha).
    { intros K b H1 H2. right. exists b, q1, q2. split; [exact Hne|]. split; assumption. }
    destruct (la_origin g K12 alpha q1 e1 a Hla1) as [G1 | (i & Hi & I1)].
    { (* q1's lookahead is generated: present on both sides *)
      destruct (la_at_split g K1 K2 K12 Hc Hu alpha _ _ _ Hla2) as [H|H].
      - left. exact (RR K1 (G1 K1 Hc12_1) H).
      - right. exact (RR K2 (G1 K2 Hc12_2) H). }
    destruct (la_origin g K12 alpha q2 e2 a Hla2) as [G2 | (j & Hj & I2)].
    { destruct (la_at_split g K1 K2 K12 Hc Hu alpha _ _ _ Hla1) as [H|H].
      - left. exact (RR K1 H (G2 K1 Hc12_1)).
      - right. exact (RR K2 H (G2 K2 Hc12_2)). }
    (* both inherited: q1 from kernel item i, q2 from kernel item j *)
    apply (proj1 (Hl i a)) in Hi. apply (proj1 (Hl j a)) in Hj.
    destruct Hi as [Hi|Hi], Hj as [Hj|Hj].
    + left. exact (RR K1 (I1 K1 a Hc12_1 Hi) (I2 K1 a Hc12_1 Hj)).
    + (* a in ctx1(i) and in ctx2(j) *)
      destruct (key_eq_dec i j) as [E|NE].
      * subst j. left. exact (RR K1 (I1 K1 a Hc12_1 Hi) (I2 K1 a Hc12_1 Hi)).
      * assert (Hci : has_core K1 i) by exact (has_la_core K1 i a Hi).
        assert (Hcj : has_core K1 j) by (apply (proj2 (Hc j)); exact (has_la_core K2 j a Hj)).
        destruct (Hw i j Hci Hcj NE) as [[N1 _] | [(b & Hb1 & Hb2) | (b & Hb1 & Hb2)]].
        -- exfalso. apply N1. exists a. split; assumption.
        -- left. exact (RRb K1 b (I1 K1 b Hc12_1 Hb1) (I2 K1 b Hc12_1 Hb2)).
        -- right. exact (RRb K2 b (I1 K2 b Hc12_2 Hb1) (I2 K2 b Hc12_2 Hb2)).
    + (* a in ctx2(i) and in ctx1(j) *)
      destruct (key_eq_dec i j) as [E|NE].
      * subst j. left. exact (RR K1 (I1 K1 a Hc12_1 Hj) (I2 K1 a Hc12_1 Hj)).
      * assert (Hcj : has_core K1 j) by exact (has_la_core K1 j a Hj).
        assert (Hci : has_core K1 i) by (apply (proj2 (Hc i)); exact (has_la_core K2 i a Hi)).
        destruct (Hw i j Hci Hcj NE) as [[_ N2] | [(b & Hb1 & Hb2) | (b & Hb1 & Hb2)]].
        -- exfalso. apply N2. exists a. split; assumption.
        -- left. exact (RRb K1 b (I1 K1 b Hc12_1 Hb1) (I2 K1 b Hc12_1 Hb2)).
        -- right. exact (RRb K2 b (I1 K2 b Hc12_2 Hb1) (I2 K2 b Hc12_2 Hb2)).
    + right. exact (RR K2 (I1 K2 a Hc12_2 Hi) (I2 K2 a Hc12_2 Hj)).
Qed.

Lemma weak_merge_safe_path : weak_merge_safe_path_stmt.
Proof.
  intros g K1 K2 K12 Hw Hu H1 H2 alpha Hconf.
  destruct (weak_merge_conflict_origin g K1 K2 K12 alpha Hw Hu Hconf) as [H|H].
  - exact (H1 alpha H).
  - exact (H2 alpha H).
Qed.
