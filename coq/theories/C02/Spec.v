(* C02, stage 1 — Pager's weak compatibility, declaratively, and the statements
   tying the mirror of Itemset::weakly_compatible / weakly_merge (Model.v) to it.
   Proved in Proofs.v. *)
From Coq Require Import List Arith NArith Bool Lia.
From GV Require Import Common.Outcome Base.Grammar Base.Analyses LR.Automaton LR.CloseMirror
  LR.CloseSpec C02.Model.
Import ListNotations.

(* ---- an itemset read as a set of cores with contexts --------------------------- *)

(* the core item k = (production, dot) occurs in K *)
Definition has_core (K : itemset) (k : key) : Prop := exists la, In (fst k, snd k, la) K.
(* token a is in the context of core item k of K *)
Definition has_la (K : itemset) (k : key) (a : N) : Prop :=
  exists la, In (fst k, snd k, la) K /\ In a la.

Definition same_cores (K1 K2 : itemset) : Prop := forall k, has_core K1 k <-> has_core K2 k.

(* ctx_K(i) ∩ ctx_K'(j) ≠ ∅ *)
Definition meets (K : itemset) (i : key) (K' : itemset) (j : key) : Prop :=
  exists a, has_la K i a /\ has_la K' j a.

(* Pager 1977, p. 255 (Chen 2009, p. 50): K1 and K2 have the same cores and for
   every pair of distinct cores i, j
     (1) ctx1(i) ∩ ctx2(j) = ∅  and  ctx1(j) ∩ ctx2(i) = ∅,   or
     (2) ctx1(i) ∩ ctx1(j) ≠ ∅,                                or
     (3) ctx2(i) ∩ ctx2(j) ≠ ∅ *)
Definition weakly_compatible_spec (K1 K2 : itemset) : Prop :=
  same_cores K1 K2 /\
  forall i j, has_core K1 i -> has_core K1 j -> i <> j ->
    (~ meets K1 i K2 j /\ ~ meets K1 j K2 i) \/ meets K1 i K1 j \/ meets K2 i K2 j.

(* K12 = K1 ⊔ K2: the cores of K1, contexts united item by item *)
Definition is_union (K1 K2 K12 : itemset) : Prop :=
  same_cores K1 K12 /\
  forall k a, has_la K12 k a <-> has_la K1 k a \/ has_la K2 k a.

(* ---- hypotheses: hash maps, and [keys] = the keys of self in some order ---------- *)

Definition is_map (K : itemset) : Prop := NoDup (keys_of K).

(* any permutation of self's keys *)
Definition keys_perm (K : itemset) (keys : list key) : Prop :=
  NoDup keys /\ forall k, In k keys <-> In k (keys_of K).

(* ---- statements -------------------------------------------------------------------- *)

(* the mirror decides Pager's definition, whatever the hash order of self's keys *)
Definition weakly_compatible_mirror_spec_stmt : Prop :=
  forall keys self other, is_map self -> is_map other -> keys_perm self keys -> self <> [] ->
    exists b, weakly_compatible_mirror keys self other = Done b /\
              (b = true <-> weakly_compatible_spec self other).

Definition weakly_compatible_order_insensitive_stmt : Prop :=
  forall keys1 keys2 self other, is_map self -> is_map other ->
    keys_perm self keys1 -> keys_perm self keys2 -> self <> [] ->
    weakly_compatible_mirror keys1 self other = weakly_compatible_mirror keys2 self other.

(* it never panics (the `self.items[..]` / `other.items[..]` look-ups, `len - 1`) *)
Definition weakly_compatible_never_panics_stmt : Prop :=
  forall keys self other, is_map self -> is_map other -> keys_perm self keys -> self <> [] ->
    weakly_compatible_mirror keys self other <> Panic.

(* the same relation with the two maps laid out in any other order *)
Definition weakly_compatible_layout_insensitive_stmt : Prop :=
  forall keys keys' self self' other other',
    is_map self -> is_map other -> is_map self' -> is_map other' ->
    (forall i, In i self <-> In i self') -> (forall i, In i other <-> In i other') ->
    keys_perm self keys -> keys_perm self' keys' -> self <> [] ->
    weakly_compatible_mirror keys self other = weakly_compatible_mirror keys' self' other'.

(* Pager's relation is symmetric (the code's comment only doubts reflexivity) *)
Definition weakly_compatible_spec_sym_stmt : Prop :=
  forall K1 K2, weakly_compatible_spec K1 K2 -> weakly_compatible_spec K2 K1.

(* ... and it IS reflexive (condition 1 fails for i, j exactly when condition 2
   holds), so the equality pre-test of pager_stategraph is an optimisation only *)
Definition weakly_compatible_spec_refl_stmt : Prop :=
  forall K, weakly_compatible_spec K K.

(* weakly_merge: never panics when other has self's cores (in particular after a
   positive weakly_compatible), keeps keys and layout, unites the contexts item
   by item, and the returned flag is exact: true iff some context grew *)
Definition weakly_merge_mirror_spec_stmt : Prop :=
  forall self other, is_map self -> is_map other ->
    (forall k, has_core self k -> has_core other k) ->
    exists m ch, weakly_merge_mirror self other = Done (m, ch) /\
      keys_of m = keys_of self /\
      (forall k a, has_la m k a <-> has_la self k a \/ (has_core self k /\ has_la other k a)) /\
      (ch = true <-> exists k a, has_core self k /\ has_la other k a /\ ~ has_la self k a) /\
      (ch = false <-> same_itemset m self).

(* in the situation of pager_stategraph: a positive check, then the merge *)
Definition weakly_merge_is_union_stmt : Prop :=
  forall self other, is_map self -> is_map other -> weakly_compatible_spec self other ->
    exists m ch, weakly_merge_mirror self other = Done (m, ch) /\ is_map m /\ is_union self other m.
