(* C02 — the automaton induced by a graph of pager_mirror (LoopModel.v): the
   closed states and edges of the graph, and the action/goto table read off
   them in the obvious way (shift along a token edge; otherwise reduce by the
   complete item that carries the lookahead, Accept for the start production;
   goto = rule edges).  On conflict-free states this is what StateTable::new
   builds (compared per grammar with the implementation's table).
   Executable definitions only. *)
From Coq Require Import List Arith NArith Bool Lia.
From GV Require Import Common.Outcome Base.Grammar Base.Analyses LR.Automaton LR.Validator
  LR.CloseMirror C02.Model C02.Lr1Model C02.LoopModel.
Import ListNotations.

Definition st_core (pg : pgraph) (s : N) : itemset :=
  match nth_error (pg_states pg) (N.to_nat s) with Some (c, _) => c | None => [] end.
Definition st_closed (pg : pgraph) (s : N) : itemset :=
  match nth_error (pg_states pg) (N.to_nat s) with Some (_, c) => c | None => [] end.
Definition st_edge (pg : pgraph) (s : N) (X : sym) : option N :=
  match nth_error (pg_edges pg) (N.to_nat s) with
  | Some es => option_map N.of_nat (assoc_sym X es)
  | None => None
  end.

Definition induced_action (g : grammar) (pg : pgraph) (s a : N) : act :=
  match st_edge pg s (T a) with
  | Some t => Shift t
  | None =>
      match reducers g (st_closed pg s) a with
      | i :: _ => if N.eqb (it_p i) (start_prod g) then Accept else Reduce (it_p i)
      | [] => Err
      end
  end.

Definition induced (g : grammar) (pg : pgraph) : automaton :=
  {| nstates := N.of_nat (length (pg_states pg));
     start := 0%N;
     closed := st_closed pg;
     core := st_core pg;
     edge := st_edge pg;
     action := induced_action g pg;
     goto := fun s r => st_edge pg s (R r) |}.
